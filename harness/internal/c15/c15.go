// Package c15: `templ generate` on whole directory trees - the real CLI binary against the extracted model
// (model/Walk.v) and the extracted specification check (spec/WalkSpec.v: spec_check).
package c15

import (
	"bytes"
	"context"
	"crypto/sha256"
	"encoding/hex"
	"encoding/json"
	"fmt"
	"go/format"
	"math/big"
	"os"
	"os/exec"
	"path/filepath"
	"regexp"
	"sort"
	"strconv"
	"strings"
	"sync"
	"syscall"
	"time"

	"github.com/a-h/templ/cmd/templ/generatecmd/watcher"
	"github.com/a-h/templ/generator"
	parser "github.com/a-h/templ/parser/v2"
	"github.com/fsnotify/fsnotify"

	"verifharness/internal/core"
	"verifharness/internal/drv"
	"verifharness/internal/rng"
)

func init() { core.Register("C15", Run) }

// ---------- trees ----------

type ent struct {
	Path    string `json:"path"`
	Dir     bool   `json:"dir,omitempty"`
	Content string `json:"content,omitempty"`
	Mtime   mtime  `json:"mtime_ns"` // whole nanoseconds relative to the Unix epoch, any sign, any size (a JSON number)
}

// mtime: a modification time as (seconds, nanoseconds 0..999999999) relative to the Unix epoch - what the file system
// stores and what Go's time.Time holds; its integer value S*1e9+N need not fit 64 bits (before 1677, after 2262).
type mtime struct{ S, N int64 }

func ns(x int64) mtime { // x nanoseconds relative to the epoch
	s, n := x/1e9, x%1e9
	if n < 0 {
		s, n = s-1, n+1e9
	}
	return mtime{s, n}
}
func fromTime(t time.Time) mtime { return mtime{t.Unix(), int64(t.Nanosecond())} }
func (a mtime) add(d int64) mtime { // d nanoseconds later (earlier when negative)
	b := ns(d)
	s, n := a.S+b.S, a.N+b.N
	if n >= 1e9 {
		s, n = s+1, n-1e9
	}
	return mtime{s, n}
}
func (a mtime) cmp(b mtime) int {
	switch {
	case a.S < b.S || (a.S == b.S && a.N < b.N):
		return -1
	case a == b:
		return 0
	}
	return 1
}
func (a mtime) isZero() bool { return a == mtime{} }
func (a mtime) big() *big.Int {
	x := new(big.Int).Mul(big.NewInt(a.S), big.NewInt(1e9))
	return x.Add(x, big.NewInt(a.N))
}
func (a mtime) String() string { return a.big().String() }
func parseMtime(s string) (mtime, bool) {
	x, ok := new(big.Int).SetString(s, 10)
	if !ok {
		return mtime{}, false
	}
	q, m := new(big.Int).DivMod(x, big.NewInt(1e9), new(big.Int)) // Euclidean: 0 <= m < 1e9
	if !q.IsInt64() {
		return mtime{}, false
	}
	return mtime{q.Int64(), m.Int64()}, true
}
func (a mtime) MarshalJSON() ([]byte, error) { return []byte(a.String()), nil }
func (a *mtime) UnmarshalJSON(b []byte) error {
	v, ok := parseMtime(strings.Trim(string(b), `"`))
	if !ok {
		return fmt.Errorf("bad mtime_ns %q", b)
	}
	*a = v
	return nil
}

// setMtime: utimensat with the exact (seconds, nanoseconds) pair; os.Chtimes would leave the file's time alone for
// the zero time.Time, which is one of the instants of interest.
func setMtime(p string, m mtime) error {
	ts := syscall.Timespec{Sec: m.S, Nsec: m.N}
	return syscall.UtimesNano(p, []syscall.Timespec{ts, ts})
}

// edit: applied between the first and the second run of a case (the two-step history family)
type edit struct {
	Path    string `json:"path"`
	Content string `json:"content,omitempty"`
	Delete  bool   `json:"delete,omitempty"`
}

type tcase struct {
	Root  string `json:"root"`
	Ents  []ent  `json:"entries"`
	Edits []edit `json:"edits_before_second_run,omitempty"`
	Keep  bool   `json:"keep_orphaned_files"`
	Lazy  bool   `json:"lazy"`
	W     int    `json:"w"`
	W2    int    `json:"w_second_run"`
	Race  bool   `json:"race_binary,omitempty"`
	Fam   string `json:"family,omitempty"`
	FS    string `json:"scratch_file_system,omitempty"` // "" = the scratch directory under /tmp; "wide" = the wide-range one (tmpfs)
	// how the root of the tree is named on the command line, and where the command is started, for the first and for
	// the second run (zero value = `-path {P}/{R}` started in {P})
	Spell  spelling `json:"root_spelling"`
	Spell2 spelling `json:"root_spelling_second_run"`
}

// ---------- the spelling of the root ----------

// spelling: the -path argument and the working directory of one run, written with placeholders so that a case does not
// depend on where the scratch directory is:
//
//	{P}  the directory that holds the root: absolute, clean, free of symbolic links      {p}  the same without its leading '/'
//	{R}  the name of the root directory inside {P}
//	{L}  the name of a symbolic link {P}/{L} -> {R} (made when Link is set)
//
// Beside the root, {P} holds the empty directories x1 and cwd1/deep.  The command is started with PWD set to the working
// directory as spelled (what a shell does), so os.Getwd returns that string.
type spelling struct {
	Kind string `json:"kind,omitempty"`
	Arg  string `json:"path_argument,omitempty"`
	Cwd  string `json:"working_directory,omitempty"`
	Link string `json:"symbolic_link_to_root,omitempty"`
}

func (s spelling) orDefault() spelling {
	if s.Arg == "" && s.Cwd == "" {
		return spelling{Kind: "absolute, clean", Arg: "{P}/{R}", Cwd: "{P}"}
	}
	return s
}

// expand: the actual argument and working directory for the root parent/rootName
func (s spelling) expand(parent, rootName string) (arg, cwd string) {
	s = s.orDefault()
	rep := strings.NewReplacer("{P}", parent, "{p}", strings.TrimPrefix(parent, "/"), "{R}", rootName, "{L}", s.Link)
	return rep.Replace(s.Arg), rep.Replace(s.Cwd)
}

// storedRoot: what cmd.go Run keeps in Args.Path - an absolute argument verbatim, a relative one through filepath.Abs,
// which is filepath.Join(os.Getwd(), arg)
func storedRoot(arg, cwd string) string {
	if strings.HasPrefix(arg, "/") {
		return arg
	}
	return filepath.Join(cwd, arg)
}

// uses: the spelling goes through the directory rel of the tree
func (s spelling) uses(rel string) bool {
	for _, x := range []string{s.Arg, s.Cwd} {
		if strings.HasSuffix(x, "{R}/"+rel) || strings.Contains(x, "{R}/"+rel+"/") {
			return true
		}
	}
	return false
}

// spellingsOf: every way the harness names the root of a tree whose directories are dirs ("" excluded).  All of them
// denote the same directory: ".." elements only follow real directories, never a symbolic link.
func spellingsOf(dirs []string) []spelling {
	l := []spelling{
		{Kind: "absolute, clean", Arg: "{P}/{R}", Cwd: "{P}"},
		{Kind: "absolute, clean", Arg: "{P}/{R}", Cwd: "/"},
		{Kind: "absolute, trailing slash", Arg: "{P}/{R}/", Cwd: "{P}"},
		{Kind: "absolute, trailing slash", Arg: "{P}/{R}/", Cwd: "{P}/{R}"},
		{Kind: "absolute, . element", Arg: "{P}/./{R}", Cwd: "{P}"},
		{Kind: "absolute, . element", Arg: "{P}/{R}/.", Cwd: "{P}/cwd1"},
		{Kind: "absolute, .. element", Arg: "{P}/x1/../{R}", Cwd: "{P}"},
		{Kind: "absolute, .. element", Arg: "{P}/{R}/../{R}", Cwd: "{P}"},
		{Kind: "absolute, .. element", Arg: "{P}/cwd1/deep/../../{R}", Cwd: "{P}/cwd1/deep"},
		{Kind: "absolute, doubled slash", Arg: "{P}//{R}", Cwd: "{P}"},
		{Kind: "absolute, doubled slash", Arg: "{P}/{R}//", Cwd: "{P}"},
		{Kind: "absolute, doubled slash", Arg: "/{P}/{R}", Cwd: "{P}"},
		{Kind: "absolute, mixed", Arg: "{P}/./x1/..//{R}/./", Cwd: "{P}"},
		{Kind: "relative, .", Arg: ".", Cwd: "{P}/{R}"},
		{Kind: "relative, .", Arg: "./", Cwd: "{P}/{R}"},
		{Kind: "relative, name", Arg: "{R}", Cwd: "{P}"},
		{Kind: "relative, name", Arg: "./{R}", Cwd: "{P}"},
		{Kind: "relative, name", Arg: "{R}/", Cwd: "{P}"},
		{Kind: "relative, name", Arg: "./{R}/.", Cwd: "{P}"},
		{Kind: "relative, name", Arg: "{R}//", Cwd: "{P}"},
		{Kind: "relative, .. first", Arg: "../{R}", Cwd: "{P}/cwd1"},
		{Kind: "relative, .. first", Arg: "../../{R}/", Cwd: "{P}/cwd1/deep"},
		{Kind: "relative, .. first", Arg: "../{R}/../{R}", Cwd: "{P}/x1"},
		{Kind: "relative, .. first", Arg: "../{R}", Cwd: "{P}/{R}"},
		{Kind: "relative, from /", Arg: "{p}/{R}", Cwd: "/"},
		{Kind: "symbolic link, absolute", Arg: "{P}/{L}", Cwd: "{P}", Link: "lnk"},
		{Kind: "symbolic link, absolute", Arg: "{P}/{L}/", Cwd: "{P}", Link: "lnk"},
		{Kind: "symbolic link, relative", Arg: "{L}", Cwd: "{P}", Link: "lnk"},
		{Kind: "symbolic link, relative", Arg: "./{L}/", Cwd: "{P}", Link: "lnk"},
		{Kind: "symbolic link, working directory", Arg: ".", Cwd: "{P}/{L}", Link: "lnk"},
	}
	for i, d := range dirs {
		if i >= 2 {
			break
		}
		up := strings.Repeat("/..", depth(d))
		l = append(l,
			spelling{Kind: "absolute, .. element", Arg: "{P}/{R}/" + d + up, Cwd: "{P}"},
			spelling{Kind: "relative, started inside the tree", Arg: strings.TrimPrefix(up, "/"), Cwd: "{P}/{R}/" + d},
			spelling{Kind: "relative, started inside the tree", Arg: strings.TrimPrefix(up, "/") + "/../{R}/", Cwd: "{P}/{R}/" + d},
			spelling{Kind: "absolute, clean", Arg: "{P}/{R}", Cwd: "{P}/{R}/" + d})
	}
	return l
}

// treeDirs: directories of the tree a spelling may go through - the shallowest and the deepest
func treeDirs(ents []ent) []string {
	var ds []string
	for _, e := range ents {
		if e.Dir {
			ds = append(ds, e.Path)
		}
	}
	if len(ds) == 0 {
		return nil
	}
	sort.SliceStable(ds, func(i, j int) bool { return depth(ds[i]) < depth(ds[j]) })
	if len(ds) == 1 || ds[0] == ds[len(ds)-1] {
		return ds[:1]
	}
	return []string{ds[0], ds[len(ds)-1]}
}

// genSpelling: 30% the clean absolute path started in the parent directory (what the other dimensions were built on),
// otherwise any spelling of the list
func genSpelling(r *rng.R, ents []ent) spelling {
	if r.Intn(100) < 30 {
		return spelling{}
	}
	return rng.Pick(r, spellingsOf(treeDirs(ents)))
}

// withSpellings gives a case its two spellings: the second run uses the same one half of the time
func withSpellings(r *rng.R, tc tcase) tcase {
	tc.Spell = genSpelling(r, tc.Ents)
	tc.Spell2 = tc.Spell
	if r.Bool() {
		tc.Spell2 = genSpelling(r, tc.Ents)
	}
	return tc
}

var rootsOK = []string{"proj", "site", "app1", "my-app", "x.y", "vendors", "v_"}
var rootsSkipped = []string{"_site", ".cfg", "vendor", "node_modules", "_", ".x_y"}
var dirsOK = []string{"p.templ.d", "q.go.d", "cmd", "pkg", "ui", "views", "web", "d1", "sub", "vendors", "node_module", "x_", "a.b", "Vendor", "templ", "go", "v.endor", "Node_modules"}
var dirsSkipped = []string{"vendor", "node_modules", ".git", "_gen", ".x", "_", "__", "._"}
var stems = []string{"x.templ", "a", "b", "c", "index", "page", "x_y", "_u", ".h", "", "t.v", "a_templ", "x.go", "Ü", "A"}
var others = []string{"main.go", "README.md", "notes.txt", "util.go", "go.sum", "a_templ.txt", "index_templ.txt", "b.templ.bak", "templ.go", "x_templ.gox", "c_templ.go.orig", "_templ.got", "Makefile"}

var templOK = []string{
	"package p\n\ntempl T() {\n\t<p>%s</p>\n}\n",
	"package views\n\ntempl Hello(name string) {\n\t<div class=\"c\">Hello, { name } %s</div>\n}\n",
	"package p\n\nimport \"fmt\"\n\nfunc f(i int) string { return fmt.Sprint(i) }\n\ntempl L(n int) {\n\tfor i := 0; i < n; i++ {\n\t\t<li>{ f(i) }%s</li>\n\t}\n}\n",
	"package p\n\ntempl A() {\n\t<a href=\"/x\">%s</a>\n}\n\ntempl B() {\n\t@A()\n\tif true {\n\t\t<b>y</b>\n\t}\n}\n",
	"package p\n\n// %s\n",
	"package   p\n\ntempl   Odd( a   int ,b string ){\n<span>{b}%s</span>\n}\n",
	"package p\n\ncss red() {\n\tcolor: red;\n}\n\ntempl C() {\n\t<p class={ red() }>%s</p>\n}\n",
}
var templParseFail = []string{
	"package p\n\ntempl T(a int {\n<p>%s</p>\n}\n",
	"package p\n\ntempl T() {\n<p>{ 1 + }%s</p>\n}\n",
	"package p\n\ntempl T() {\n<p>%s\n}\n",
	"package p\n\ntempl T() {\n@Other(\n}\n%s",
	"package p\n\ntempl T() {\n if x := ; x {\n<p>%s</p>\n}\n}\n",
}
var templFmtFail = []string{
	"package p\n\nfunc broken( {\n\ntempl T() {\n<p>%s</p>\n}\n",
	"package p\n\nvar x = \n\ntempl T() {\n<p>%s</p>\n}\n",
	"package 1p\n\ntempl T() {\n<p>%s</p>\n}\n",
	"packag p\n\ntempl T() {\n<p>%s</p>\n}\n",
}

// oracle: generation + gofmt of ONE file alone, through the same packages the command uses.
func oracle(rel, src string) (code string, stage string) {
	tf, err := parser.ParseString(src)
	if err != nil {
		return "", "parse-fail"
	}
	var b bytes.Buffer
	if _, err = generator.Generate(tf, &b, generator.WithFileName(rel)); err != nil {
		return "", "gen-fail"
	}
	out, err := format.Source(b.Bytes())
	if err != nil {
		return "", "fmt-fail"
	}
	return string(out), "ok"
}

func depth(p string) int {
	if p == "" {
		return 0
	}
	return strings.Count(p, "/") + 1
}
func join(d, n string) string {
	if d == "" {
		return n
	}
	return d + "/" + n
}

var templLong = "package p\n\ntempl Long(items []string) {\n\t<ul>\n" + strings.Repeat("\t\tfor _, it := range items {\n\t\t\t<li class=\"row\">{ it }</li>\n\t\t}\n", 12) + "\t</ul>\n}\n"
var templShort = "package p\n\ntempl S() {\n}\n"

// siblingContent: what an existing _templ.go next to the template p holds.
//
//	0 equal to the generation (falls back to 1 when the template cannot be generated)   1 short garbage
//	2 much longer garbage   3 a previous generation of a longer template   4 a previous generation of a shorter template
func siblingContent(kind int, p, src, tag string) string {
	switch kind {
	case 0:
		if code, st := oracle(p, src); st == "ok" {
			return code
		}
	case 2:
		return "// stale, long " + tag + "\npackage p\n" + strings.Repeat("// a line of an older, much longer generated file\n", 200)
	case 3:
		code, _ := oracle(p, templLong)
		return code
	case 4:
		code, _ := oracle(p, templShort)
		return code
	}
	return "// stale " + tag + "\npackage p\n"
}

// genEdits: the second step of a two-step history - some templates are shortened, lengthened, broken or deleted.
func genEdits(r *rng.R, ents []ent) []edit {
	var eds []edit
	for _, e := range ents {
		if e.Dir || !strings.HasSuffix(e.Path, ".templ") || r.Intn(100) < 40 {
			continue
		}
		switch r.Intn(6) {
		case 0, 1:
			eds = append(eds, edit{Path: e.Path, Content: templShort})
		case 2:
			eds = append(eds, edit{Path: e.Path, Content: templLong})
		case 3:
			eds = append(eds, edit{Path: e.Path, Content: fmt.Sprintf(rng.Pick(r, templOK), "edited")})
		case 4:
			eds = append(eds, edit{Path: e.Path, Content: fmt.Sprintf(rng.Pick(r, templParseFail), "edited")})
		default:
			eds = append(eds, edit{Path: e.Path, Delete: true})
		}
	}
	return eds
}

// blockEnts: a non-empty directory at an output path, so that writing the generated file fails
// ("failed to write target file"); older than every template so that -lazy does not take it for up to date.
func blockEnts(g string, base int64) []ent {
	return []ent{{Path: g, Dir: true, Mtime: ns(base - 5000e9)}, {Path: g + "/keep.txt", Content: "not generated\n", Mtime: ns(base - 4000e9)}}
}

// ageBlockingDirs: a directory at an output path is dated before the template it blocks, whatever that template's own
// time is (goFileIsUpToDate looks at the directory's time under -lazy; the model has no directory times).
func ageBlockingDirs(ents []ent) {
	at := map[string]mtime{}
	for _, e := range ents {
		if !e.Dir && strings.HasSuffix(e.Path, ".templ") {
			at[e.Path] = e.Mtime
		}
	}
	for i, e := range ents {
		if e.Dir && strings.HasSuffix(e.Path, "_templ.go") {
			if m, ok := at[strings.TrimSuffix(e.Path, "_templ.go")+".templ"]; ok && m.add(-5000e9).cmp(e.Mtime) < 0 {
				ents[i].Mtime = m.add(-5000e9)
			}
		}
	}
}

// blockedEarlyTree: dozens of templates, the output of the first one(s) in walk order blocked by a directory.
func blockedEarlyTree(r *rng.R, base int64) []ent {
	var ents []ent
	n := 25 + r.Intn(35)
	dirs := []string{"", "", "pkg", "ui"}
	ents = append(ents, ent{Path: "pkg", Dir: true}, ent{Path: "ui", Dir: true})
	used := map[string]bool{}
	for i := 0; i < n; i++ {
		d := rng.Pick(r, dirs)
		p := join(d, fmt.Sprintf("t%02d.templ", r.Intn(90)+10))
		if used[p] {
			continue
		}
		used[p] = true
		ents = append(ents, ent{Path: p, Content: fmt.Sprintf(rng.Pick(r, templOK), fmt.Sprint(i)), Mtime: ns(base + int64(r.Intn(3000))*1e9)})
	}
	first := "00first"
	if r.Intn(3) == 0 {
		first = "t05"
	}
	ents = append(ents, ent{Path: first + ".templ", Content: fmt.Sprintf(templOK[0], "first"), Mtime: ns(base + 7e9)})
	ents = append(ents, blockEnts(first+"_templ.go", base)...)
	if r.Bool() {
		ents = append(ents, ent{Path: "pkg/00a.templ", Content: fmt.Sprintf(templOK[1], "x"), Mtime: ns(base + 9e9)})
		ents = append(ents, blockEnts("pkg/00a_templ.go", base)...)
	}
	sort.Slice(ents, func(i, j int) bool { return ents[i].Path < ents[j].Path })
	return ents
}

// genTree: pool = the instants the scratch file system can hold (see [instants]); nil = ordinary times only.
// About half of the trees built with a pool are "wide": most of their files - templates, siblings, orphans, other files -
// are dated at or next to one of those instants, the rest a few hours ago as in the other trees.
func genTree(r *rng.R, base int64, pool []mtime) (root string, ents []ent) {
	if r.Intn(100) < 7 {
		root = rng.Pick(r, rootsSkipped)
	} else {
		root = rng.Pick(r, rootsOK)
	}
	used := map[string]bool{}
	dirs := []string{""}
	nd := r.Intn(9)
	for i := 0; i < nd; i++ {
		par := rng.Pick(r, dirs)
		if depth(par) >= 4 {
			continue
		}
		var name string
		if r.Intn(100) < 30 {
			name = rng.Pick(r, dirsSkipped)
		} else {
			name = rng.Pick(r, dirsOK)
		}
		p := join(par, name)
		if used[p] {
			continue
		}
		used[p] = true
		dirs = append(dirs, p)
		ents = append(ents, ent{Path: p, Dir: true})
	}
	var nf int
	switch x := r.Intn(100); {
	case x < 50:
		nf = 1 + r.Intn(8)
	case x < 85:
		nf = 9 + r.Intn(17)
	default:
		nf = 26 + r.Intn(35)
	}
	wide := len(pool) > 0 && r.Intn(100) < 50
	mt := func() mtime {
		if wide && r.Intn(100) < 65 {
			return rng.Pick(r, pool).add(rng.Pick(r, nearby))
		}
		return ns(base + int64(r.Intn(3000))*1e9)
	}
	failPct := []int{0, 0, 8, 30}[r.Intn(4)] // many trees generate cleanly, so that exit status 0 is well represented
	add := func(p, content string, m mtime) bool {
		if used[p] {
			return false
		}
		used[p] = true
		ents = append(ents, ent{Path: p, Content: content, Mtime: m})
		return true
	}
	addBlock := func(g string) {
		if strings.HasPrefix(filepath.Base(g), "_") || strings.HasPrefix(filepath.Base(g), ".") || used[g] {
			return // such a directory would itself be skipped by name; keep those out of this dimension
		}
		used[g] = true
		used[g+"/keep.txt"] = true
		ents = append(ents, blockEnts(g, base)...)
	}
	for i := 0; i < nf; i++ {
		d := rng.Pick(r, dirs)
		stem := rng.Pick(r, stems)
		tag := fmt.Sprintf("t%d", r.Intn(4))
		switch x := r.Intn(100); {
		case x < 55: // a template: fine / unparseable / generated code rejected by gofmt
			var src string
			switch y := r.Intn(100); {
			case y >= failPct:
				src = fmt.Sprintf(rng.Pick(r, templOK), tag)
			case y%2 == 0:
				src = fmt.Sprintf(rng.Pick(r, templParseFail), tag)
			default:
				src = fmt.Sprintf(rng.Pick(r, templFmtFail), tag)
			}
			if r.Intn(40) == 0 {
				src = ""
			}
			p := join(d, stem+".templ")
			m := mt()
			if !add(p, src, m) {
				continue
			}
			if r.Intn(100) < 45 { // an existing sibling: up to date or stale, older / same age / newer
				g := join(d, stem+"_templ.go")
				gm := m.add(int64(r.Intn(3)-1) * 100e9)
				if wide { // also: the same instant, one nanosecond or one second either side, or an unrelated instant
					if r.Intn(4) == 0 {
						gm = mt()
					} else {
						gm = m.add(rng.Pick(r, nearby))
					}
				}
				if r.Intn(100) < 12 { // write failure: the output path is a non-empty directory
					addBlock(g)
				} else {
					add(g, siblingContent(r.Intn(5), p, src, tag), gm)
				}
			}
		case x < 70: // a _templ.go; an orphan unless the stem's template happens to exist
			if r.Intn(100) < 6 {
				addBlock(join(d, stem+"_templ.go"))
			} else {
				add(join(d, stem+"_templ.go"), "// generated once "+tag+"\npackage p\n", mt())
			}
		default:
			add(join(d, rng.Pick(r, others)), "other "+tag+"\n", mt())
		}
	}
	ageBlockingDirs(ents)
	sort.Slice(ents, func(i, j int) bool { return ents[i].Path < ents[j].Path })
	return root, ents
}

// ---------- the time dimension ----------

const goZeroSec = -62135596800 // time.Time{} = 0001-01-01T00:00:00Z, in seconds relative to the Unix epoch

type instant struct {
	Name string
	T    mtime
}

// instants: where a modification time can sit relative to the thresholds a program might (wrongly) compare with -
// Go's zero time, the limits of a 64-bit nanosecond count, the Unix epoch, 32-bit seconds, the file system's own limits.
var instants = []instant{
	{"year -1199", mtime{-99999999999, 0}},
	{"Go zero time - 1s", mtime{goZeroSec - 1, 0}},
	{"Go zero time - 1ns", mtime{goZeroSec - 1, 999999999}},
	{"Go zero time (0001-01-01)", mtime{goZeroSec, 0}},
	{"Go zero time + 1ns", mtime{goZeroSec, 1}},
	{"int64 ns minimum (1677) - 1ns", mtime{-9223372037, 145224191}},
	{"int64 ns minimum (1677)", mtime{-9223372037, 145224192}},
	{"-2^31 s (1901-12-13)", mtime{-2147483648, 0}},
	{"one day before the epoch", mtime{-86400, 0}},
	{"epoch - 1s", mtime{-1, 0}},
	{"epoch - 1ns", mtime{-1, 999999999}},
	{"Unix epoch", mtime{0, 0}},
	{"epoch + 1ns", mtime{0, 1}},
	{"epoch + 1s", mtime{1, 0}},
	{"2^31 s (2038-01-19)", mtime{2147483648, 0}},
	{"int64 ns maximum (2262)", mtime{9223372036, 854775807}},
	{"int64 ns maximum (2262) + 1ns", mtime{9223372036, 854775808}},
	{"2446-05-10 (ext4 maximum)", mtime{15032385535, 999999999}},
	{"year 9999", mtime{253402300799, 999999999}},
}

// nearby: offsets applied to an instant or to a template's time to date its neighbours (nanoseconds)
var nearby = []int64{0, 0, 0, -1, 1, -1e9, 1e9, -100e9, 100e9, -999999999, 500e6}

// holds: the file system under dir stores m exactly (no clamping to its own range, no loss of nanoseconds)
func holds(dir string, m mtime) bool {
	p := filepath.Join(dir, "probe")
	if os.WriteFile(p, nil, 0o644) != nil {
		return false
	}
	defer os.Remove(p)
	if setMtime(p, m) != nil {
		return false
	}
	fi, err := os.Lstat(p)
	return err == nil && fromTime(fi.ModTime()) == m
}

func heldInstants(dir string, base int64) (held []instant) {
	for _, in := range instants {
		if holds(dir, in.T) {
			held = append(held, in)
		}
	}
	held = append(held, instant{"a few hours ago", ns(base + 100e9)}, instant{"tomorrow", ns(base + 27*3600e9)})
	return held
}

// mtimeGrid: small trees, one per (instant of the template) x (sibling: absent / stale or up to date, one nanosecond
// older, the same instant, one nanosecond newer); an orphan, a plain .go file and a second template with an up-to-date
// sibling are dated at other instants of the list, so that files centuries apart are compared with each other.
func mtimeGrid(anchors []instant, allFlags bool, r *rng.R, fs string) []tcase {
	ok := "package p\n\ntempl T(s string) {\n\t<p>{ s }</p>\n}\n"
	ok2 := "package sub\n\ntempl U() {\n\t<i>u</i>\n}\n"
	var out []tcase
	n := len(anchors)
	for i, a := range anchors {
		for sib := 0; sib < 7; sib++ {
			ents := []ent{{Path: "a.templ", Content: ok, Mtime: a.T}}
			if sib > 0 {
				content := "// stale\npackage p\n"
				if sib > 3 {
					content = siblingContent(0, "a.templ", ok, "x")
				}
				ents = append(ents, ent{Path: "a_templ.go", Content: content, Mtime: a.T.add(int64((sib-1)%3 - 1))})
			}
			ents = append(ents,
				ent{Path: "keep.go", Content: "package p\n", Mtime: anchors[(i+5)%n].T},
				ent{Path: "old_templ.go", Content: "// orphan\npackage p\n", Mtime: anchors[(i+3)%n].T},
				ent{Path: "sub", Dir: true},
				ent{Path: "sub/b.templ", Content: ok2, Mtime: anchors[(i+1)%n].T},
				ent{Path: "sub/b_templ.go", Content: siblingContent(0, "sub/b.templ", ok2, "x"), Mtime: anchors[(i+2)%n].T})
			sort.Slice(ents, func(x, y int) bool { return ents[x].Path < ents[y].Path })
			for f := 0; f < 4; f++ {
				keep, lazy := f&1 == 1, f&2 == 2
				parity := (i+sib)%2 == 0
				if !allFlags && keep != (parity != lazy) { // two of the four flag sets per tree, both values of each flag
					continue
				}
				out = append(out, withSpellings(r, tcase{Fam: "mtime-grid", Root: "proj", Ents: ents, Keep: keep, Lazy: lazy, W: 1 + r.Intn(16), W2: 1 + r.Intn(16), FS: fs}))
			}
		}
	}
	return out
}

// zeroDated: the tree holds a template outside skipped directories dated at or before Go's zero time.Time
func zeroDated(before snap) bool {
	for k, e := range before {
		if !e.Dir && strings.HasSuffix(k, ".templ") && inScope(k) && e.Mtime.cmp(mtime{goZeroSec, 0}) <= 0 {
			return true
		}
	}
	return false
}

// timeClass: where a modification time sits (evidence histogram)
func timeClass(m mtime, now mtime) string {
	switch {
	case m.cmp(mtime{goZeroSec, 0}) <= 0:
		return "at or before Go's zero time (year 1)"
	case m.cmp(mtime{-9223372037, 145224192}) < 0:
		return "after year 1, before 1677 (below a 64-bit nanosecond count)"
	case m.S < 0:
		return "1677..1969 (before the Unix epoch)"
	case m.isZero():
		return "the Unix epoch exactly"
	case m.S == 0:
		return "within one second after the epoch"
	case m.cmp(now) <= 0:
		return "past (1970..now)"
	case m.cmp(mtime{9223372036, 854775807}) <= 0:
		return "future (now..2262)"
	}
	return "after 2262 (above a 64-bit nanosecond count)"
}

// ---------- running the real command ----------

type snap map[string]ent

func snapshot(root string) (snap, error) {
	s := snap{}
	err := filepath.WalkDir(root, func(p string, d os.DirEntry, err error) error {
		if err != nil {
			return err
		}
		if p == root {
			return nil
		}
		rel, _ := filepath.Rel(root, p)
		rel = filepath.ToSlash(rel)
		if d.IsDir() {
			s[rel] = ent{Path: rel, Dir: true}
			return nil
		}
		b, err := os.ReadFile(p)
		if err != nil {
			return err
		}
		fi, err := d.Info()
		if err != nil {
			return err
		}
		s[rel] = ent{Path: rel, Content: string(b), Mtime: fromTime(fi.ModTime())}
		return nil
	})
	return s, err
}

func (s snap) list() []ent {
	var l []ent
	for _, e := range s {
		l = append(l, e)
	}
	sort.Slice(l, func(i, j int) bool { return l[i].Path < l[j].Path })
	return l
}

type outcome struct {
	before, after, mid, after2 snap // mid = after, with the case's edits applied
	exit, exit2                int
	start, start2, end, end2   mtime // wall clock around the first and the second run
	stderr                     string
	raceReport                 string
	walk                       []string
	events                     map[string]string // root-relative name -> event name as WalkFiles sent it (first run's spelling)
	arg, cwd, arg2, cwd2       string            // the two spellings, expanded
	err                        error
}

const watchPattern = `(.+\.go$)|(.+\.templ$)`

var watchRe = regexp.MustCompile(watchPattern)

func build(scratch string, tc tcase) (string, error) {
	root := filepath.Join(scratch, tc.Root)
	if err := os.MkdirAll(root, 0o755); err != nil {
		return "", err
	}
	// what the spellings of the root go through, beside the tree
	os.MkdirAll(filepath.Join(scratch, "x1"), 0o755)
	os.MkdirAll(filepath.Join(scratch, "cwd1", "deep"), 0o755)
	for _, sp := range []spelling{tc.Spell, tc.Spell2} {
		if sp.Link != "" {
			if err := os.Symlink(tc.Root, filepath.Join(scratch, sp.Link)); err != nil && !os.IsExist(err) {
				return "", err
			}
		}
	}
	// a directory that blocks an output path is given an old modification time once everything is in place
	// (goFileIsUpToDate looks at it under -lazy; the model has no directory mtimes)
	defer func() {
		for i := len(tc.Ents) - 1; i >= 0; i-- {
			if e := tc.Ents[i]; e.Dir && !e.Mtime.isZero() {
				setMtime(filepath.Join(root, filepath.FromSlash(e.Path)), e.Mtime)
			}
		}
	}()
	for _, e := range tc.Ents {
		p := filepath.Join(root, filepath.FromSlash(e.Path))
		if e.Dir {
			if err := os.MkdirAll(p, 0o755); err != nil {
				return "", err
			}
			continue
		}
		if err := os.MkdirAll(filepath.Dir(p), 0o755); err != nil {
			return "", err
		}
		if err := os.WriteFile(p, []byte(e.Content), 0o644); err != nil {
			return "", err
		}
		if err := setMtime(p, e.Mtime); err != nil {
			return "", err
		}
	}
	return root, nil
}

func runCLI(bin, root string, tc tcase, w int, sp spelling) (exit int, stderr string) {
	arg, cwd := sp.expand(filepath.Dir(root), filepath.Base(root))
	args := []string{"generate", "-path", arg, "-include-version=false", "-w", strconv.Itoa(w)}
	if tc.Keep {
		args = append(args, "-keep-orphaned-files")
	}
	if tc.Lazy {
		args = append(args, "-lazy")
	}
	ctx, cancel := context.WithTimeout(context.Background(), 120*time.Second)
	defer cancel()
	cmd := exec.CommandContext(ctx, bin, args...)
	cmd.Dir = cwd
	cmd.Env = append(os.Environ(), "GORACE=halt_on_error=0 exitcode=66", "NO_COLOR=1", "PWD="+cwd)
	var eb bytes.Buffer
	cmd.Stderr = &eb
	err := cmd.Run()
	exit = 0
	if err != nil {
		if ee, ok := err.(*exec.ExitError); ok {
			exit = ee.ExitCode()
		} else {
			exit = -1
		}
	}
	return exit, eb.String()
}

// walkInProcess: WalkFiles on the root as the command stores it (see storedRoot).  raw = the event names as sent;
// rels = the same relative to the cleaned root.
func walkInProcess(stored string) (rels, raw []string) {
	ch := make(chan fsnotify.Event)
	done := make(chan struct{})
	go func() {
		for e := range ch {
			raw = append(raw, e.Name)
			rel, _ := filepath.Rel(filepath.Clean(stored), e.Name)
			rels = append(rels, filepath.ToSlash(rel))
		}
		close(done)
	}()
	_ = watcher.WalkFiles(context.Background(), stored, watchRe, ch)
	close(ch)
	<-done
	return rels, raw
}

// wideBase: scratch directory on a file system that holds instants the one under /tmp cannot ("" = none available)
var wideBase string

func execute(scratchBase string, idx int, bin string, tc tcase) (o outcome) {
	if tc.FS == "wide" && wideBase != "" {
		scratchBase = filepath.Join(wideBase, filepath.Base(scratchBase))
		defer os.Remove(scratchBase)
	}
	scratch := filepath.Join(scratchBase, fmt.Sprintf("k%d", idx))
	defer os.RemoveAll(scratch)
	root, err := build(scratch, tc)
	if err != nil {
		o.err = err
		return
	}
	if o.before, err = snapshot(root); err != nil {
		o.err = err
		return
	}
	o.arg, o.cwd = tc.Spell.expand(scratch, tc.Root)
	o.arg2, o.cwd2 = tc.Spell2.expand(scratch, tc.Root)
	var raw []string
	o.walk, raw = walkInProcess(storedRoot(o.arg, o.cwd))
	o.events = map[string]string{}
	for i, r := range o.walk {
		o.events[r] = raw[i]
	}
	o.start = fromTime(time.Now())
	var se string
	o.exit, se = runCLI(bin, root, tc, tc.W, tc.Spell)
	o.end = fromTime(time.Now())
	o.stderr = se
	if strings.Contains(se, "DATA RACE") {
		o.raceReport = se
	}
	if o.after, err = snapshot(root); err != nil {
		o.err = err
		return
	}
	o.mid = o.after
	if len(tc.Edits) > 0 {
		for _, ed := range tc.Edits {
			p := filepath.Join(root, filepath.FromSlash(ed.Path))
			if ed.Delete {
				os.Remove(p)
				continue
			}
			if os.WriteFile(p, []byte(ed.Content), 0o644) == nil {
				t := time.Now()
				os.Chtimes(p, t, t)
			}
		}
		if o.mid, err = snapshot(root); err != nil {
			o.err = err
			return
		}
	}
	o.start2 = fromTime(time.Now())
	o.exit2, se = runCLI(bin, root, tc, tc.W2, tc.Spell2)
	o.end2 = fromTime(time.Now())
	if strings.Contains(se, "DATA RACE") && o.raceReport == "" {
		o.raceReport = se
	}
	if o.after2, err = snapshot(root); err != nil {
		o.err = err
	}
	return
}

// ---------- talking to the model ----------

func encEntries(l []ent, orc map[string]string) [][]byte {
	var a [][]byte
	for _, e := range l {
		kind := "F"
		if e.Dir {
			kind = "D"
		}
		g := ""
		if code, ok := orc[e.Path]; ok && !e.Dir {
			g = "S" + code
		}
		a = append(a, []byte(e.Path), []byte(kind), []byte(e.Content), []byte(e.Mtime.String()), []byte(g))
	}
	return a
}

func b01(b bool) []byte {
	if b {
		return []byte("1")
	}
	return []byte("0")
}

func runReq(root string, keep, lazy bool, now mtime, l []ent, orc map[string]string) drv.Req {
	args := [][]byte{[]byte(root), b01(keep), b01(lazy), []byte(now.String()), []byte(strconv.Itoa(len(l)))}
	return drv.Req{Fn: "run", Args: append(args, encEntries(l, orc)...)}
}

func checkReq(keep, failed bool, before, after []ent, orc map[string]string) drv.Req {
	args := [][]byte{b01(keep), b01(failed), []byte(strconv.Itoa(len(before)))}
	args = append(args, encEntries(before, orc)...)
	args = append(args, []byte(strconv.Itoa(len(after))))
	args = append(args, encEntries(after, nil)...)
	return drv.Req{Fn: "check", Args: args}
}

type modelRun struct {
	wf, failed bool
	walk       []string
	final      map[string]ent // kind "A" entries are left out
	ok         bool
}

func decRun(r [][]byte) (m modelRun) {
	if len(r) < 3 {
		return
	}
	m.wf = string(r[0]) == "1"
	m.failed = string(r[1]) == "1"
	n, err := strconv.Atoi(string(r[2]))
	if err != nil || len(r) < 3+n || (len(r)-3-n)%4 != 0 {
		return
	}
	for i := 0; i < n; i++ {
		m.walk = append(m.walk, string(r[3+i]))
	}
	m.final = map[string]ent{}
	for i := 3 + n; i+3 < len(r); i += 4 {
		p := string(r[i])
		switch string(r[i+1]) {
		case "D":
			m.final[p] = ent{Path: p, Dir: true}
		case "F":
			mt, ok := parseMtime(string(r[i+3]))
			if !ok {
				return
			}
			m.final[p] = ent{Path: p, Content: string(r[i+2]), Mtime: mt}
		}
	}
	m.ok = true
	return
}

const slack = int64(200 * time.Millisecond)

// diffTrees compares the tree the model predicts with the tree found on disk.  A file the model wrote carries
// mtime == now; on disk it must have been written between the start and the end of the run (whatever time - past,
// future, centuries away - the file it replaces had).  Every other file keeps its mtime exactly.
func diffTrees(model map[string]ent, now, end mtime, impl snap) string {
	var keys []string
	seen := map[string]bool{}
	for k := range model {
		keys = append(keys, k)
		seen[k] = true
	}
	for k := range impl {
		if !seen[k] {
			keys = append(keys, k)
		}
	}
	sort.Strings(keys)
	for _, k := range keys {
		m, mok := model[k]
		i, iok := impl[k]
		switch {
		case mok && !iok:
			return fmt.Sprintf("%s: model has it, absent on disk", k)
		case !mok && iok:
			return fmt.Sprintf("%s: on disk (dir=%v, %d bytes), absent in the model", k, i.Dir, len(i.Content))
		case m.Dir != i.Dir:
			return fmt.Sprintf("%s: file/directory kind differs", k)
		case m.Dir:
			continue
		case m.Content != i.Content:
			return fmt.Sprintf("%s: contents differ (model %d bytes %s, disk %d bytes %s)", k, len(m.Content), hash(m.Content), len(i.Content), hash(i.Content))
		case m.Mtime == now && (i.Mtime.cmp(now.add(-slack)) < 0 || i.Mtime.cmp(end.add(slack)) > 0):
			return fmt.Sprintf("%s: model writes the file, the file on disk was not written during the run (its time: %s)", k, i.Mtime)
		case m.Mtime != now && i.Mtime != m.Mtime:
			return fmt.Sprintf("%s: model leaves the file alone, its modification time changed on disk", k)
		}
	}
	return ""
}

func hash(s string) string {
	h := sha256.Sum256([]byte(s))
	return hex.EncodeToString(h[:6])
}

func contentsDiffer(a, b snap) string {
	for k, x := range a {
		y, ok := b[k]
		if !ok {
			return k + ": gone after the second run"
		}
		if x.Dir != y.Dir || x.Content != y.Content {
			return k + ": contents changed by the second run"
		}
	}
	for k := range b {
		if _, ok := a[k]; !ok {
			return k + ": created by the second run"
		}
	}
	return ""
}

func oracleMap(l []ent) (map[string]string, map[string]int) {
	orc := map[string]string{}
	st := map[string]int{}
	for _, e := range l {
		if e.Dir || !strings.HasSuffix(e.Path, ".templ") {
			continue
		}
		code, stage := oracle(e.Path, e.Content)
		st[stage]++
		if stage == "ok" {
			orc[e.Path] = code
		}
	}
	return orc, st
}

// ---------- evaluation of a batch of cases ----------

type verdict struct {
	tie, prop   string // "" = fine; otherwise what went wrong
	shape       string
	wf          bool
	rootSkipped bool
	o           outcome
	stages      map[string]int
	named       []string // templates whose file name (as given to the generator) is compared with the model's
}

// model requests per case: skip, run, check, run, check, then two per named template
const nNamed = 3
const perCase = 5 + 2*nNamed

func nameReq(arg, cwd, rel string) drv.Req {
	return drv.Req{Fn: "name", Args: [][]byte{[]byte(arg), []byte(cwd), []byte(rel)}}
}

// nameTargets: up to nNamed templates outside skipped directories whose generated code mentions its file name, the
// deepest first (ties by path)
func nameTargets(before []ent, orc map[string]string) []string {
	var l []string
	for _, e := range before {
		if code, ok := orc[e.Path]; ok && !e.Dir && inScope(e.Path) && strings.Contains(code, "FileName: ") {
			l = append(l, e.Path)
		}
	}
	sort.SliceStable(l, func(i, j int) bool { return depth(l[i]) > depth(l[j]) })
	if len(l) > nNamed {
		l = l[:nNamed]
	}
	return l
}

var fileNameRe = regexp.MustCompile("FileName: (`[^`]*`|\"(?:[^\"\\\\]|\\\\.)*\")")

// fileNames: the FileName literals of templ.Error values in generated code, decoded
func fileNames(code string) []string {
	var out []string
	seen := map[string]bool{}
	for _, m := range fileNameRe.FindAllStringSubmatch(code, -1) {
		if v, err := strconv.Unquote(m[1]); err == nil && !seen[v] {
			seen[v] = true
			out = append(out, v)
		}
	}
	return out
}

func evalCases(c *core.Ctx, scratch string, bins [2]string, cases []tcase, par int) []verdict {
	outs := make([]outcome, len(cases))
	var wg sync.WaitGroup
	sem := make(chan struct{}, par)
	for i := range cases {
		wg.Add(1)
		sem <- struct{}{}
		go func(i int) {
			defer wg.Done()
			defer func() { <-sem }()
			bin := bins[0]
			if cases[i].Race && bins[1] != "" {
				bin = bins[1]
			}
			outs[i] = execute(scratch, i, bin, cases[i])
		}(i)
	}
	wg.Wait()
	vs := make([]verdict, len(cases))
	var reqs []drv.Req
	for i, tc := range cases {
		o := outs[i]
		vs[i].o = o
		if o.err != nil {
			reqs = append(reqs, drv.Req{Fn: "skip", Args: [][]byte{[]byte(tc.Root)}})
			for k := 1; k < perCase; k++ {
				reqs = append(reqs, drv.Req{Fn: "skip"})
			}
			continue
		}
		before := o.before.list()
		orc, st := oracleMap(before)
		vs[i].stages = st
		mid := o.mid.list()
		orc2 := orc
		if len(tc.Edits) > 0 {
			orc2, _ = oracleMap(mid)
		}
		reqs = append(reqs,
			drv.Req{Fn: "skip", Args: [][]byte{[]byte(tc.Root)}},
			runReq(tc.Root, tc.Keep, tc.Lazy, o.start, before, orc),
			checkReq(tc.Keep, o.exit != 0, before, o.after.list(), orc),
			runReq(tc.Root, tc.Keep, tc.Lazy, o.start2, mid, orc2),
			checkReq(tc.Keep, o.exit2 != 0, mid, o.after2.list(), orc2))
		// the file name the handler gives the generator, under the first and the second run's spelling of the root
		vs[i].named = nameTargets(before, orc)
		for k := 0; k < nNamed; k++ {
			if k < len(vs[i].named) {
				reqs = append(reqs, nameReq(o.arg, o.cwd, vs[i].named[k]), nameReq(o.arg2, o.cwd2, vs[i].named[k]))
			} else {
				reqs = append(reqs, drv.Req{Fn: "skip"}, drv.Req{Fn: "skip"})
			}
		}
	}
	res := c.Model(reqs)
	for i, tc := range cases {
		v := &vs[i]
		o := v.o
		if o.err != nil {
			v.tie = "harness could not build or read the scratch tree: " + o.err.Error()
			continue
		}
		sk, r1, ck, r2, ck2 := res[perCase*i], res[perCase*i+1], res[perCase*i+2], res[perCase*i+3], res[perCase*i+4]
		if len(sk) != 3 || len(ck) != 1 || len(ck2) != 1 {
			v.tie = "extracted model gave no answer"
			continue
		}
		v.rootSkipped = string(sk[0]) == "1"
		m1, m2 := decRun(r1), decRun(r2)
		if !m1.ok || !m2.ok {
			v.tie = "extracted model gave a malformed answer"
			continue
		}
		v.wf = m1.wf
		// (1) model = implementation
		switch {
		case o.raceReport != "":
			v.prop = "the race detector reported a data race: " + firstLines(o.raceReport, 14)
		case o.exit != 0 && o.exit != 1:
			v.tie = fmt.Sprintf("exit status %d: %s", o.exit, firstLines(o.stderr, 10))
		case (o.exit != 0) != m1.failed:
			v.tie = fmt.Sprintf("exit status %d, model failed=%v", o.exit, m1.failed)
		case strings.Join(o.walk, "\n") != strings.Join(m1.walk, "\n"):
			v.tie = fmt.Sprintf("WalkFiles order %q, model %q", o.walk, m1.walk)
		default:
			if d := diffTrees(m1.final, o.start, o.end, o.after); d != "" {
				v.tie = "after the run: " + d
			} else if (o.exit2 != 0) != m2.failed {
				v.tie = fmt.Sprintf("second run: exit status %d, model failed=%v", o.exit2, m2.failed)
			} else if d := diffTrees(m2.final, o.start2, o.end2, o.after2); d != "" {
				v.tie = "after the second run: " + d
			}
		}
		// (2) the specification, evaluated on the implementation's own behaviour
		if v.prop == "" && m1.wf && string(ck[0]) != "1" {
			v.prop = "spec_check is false on the command's before/after trees and exit status " + strconv.Itoa(o.exit) + explain(tc.Keep, o.before, o.after, o.exit)
		}
		if v.prop == "" && m1.wf && len(tc.Edits) == 0 {
			if d := contentsDiffer(o.after, o.after2); d != "" {
				v.prop = "second run: " + d
			}
		}
		if v.prop == "" && m2.wf && string(ck2[0]) != "1" {
			v.prop = "second run (after the edits, if any): spec_check is false on the command's before/after trees and exit status " + strconv.Itoa(o.exit2) + explain(tc.Keep, o.mid, o.after2, o.exit2)
		}
	}
	return vs
}

// explain names the first path on which the property text fails (for the replay file; the verdict is spec_check's).
func explain(keep bool, before, after snap, exit int) string {
	orc, _ := oracleMap(before.list())
	var keys []string
	for k := range before {
		keys = append(keys, k)
	}
	sort.Strings(keys)
	for _, k := range keys {
		e := before[k]
		if e.Dir || !inScope(k) {
			continue
		}
		if strings.HasSuffix(k, ".templ") {
			g := strings.TrimSuffix(k, ".templ") + "_templ.go"
			code, ok := orc[k]
			if before[g].Dir {
				if exit == 0 {
					return fmt.Sprintf(" [%s: output path %s is a directory, yet the command succeeded]", k, g)
				}
				continue
			}
			if ok && after[g].Content != code {
				return fmt.Sprintf(" [%s: sibling %s is not the generation of that file alone]", k, g)
			}
			if !ok && exit == 0 {
				return fmt.Sprintf(" [%s cannot be generated but the command succeeded]", k)
			}
		}
		if strings.HasSuffix(k, "_templ.go") {
			src := strings.TrimSuffix(k, "_templ.go") + ".templ"
			if _, has := before[src]; !has {
				if _, still := after[k]; still != keep {
					return fmt.Sprintf(" [orphan %s: present after the run = %v, keep flag = %v]", k, still, keep)
				}
			}
		}
	}
	for k, a := range after {
		b, ok := before[k]
		if strings.HasSuffix(k, "_templ.go") && inScope(k) {
			continue
		}
		if !ok || a != b {
			return fmt.Sprintf(" [%s was created or modified]", k)
		}
	}
	for k := range before {
		if _, ok := after[k]; !ok && !(strings.HasSuffix(k, "_templ.go") && inScope(k)) {
			return fmt.Sprintf(" [%s was removed]", k)
		}
	}
	return ""
}

// inScope: no directory between the root and the file has a skipped name (used for reporting and counting only;
// the verdicts come from the extracted model and spec_check).
func inScope(p string) bool {
	parts := strings.Split(p, "/")
	for _, n := range parts[:len(parts)-1] {
		if n == "vendor" || n == "node_modules" || strings.HasPrefix(n, ".") || strings.HasPrefix(n, "_") {
			return false
		}
	}
	return true
}

func firstLines(s string, n int) string {
	ls := strings.Split(strings.TrimSpace(s), "\n")
	if len(ls) > n {
		ls = ls[:n]
	}
	return strings.Join(ls, " | ")
}

// shrink removes entries (children with their directory) while the same kind of failure persists.
func shrink(c *core.Ctx, scratch string, bins [2]string, tc tcase, isProp bool, par int) tcase {
	bad := func(v verdict) bool {
		if isProp {
			return v.prop != ""
		}
		return v.tie != ""
	}
	for round := 0; round < 12; round++ {
		var cands []tcase
		for i := range tc.Ents {
			if !tc.Ents[i].Dir && strings.HasSuffix(filepath.Dir(tc.Ents[i].Path), "_templ.go") {
				continue // a blocking directory stays non-empty (wf_tree); it goes together with its directory
			}
			if tc.Ents[i].Dir && (tc.Spell.uses(tc.Ents[i].Path) || tc.Spell2.uses(tc.Ents[i].Path)) {
				continue // the spelling of the root goes through this directory
			}
			pre := tc.Ents[i].Path + "/"
			var l []ent
			for j, e := range tc.Ents {
				if j == i || (tc.Ents[i].Dir && strings.HasPrefix(e.Path, pre)) {
					continue
				}
				l = append(l, e)
			}
			k := tc
			k.Ents = l
			cands = append(cands, k)
		}
		if len(cands) == 0 {
			break
		}
		// larger removals first
		sort.SliceStable(cands, func(a, b int) bool { return len(cands[a].Ents) < len(cands[b].Ents) })
		if len(cands) > 40 {
			cands = cands[:40]
		}
		vs := evalCases(c, filepath.Join(scratch, fmt.Sprintf("shrink%d", round)), bins, cands, par)
		found := false
		for i, v := range vs {
			if bad(v) {
				tc = cands[i]
				found = true
				break
			}
		}
		if !found {
			break
		}
	}
	return tc
}

// ---------- the check ----------

func buildCLI(race bool) (string, error) {
	out := filepath.Join(core.Root, "build", "templ_c15")
	args := []string{"build", "-o", out}
	if race {
		out += "_race"
		args = []string{"build", "-race", "-o", out}
	}
	args = append(args, "./cmd/templ")
	cmd := exec.Command("go", args...)
	cmd.Dir = core.Repo()
	cmd.Env = append(os.Environ(), "GOFLAGS=-mod=mod", "GOPROXY=off", "GOSUMDB=off", "GOTOOLCHAIN=local")
	if race {
		cmd.Env = append(cmd.Env, "CGO_ENABLED=1")
	}
	b, err := cmd.CombinedOutput()
	if err != nil {
		return "", fmt.Errorf("go build ./cmd/templ: %v: %s", err, firstLines(string(b), 8))
	}
	return out, nil
}

func Run(c *core.Ctx) {
	c.Rule = "one evaluation = one directory tree x flag set x spelling of the root (-path argument and working directory, for each of the two runs): the real `templ generate` binary run twice on a scratch copy, before/after trees (path, kind, contents, mtime) and exit status compared with the extracted model and judged by the extracted spec_check; distinct non-trivial = distinct (tree, flags, spellings) with at least one template outside skipped directories"
	c.Trusted = append(c.Trusted,
		"specification spec/WalkSpec.v (spec_holds; its executable form spec_check is proved sound: C15_spec_check_sound)",
		"the file system is modelled as a finite map path -> file(contents, mtime) | directory, a modification time being any integer number of nanoseconds relative to the Unix epoch (Z: negative, zero, beyond 64 bits); goroutine scheduling as interleavings of handlers' read and write steps (DESIGN section 10); no symlinks, permissions or I/O errors",
		"extraction: ExtrOcamlBasic only; ocaml/driver.ml",
		"Go harness internal/c15, the Go toolchain and race detector, the scratch file system under /tmp and, for instants it cannot hold (before 1901, after 2446), a second one under /dev/shm when that is a tmpfs")
	c.Assume = append(c.Assume,
		"generate oracle = parser.ParseString + generator.Generate(WithFileName(relative path)) + format.Source, a function of (relative path, contents) - checked against `templ generate -f` on the file alone",
		"wf_tree: unique paths, parents are directories, no directory (nor the root) is called *.go or *.templ, under -lazy a _templ.go newer than its .templ outside skipped directories is up to date (no condition on modification times)",
		"-include-version=false, no -include-timestamp, default watch pattern, non-watch mode, nothing else writes to the tree during the run",
		"the root as spelled: every spelling names the same directory (\"..\" elements follow real directories only, never a symbolic link); the command is started with PWD = its working directory as spelled, so os.Getwd returns that string; path/filepath on a '/'-separated system")
	c.Proofs()

	bin, err := buildCLI(false)
	c.Oblige("correspondence", "the templ CLI builds from "+core.Repo()+"/cmd/templ", err == nil, fmt.Sprint(err))
	if err != nil {
		return
	}
	bins := [2]string{bin, ""}
	if !c.Quick() {
		rb, err := buildCLI(true)
		c.Oblige("correspondence", "the race-instrumented templ CLI builds", err == nil, fmt.Sprint(err))
		if err == nil {
			bins[1] = rb
		}
	}
	scratch, err := os.MkdirTemp("/tmp", "c15_")
	if err != nil {
		c.Oblige("correspondence", "scratch directory", false, err.Error())
		return
	}
	defer os.RemoveAll(scratch)
	par := 8

	skipSweep(c)
	pathContract(c)

	// the time dimension: which of the instants of interest the scratch file system stores exactly; a second scratch
	// directory on a memory file system when that one holds instants the first cannot (ext4: 1901..2446; tmpfs: all)
	base := time.Now().Add(-3*time.Hour).Unix() * 1e9
	held := heldInstants(scratch, base)
	var pool []mtime
	var heldNames, wideNames []string
	for _, in := range held {
		pool = append(pool, in.T)
		heldNames = append(heldNames, in.Name)
	}
	var wideOnly []instant
	var widePool []mtime
	wideBase = ""
	if d, err := os.MkdirTemp("/dev/shm", "c15_"); err == nil {
		defer os.RemoveAll(d)
		for _, in := range instants {
			if holds(d, in.T) && !holds(scratch, in.T) {
				wideOnly = append(wideOnly, in)
				wideNames = append(wideNames, in.Name)
			}
			if holds(d, in.T) {
				widePool = append(widePool, in.T)
			}
		}
		if len(wideOnly) > 0 {
			wideBase = d
		}
	}
	c.Extra["instants_held_by_scratch_fs"] = heldNames
	c.Extra["instants_held_only_by_wide_scratch_fs"] = wideNames

	// cases: small hand-made trees first (so the first failure is small), then random trees x all four flag sets
	var cases []tcase
	for _, t := range fixedTrees(base) {
		for f := 0; f < 4; f++ {
			cases = append(cases, tcase{Fam: "fixed", Root: t.Root, Ents: t.Ents, Keep: f&1 == 1, Lazy: f&2 == 2, W: 1 + c.Rng.Intn(16), W2: 1 + c.Rng.Intn(16)})
		}
	}
	// every spelling of the root x small nested trees (first run), the second run under another spelling
	for ti, t := range spellingTrees(base) {
		sps := spellingsOf(treeDirs(t.Ents))
		for si, sp := range sps {
			f := (si + ti) % 4
			cases = append(cases, tcase{Fam: "root-spelling", Root: t.Root, Ents: t.Ents, Keep: f&1 == 1, Lazy: f&2 == 2, W: 1 + c.Rng.Intn(16), W2: 1 + c.Rng.Intn(16),
				Spell: sp, Spell2: sps[(si*7+3+ti)%len(sps)]})
		}
	}
	cases = append(cases, mtimeGrid(held, !c.Quick(), c.Rng, "")...)
	if wideBase != "" {
		cases = append(cases, mtimeGrid(wideOnly, !c.Quick(), c.Rng, "wide")...)
	}
	nExh := 0
	for _, t := range exhaustiveTrees(base, !c.Quick()) {
		for f := 0; f < 4; f++ {
			cases = append(cases, withSpellings(c.Rng, tcase{Fam: "exhaustive-small", Root: t.Root, Ents: t.Ents, Keep: f&1 == 1, Lazy: f&2 == 2, W: 1 + c.Rng.Intn(16), W2: 1 + c.Rng.Intn(16)}))
			nExh++
		}
	}
	c.Extra["exhaustive_small_tree_cases"] = nExh
	nTrees := c.N(150, 2000)
	if v, err := strconv.Atoi(os.Getenv("VERIF_C15_TREES")); err == nil && v > 0 { // development aid
		nTrees = v
	}
	for i := 0; i < nTrees; i++ {
		root, ents := genTree(c.Rng, base, pool)
		ws := []int{1, 16, 2 + c.Rng.Intn(14), 1 + c.Rng.Intn(16)}
		for f := 0; f < 4; f++ {
			cases = append(cases, withSpellings(c.Rng, tcase{Fam: "random", Root: root, Ents: ents, Keep: f&1 == 1, Lazy: f&2 == 2, W: ws[(f+i)%4], W2: 1 + c.Rng.Intn(16), Race: !c.Quick() && (i%4 == 0)}))
		}
	}
	// random trees on the wide-range scratch file system: the whole list of instants, year 1 and year 9999 included
	if wideBase != "" {
		nWide := c.N(12, 300)
		for i := 0; i < nWide; i++ {
			root, ents := genTree(c.Rng, base, widePool)
			f := i % 4
			cases = append(cases, withSpellings(c.Rng, tcase{Fam: "random-wide-fs", Root: root, Ents: ents, Keep: f&1 == 1, Lazy: f&2 == 2, W: 1 + c.Rng.Intn(16), W2: 1 + c.Rng.Intn(16), FS: "wide"}))
		}
	}
	// write failures early in walk order, many files still pending, w = 1 and w > 1
	nBlocked := c.N(6, 120)
	for i := 0; i < nBlocked; i++ {
		ents := blockedEarlyTree(c.Rng, base)
		for f := 0; f < 4; f++ {
			cases = append(cases, withSpellings(c.Rng, tcase{Fam: "blocked-output-early", Root: "proj", Ents: ents, Keep: f&1 == 1, Lazy: f&2 == 2, W: []int{1, 16, 4, 2}[(f+i)%4], W2: 1 + c.Rng.Intn(16), Race: !c.Quick() && (i%4 == 0)}))
		}
	}
	// two-step histories: run, edit templates (shorter / longer / broken / deleted), run again
	nHist := c.N(40, 500)
	for i := 0; i < nHist; i++ {
		root, ents := genTree(c.Rng, base, pool)
		eds := genEdits(c.Rng, ents)
		if len(eds) == 0 {
			continue
		}
		for f := 0; f < 4; f++ {
			cases = append(cases, withSpellings(c.Rng, tcase{Fam: "history-random", Root: root, Ents: ents, Edits: eds, Keep: f&1 == 1, Lazy: f&2 == 2, W: 1 + c.Rng.Intn(16), W2: 1 + c.Rng.Intn(16), Race: !c.Quick() && (i%4 == 0)}))
		}
	}
	for _, t := range historyFixed(base) {
		for f := 0; f < 4; f++ {
			cases = append(cases, tcase{Fam: "history-fixed", Root: t.Root, Ents: t.Ents, Edits: t.Edits, Keep: f&1 == 1, Lazy: f&2 == 2, W: 1 + c.Rng.Intn(16), W2: 1 + c.Rng.Intn(16)})
		}
	}
	if c.Replay != "" { // the failing inputs of a replay file, nothing else
		var doc struct {
			Failures []struct {
				Input tcase `json:"input"`
			} `json:"failures"`
		}
		b, err := os.ReadFile(c.Replay)
		if err == nil {
			err = json.Unmarshal(b, &doc)
		}
		c.Oblige("correspondence", "replay file readable", err == nil, fmt.Sprint(err))
		cases = nil
		for _, f := range doc.Failures {
			cases = append(cases, f.Input)
		}
	}
	var vs []verdict
	for lo := 0; lo < len(cases); lo += 400 {
		hi := lo + 400
		if hi > len(cases) {
			hi = len(cases)
		}
		vs = append(vs, evalCases(c, filepath.Join(scratch, fmt.Sprintf("b%d", lo)), bins, cases[lo:hi], par)...)
	}

	tieOK, propOK, raceOK := true, true, true
	famCases, famProp, famTie := map[string]int{}, map[string]int{}, map[string]int{}
	shrunkTie, shrunkProp := false, false
	nWf, nSkippedRoot := 0, 0
	nZero, nZeroProp := 0, 0
	for i, v := range vs {
		tc := cases[i]
		nInScope := 0
		for _, e := range tc.Ents {
			if !e.Dir && strings.HasSuffix(e.Path, ".templ") && inScope(e.Path) {
				nInScope++
			}
		}
		key := ""
		if nInScope > 0 {
			h := sha256.New()
			fmt.Fprintf(h, "%s|%v|%v|%v|%v|", tc.Root, tc.Keep, tc.Lazy, tc.Spell.orDefault(), tc.Spell2.orDefault())
			for _, e := range tc.Ents {
				fmt.Fprintf(h, "%s|%v|%s|%s|", e.Path, e.Dir, e.Content, e.Mtime)
			}
			key = hex.EncodeToString(h.Sum(nil)[:12])
		}
		c.Count(key)
		hist(c, tc, v)
		famCases[tc.Fam]++
		if v.prop != "" {
			famProp[tc.Fam]++
		}
		if v.tie != "" {
			famTie[tc.Fam]++
		}
		if v.wf {
			nWf++
		}
		if zeroDated(v.o.before) {
			nZero++
			if v.prop != "" {
				nZeroProp++
			}
		}
		if v.rootSkipped {
			nSkippedRoot++
		}
		if v.o.raceReport != "" {
			raceOK = false
		}
		if v.tie != "" {
			tieOK = false
			if c.NFails("tree: model = templ generate") < 3 {
				in := tc
				if !shrunkTie {
					shrunkTie = true
					in = shrink(c, scratch, bins, tc, false, par)
					if vv := evalCases(c, filepath.Join(scratch, "again"), bins, []tcase{in}, 1); vv[0].tie != "" {
						v.tie = vv[0].tie
					}
				}
				c.Fail("tie", "tree: model = templ generate", "", in, v.tie)
			}
		}
		if v.prop != "" {
			in := tc
			detail := v.prop
			if !shrunkProp {
				shrunkProp = true
				in = shrink(c, scratch, bins, tc, true, par)
				if vv := evalCases(c, filepath.Join(scratch, "againp"), bins, []tcase{in}, 1); vv[0].prop != "" {
					detail = vv[0].prop
				}
			}
			shape := ""
			if v.rootSkipped && v.o.raceReport == "" {
				// narrow shape (defect fixed by 91f7c9a; a failure of this shape is a regression): the root directory's own
				// base name is the cause - the same tree and flags under a neutral root name satisfy the specification
				n := tc
				n.Root = "r0"
				if vv := evalCases(c, filepath.Join(scratch, "neutral"), bins, []tcase{n}, 1); vv[0].prop == "" && vv[0].tie == "" && !vv[0].rootSkipped {
					shape = "root-dir-name-skipped"
				}
			}
			if shape == "" && v.o.raceReport == "" && zeroDated(v.o.before) {
				// narrow shape (defect fixed by 103800e; a failure of this shape is a regression): a template dated at or before
				// Go's zero time.Time is the cause - the same tree and flags with those files dated a few hours ago satisfy
				// the specification
				n := tc
				n.Ents = append([]ent{}, tc.Ents...)
				for k, e := range n.Ents {
					if !e.Dir && e.Mtime.cmp(mtime{goZeroSec, 0}) <= 0 {
						n.Ents[k].Mtime = ns(base + 100e9)
					}
				}
				if vv := evalCases(c, filepath.Join(scratch, "redated"), bins, []tcase{n}, 1); vv[0].prop == "" && vv[0].tie == "" {
					shape = "template-mtime-not-after-go-zero-time"
				}
			}
			propOK = false
			if c.NFails("tree: specification on templ generate's own output") < 40 {
				c.Fail("property", "tree: specification on templ generate's own output", shape, in, detail)
			}
		}
	}
	c.Oblige("correspondence", "tree: extracted model = real CLI (events in WalkFiles order, exit status, every path's kind/contents/mtime after the first and the second run; model name_given = the FileName literal in the command's generated code, event_name = the name WalkFiles sends, clean root = filepath.Clean of the stored root, for the spelling of each run) on all generated trees x flags x worker counts x spellings", tieOK, "")
	c.Oblige("correspondence", "tree: extracted spec_check (oracle = single-file generation under the ROOT-RELATIVE slash name) holds of the CLI's own before/after trees and exit status, and a second run changes no contents - whatever the spelling of the root in either run: absolute clean / trailing slash / . / .. / doubled slashes, relative from the parent, the root itself, a directory of the tree, another directory or /, through a symbolic link (well-formed trees, skipped-looking root names included)", propOK, "")
	if !c.Quick() {
		c.Oblige("side-condition", "no data race reported by the race-instrumented binary", raceOK, "")
	}
	c.Extra["cases"] = len(cases)
	c.Extra["cases_by_family"] = famCases
	c.Extra["property_failures_by_family"] = famProp
	c.Extra["model_differences_by_family"] = famTie
	c.Extra["well_formed_cases"] = nWf
	c.Extra["skipped_root_cases"] = nSkippedRoot
	c.Extra["cases_with_a_template_dated_at_or_before_go_zero_time"] = map[string]int{"cases (judged like any other)": nZero, "property failures among them": nZeroProp}
	for i := 0; i < len(cases) && i < 3; i++ {
		k := 12 + i*37
		if k < len(cases) {
			c.Sample(map[string]any{"case": cases[k], "exit": vs[k].o.exit, "files_after": len(vs[k].o.after)})
		}
	}

	aloneContract(c, scratch, bin, cases)
}

func hist(c *core.Ctx, tc tcase, v verdict) {
	if v.rootSkipped {
		c.Hist("root: named like a skipped directory")
	} else {
		c.Hist("root: ordinary name")
	}
	nf := 0
	orphan := false
	names := map[string]bool{}
	for _, e := range tc.Ents {
		names[e.Path] = true
	}
	for _, e := range tc.Ents {
		if !e.Dir {
			nf++
			if strings.HasSuffix(e.Path, "_templ.go") && !names[strings.TrimSuffix(e.Path, "_templ.go")+".templ"] {
				orphan = true
			}
		}
	}
	switch {
	case nf <= 8:
		c.Hist("files: 1-8")
	case nf <= 25:
		c.Hist("files: 9-25")
	default:
		c.Hist("files: 26-60")
	}
	if orphan {
		c.Hist("has orphan _templ.go")
	}
	for _, e := range tc.Ents {
		if e.Dir && strings.HasSuffix(e.Path, "_templ.go") {
			c.Hist("has an output path blocked by a directory (write failure)")
			break
		}
	}
	for st, n := range v.stages {
		if n > 0 {
			c.Hist("has template: " + st)
		}
	}
	c.Hist(fmt.Sprintf("flags: keep=%v lazy=%v", tc.Keep, tc.Lazy))
	// the spelling of the root
	sp, sp2 := tc.Spell.orDefault(), tc.Spell2.orDefault()
	c.Hist("root spelled: " + sp.Kind)
	if sp2 == sp {
		c.Hist("second run: root spelled as in the first")
	} else {
		c.Hist("second run: root spelled differently (" + sp2.Kind + ")")
	}
	switch {
	case sp.Cwd == "{P}":
		c.Hist("started in: the directory holding the root")
	case sp.Cwd == "/":
		c.Hist("started in: /")
	case sp.Cwd == "{P}/{R}" || sp.Cwd == "{P}/{L}":
		c.Hist("started in: the root itself")
	case strings.HasPrefix(sp.Cwd, "{P}/{R}/"):
		c.Hist("started in: a directory of the tree")
	default:
		c.Hist("started in: another directory beside the root")
	}
	if len(v.named) > 0 {
		c.Hist(fmt.Sprintf("file name given to the generator compared for a template at depth %d", depth(v.named[0])-1))
	}
	// the time dimension, from the times actually on disk before the run
	if tc.FS == "wide" && wideBase != "" {
		c.Hist("scratch file system: wide range (tmpfs)")
	} else {
		c.Hist("scratch file system: /tmp")
	}
	seenClass := map[string]bool{}
	for k, e := range v.o.before {
		if e.Dir {
			continue
		}
		kind := "other file"
		switch {
		case strings.HasSuffix(k, ".templ"):
			kind = "template"
			if g, ok := v.o.before[strings.TrimSuffix(k, ".templ")+"_templ.go"]; ok && !g.Dir {
				rel := "sibling: more than 1s away from its template"
				switch d := new(big.Int).Sub(g.Mtime.big(), e.Mtime.big()); {
				case d.Sign() == 0:
					rel = "sibling: same instant as its template"
				case d.IsInt64() && d.Int64() > -1e9 && d.Int64() < 0:
					rel = "sibling: less than 1s older than its template"
				case d.IsInt64() && d.Int64() < 1e9 && d.Int64() > 0:
					rel = "sibling: less than 1s newer than its template"
				case d.IsInt64() && (d.Int64() == 1e9 || d.Int64() == -1e9):
					rel = "sibling: exactly 1s away from its template"
				}
				seenClass[rel] = true
			}
		case strings.HasSuffix(k, "_templ.go"):
			kind = "_templ.go"
		}
		seenClass["has "+kind+" dated "+timeClass(e.Mtime, v.o.start)] = true
	}
	for k := range seenClass {
		c.Hist(k)
	}
	switch {
	case tc.W == 1:
		c.Hist("w: 1")
	case tc.W <= 4:
		c.Hist("w: 2-4")
	default:
		c.Hist("w: 5-16")
	}
	c.Hist(fmt.Sprintf("exit status: %d", v.o.exit))
	if !v.wf {
		c.Hist("not well-formed (model compared, specification not judged)")
	}
}

// skipSweep: internal/skipdir.ShouldSkip (through the verif hook) = model should_skip_name = specification skipped_name,
// on every name over a small alphabet up to length 4 and a list of look-alikes; absolute and relative spellings.
func skipSweep(c *core.Ctx) {
	alpha := []string{".", "_", "v", "a", "-"}
	names := []string{"vendor", "node_modules", "vendors", "Vendor", "vendor_", "_vendor", "node_module", "node-modules", ".git", "..a", "a.", "a_", "x.templ", "x.go", "é", " vendor", "vendor "}
	var gen func(p string, n int)
	gen = func(p string, n int) {
		if p != "" && p != "." && p != ".." {
			names = append(names, p)
		}
		if n == 0 {
			return
		}
		for _, a := range alpha {
			gen(p+a, n-1)
		}
	}
	gen("", 4)
	var reqs []drv.Req
	for _, n := range names {
		reqs = append(reqs, drv.Req{Fn: "skip", Args: [][]byte{[]byte(n)}})
	}
	res := c.Model(reqs)
	ok := true
	for i, n := range names {
		impl := watcher.VerifShouldSkip("/tmp/some/root/" + n)
		impl2 := watcher.VerifShouldSkip("/" + n)
		if len(res[i]) != 3 || (string(res[i][0]) == "1") != impl || impl != impl2 || string(res[i][0]) != string(res[i][1]) {
			if ok {
				c.Fail("tie", "skipdir: model = ShouldSkip", "", map[string]any{"name": n, "impl": impl}, "should_skip_name, skipped_name and skipdir.ShouldSkip differ")
			}
			ok = false
		}
		c.Count("")
	}
	c.Hist(fmt.Sprintf("skipdir sweep names: %d", len(names)))
	c.Oblige("correspondence", "skipdir: model should_skip_name = specification skipped_name = skipdir.ShouldSkip on the absolute path, all names over {. _ v a -} up to length 4 and look-alikes", ok, "")
}

// aloneContract: the oracle is "generation of that file alone": `templ generate -f` on a tree holding only that file
// writes the same sibling (or fails when the oracle fails); and the oracle is deterministic.
func aloneContract(c *core.Ctx, scratch, bin string, cases []tcase) {
	type item struct{ rel, src string }
	seen := map[string]bool{}
	var items []item
	limit := c.N(30, 300)
	for _, tc := range cases {
		for _, e := range tc.Ents {
			if e.Dir || !strings.HasSuffix(e.Path, ".templ") {
				continue
			}
			k := e.Path + "\x00" + e.Content
			if seen[k] {
				continue
			}
			seen[k] = true
			if len(items) < limit {
				items = append(items, item{e.Path, e.Content})
			}
		}
	}
	ok := true
	detail := ""
	for i, it := range items {
		code, stage := oracle(it.rel, it.src)
		code2, stage2 := oracle(it.rel, it.src)
		root := filepath.Join(scratch, fmt.Sprintf("alone%d", i), "root")
		p := filepath.Join(root, filepath.FromSlash(it.rel))
		os.MkdirAll(filepath.Dir(p), 0o755)
		os.WriteFile(p, []byte(it.src), 0o644)
		cmd := exec.Command(bin, "generate", "-path", root, "-f", p, "-include-version=false")
		cmd.Env = append(os.Environ(), "NO_COLOR=1")
		err := cmd.Run()
		got, rerr := os.ReadFile(strings.TrimSuffix(p, ".templ") + "_templ.go")
		good := code == code2 && stage == stage2
		if stage == "ok" {
			good = good && err == nil && rerr == nil && string(got) == code
		} else {
			good = good && err != nil && rerr != nil
		}
		if !good && ok {
			ok = false
			detail = fmt.Sprintf("%s (%s): single-file command err=%v, output equal=%v", it.rel, stage, err, string(got) == code)
		}
		c.Count("")
		os.RemoveAll(filepath.Dir(root))
	}
	c.Hist(fmt.Sprintf("oracle contract files: %d", len(items)))
	c.Oblige("contract", "generate oracle: deterministic, and equal to `templ generate -f` run on the file alone (same relative path)", ok, detail)
}

// exhaustiveTrees: every combination of one template slot (absent / fine / unparseable / gofmt-rejected), its sibling
// (absent / stale or up to date x older, same age, newer), an orphan (absent / present), in the root, an ordinary
// directory, a skipped directory, a directory below a skipped one.
func exhaustiveTrees(base int64, all bool) []fixed {
	ok := "package p\n\ntempl T(s string) {\n\t<p>{ s }</p>\n}\n"
	srcs := []string{"", ok, "package p\n\ntempl T( {\n", "package p\n\nfunc broken( {\n\ntempl T() {\n<p>x</p>\n}\n"}
	locs := []string{"", "_x"}
	if all {
		locs = []string{"", "sub", "_x", "vendor/in", "node_modules", ".h/a/b"}
	}
	t := func(s int) mtime { return ns(base + int64(s)*1e9) }
	var out []fixed
	for _, loc := range locs {
		var dirs []ent
		acc := ""
		if loc != "" {
			for _, part := range strings.Split(loc, "/") {
				acc = join(acc, part)
				dirs = append(dirs, ent{Path: acc, Dir: true})
			}
		}
		for si, src := range srcs {
			// 0 absent; then older/same age/newer of: 1-3 short garbage; 4-6 up to date; 7-9 much longer garbage;
			// 10-12 previous generation of a longer template; 13-15 previous generation of a shorter template
			// 16 a non-empty directory at the output path
			for sib := 0; sib < 17; sib++ {
				if sib >= 4 && sib <= 6 && si != 1 {
					continue
				}
				for orphan := 0; orphan < 2; orphan++ {
					ents := append([]ent{}, dirs...)
					tp := join(loc, "a.templ")
					if si > 0 {
						ents = append(ents, ent{Path: tp, Content: src, Mtime: t(100)})
					}
					if sib == 16 {
						ents = append(ents, blockEnts(join(loc, "a_templ.go"), base)...)
					} else if sib > 0 {
						content := siblingContent([]int{1, 0, 2, 3, 4}[(sib-1)/3], tp, src, "x")
						ents = append(ents, ent{Path: join(loc, "a_templ.go"), Content: content, Mtime: t(100 + ((sib-1)%3-1)*50)})
					}
					if orphan == 1 {
						ents = append(ents, ent{Path: join(loc, "b_templ.go"), Content: "// orphan\npackage p\n", Mtime: t(70)})
					}
					ents = append(ents, ent{Path: join(loc, "keep.go"), Content: "package p\n", Mtime: t(60)})
					sort.Slice(ents, func(i, j int) bool { return ents[i].Path < ents[j].Path })
					out = append(out, fixed{"proj", ents})
				}
			}
		}
	}
	return out
}

type fixed struct {
	Root string
	Ents []ent
}

// spellingTrees: small trees with templates at depth 0..3, with and without expressions (generated code mentions the
// template's file name only for expressions), a skipped directory, an orphan and a file that is not a template.
func spellingTrees(base int64) []fixed {
	expr := "package p\n\ntempl T(s string) {\n\t<p>{ s }</p>\n}\n"
	attr := "package p\n\ntempl E(name string) {\n\t<input value={ name }/>\n}\n"
	plain := "package p\n\ntempl S() {\n\t<p>static</p>\n}\n"
	t := func(s int) mtime { return ns(base + int64(s)*1e9) }
	return []fixed{
		{"proj", []ent{{Path: "home.templ", Content: expr, Mtime: t(10)}, {Path: "static.templ", Content: plain, Mtime: t(10)},
			{Path: "views", Dir: true}, {Path: "views/list.templ", Content: expr, Mtime: t(11)},
			{Path: "views/admin", Dir: true}, {Path: "views/admin/users", Dir: true}, {Path: "views/admin/users/edit.templ", Content: attr, Mtime: t(12)},
			{Path: "views/admin/old_templ.go", Content: "// orphan\npackage p\n", Mtime: t(3)},
			{Path: "vendor", Dir: true}, {Path: "vendor/skipped.templ", Content: expr, Mtime: t(10)}, {Path: "main.go", Content: "package main\n", Mtime: t(2)}}},
		{"my-app", []ent{{Path: "ui", Dir: true}, {Path: "ui/a.templ", Content: attr, Mtime: t(10)}, {Path: "ui/a_templ.go", Content: "// stale\npackage p\n", Mtime: t(5)},
			{Path: "ui/b.templ", Content: "package p\n\ntempl T( {\n", Mtime: t(10)}}},
		{"_site", []ent{{Path: "a.templ", Content: expr, Mtime: t(10)}, {Path: "d1", Dir: true}, {Path: "d1/sub", Dir: true}, {Path: "d1/sub/x.templ", Content: expr, Mtime: t(10)}}},
	}
}

// pathContract: the model's filepath.Clean / filepath.Rel (absolute paths) and generator.WithFileName against the real
// functions: every absolute path of up to four components over {"", ".", "..", "a", "b", "a.b"}, with and without a
// trailing slash; Rel on pairs of them; WithFileName through the FileName literal of generated code.
func pathContract(c *core.Ctx) {
	comps := []string{"", ".", "..", "a", "b", "a.b"}
	paths := []string{"/"}
	var gen func(p string, n int)
	gen = func(p string, n int) {
		if n == 0 {
			return
		}
		for _, x := range comps {
			q := p + "/" + x
			paths = append(paths, q)
			gen(q, n-1)
		}
	}
	gen("", 4)
	var reqs []drv.Req
	for _, p := range paths {
		reqs = append(reqs, drv.Req{Fn: "clean", Args: [][]byte{[]byte(p)}})
	}
	type pair struct{ a, b string }
	var pairs []pair
	for i := 0; i < 1500; i++ {
		a, b := rng.Pick(c.Rng, paths), rng.Pick(c.Rng, paths)
		if i%3 == 0 { // the second below the first, as in the command
			b = a + "/" + rng.Pick(c.Rng, []string{"x.templ", "a/x.templ", "a/b/x.templ", "../a"})
		}
		pairs = append(pairs, pair{a, b})
		reqs = append(reqs, drv.Req{Fn: "rel", Args: [][]byte{[]byte(a), []byte(b)}})
	}
	names := []string{"a.templ", "views/a.templ", "views/admin/users/edit.templ", "/srv/app/views/a.templ", "/a.templ", "/", "", "../a.templ", "./a.templ", "a//b.templ", "/srv/app/", "Ü/é.templ", "a b/c.templ"}
	for _, n := range names {
		reqs = append(reqs, drv.Req{Fn: "wfn", Args: [][]byte{[]byte(n)}})
	}
	res := c.Model(reqs)
	ok, detail := true, ""
	bad := func(d string) {
		if ok {
			ok, detail = false, d
		}
	}
	for i, p := range paths {
		if want := filepath.Clean(p); len(res[i]) != 1 || string(res[i][0]) != want {
			bad(fmt.Sprintf("Clean(%q) = %q, model %q", p, want, res[i]))
		}
		c.Count("")
	}
	for i, pr := range pairs {
		want, err := filepath.Rel(pr.a, pr.b)
		if r := res[len(paths)+i]; err != nil || len(r) != 1 || string(r[0]) != want {
			bad(fmt.Sprintf("Rel(%q, %q) = %q (%v), model %q", pr.a, pr.b, want, err, r))
		}
		c.Count("")
	}
	tf, err := parser.ParseString("package p\n\ntempl T(s string) {\n\t<p>{ s }</p>\n}\n")
	for i, n := range names {
		var b bytes.Buffer
		if err == nil {
			_, err = generator.Generate(tf, &b, generator.WithFileName(n))
		}
		got := fileNames(b.String())
		if r := res[len(paths)+len(pairs)+i]; err != nil || len(got) != 1 || len(r) != 1 || string(r[0]) != got[0] {
			bad(fmt.Sprintf("WithFileName(%q): generated code carries %q (%v), model %q", n, got, err, r))
		}
		c.Count("")
	}
	c.Hist(fmt.Sprintf("path contract: %d absolute paths cleaned, %d Rel pairs, %d file names", len(paths), len(pairs), len(names)))
	c.Oblige("contract", "path/filepath as modelled (model/RootPath.v): clean = filepath.Clean and rel = filepath.Rel on absolute paths with empty, \".\" and \"..\" components, with_file_name = generator.WithFileName as seen in the generated code", ok, detail)
}

type hfixed struct {
	Root  string
	Ents  []ent
	Edits []edit
}

// historyFixed: generate, then shorten / lengthen / break / delete the template, generate again.
func historyFixed(base int64) []hfixed {
	t := ns(base + 50e9)
	var out []hfixed
	for _, first := range []string{templLong, templShort} {
		for _, ed := range []edit{{Path: "a.templ", Content: templShort}, {Path: "a.templ", Content: templLong}, {Path: "a.templ", Content: "package p\n\ntempl T( {\n"}, {Path: "a.templ", Delete: true}} {
			out = append(out, hfixed{"proj", []ent{{Path: "a.templ", Content: first, Mtime: t}, {Path: "b.templ", Content: templShort, Mtime: t}}, []edit{ed}})
		}
	}
	return out
}

func fixedTrees(base int64) []fixed {
	ok := "package p\n\ntempl T() {\n\t<p>x</p>\n}\n"
	bad := "package p\n\ntempl T( {\n"
	fmtbad := "package p\n\nfunc broken( {\n\ntempl T() {\n<p>x</p>\n}\n"
	stale := "// stale\npackage p\n"
	t := func(s int) mtime { return ns(base + int64(s)*1e9) }
	up := func(rel, src string) string { code, _ := oracle(rel, src); return code }
	return []fixed{
		{"proj", []ent{{Path: "a.templ", Content: ok, Mtime: t(10)}}},
		{"proj", []ent{{Path: "a.templ", Content: bad, Mtime: t(10)}, {Path: "b.templ", Content: ok, Mtime: t(11)}}},
		{"proj", []ent{{Path: "a.templ", Content: fmtbad, Mtime: t(10)}, {Path: "b.templ", Content: ok, Mtime: t(11)}, {Path: "b_templ.go", Content: stale, Mtime: t(5)}}},
		{"proj", []ent{{Path: "old_templ.go", Content: stale, Mtime: t(10)}, {Path: "main.go", Content: "package main\n", Mtime: t(11)}}},
		{"proj", []ent{{Path: "a.templ", Content: ok, Mtime: t(10)}, {Path: "a_templ.go", Content: up("a.templ", ok), Mtime: t(20)}}},
		{"proj", []ent{{Path: "a.templ", Content: ok, Mtime: t(10)}, {Path: "a_templ.go", Content: up("a.templ", ok), Mtime: t(10)}}},
		{"proj", []ent{{Path: "a.templ", Content: ok, Mtime: t(10)}, {Path: "a_templ.go", Content: stale, Mtime: t(9)}}},
		{"proj", []ent{{Path: "vendor", Dir: true}, {Path: "vendor/v.templ", Content: ok, Mtime: t(10)}, {Path: "vendor/o_templ.go", Content: stale, Mtime: t(10)},
			{Path: "_x", Dir: true}, {Path: "_x/v.templ", Content: ok, Mtime: t(10)}, {Path: ".y", Dir: true}, {Path: ".y/v.templ", Content: ok, Mtime: t(10)},
			{Path: "node_modules", Dir: true}, {Path: "node_modules/v.templ", Content: bad, Mtime: t(10)},
			{Path: "vendors", Dir: true}, {Path: "vendors/v.templ", Content: ok, Mtime: t(10)}, {Path: "x_", Dir: true}, {Path: "x_/v.templ", Content: ok, Mtime: t(10)}}},
		{"proj", []ent{{Path: "_u.templ", Content: ok, Mtime: t(10)}, {Path: ".h.templ", Content: ok, Mtime: t(10)}, {Path: ".templ", Content: ok, Mtime: t(10)}, {Path: "a_templ.txt", Content: "txt", Mtime: t(3)}}},
		{"proj", []ent{{Path: "a", Dir: true}, {Path: "a/b", Dir: true}, {Path: "a/b/c", Dir: true}, {Path: "a/b/c/d", Dir: true}, {Path: "a/b/c/d/x.templ", Content: ok, Mtime: t(10)},
			{Path: "a/x.templ", Content: ok, Mtime: t(10)}, {Path: "a.go", Content: "package p\n", Mtime: t(1)}, {Path: "a/b/gone_templ.go", Content: stale, Mtime: t(1)}}},
		{"_site", []ent{{Path: "a.templ", Content: ok, Mtime: t(10)}}},
		{"vendor", []ent{{Path: "a.templ", Content: ok, Mtime: t(10)}, {Path: "old_templ.go", Content: stale, Mtime: t(10)}}},
	}
}
