package tgen

import (
	"fmt"

	"github.com/a-h/templ"

	"verifharness/internal/rng"
)

// on* attribute vocabulary of the fragment grammar: scripts with an empty definition (helper scr in Helpers)
var FragScriptExprs = []string{`scr("a")`, `scr(s0)`, `scr(s1)`}

// FragScriptCallVal: the Call string of a script expression of the vocabulary (what the on* attribute writes).
func FragScriptCallVal(x string, a Args) (string, bool) {
	switch x {
	case `scr("a")`:
		return templ.SafeScript("scr", "a"), true
	case `scr(s0)`:
		return templ.SafeScript("scr", a.S0), true
	case `scr(s1)`:
		return templ.SafeScript("scr", a.S1), true
	}
	return "", false
}

// Fragment grammar (Opts.Fragment): exactly the node and attribute kinds coq/model/IrFragPrint.v's to_frag accepts -
// text, string expressions (incl. (string, error) calls), inline/block/void elements, raw <style> elements, script
// elements with {{ }}, doctype, HTML and Go comments, raw Go code, if/else-if/else, for, switch, calls with and without
// blocks of later templates of the file, of Card (which renders { children... }) and of the hand-written components
// wrap() / ignore() / templ.Raw / c0, the children slot, legacy {! } calls, calls with multi-line arguments; constant,
// boolean-constant, boolean-expression, conditional, spread and expression attributes of every sink (default, URL, style,
// on* with empty-definition scripts, class lists), single- and multi-line expressions.  No once handles / templ.Flush().

func (g *G) fragAttr(el string, depth int) string {
	switch g.r.Intn(16) {
	case 10:
		if el == "a" {
			return fmt.Sprintf(`href={ templ.URL(%s) }`, rng.Pick(g.r, []string{"s0", "s1", `"/p?" + s0`}))
		}
		return fmt.Sprintf(`data-u={ %s }`, g.strExpr())
	case 11:
		return rng.Pick(g.r, []string{`style={ "color:red" }`, `style={ s1 }`, `style={ map[string]string{"color": s0} }`})
	case 12:
		return "{ at... }"
	case 13:
		return fmt.Sprintf(`%s={ %s }`, rng.Pick(g.r, []string{"onclick", "onfocus", "hx-on:click"}), rng.Pick(g.r, FragScriptExprs))
	case 14:
		if g.o.Layout {
			// an expression spanning two lines (printed in place by printer.attrs)
			return fmt.Sprintf("data-m={ %s +\n\ts1 }", rng.Pick(g.r, []string{"s0", `"é"`, `"😀"`}))
		}
		return `data-x="1"`
	case 15:
		if g.o.Layout {
			return "class={\n\t\"k1\",\n\ttempl.KV(\"k2\", b0),\n}"
		}
		return `lang="en"`
	case 0:
		return rng.Pick(g.r, []string{`class="c1 c2"`, `id="i1"`, `data-x="1"`, `title="a &amp; b"`, `title='sq'`, `lang="en"`, `alt=""`, `data-e="x&#34;y"`})
	case 1:
		return rng.Pick(g.r, []string{"hidden", "disabled", "data-flag"})
	case 2:
		return fmt.Sprintf(`title={ %s }`, g.strExpr())
	case 3:
		return fmt.Sprintf(`%s?={ %s }`, rng.Pick(g.r, []string{"disabled", "hidden", "checked"}), g.boolExpr())
	case 4, 5:
		if depth > 0 {
			th := g.fragAttr(el, depth-1)
			switch g.r.Intn(3) {
			case 0:
				return fmt.Sprintf("if %s {\n%s\n}", g.boolExpr(), th)
			case 1:
				return fmt.Sprintf("if %s {\n%s\n%s\n}", g.boolExpr(), th, g.fragAttr(el, depth-1))
			default:
				return fmt.Sprintf("if %s {\n%s\n} else {\n%s\n}", g.boolExpr(), th, g.fragAttr(el, depth-1))
			}
		}
		return `data-y="2"`
	case 6:
		return rng.Pick(g.r, []string{`class={ "k1", templ.KV("k2", b0) }`, `class={ s0 }`, `class={ templ.Classes("a", s1) }`, `class={ "z" }`})
	case 7:
		return fmt.Sprintf(`aria-label={ %s }`, g.strExpr())
	case 8:
		return fmt.Sprintf(`data-u={ %s }`, g.strExpr())
	default:
		return fmt.Sprintf(`data-k={ %s }`, g.strExpr())
	}
}

func (g *G) fragNode(depth int) *node {
	leaf := depth <= 0
	k := g.r.Intn(100)
	switch {
	case k < 18:
		return &node{kind: "text", text: g.textRun()}
	case k < 32:
		return &node{kind: "expr", text: g.strExpr()}
	case k < 44 && !leaf:
		el := rng.Pick(g.r, inlineEls)
		return &node{kind: "elem", name: el, attrs: g.attrs(el), children: g.nodes(depth - 1), multi: g.r.Intn(3) == 0}
	case k < 56 && !leaf:
		el := rng.Pick(g.r, blockEls)
		return &node{kind: "elem", name: el, attrs: g.attrs(el), children: g.nodes(depth - 1), multi: g.r.Intn(3) != 0}
	case k < 62:
		el := rng.Pick(g.r, voidEls)
		return &node{kind: "void", name: el, attrs: g.attrs(el), multi: g.r.Bool()}
	case k < 70 && !leaf:
		n := &node{kind: "if", conds: []string{g.boolExpr()}, children: g.nodes(depth - 1)}
		for g.r.Intn(3) == 0 {
			n.conds = append(n.conds, g.boolExpr())
			n.elifs = append(n.elifs, g.nodes(depth-1))
		}
		if g.r.Bool() {
			n.els = g.nodes(depth - 1)
			if len(n.els) == 0 {
				n.els = []*node{{kind: "text", text: "else-branch"}}
			}
		}
		return n
	case k < 77 && !leaf:
		g.inFor++
		n := &node{kind: "for", children: g.nodes(depth - 1)}
		g.inFor--
		use := &node{kind: "expr", text: "x"}
		if g.r.Intn(4) == 0 {
			use = &node{kind: "gocode", text: "_ = x"}
		}
		at := g.r.Intn(len(n.children) + 1)
		n.children = append(n.children[:at:at], append([]*node{use}, n.children[at:]...)...)
		return n
	case k < 82 && !leaf:
		n := &node{kind: "switch", text: "s0"}
		nc := 1 + g.r.Intn(3)
		for i := 0; i < nc; i++ {
			n.conds = append(n.conds, fmt.Sprintf("case %q:", rng.Pick(g.r, []string{"a", "b", "ERR", "<"})+fmt.Sprint(i)))
			n.elifs = append(n.elifs, g.nodes(depth-1))
		}
		if g.r.Bool() {
			n.conds = append(n.conds, "default:")
			n.elifs = append(n.elifs, g.nodes(depth-1))
		}
		return n
	case k < 88 && g.o.Calls && g.tIndex+1 < g.nT:
		callee := fmt.Sprintf("%sT%d", g.o.Prefix, g.tIndex+1+g.r.Intn(g.nT-g.tIndex-1))
		return &node{kind: "call", text: callee + CallArgs}
	case k < 89:
		return &node{kind: "gocode", text: rng.Pick(g.r, []string{"_ = len(xs)\n_ = s1", "_ = s0", "_, _ = s0, b0"})}
	case k < 91:
		return &node{kind: "comment", text: rng.Pick(g.r, []string{" a comment ", "x", " multi\n line ", ""})}
	case k < 92:
		return &node{kind: "gocomment", text: rng.Pick(g.r, []string{" go comment", "TODO"})}
	case k < 98:
		switch g.r.Intn(8) {
		case 0:
			return &node{kind: "script", text: rng.Pick(g.r, []string{"var a = 1;", "const v = {{ s0 }};", "let s = '{{ s1 }}';\nlet t = \"{{ s0 }}\";", "f({{ xs }}, `{{ s0 }}`);"})}
		case 1:
			if g.children {
				return &node{kind: "children"}
			}
			return &node{kind: "call", text: "c0"}
		case 2:
			return &node{kind: "call", text: rng.Pick(g.r, []string{"wrap()", "ignore()", `templ.Raw("<r>")`, "c0"})}
		case 3:
			if g.o.Layout {
				return &node{kind: "legacycall", text: rng.Pick(g.r, []string{"c0", g.o.Prefix + "Card" + CallArgs, "ignore()"})}
			}
			return &node{kind: "call", text: g.o.Prefix + "Card" + CallArgs}
		case 4, 5:
			if leaf {
				return &node{kind: "call", text: g.o.Prefix + "Card" + CallArgs}
			}
			callee := rng.Pick(g.r, []string{"wrap()", "wrap()", "ignore()", `templ.Raw("<r>")`, g.o.Prefix + "Card" + CallArgs, g.o.Prefix + "Card" + CallArgs})
			if g.tIndex+1 < g.nT && g.r.Bool() {
				callee = fmt.Sprintf("%sT%d", g.o.Prefix, g.tIndex+1+g.r.Intn(g.nT-g.tIndex-1)) + CallArgs
			}
			return &node{kind: "callblock", text: callee, children: g.nodes(depth - 1)}
		case 6:
			if !leaf && g.o.Layout {
				return &node{kind: "callinline", text: g.o.Prefix + "Card(s0,\n\ts1, b0, b1, xs, c0, at)", children: []*node{{kind: "expr", text: g.strExpr()}}}
			}
			return &node{kind: "call", text: g.o.Prefix + "Card" + CallArgs}
		default:
			return &node{kind: "raw", name: "style", text: rng.Pick(g.r, []string{"p { color: red; }", "\n.a > .b { margin: 0 }\n", ""})}
		}
	default:
		return &node{kind: "text", text: g.textRun()}
	}
}
