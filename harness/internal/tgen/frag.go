package tgen

import (
	"fmt"

	"verifharness/internal/rng"
)

// Fragment grammar (Opts.Fragment): exactly the node and attribute kinds coq/model/IrFragPrint.v's to_frag accepts -
// text, string expressions (incl. (string, error) calls), inline/block/void elements, raw <style> elements, doctype,
// HTML and Go comments, raw Go code, if/else-if/else, for, switch, calls without blocks of later templates of the
// file; constant, boolean-constant, string-expression (default sink), boolean-expression, class-expression and
// conditional attributes.  No children slot, no spread/URL/style/on* attributes, no hand-written components.

func (g *G) fragAttr(el string, depth int) string {
	switch g.r.Intn(10) {
	case 0:
		return rng.Pick(g.r, []string{`class="c1 c2"`, `id="i1"`, `data-x="1"`, `title="a &amp; b"`, `title='sq'`, `lang="en"`, `alt=""`, `data-e="x&#34;y"`})
	case 1:
		return rng.Pick(g.r, []string{"hidden", "disabled", "data-flag"})
	case 2:
		return fmt.Sprintf(`title={ %s }`, g.strExpr())
	case 3:
		return fmt.Sprintf(`%s?={ %s }`, rng.Pick(g.r, []string{"disabled", "hidden", "checked"}), g.boolExpr())
	case 4, 5:
		if depth > 0 {
			th := g.fragAttr(el, depth-1)
			switch g.r.Intn(3) {
			case 0:
				return fmt.Sprintf("if %s {\n%s\n}", g.boolExpr(), th)
			case 1:
				return fmt.Sprintf("if %s {\n%s\n%s\n}", g.boolExpr(), th, g.fragAttr(el, depth-1))
			default:
				return fmt.Sprintf("if %s {\n%s\n} else {\n%s\n}", g.boolExpr(), th, g.fragAttr(el, depth-1))
			}
		}
		return `data-y="2"`
	case 6:
		return rng.Pick(g.r, []string{`class={ "k1", templ.KV("k2", b0) }`, `class={ s0 }`, `class={ templ.Classes("a", s1) }`, `class={ "z" }`})
	case 7:
		return fmt.Sprintf(`aria-label={ %s }`, g.strExpr())
	case 8:
		return fmt.Sprintf(`data-u={ %s }`, g.strExpr())
	default:
		return fmt.Sprintf(`data-k={ %s }`, g.strExpr())
	}
}

func (g *G) fragNode(depth int) *node {
	leaf := depth <= 0
	k := g.r.Intn(100)
	switch {
	case k < 18:
		return &node{kind: "text", text: g.textRun()}
	case k < 32:
		return &node{kind: "expr", text: g.strExpr()}
	case k < 44 && !leaf:
		el := rng.Pick(g.r, inlineEls)
		return &node{kind: "elem", name: el, attrs: g.attrs(el), children: g.nodes(depth - 1), multi: g.r.Intn(3) == 0}
	case k < 56 && !leaf:
		el := rng.Pick(g.r, blockEls)
		return &node{kind: "elem", name: el, attrs: g.attrs(el), children: g.nodes(depth - 1), multi: g.r.Intn(3) != 0}
	case k < 62:
		el := rng.Pick(g.r, voidEls)
		return &node{kind: "void", name: el, attrs: g.attrs(el), multi: g.r.Bool()}
	case k < 70 && !leaf:
		n := &node{kind: "if", conds: []string{g.boolExpr()}, children: g.nodes(depth - 1)}
		for g.r.Intn(3) == 0 {
			n.conds = append(n.conds, g.boolExpr())
			n.elifs = append(n.elifs, g.nodes(depth-1))
		}
		if g.r.Bool() {
			n.els = g.nodes(depth - 1)
			if len(n.els) == 0 {
				n.els = []*node{{kind: "text", text: "else-branch"}}
			}
		}
		return n
	case k < 77 && !leaf:
		g.inFor++
		n := &node{kind: "for", children: g.nodes(depth - 1)}
		g.inFor--
		use := &node{kind: "expr", text: "x"}
		if g.r.Intn(4) == 0 {
			use = &node{kind: "gocode", text: "_ = x"}
		}
		at := g.r.Intn(len(n.children) + 1)
		n.children = append(n.children[:at:at], append([]*node{use}, n.children[at:]...)...)
		return n
	case k < 82 && !leaf:
		n := &node{kind: "switch", text: "s0"}
		nc := 1 + g.r.Intn(3)
		for i := 0; i < nc; i++ {
			n.conds = append(n.conds, fmt.Sprintf("case %q:", rng.Pick(g.r, []string{"a", "b", "ERR", "<"})+fmt.Sprint(i)))
			n.elifs = append(n.elifs, g.nodes(depth-1))
		}
		if g.r.Bool() {
			n.conds = append(n.conds, "default:")
			n.elifs = append(n.elifs, g.nodes(depth-1))
		}
		return n
	case k < 88 && g.o.Calls && g.tIndex+1 < g.nT:
		callee := fmt.Sprintf("%sT%d", g.o.Prefix, g.tIndex+1+g.r.Intn(g.nT-g.tIndex-1))
		return &node{kind: "call", text: callee + CallArgs}
	case k < 91:
		return &node{kind: "gocode", text: rng.Pick(g.r, []string{"_ = len(xs)\n_ = s1", "_ = s0", "_, _ = s0, b0"})}
	case k < 94:
		return &node{kind: "comment", text: rng.Pick(g.r, []string{" a comment ", "x", " multi\n line ", ""})}
	case k < 96:
		return &node{kind: "gocomment", text: rng.Pick(g.r, []string{" go comment", "TODO"})}
	case k < 98:
		return &node{kind: "raw", name: "style", text: rng.Pick(g.r, []string{"p { color: red; }", "\n.a > .b { margin: 0 }\n", ""})}
	default:
		return &node{kind: "text", text: g.textRun()}
	}
}
