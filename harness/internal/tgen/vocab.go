package tgen

import (
	"fmt"
	"html"
	"sort"
	"strconv"
	"strings"

	"github.com/a-h/templ"
	templruntime "github.com/a-h/templ/runtime"
)

// Args is one argument tuple for a probe template (c0 is always templ.NopComponent).
type Args struct {
	S0, S1 string
	B0, B1 bool
	Xs     []string
	At     int // index into AttrSets
}

func strp(s string) *string { return &s }
func boolp(b bool) *bool    { return &b }

// AttrSets must stay identical to attrSets in probe.mainSrc (the compiled probe uses the same values).
var AttrSets = []templ.Attributes{
	{},
	{"data-a": "1", "hidden": true, "skip": false},
	{"title": `q"<&'`, "p": (*string)(nil), "kv": templ.KV("v", true), "kb": templ.KV(true, false)},
	{"a1": templ.KV(false, true), "a2": templ.KV(true, true), "a3": templ.KV(false, false), "a4": templ.KV("x<y", false), "a5": templ.KV("", true)},
	{"b1": boolp(true), "b2": boolp(false), "b3": (*bool)(nil), "b4": strp("s&t"), "b5": func() bool { return true }, "b6": func() bool { return false }, "b7": 42},
}

func errStr(s string) (string, bool) {
	if s == "ERR" {
		return "", false
	}
	return s, true
}

// StrVal evaluates a string expression of the vocabulary; ok=false: the expression returns an error; known=false: not a string expression.
func StrVal(x string, a Args, loopX *string) (v string, ok bool, known bool) {
	switch x {
	case "s0":
		return a.S0, true, true
	case "s1":
		return a.S1, true, true
	case `"lit"`:
		return "lit", true, true
	case `s0 + "-" + s1`:
		return a.S0 + "-" + a.S1, true, true
	case "errStr(s1)":
		v, ok := errStr(a.S1)
		return v, ok, true
	case "errStr(s0)":
		v, ok := errStr(a.S0)
		return v, ok, true
	case `fmt.Sprint(len(xs))`:
		return fmt.Sprint(len(a.Xs)), true, true
	case `"é" + s0`:
		return "é" + a.S0, true, true
	case `"😀" + s1`:
		return "😀" + a.S1, true, true
	case `s0 + s1`:
		return a.S0 + a.S1, true, true
	case `"é" + s1`:
		return "é" + a.S1, true, true
	case `"😀" + s1 `:
		return "😀" + a.S1, true, true
	case "templ.URL(s0)":
		return string(templ.URL(a.S0)), true, true
	case "templ.URL(s1)":
		return string(templ.URL(a.S1)), true, true
	case `templ.URL("/p?" + s0)`:
		return string(templ.URL("/p?" + a.S0)), true, true
	}
	if loopX != nil {
		switch x {
		case "x":
			return *loopX, true, true
		case `x + "!"`:
			return *loopX + "!", true, true
		}
	}
	return "", false, false
}

func BoolVal(x string, a Args) (bool, bool) {
	switch x {
	case "b0":
		return a.B0, true
	case "b1":
		return a.B1, true
	case "!b0":
		return !a.B0, true
	case "b0 && b1":
		return a.B0 && a.B1, true
	case "len(xs) > 1":
		return len(a.Xs) > 1, true
	case `s0 == "a"`:
		return a.S0 == "a", true
	case "b0 || b1":
		return a.B0 || a.B1, true
	}
	return false, false
}

// ClassVal: the string templ.CSSClasses(<expr list>).String() yields for a class expression of the vocabulary.
func ClassVal(x string, a Args) (string, bool) {
	var items []any
	switch x {
	case `"k1", templ.KV("k2", b0)`:
		items = []any{"k1", templ.KV("k2", a.B0)}
	case "s0":
		items = []any{a.S0}
	case `templ.Classes("a", s1)`:
		items = []any{templ.Classes("a", a.S1)}
	case `"z"`:
		items = []any{"z"}
	default:
		return "", false
	}
	return templ.CSSClasses(items).String(), true
}

// StyleVal: what templruntime.SanitizeStyleAttributeValues returns for a style expression of the vocabulary.
func StyleVal(x string, a Args) (string, bool) {
	var v any
	switch x {
	case `"color:red"`:
		v = "color:red"
	case "s1":
		v = a.S1
	case `map[string]string{"color": s0}`:
		v = map[string]string{"color": a.S0}
	default:
		return "", false
	}
	s, err := templruntime.SanitizeStyleAttributeValues(v)
	if err != nil {
		return "", false
	}
	return s, true
}

// SpreadVal is an INDEPENDENT oracle of what a spread attribute map denotes (it does not call templ.RenderAttributes):
// keys in sorted order; a string value gives key="value"; a boolean gives the bare key iff true; nil pointers and
// unsupported values give nothing; KV(string, bool) gives key="string" iff the bool; KV(bool, bool) the bare key iff both.
func SpreadVal(a Args) string {
	m := AttrSets[a.At]
	var keys []string
	for k := range m {
		keys = append(keys, k)
	}
	sort.Strings(keys)
	var sb strings.Builder
	pair := func(k, v string) { sb.WriteString(" " + html.EscapeString(k) + "=\"" + html.EscapeString(v) + "\"") }
	bare := func(k string, on bool) {
		if on {
			sb.WriteString(" " + html.EscapeString(k))
		}
	}
	for _, k := range keys {
		switch v := m[k].(type) {
		case string:
			pair(k, v)
		case *string:
			if v != nil {
				pair(k, *v)
			}
		case bool:
			bare(k, v)
		case *bool:
			bare(k, v != nil && *v)
		case templ.KeyValue[string, bool]:
			if v.Value {
				pair(k, v.Key)
			}
		case templ.KeyValue[bool, bool]:
			bare(k, v.Key && v.Value)
		case func() bool:
			bare(k, v())
		}
	}
	return sb.String()
}

// ScriptVal: the runtime's encoding of a Go value placed in a <script> element.
func ScriptVal(x string, inside bool, a Args) (string, bool) {
	var v any
	switch x {
	case "s0":
		v = a.S0
	case "s1":
		v = a.S1
	case "xs":
		v = a.Xs
	default:
		return "", false
	}
	var s string
	var err error
	if inside {
		s, err = templruntime.ScriptContentInsideStringLiteral(v)
	} else {
		s, err = templruntime.ScriptContentOutsideStringLiteral(v)
	}
	return s, err == nil
}

// SwitchIndex: which case of `switch s0 { case "..": ... default: }` is selected (len(cases) = none).
func SwitchIndex(caseExprs []string, a Args) int {
	def := len(caseExprs)
	for i, c := range caseExprs {
		c = strings.TrimSpace(c)
		if strings.HasPrefix(c, "default") {
			def = i
			continue
		}
		lit := strings.TrimSuffix(strings.TrimSpace(strings.TrimPrefix(c, "case")), ":")
		if u, err := strconv.Unquote(strings.TrimSpace(lit)); err == nil && u == a.S0 {
			return i
		}
	}
	return def
}

var StrPool = []string{"", "a", "a<b", "x&y", `"q"`, "it's", "</div>", " sp ", "é\x00ü", "<script>alert(1)</script>", "ERR", "javascript:alert(1)", "a0", "b1", "<2", "color:blue;x:y", "\xff\xfe"}

var StrExprs = []string{`"😀" + s1`, `s0 + s1`, `"é" + s1`, "s0", "s1", `"lit"`, `s0 + "-" + s1`, "errStr(s1)", "errStr(s0)", `fmt.Sprint(len(xs))`, `"é" + s0`, "templ.URL(s0)", "templ.URL(s1)", `templ.URL("/p?" + s0)`}
var LoopStrExprs = []string{"x", `x + "!"`}
var BoolExprs = []string{"b0", "b1", "!b0", "b0 && b1", "len(xs) > 1", `s0 == "a"`, "b0 || b1"}
var ClassExprs = []string{`"k1", templ.KV("k2", b0)`, "s0", `templ.Classes("a", s1)`, `"z"`}
var StyleExprs = []string{`"color:red"`, "s1", `map[string]string{"color": s0}`}
var ScriptExprs = []string{"s0", "s1", "xs"}

const ForExpr = "_, x := range xs"
