package tgen

import (
	"bytes"
	"context"
	"fmt"
	"strconv"
	"strings"

	"github.com/a-h/templ"
	templruntime "github.com/a-h/templ/runtime"
)

// Args is one argument tuple for a probe template (c0 is always templ.NopComponent).
type Args struct {
	S0, S1 string
	B0, B1 bool
	Xs     []string
	At     int // index into AttrSets
}

var AttrSets = []templ.Attributes{
	{},
	{"data-a": "1", "hidden": true, "skip": false},
	{"title": `q"<&'`, "p": (*string)(nil), "kv": templ.KV("v", true), "kb": templ.KV(true, false)},
}

func errStr(s string) (string, bool) {
	if s == "ERR" {
		return "", false
	}
	return s, true
}

// StrVal evaluates a string expression of the vocabulary; ok=false: the expression returns an error; known=false: not a string expression.
func StrVal(x string, a Args, loopX *string) (v string, ok bool, known bool) {
	switch x {
	case "s0":
		return a.S0, true, true
	case "s1":
		return a.S1, true, true
	case `"lit"`:
		return "lit", true, true
	case `s0 + "-" + s1`:
		return a.S0 + "-" + a.S1, true, true
	case "errStr(s1)":
		v, ok := errStr(a.S1)
		return v, ok, true
	case "errStr(s0)":
		v, ok := errStr(a.S0)
		return v, ok, true
	case `fmt.Sprint(len(xs))`:
		return fmt.Sprint(len(a.Xs)), true, true
	case `"é" + s0`:
		return "é" + a.S0, true, true
	case "templ.URL(s0)":
		return string(templ.URL(a.S0)), true, true
	case "templ.URL(s1)":
		return string(templ.URL(a.S1)), true, true
	case `templ.URL("/p?" + s0)`:
		return string(templ.URL("/p?" + a.S0)), true, true
	}
	if loopX != nil {
		switch x {
		case "x":
			return *loopX, true, true
		case `x + "!"`:
			return *loopX + "!", true, true
		}
	}
	return "", false, false
}

func BoolVal(x string, a Args) (bool, bool) {
	switch x {
	case "b0":
		return a.B0, true
	case "b1":
		return a.B1, true
	case "!b0":
		return !a.B0, true
	case "b0 && b1":
		return a.B0 && a.B1, true
	case "len(xs) > 1":
		return len(a.Xs) > 1, true
	case `s0 == "a"`:
		return a.S0 == "a", true
	case "b0 || b1":
		return a.B0 || a.B1, true
	}
	return false, false
}

// ClassVal: the string templ.CSSClasses(<expr list>).String() yields for a class expression of the vocabulary.
func ClassVal(x string, a Args) (string, bool) {
	var items []any
	switch x {
	case `"k1", templ.KV("k2", b0)`:
		items = []any{"k1", templ.KV("k2", a.B0)}
	case "s0":
		items = []any{a.S0}
	case `templ.Classes("a", s1)`:
		items = []any{templ.Classes("a", a.S1)}
	case `"z"`:
		items = []any{"z"}
	default:
		return "", false
	}
	return templ.CSSClasses(items).String(), true
}

// StyleVal: what templruntime.SanitizeStyleAttributeValues returns for a style expression of the vocabulary.
func StyleVal(x string, a Args) (string, bool) {
	var v any
	switch x {
	case `"color:red"`:
		v = "color:red"
	case "s1":
		v = a.S1
	case `map[string]string{"color": s0}`:
		v = map[string]string{"color": a.S0}
	default:
		return "", false
	}
	s, err := templruntime.SanitizeStyleAttributeValues(v)
	if err != nil {
		return "", false
	}
	return s, true
}

func SpreadVal(a Args) string {
	var b bytes.Buffer
	_ = templ.RenderAttributes(context.Background(), &b, AttrSets[a.At])
	return b.String()
}

// ScriptVal: the runtime's encoding of a Go value placed in a <script> element.
func ScriptVal(x string, inside bool, a Args) (string, bool) {
	var v any
	switch x {
	case "s0":
		v = a.S0
	case "s1":
		v = a.S1
	case "xs":
		v = a.Xs
	default:
		return "", false
	}
	var s string
	var err error
	if inside {
		s, err = templruntime.ScriptContentInsideStringLiteral(v)
	} else {
		s, err = templruntime.ScriptContentOutsideStringLiteral(v)
	}
	return s, err == nil
}

// SwitchIndex: which case of `switch s0 { case "..": ... default: }` is selected (len(cases) = none).
func SwitchIndex(caseExprs []string, a Args) int {
	def := len(caseExprs)
	for i, c := range caseExprs {
		c = strings.TrimSpace(c)
		if strings.HasPrefix(c, "default") {
			def = i
			continue
		}
		lit := strings.TrimSuffix(strings.TrimSpace(strings.TrimPrefix(c, "case")), ":")
		if u, err := strconv.Unquote(strings.TrimSpace(lit)); err == nil && u == a.S0 {
			return i
		}
	}
	return def
}

var StrPool = []string{"", "a", "a<b", "x&y", `"q"`, "it's", "</div>", " sp ", "é\x00ü", "<script>alert(1)</script>", "ERR", "javascript:alert(1)", "a0", "b1", "<2", "color:blue;x:y", "\xff\xfe"}

var StrExprs = []string{"s0", "s1", `"lit"`, `s0 + "-" + s1`, "errStr(s1)", "errStr(s0)", `fmt.Sprint(len(xs))`, `"é" + s0`, "templ.URL(s0)", "templ.URL(s1)", `templ.URL("/p?" + s0)`}
var LoopStrExprs = []string{"x", `x + "!"`}
var BoolExprs = []string{"b0", "b1", "!b0", "b0 && b1", "len(xs) > 1", `s0 == "a"`, "b0 || b1"}
var ClassExprs = []string{`"k1", templ.KV("k2", b0)`, "s0", `templ.Classes("a", s1)`, `"z"`}
var StyleExprs = []string{`"color:red"`, "s1", `map[string]string{"color": s0}`}
var ScriptExprs = []string{"s0", "s1", "xs"}

const ForExpr = "_, x := range xs"
