// Package tgen generates random, well-typed templ files from a grammar (shared by C02, C07, C08, C09, C13).
// Every template has the same signature so calls are uniform and the environment is known to the harness:
//   (s0, s1 string, b0, b1 bool, xs []string, c0 templ.Component, at templ.Attributes)
// Helper Go declarations (errStr, wrap, ignore, ...) live in the probe module's helpers.go (see Helpers).
package tgen

import (
	"fmt"
	"strings"

	"verifharness/internal/rng"
)

const Sig = "(s0, s1 string, b0, b1 bool, xs []string, c0 templ.Component, at templ.Attributes)"
const CallArgs = "(s0, s1, b0, b1, xs, c0, at)"

// Helpers is the Go source placed next to generated probe templates.
const Helpers = `package main

import (
	"bytes"
	"context"
	"errors"
	"io"

	"github.com/a-h/templ"
)

var errBoom = errors.New("boom")

var onceA, onceB = templ.NewOnceHandle(), templ.NewOnceHandle()

func errStr(s string) (string, error) {
	if s == "ERR" {
		return "", errBoom
	}
	return s, nil
}

func wrap() templ.Component {
	return templ.ComponentFunc(func(ctx context.Context, w io.Writer) error {
		if _, err := io.WriteString(w, "["); err != nil {
			return err
		}
		ctx = templ.InitializeContext(ctx)
		children := templ.GetChildren(ctx)
		ctx = templ.ClearChildren(ctx)
		if err := children.Render(ctx, w); err != nil {
			return err
		}
		_, err := io.WriteString(w, "]")
		return err
	})
}

// evaluation trace (C02: expressions are evaluated only where control flow reaches them, once)
var traceLog []string

func trS(k, v string) string { traceLog = append(traceLog, k); return v }

func trScript(k string) templ.ComponentScript {
	traceLog = append(traceLog, k)
	return templ.ComponentScript{Name: "f_" + k, Function: "function f_" + k + "(){}", Call: "f_" + k + "()", CallInline: "f_" + k + "()"}
}

// capt renders its children into a plain bytes.Buffer (a writer that cannot be flushed) before writing them out.
func capt() templ.Component {
	return templ.ComponentFunc(func(ctx context.Context, w io.Writer) error {
		ctx = templ.InitializeContext(ctx)
		children := templ.GetChildren(ctx)
		ctx = templ.ClearChildren(ctx)
		var b bytes.Buffer
		if err := children.Render(ctx, &b); err != nil {
			return err
		}
		if _, err := io.WriteString(w, "{"); err != nil {
			return err
		}
		if _, err := w.Write(b.Bytes()); err != nil {
			return err
		}
		_, err := io.WriteString(w, "}")
		return err
	})
}

// hflush is a hand-written layer that hands its children to templ.Flush() and renders that into a plain writer.
func hflush() templ.Component {
	return templ.ComponentFunc(func(ctx context.Context, w io.Writer) error {
		ctx = templ.InitializeContext(ctx)
		children := templ.GetChildren(ctx)
		ctx = templ.ClearChildren(ctx)
		var b bytes.Buffer
		if err := templ.Flush().Render(templ.WithChildren(ctx, children), &b); err != nil {
			return err
		}
		ctx = templ.ClearChildren(ctx)
		if _, err := io.WriteString(w, "<f>"); err != nil {
			return err
		}
		if _, err := w.Write(b.Bytes()); err != nil {
			return err
		}
		_, err := io.WriteString(w, "</f>")
		return err
	})
}

// scr: a script whose definition is empty (templ.RenderScriptItems writes nothing for it); its Call is what an on*
// attribute writes (C02 fragment family)
func scr(k string) templ.ComponentScript {
	return templ.ComponentScript{Name: "scr_" + k, Function: "", Call: templ.SafeScript("scr", k), CallInline: templ.SafeScriptInline("scr", k)}
}

// flushWith is a hand-written layer that hands a COMPONENT (not a generated block) to templ.Flush() as its children.
func flushWith(c templ.Component) templ.Component {
	return templ.ComponentFunc(func(ctx context.Context, w io.Writer) error {
		ctx = templ.InitializeContext(ctx)
		err := templ.Flush().Render(templ.WithChildren(ctx, c), w)
		templ.ClearChildren(ctx)
		return err
	})
}

// eager renders c at once with the given context (i.e. while the call expression is being evaluated) and returns the
// bytes as a raw component.
func eager(ctx context.Context, c templ.Component) templ.Component {
	var b bytes.Buffer
	if err := c.Render(ctx, &b); err != nil {
		return templ.Raw("!" + err.Error())
	}
	return templ.Raw("<e>" + b.String() + "</e>")
}

func ignore() templ.Component {
	return templ.ComponentFunc(func(ctx context.Context, w io.Writer) error {
		_, err := io.WriteString(w, "(i)")
		return err
	})
}
`

type Opts struct {
	Templates int  // templates per file
	Depth     int  // max nesting depth
	Width     int  // max children per list
	Calls     bool // component calls / children
	CSSJS     bool // css and script templates, style/script elements
	Attrs     bool
	Layout    bool // randomise single-line / multi-line layout and padding (else canonical multi-line)
	NonASCII  bool
	Hand      bool // calls of hand-written components with blocks (wrap/ignore/once/flush/raw)
	Prefix    string // prefix of template names (several files in one package)
	OnceFlush bool   // also call once handles and templ.Flush() with blocks (C13)
	Fragment  bool   // restrict the grammar to the fragment of coq/model/IrFrag.v (C02 proof layer): see frag.go
}

func Default() Opts {
	return Opts{Templates: 3, Depth: 4, Width: 4, Calls: true, CSSJS: true, Attrs: true, Layout: true, NonASCII: true, Hand: true}
}

type node struct {
	kind     string // text expr elem void raw script if for switch call callblock children gocode comment gocomment doctype
	text     string
	name     string
	attrs    []string
	children []*node
	elifs    [][]*node
	conds    []string
	els      []*node
	multi    bool // print children on their own lines
}

type G struct {
	r        *rng.R
	o        Opts
	tIndex   int
	nT       int
	inFor    int
	hasCSS   bool
	hasJS    bool
	children bool // current template may use { children... }
}

var inlineEls = []string{"span", "b", "i", "em", "a", "strong", "label", "u"}
var blockEls = []string{"div", "p", "section", "ul", "li", "h1", "article", "main", "td"}
var voidEls = []string{"br", "hr", "input", "img", "meta"}
var words = []string{"alpha", "beta", "gamma", "delta", "lorem", "ipsum", "x", "y.", "a,b", "1", "&amp;", "&lt;", "it's", "\"q\"", "ok!", "end"}
var wordsNA = []string{"é", "日本", "ü-x", "€5"}

func (g *G) word() string {
	if g.o.NonASCII && g.r.Intn(8) == 0 {
		return rng.Pick(g.r, wordsNA)
	}
	return rng.Pick(g.r, words)
}

func (g *G) textRun() string {
	n := 1 + g.r.Intn(3)
	var ws []string
	for i := 0; i < n; i++ {
		ws = append(ws, g.word())
	}
	return strings.Join(ws, " ")
}

func (g *G) strExpr() string {
	c := []string{"s0", "s1", `"lit"`, `s0 + "-" + s1`, "errStr(s1)", "errStr(s0)", `fmt.Sprint(len(xs))`}
	if g.inFor > 0 {
		c = append(c, "x", "x", `x + "!"`)
	}
	if g.o.NonASCII {
		c = append(c, `"é" + s0`, `"😀" + s1`)
	}
	return rng.Pick(g.r, c)
}

func (g *G) boolExpr() string {
	return rng.Pick(g.r, []string{"b0", "b1", "!b0", "b0 && b1", "len(xs) > 1", `s0 == "a"`, "b0 || b1"})
}

func (g *G) attr(el string, depth int) string {
	if g.o.Fragment {
		return g.fragAttr(el, depth)
	}
	if g.hasJS && g.o.CSSJS && g.r.Intn(14) == 0 {
		return "onclick={ hello(s0, 3) }"
	}
	if g.o.Layout && g.r.Intn(16) == 0 {
		// an expression spanning two lines; whatever follows sits on its continuation line
		return fmt.Sprintf("data-m={ %s +\n\ts1 }", rng.Pick(g.r, []string{"s0", `"é"`, `"😀"`}))
	}
	switch g.r.Intn(12) {
	case 0:
		return rng.Pick(g.r, []string{`class="c1 c2"`, `id="i1"`, `data-x="1"`, `title="a &amp; b"`, `title='sq'`, `lang="en"`,
			// character references, with and without the closing semicolon, and both quote kinds
			`data-r="/s?q=1&amp;copy=2"`, `data-r="AT&amp;#84 corp"`, `data-r="&amp;lt"`, `data-r="a &lt b &gt; c"`, `data-r='it&#39;s'`,
			`data-r="&quot;x&quot;"`, `data-r="&notit; &amp;amp;"`, `data-r="x &#x26; y"`, `data-r='say "hi"'`})
	case 1:
		return rng.Pick(g.r, []string{"hidden", "disabled", "data-flag"})
	case 2:
		return fmt.Sprintf(`title={ %s }`, g.strExpr())
	case 3:
		return fmt.Sprintf(`%s?={ %s }`, rng.Pick(g.r, []string{"disabled", "hidden", "checked"}), g.boolExpr())
	case 4:
		return "{ at... }"
	case 5:
		if depth > 0 {
			th := g.attr(el, depth-1)
			if g.r.Bool() {
				return fmt.Sprintf("if %s {\n%s\n}", g.boolExpr(), th)
			}
			return fmt.Sprintf("if %s {\n%s\n} else {\n%s\n}", g.boolExpr(), th, g.attr(el, depth-1))
		}
		return `data-y="2"`
	case 6:
		if el == "a" {
			return fmt.Sprintf(`href={ templ.URL(%s) }`, rng.Pick(g.r, []string{"s0", "s1", `"/p?" + s0`}))
		}
		return fmt.Sprintf(`data-u={ %s }`, g.strExpr())
	case 7:
		if g.o.Layout && g.r.Intn(4) == 0 {
			// a gofmt-able list spread over several lines
			return "class={\n\t\"k1\",\n\ttempl.KV(\"k2\", b0),\n}"
		}
		return rng.Pick(g.r, []string{`class={ "k1", templ.KV("k2", b0) }`, `class={ s0 }`, `class={ templ.Classes("a", s1) }`, `class={ "z" }`})
	case 8:
		return rng.Pick(g.r, []string{`style={ "color:red" }`, `style={ s1 }`, `style={ map[string]string{"color": s0} }`})
	case 9:
		return fmt.Sprintf(`aria-label={ %s }`, g.strExpr())
	case 10:
		return rng.Pick(g.r, []string{`value="v"`, `name="n"`, `alt=""`, `data-e="x&#34;y"`})
	default:
		return fmt.Sprintf(`data-k={ %s }`, g.strExpr())
	}
}

func (g *G) attrs(el string) []string {
	if !g.o.Attrs {
		return nil
	}
	n := 0
	switch g.r.Intn(5) {
	case 0, 1:
		n = 0
	case 2:
		n = 1
	case 3:
		n = 2
	default:
		n = 1 + g.r.Intn(4)
	}
	seen := map[string]bool{}
	var res []string
	for i := 0; i < n; i++ {
		a := g.attr(el, 2)
		key := a
		if k := strings.IndexAny(a, "=?{ "); k > 0 {
			key = a[:k]
		}
		if seen[key] {
			continue
		}
		seen[key] = true
		res = append(res, a)
	}
	return res
}

func (g *G) nodes(depth int) []*node {
	n := g.r.Intn(g.o.Width + 1)
	if depth == g.o.Depth && n == 0 {
		n = 1
	}
	var res []*node
	for i := 0; i < n; i++ {
		res = append(res, g.node(depth))
	}
	return res
}

func (g *G) node(depth int) *node {
	if g.o.Fragment {
		return g.fragNode(depth)
	}
	leaf := depth <= 0
	k := g.r.Intn(100)
	switch {
	case k < 18:
		return &node{kind: "text", text: g.textRun()}
	case k < 32:
		return &node{kind: "expr", text: g.strExpr()}
	case k < 44 && !leaf:
		el := rng.Pick(g.r, inlineEls)
		return &node{kind: "elem", name: el, attrs: g.attrs(el), children: g.nodes(depth - 1), multi: g.r.Intn(3) == 0}
	case k < 56 && !leaf:
		el := rng.Pick(g.r, blockEls)
		return &node{kind: "elem", name: el, attrs: g.attrs(el), children: g.nodes(depth - 1), multi: g.r.Intn(3) != 0}
	case k < 61:
		el := rng.Pick(g.r, voidEls)
		return &node{kind: "void", name: el, attrs: g.attrs(el), multi: g.r.Bool()}
	case k < 68 && !leaf:
		n := &node{kind: "if", conds: []string{g.boolExpr()}, children: g.nodes(depth - 1)}
		for g.r.Intn(4) == 0 {
			n.conds = append(n.conds, g.boolExpr())
			n.elifs = append(n.elifs, g.nodes(depth-1))
		}
		if g.r.Bool() {
			n.els = g.nodes(depth - 1)
			if len(n.els) == 0 {
				n.els = []*node{{kind: "text", text: "else-branch"}}
			}
		}
		return n
	case k < 74 && !leaf:
		g.inFor++
		n := &node{kind: "for", children: g.nodes(depth - 1)}
		g.inFor--
		// Go rejects an unused loop variable: make sure the body mentions x
		use := &node{kind: "expr", text: "x"}
		if g.r.Intn(4) == 0 {
			use = &node{kind: "gocode", text: "_ = x"}
		}
		at := g.r.Intn(len(n.children) + 1)
		n.children = append(n.children[:at:at], append([]*node{use}, n.children[at:]...)...)
		return n
	case k < 78 && !leaf:
		n := &node{kind: "switch", text: "s0"}
		nc := 1 + g.r.Intn(3)
		for i := 0; i < nc; i++ {
			n.conds = append(n.conds, fmt.Sprintf("case %q:", rng.Pick(g.r, []string{"a", "b", "ERR", "<"})+fmt.Sprint(i)))
			n.elifs = append(n.elifs, g.nodes(depth-1))
		}
		if g.r.Bool() {
			n.conds = append(n.conds, "default:")
			n.elifs = append(n.elifs, g.nodes(depth-1))
		}
		return n
	case k < 86 && g.o.Calls:
		if g.o.Layout && g.r.Intn(8) == 0 {
			// deprecated call syntax, kept on the line of its neighbours
			return &node{kind: "legacycall", text: rng.Pick(g.r, []string{"c0", g.o.Prefix + "Card" + CallArgs, "ignore()"})}
		}
		switch g.r.Intn(6) {
		case 0:
			return &node{kind: "call", text: "c0"}
		case 1:
			if g.children {
				return &node{kind: "children"}
			}
			return &node{kind: "call", text: "c0"}
		case 2:
			if g.o.Hand {
				if leaf {
					return &node{kind: "call", text: rng.Pick(g.r, []string{"wrap()", "ignore()", `templ.Raw("<r>")`})}
				}
				hand := []string{"wrap()", "ignore()"}
				if g.o.OnceFlush {
					hand = append(hand, "onceA.Once()", "onceB.Once()", "templ.Flush()", `templ.Raw("<r>")`, "capt()", "hflush()")
				}
				return &node{kind: "callblock", text: rng.Pick(g.r, hand), children: g.nodes(depth - 1)}
			}
			fallthrough
		default:
			callee := g.o.Prefix + "Card"
			if g.tIndex+1 < g.nT && g.r.Bool() {
				callee = fmt.Sprintf("%sT%d", g.o.Prefix, g.tIndex+1+g.r.Intn(g.nT-g.tIndex-1))
			}
			if !leaf && g.o.Layout && g.r.Intn(6) == 0 {
				// arguments over two lines, block opened (and a child placed) on the continuation line
				return &node{kind: "callinline", text: callee + "(s0,\n\ts1, b0, b1, xs, c0, at)", children: []*node{{kind: "expr", text: g.strExpr()}}}
			}
			if leaf || g.r.Bool() {
				return &node{kind: "call", text: callee + CallArgs}
			}
			return &node{kind: "callblock", text: callee + CallArgs, children: g.nodes(depth - 1)}
		}
	case k < 89:
		return &node{kind: "gocode", text: rng.Pick(g.r, []string{"k := len(xs)\n_ = k", "_ = s0", "var q = 1\n_ = q"})}
	case k < 92:
		return &node{kind: "comment", text: rng.Pick(g.r, []string{" a comment ", "x", " multi\n line ", ""})}
	case k < 94:
		return &node{kind: "gocomment", text: rng.Pick(g.r, []string{" go comment", "TODO"})}
	case k < 97 && g.o.CSSJS:
		switch g.r.Intn(3) {
		case 0:
			return &node{kind: "raw", name: "style", text: rng.Pick(g.r, []string{"p { color: red; }", "\n.a > .b { margin: 0 }\n", ""})}
		case 1:
			return &node{kind: "script", text: rng.Pick(g.r, []string{"var a = 1;", "const v = {{ s0 }};", "let s = '{{ s1 }}';\nlet t = \"{{ s0 }}\";", "f({{ xs }}, `{{ s0 }}`);"})}
		default:
			return &node{kind: "elem", name: "textarea", children: []*node{{kind: "expr", text: g.strExpr()}}}
		}
	default:
		return &node{kind: "text", text: g.textRun()}
	}
}

type printer struct {
	sb     strings.Builder
	r      *rng.R
	layout bool
}

func (p *printer) indent(n int) { p.sb.WriteString(strings.Repeat("\t", n)) }

func (p *printer) attrs(as []string, lvl int, multi bool) {
	for _, a := range as {
		if strings.HasPrefix(a, "data-m={") && !multi {
			// printed in place: the next attribute starts on the expression's last line
			p.sb.WriteString(" " + strings.ReplaceAll(a, "\n", "\n"+strings.Repeat("\t", lvl+1)))
			continue
		}
		if strings.Contains(a, "\n") || multi {
			p.sb.WriteString("\n")
			ls := strings.Split(a, "\n")
			for i, l := range ls {
				p.indent(lvl + 1)
				p.sb.WriteString(l)
				if i+1 < len(ls) {
					p.sb.WriteString("\n")
				}
			}
			multi = true
		} else {
			p.sb.WriteString(" " + a)
		}
	}
	if multi && len(as) > 0 {
		p.sb.WriteString("\n")
		p.indent(lvl)
	}
}

func needsOwnLine(n *node) bool {
	switch n.kind {
	case "if", "for", "switch", "gocomment", "callblock", "callinline", "gocode", "call", "children":
		return true
	}
	return false
}

// list prints children; multi = each on its own line at lvl.
func (p *printer) list(ns []*node, lvl int, multi bool) {
	for i, n := range ns {
		own := multi || needsOwnLine(n)
		if p.layout && !own && p.r.Intn(5) == 0 {
			own = true
		}
		if own {
			if p.sb.Len() > 0 && !strings.HasSuffix(p.sb.String(), "\n") {
				p.sb.WriteString("\n")
			}
			p.indent(lvl)
		} else if i > 0 {
			// inline separator
			prev := ns[i-1]
			sep := " "
			if p.layout && prev.kind != "text" || n.kind != "text" {
				if p.layout && p.r.Intn(3) == 0 && !(prev.kind == "text" && n.kind == "text") {
					sep = ""
				}
			}
			if needsOwnLine(prev) || strings.HasSuffix(p.sb.String(), "\n") {
				sep = ""
				if strings.HasSuffix(p.sb.String(), "\n") {
					p.indent(lvl)
				}
			}
			p.sb.WriteString(sep)
		} else if strings.HasSuffix(p.sb.String(), "\n") {
			p.indent(lvl)
		}
		p.node(n, lvl)
		if own || needsOwnLine(n) {
			p.sb.WriteString("\n")
		}
	}
}

func (p *printer) block(ns []*node, lvl int) {
	p.sb.WriteString("\n")
	p.list(ns, lvl+1, true)
	if !strings.HasSuffix(p.sb.String(), "\n") {
		p.sb.WriteString("\n")
	}
	p.indent(lvl)
}

func (p *printer) node(n *node, lvl int) {
	switch n.kind {
	case "text":
		p.sb.WriteString(n.text)
		if p.layout && p.r.Intn(10) == 0 {
			// blanks at the end of a text run (they are part of the text when a line break follows)
			p.sb.WriteString(rng.Pick(p.r, []string{" ", "  ", "\t"}))
		}
	case "expr":
		if p.layout && p.r.Intn(6) == 0 {
			p.sb.WriteString("{" + n.text + "}")
		} else {
			p.sb.WriteString("{ " + n.text + " }")
		}
	case "void":
		p.sb.WriteString("<" + n.name)
		p.attrs(n.attrs, lvl, false)
		if n.multi {
			p.sb.WriteString("/>")
		} else {
			p.sb.WriteString(">")
		}
	case "elem":
		p.sb.WriteString("<" + n.name)
		p.attrs(n.attrs, lvl, p.layout && p.r.Intn(6) == 0)
		p.sb.WriteString(">")
		multi := n.multi
		for _, c := range n.children {
			if needsOwnLine(c) {
				multi = true
			}
		}
		if len(n.children) > 0 {
			if multi {
				p.sb.WriteString("\n")
				p.list(n.children, lvl+1, true)
				if !strings.HasSuffix(p.sb.String(), "\n") {
					p.sb.WriteString("\n")
				}
				p.indent(lvl)
			} else {
				if p.layout && p.r.Intn(4) == 0 {
					p.sb.WriteString(" ")
				}
				p.list(n.children, lvl+1, false)
				if strings.HasSuffix(p.sb.String(), "\n") {
					p.indent(lvl)
				} else if p.layout && p.r.Intn(4) == 0 {
					p.sb.WriteString(" ")
				}
			}
		}
		p.sb.WriteString("</" + n.name + ">")
	case "raw":
		p.sb.WriteString("<" + n.name + ">" + n.text + "</" + n.name + ">")
	case "script":
		p.sb.WriteString("<script>" + n.text + "</script>")
	case "if":
		p.sb.WriteString("if " + n.conds[0] + " {")
		p.block(n.children, lvl)
		for i, e := range n.elifs {
			p.sb.WriteString("} else if " + n.conds[i+1] + " {")
			p.block(e, lvl)
		}
		if n.els != nil {
			p.sb.WriteString("} else {")
			p.block(n.els, lvl)
		}
		p.sb.WriteString("}")
	case "for":
		p.sb.WriteString("for _, x := range xs {")
		p.block(n.children, lvl)
		p.sb.WriteString("}")
	case "switch":
		p.sb.WriteString("switch " + n.text + " {\n")
		for i, c := range n.conds {
			p.indent(lvl + 1)
			p.sb.WriteString(c)
			p.sb.WriteString("\n")
			p.list(n.elifs[i], lvl+2, true)
			if !strings.HasSuffix(p.sb.String(), "\n") {
				p.sb.WriteString("\n")
			}
		}
		p.indent(lvl)
		p.sb.WriteString("}")
	case "legacycall":
		p.sb.WriteString("{! " + n.text + " }")
	case "call":
		p.sb.WriteString("@" + n.text)
	case "callinline":
		p.sb.WriteString("@" + strings.ReplaceAll(n.text, "\n", "\n"+strings.Repeat("\t", lvl)) + " { <b>")
		for _, c := range n.children {
			p.node(c, lvl+1)
		}
		p.sb.WriteString("</b> }")
	case "callblock":
		p.sb.WriteString("@" + n.text + " {")
		p.block(n.children, lvl)
		p.sb.WriteString("}")
	case "children":
		p.sb.WriteString("{ children... }")
	case "gocode":
		if strings.Contains(n.text, "\n") {
			p.sb.WriteString("{{\n")
			for _, l := range strings.Split(n.text, "\n") {
				p.indent(lvl + 1)
				p.sb.WriteString(l + "\n")
			}
			p.indent(lvl)
			p.sb.WriteString("}}")
		} else {
			p.sb.WriteString("{{ " + n.text + " }}")
		}
	case "comment":
		p.sb.WriteString("<!--" + n.text + "-->")
	case "gocomment":
		p.sb.WriteString("//" + n.text)
	case "doctype":
		p.sb.WriteString("<!DOCTYPE html>")
	}
}

// File returns the source of one random templ file. Templates are named T0..Tn-1 plus Card (uses children).
func File(r *rng.R, o Opts) string {
	g := &G{r: r, o: o, nT: o.Templates}
	var sb strings.Builder
	sb.WriteString("package main\n\nimport \"fmt\"\n\nvar _ = fmt.Sprint\n\n")
	if o.CSSJS && r.Intn(3) == 0 {
		sb.WriteString("css box(c string) {\n\tcolor: { c };\n\tmargin: 0;\n}\n\n")
		g.hasCSS = true
	}
	if o.CSSJS && r.Intn(3) == 0 {
		sb.WriteString("script hello(name string, n int) {\n\tconsole.log(name, n);\n}\n\n")
		g.hasJS = true
	}
	for i := 0; i < o.Templates; i++ {
		g.tIndex = i
		g.children = r.Intn(3) == 0
		ns := g.nodes(o.Depth)
		if i == 0 && r.Intn(4) == 0 {
			ns = append([]*node{{kind: "doctype"}}, ns...)
		}
		if g.hasCSS && r.Bool() {
			ns = append(ns, &node{kind: "elem", name: "div", attrs: []string{`class={ box(s0), "plain" }`}, children: []*node{{kind: "text", text: "styled"}}})
		}
		if g.hasJS && r.Bool() {
			ns = append(ns, &node{kind: "elem", name: "button", attrs: []string{`onclick={ hello(s0, 3) }`}, children: []*node{{kind: "text", text: "go"}}})
			if r.Bool() {
				ns = append(ns, &node{kind: "call", text: "hello(s1, 4)"})
			}
		}
		p := &printer{r: r.Fork(), layout: o.Layout}
		fmt.Fprintf(&p.sb, "templ %sT%d%s {", o.Prefix, i, Sig)
		p.block(ns, 0)
		p.sb.WriteString("}\n\n")
		sb.WriteString(p.sb.String())
	}
	if o.Fragment {
		// fragment files (C02 proof layer): the Card template in one spelling, no extra random draw
		sb.WriteString("templ " + o.Prefix + "Card" + Sig + " {\n\t<section>{ children... }</section>\n}\n")
	} else if r.Bool() {
		sb.WriteString("templ " + o.Prefix + "Card" + Sig + " {\n\t<section>{ children... }</section>\n}\n")
	} else {
		sb.WriteString("templ " + o.Prefix + "Card" + Sig + " {\n\t<section>\n\t\t{ children... }\n\t</section>\n}\n")
	}
	if r.Intn(4) == 0 {
		sb.WriteString("\nfunc " + o.Prefix + "helperAfter() string { return \"x\" }\n")
	}
	return sb.String()
}
