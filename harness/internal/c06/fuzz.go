package c06

import (
	"fmt"
	"os"
	"os/exec"
	"path/filepath"
	"regexp"
	"strconv"
	"strings"
	"time"

	"verifharness/internal/core"
)

const fuzzTest = `package c06fuzz

import (
	"errors"
	"os"
	"path/filepath"
	"testing"
	"time"

	"github.com/a-h/parse"
	parser "github.com/a-h/templ/parser/v2"
)

func FuzzParse(f *testing.F) {
	seeds, _ := filepath.Glob(filepath.Join("seeds", "*"))
	for _, s := range seeds {
		b, err := os.ReadFile(s)
		if err == nil {
			f.Add(string(b))
		}
	}
	f.Fuzz(func(t *testing.T, s string) {
		start := time.Now()
		_, err := parser.ParseString(s)
		d := time.Since(start)
		units := (len(s) + 10239) / 10240
		if units < 1 {
			units = 1
		}
		if d > time.Duration(units)*2*time.Second {
			// confirm: the machine is shared
			start = time.Now()
			parser.ParseString(s)
			if d2 := time.Since(start); d2 > time.Duration(units)*2*time.Second {
				t.Fatalf("slow parse: %v and %v for %d bytes", d, d2, len(s))
			}
		}
		if err != nil {
			var pe parse.ParseError
			var ue parser.UntilNotFoundError
			idx := 0
			switch {
			case errors.As(err, &pe):
				idx = pe.Pos.Index
			case errors.As(err, &ue):
				idx = ue.Pos.Index
			}
			if idx < 0 || idx > len(s) {
				t.Fatalf("error position %d outside the %d byte input: %v", idx, len(s), err)
			}
		}
	})
}
`

var reExecs = regexp.MustCompile(`execs: (\d+)`)
var reFailFile = regexp.MustCompile(`Failing input written to (\S+)`)

func decodeCorpusFile(path string) (string, bool) {
	b, err := os.ReadFile(path)
	if err != nil {
		return "", false
	}
	lines := strings.Split(string(b), "\n")
	if len(lines) < 2 || !strings.HasPrefix(lines[0], "go test fuzz v1") {
		return "", false
	}
	l := strings.TrimSpace(lines[1])
	if !strings.HasPrefix(l, "string(") || !strings.HasSuffix(l, ")") {
		return "", false
	}
	s, err := strconv.Unquote(l[len("string(") : len(l)-1])
	if err != nil {
		return "", false
	}
	return s, true
}

// fuzz runs Go's coverage-guided fuzzer on parser.ParseString (panic / time / error position) for several minutes,
// seeded with the repository's templates, and returns the corpus it built so that the sweep judges the ranges too.
func fuzz(c *core.Ctx) []tcase {
	dir, err := os.MkdirTemp("", "c06fuzz")
	if err != nil {
		c.Oblige("correspondence", "coverage-guided fuzzing of parser.ParseString ran", false, err.Error())
		return nil
	}
	defer os.RemoveAll(dir)
	os.MkdirAll(filepath.Join(dir, "seeds"), 0o755)
	_, tmpls := repoTemplates()
	tmpls = append(tmpls, handWritten...)
	for i, s := range tmpls {
		os.WriteFile(filepath.Join(dir, "seeds", fmt.Sprintf("s%03d", i)), []byte(s), 0o644)
	}
	gomod := "module c06fuzz\n\ngo 1.23.0\n\nrequire github.com/a-h/templ v0.0.0\n\nreplace github.com/a-h/templ => " + core.Repo() + "\n"
	os.WriteFile(filepath.Join(dir, "go.mod"), []byte(gomod), 0o644)
	if b, err := os.ReadFile(filepath.Join(core.Repo(), "go.sum")); err == nil {
		os.WriteFile(filepath.Join(dir, "go.sum"), b, 0o644)
	}
	os.WriteFile(filepath.Join(dir, "fuzz_test.go"), []byte(fuzzTest), 0o644)
	secs := 240
	if v := os.Getenv("VERIF_C06_FUZZ_SECONDS"); v != "" {
		fmt.Sscan(v, &secs)
	}
	cmd := exec.Command("go", "test", "-run=^$", "-fuzz=FuzzParse", fmt.Sprintf("-fuzztime=%ds", secs), "-parallel=8", ".")
	cmd.Dir = dir
	cmd.Env = append(os.Environ(), "GOFLAGS=-mod=mod", "GOPROXY=off", "GOSUMDB=off", "GOTOOLCHAIN=local")
	t0 := time.Now()
	out, runErr := cmd.CombinedOutput()
	text := string(out)
	execs := 0
	if m := reExecs.FindAllStringSubmatch(text, -1); len(m) > 0 {
		fmt.Sscan(m[len(m)-1][1], &execs)
	}
	c.Extra["coverage_guided_fuzzing"] = map[string]any{"seconds": int(time.Since(t0).Seconds()), "executions": execs, "seeds": len(tmpls)}
	ok := runErr == nil
	if !ok {
		reported := false
		if m := reFailFile.FindStringSubmatch(text); m != nil {
			if s, good := decodeCorpusFile(filepath.Join(dir, m[1])); good {
				shape := panicShape(text)
				if strings.Contains(text, "slow parse") {
					shape = "parser-slow"
				} else if strings.Contains(text, "error position") {
					shape = "error-position-outside"
				}
				c.Fail("property", "totality under coverage-guided fuzzing", shape, replayInput("coverage-guided fuzzing", s), tail(text, 1500))
				reported = true
			}
		}
		if !reported {
			c.Oblige("correspondence", "coverage-guided fuzzing of parser.ParseString ran", false, tail(text, 1500))
			return nil
		}
	}
	c.Oblige("correspondence", "coverage-guided fuzzing of parser.ParseString: no panic, no slow parse, error positions inside the input", ok, fmt.Sprintf("%d executions in %ds", execs, int(time.Since(t0).Seconds())))
	for i := 0; i < execs/1000 && i < 2000; i++ {
		c.Count("")
	}
	c.Hist(fmt.Sprintf("coverage-guided fuzzing executions (thousands): %d", execs/1000))
	// the corpus the fuzzer accumulated (kept by go test under GOCACHE/fuzz)
	var cases []tcase
	if gc, err := exec.Command("go", "env", "GOCACHE").Output(); err == nil {
		files, _ := filepath.Glob(filepath.Join(strings.TrimSpace(string(gc)), "fuzz", "c06fuzz", "FuzzParse", "*"))
		for _, f := range files {
			if len(cases) >= 30000 {
				break
			}
			if s, good := decodeCorpusFile(f); good {
				cases = append(cases, mkCase("coverage-guided corpus entry", s))
			}
		}
	}
	c.Extra["coverage_guided_corpus_entries_judged"] = len(cases)
	return cases
}

func tail(s string, n int) string {
	if len(s) > n {
		return s[len(s)-n:]
	}
	return s
}
