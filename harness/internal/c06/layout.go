package c06

import (
	"fmt"
	"regexp"
	"sort"
	"strings"

	"verifharness/internal/core"
	"verifharness/internal/rng"
)

// Keyword layouts: the white space (and comments) that Go's grammar - and templ's own delimiters - admit after the
// keyword of every control-flow form, inside the expression wherever Go lets it continue on the next line, and
// between the expression and the token that ends it.  The extractors of goexpression answer offsets relative to the
// keyword; every constructor has to turn such an offset into a position of the FILE, whatever lies in between.
//
// A form is a piece of template text with holes written «label|default».  The sweep fills
//   - one hole at a time with every separator (all other holes keep their default): small and exhaustive, so the first
//     failing input is minimal;
//   - every hole of a random selection of forms at random, behind a random prologue (multi-byte comment lines, Go
//     blocks, CRLF) so that line numbers, columns and byte indices all differ from one another;
//   - the single blank after a keyword / operator / delimiter, and the blanks (or nothing) in front of a closing or
//     suffix token (`...`, `}`, `}}`, `)`, `>`, `/>`, `:`, `;`, `,`, `{`), of the repository's own templates.
// Holes stand on BOTH sides of every token: after every keyword / operator / opening delimiter and in front of every
// operator, suffix operator (`...`, `++`), separator and closing token - a constructor that strips or skips a suffix has
// to move the end of the range over whatever white space (line breaks included) stood in front of it.
// Whether a layout is legal is decided by the real parser, generator and gofmt (`accepted`); every recorded range of
// every accepted tree is judged by the extracted specification predicate like any other input of the sweep.

type layoutSep struct{ name, text string }

var layoutSeps = []layoutSep{
	{"none", ""},
	{"blank", " "},
	{"two blanks", "  "},
	{"five blanks", "     "},
	{"tab", "\t"},
	{"blank tab", " \t"},
	{"LF", "\n"},
	{"CRLF", "\r\n"},
	{"CR", "\r"},
	{"blank LF", " \n"},
	{"LF indent", "\n\t\t"},
	{"CRLF indent", "\r\n\t\t"},
	{"two LF", "\n\n"},
	{"blank LF blank", " \n "},
	{"block comment", "/* c */"},
	{"blank block comment blank", " /* c */ "},
	{"multi-byte block comment", " /* é日本 */ "},
	{"multi-line block comment", " /* a\nb */ "},
	{"line comment LF", " // c\n"},
	{"line comment CRLF indent", " // é\r\n\t"},
	{"LF block comment LF", "\n/* c */\n"},
	{"NBSP (not Go white space)", "\u00a0"},
}

type layoutForm struct {
	name     string
	topLevel bool // a declaration of the file rather than a node of a templ body
	text     string
}

// The enclosing file declares: other(x, y int) templ.Component; T(x int, xs []string, s string, b bool, at templ.Attributes).
var layoutForms = []layoutForm{
	{"if", false, "if«after `if`| »x«before operator| »==«after operator| »1«before {| »{«after {|»\n<a></a>\n«before closing }|»}\n"},
	{"if with init", false, "if«after `if`| »y := x«before ;|»;«after ;| »y >«after operator| »1 &&«after operator| »b«before {| »{\n<a></a>\n}\n"},
	{"else if", false, "if x == 1 {\n<a></a>\n«before closing }|»}«before `else`| »else«between `else` and `if`| »if«after `else if`| »x ==«after operator| »2«before {| »{\n<b></b>\n«before closing }|»}«before `else`| »else«after `else`| »{\n<i></i>\n«before closing }|»}\n"},
	{"else if twice", false, "if x == 1 {\n<a></a>\n} else if«after `else if`| »x == 2 {\n<b></b>\n} else if«after `else if`| »y := x;«after ;| »y == 3 {\n<i></i>\n}\n"},
	{"for range", false, "for«after `for`| »_, v«before :=| »:=«after :=| »range«after `range`| »xs«before {| »{\n<p>{ v }</p>\n«before closing }|»}\n"},
	{"for clauses", false, "for«after `for`| »i := 0«before ;|»;«after ;| »i <«after operator| »3«before ;|»;«after ;| »i«before ++|»++«before {| »{\n<p></p>\n}\n"},
	{"for condition", false, "for«after `for`| »x >«after operator| »100«before {| »{\n<p></p>\n}\n"},
	{"switch", false, "switch«after `switch`| »x«before {| »{\n«before `case`|\t»case«after `case`| »1«before ,|»,«after ,| »2«before :|»:\n<a></a>\n«before `case`|\t»case«after `case`| »3«before :|»:\n<b></b>\n«before `default`|\t»default«after `default`|»:\n<i></i>\n«before closing }|»}\n"},
	{"switch with init", false, "switch«after `switch`| »y := x;«after ;| »y«before {| »{\ncase«after `case`| »1:\n<a></a>\n}\n"},
	{"type switch", false, "switch«after `switch`| »any(x)«before .|».(«after (|»type«before )|»)«before {| »{\ncase«after `case`| »int,«after ,| »string«before :|»:\n<a></a>\ndefault«after `default`|»:\n<b></b>\n}\n"},
	{"tagless switch", false, "switch«after `switch`| »{\ncase«after `case`| »x >«after operator| »1«before :|»:\n<a></a>\n}\n"},
	{"call", false, "@«after @|»other«before (|»(«after (|»x«before ,|»,«after ,| »2«before )|»)«after call|»\n"},
	{"call with children", false, "@other(x,«after ,| »2«before )|»)«before {| »{«after {|»\n<a></a>\n«before closing }|»}\n"},
	{"call of a selector", false, "@c«before .|».«after .|»Child(«after (|»x«before )|»)«after call|»\n<p></p>\n"},
	{"legacy call", false, "{!«after {!| »other(x,«after ,| »2«before )|»)«before }| »}\n"},
	{"string expression", false, "<p>{«after {| »s«before operator| »+«after operator| »s«before }| »}«after }|»</p>\n"},
	{"string expression on a line", false, "{«after {| »strings.Repeat(«after (|»s«before ,|»,«after ,| »2«before )|»)«before }| »}\n"},
	{"composite literal in a string expression", false, "{«after {| »fmt.Sprint([]int«before {|»{«after {|»1,«after ,| »2«before }|»}«before )|»)«before }| »}\n"},
	{"go code", false, "{{«after {{| »y«before :=| »:=«after :=| »s +«after operator| »s«before }}| »}}\n<p>{ y }</p>\n"},
	{"attribute expression", false, "<a href«before =|»=«after =|»{«after ={| »templ.URL(s)«before }| »}«between attributes| »title={«after ={| »s +«after operator| »s«before }| »}«before >|»></a«before > of the end tag|»>\n"},
	{"bool attribute expression", false, "<input disabled«before ?=|»?=«after ?=|»{«after ?={| »b &&«after operator| »b«before }| »}«before />|»/>\n"},
	{"spread attributes", false, "<div«between attributes| »{«after {| »at«before ...|»...«before }| »}«before >|»></div>\n"},
	{"spread attributes of a call", false, "<div id=\"a\"«between attributes| »{«after {| »templ.Attributes{«after {|»\"k\":«after :| »s«before }|»}«before ...|»...«before }| »}«between attributes| »class=\"b\"«before >|»></div>\n"},
	{"conditional attribute", false, "<div if«after `if`| »b &&«after operator| »b«before {| »{\n class=\"x\"\n «before closing }|»}«before `else`| »else«after `else`| »{\n id=\"y\"\n «before closing }|»}«before >|»></div>\n"},
	{"go code in script", false, "<script>var v = {{«after {{| »s +«after operator| »s«before }}| »}};</script>\n"},
	{"children", false, "@other(x, 2) {\n{«after {| »children«before ...|»...«before }| »}\n}\n"},
	{"element tags", false, "<a«after element name| »href=\"x\"«before >|»>t</«after </|»a«before > of the end tag|»>\n"},
	{"void and self-closing elements", false, "<br«before >|»>\n<hr«before />|»/>\n<img src=\"x\"«before />| »/>\n"},
	{"constant and bool-constant attributes", false, "<input type«before =|»=«after =|»\"text\"«between attributes| »required«between attributes| »data-x='y'«before />|»/>\n"},
	{"templ header", true, "templ«after `templ`| »H1«before (|»(«after (|»x int«before ,|»,«after ,| »y int«before )|»)«before {| »{«after {|»\n<a>{ fmt.Sprint(x, y) }</a>\n«before closing }|»}\n"},
	{"templ header with receiver", true, "type R struct{ v string }\n\ntempl«after `templ`| »(«after (|»r R«before )|»)«after receiver| »H2(«between ( and )|»)«before {| »{\n<a>{ r.v }</a>\n}\n"},
	{"css header and property", true, "css«after `css`| »cls(«after (|»w string«before )|»)«before {| »{\n\tcolor«before :|»:«after :| »{«after {| »w«before }| »}«before ;|»;\n«before closing }|»}\n"},
	{"script header", true, "script«after `script`| »scr(«after (|»a string,«after ,| »n int«before )|»)«before {| »{\n\tconsole.log(a, n);\n«before closing }|»}\n"},
	{"go block", true, "func«after `func`| »helper(«after (|»a int«before )|»)«before result| »int«before {| »{\n\treturn a +«after operator| »1\n«before closing }|»}\n"},
}

type layoutHole struct {
	slot string // "<form>: <label> #n" - unique per hole
	def  string
}

type layoutParsed struct {
	form  layoutForm
	segs  []string // len(holes)+1
	holes []layoutHole
}

var reHole = regexp.MustCompile(`«([^|»]*)\|([^»]*)»`)

func parseLayoutForm(f layoutForm) layoutParsed {
	p := layoutParsed{form: f}
	last := 0
	seen := map[string]int{}
	for _, m := range reHole.FindAllStringSubmatchIndex(f.text, -1) {
		p.segs = append(p.segs, f.text[last:m[0]])
		label := f.text[m[2]:m[3]]
		seen[label]++
		slot := f.name + ": " + label
		if seen[label] > 1 {
			slot += fmt.Sprintf(" #%d", seen[label])
		}
		p.holes = append(p.holes, layoutHole{slot: slot, def: f.text[m[4]:m[5]]})
		last = m[1]
	}
	p.segs = append(p.segs, f.text[last:])
	return p
}

func (p layoutParsed) fill(seps []string) string {
	var sb strings.Builder
	for i, s := range p.segs {
		sb.WriteString(s)
		if i < len(p.holes) {
			sb.WriteString(seps[i])
		}
	}
	return sb.String()
}

func (p layoutParsed) defaults() []string {
	d := make([]string, len(p.holes))
	for i, h := range p.holes {
		d[i] = h.def
	}
	return d
}

const layoutHead = "package p\n\nimport (\n\t\"fmt\"\n\t\"strings\"\n)\n\nvar _ = fmt.Sprint\nvar _ = strings.Repeat\n\ntempl other(x int, y int) {\n\t<b>{ children... }</b>\n}\n\n"
const layoutOpen = "templ T(x int, xs []string, s string, b bool, at templ.Attributes, c templ.Component) {\n"

// layoutFile puts top-level pieces before and body pieces inside templ T, behind the prologue.
func layoutFile(prologue string, top, body []string, indent string) string {
	var sb strings.Builder
	sb.WriteString(prologue)
	sb.WriteString(layoutHead)
	for _, t := range top {
		sb.WriteString(t)
		sb.WriteString("\n")
	}
	sb.WriteString(layoutOpen)
	for _, b := range body {
		sb.WriteString(indent)
		sb.WriteString(b)
	}
	sb.WriteString("}\n")
	return sb.String()
}

type layoutInfo struct{ slot, sep string }

// layoutExhaustive: every hole of every form filled with every separator, one at a time. Consumes no randomness.
func layoutExhaustive(c *core.Ctx) ([]tcase, map[string]layoutInfo) {
	var out []tcase
	info := map[string]layoutInfo{}
	for _, f := range layoutForms {
		p := parseLayoutForm(f)
		for hi, h := range p.holes {
			for _, sep := range layoutSeps {
				seps := p.defaults()
				seps[hi] = sep.text
				piece := p.fill(seps)
				var src string
				if f.topLevel {
					src = layoutFile("", []string{piece}, nil, "")
				} else {
					src = layoutFile("", nil, []string{piece}, "")
				}
				if _, dup := info[src]; dup {
					continue
				}
				info[src] = layoutInfo{h.slot, sep.name}
				out = append(out, mkCase("keyword layout (one slot, every separator): " + f.name, src))
				c.Hist("keyword layout separator: " + sep.name)
			}
		}
	}
	return out, info
}

var layoutPrologues = []string{"", "// é\n", "// 日本語 comment\n// second\n", "// header\r\n", "/* block\n   é */\n", "\n\n"}
var layoutBetween = []string{"", "é ", "<p>日本</p>\n", "{ \"ß\" }\n", "<!-- c -->\n", "// é\n", "\n"}

// layoutRandom: several forms in one file, every hole filled at random (mostly its default, so that most files stay accepted).
func layoutRandom(c *core.Ctx, r *rng.R) tcase {
	var top, body []string
	n := 1 + r.Intn(5)
	unusual := 0
	for k := 0; k < n; k++ {
		p := parseLayoutForm(rng.Pick(r, layoutForms))
		seps := p.defaults()
		for i := range seps {
			if r.Intn(4) == 0 {
				s := rng.Pick(r, layoutSeps)
				seps[i] = s.text
				unusual++
				c.Hist("keyword layout separator: " + s.name)
			}
		}
		piece := p.fill(seps)
		if p.form.topLevel {
			top = append(top, piece)
		} else {
			switch r.Intn(4) {
			case 0: // nested in an element
				piece = "<section>\n" + piece + "</section>\n"
			case 1: // nested in a for
				piece = "for _, w := range xs {\n{ w }\n" + piece + "}\n"
			}
			body = append(body, rng.Pick(r, layoutBetween)+piece)
		}
	}
	src := layoutFile(rng.Pick(r, layoutPrologues), top, body, rng.Pick(r, []string{"", "\t", "  "}))
	switch r.Intn(6) {
	case 0:
		src = strings.ReplaceAll(strings.ReplaceAll(src, "\r\n", "\n"), "\n", "\r\n")
	case 1:
		src, _ = preserve(r, src)
	}
	fam := "keyword layout (random, several forms): "
	switch {
	case unusual == 0:
		fam += "all defaults"
	case unusual <= 2:
		fam += "1-2 unusual separators"
	default:
		fam += "3+ unusual separators"
	}
	return mkCase(fam, src)
}

// the blank after a keyword, operator or opening delimiter of an existing template
var reLayoutSite = regexp.MustCompile(`(?:\b(?:if|for|switch|case|else|range|templ|css|script|func|return)|[,;({@=:+]|:=|==|!=|&&|\|\||\{\{|\{!|\)|\}) `)

// the (possibly empty) run of blanks in front of a closing or suffix token of an existing template: the spread /
// children operator, closing braces, parentheses and tag ends, colons, semicolons, commas, an opening brace that ends a
// control-flow expression.  Whatever the constructor removes or skips there has to be accounted for in Range.To.
var reLayoutSuffix = regexp.MustCompile("[ \\t]*(?:\\.\\.\\.|\\}\\}|\\}|\\)|/>|>|:=|:|;|,|\\{)")

func layoutRepo(c *core.Ctx, r *rng.R, whole []string) tcase {
	s := rng.Pick(r, whole)
	fam := ""
	for k := 1 + r.Intn(3); k > 0; k-- {
		sep := rng.Pick(r, layoutSeps)
		if r.Bool() {
			sites := reLayoutSite.FindAllStringIndex(s, -1)
			if len(sites) == 0 {
				break
			}
			at := sites[r.Intn(len(sites))][1] - 1 // the blank
			s = s[:at] + sep.text + s[at+1:]
			if fam == "" {
				fam = "keyword layout (blank after a keyword / operator / delimiter of a repository template replaced)"
			}
		} else {
			sites := reLayoutSuffix.FindAllStringSubmatchIndex(s, -1)
			if len(sites) == 0 {
				break
			}
			m := sites[r.Intn(len(sites))]
			tok := strings.TrimLeft(s[m[0]:m[1]], " \t")
			s = s[:m[0]] + sep.text + s[m[1]-len(tok):]
			c.Hist("keyword layout: separator put before `" + tok + "` of a repository template")
			if fam == "" {
				fam = "keyword layout (blanks before a closing / suffix token of a repository template replaced)"
			}
		}
		c.Hist("keyword layout separator: " + sep.name)
	}
	if fam == "" {
		fam = "keyword layout (repository template without a site)"
	}
	return mkCase(fam, s)
}

// layoutTable summarises, per hole, which separators the real tool chain accepted (so their ranges were judged).
type layoutTable struct {
	info     map[string]layoutInfo
	accepted map[string][]string
	rejected map[string]int
}

func (t *layoutTable) observe(r caseResult) {
	li, ok := t.info[r.tc.src]
	if !ok {
		return
	}
	delete(t.info, r.tc.src) // the random family may produce the same text again
	if r.status == "accepted" {
		t.accepted[li.slot] = append(t.accepted[li.slot], li.sep)
	} else {
		t.rejected[li.slot]++
	}
}

func (t *layoutTable) extra() map[string]any {
	// slots grouped by the set of separators accepted there
	groups := map[string][]string{}
	for s, seps := range t.accepted {
		k := strings.Join(seps, " | ")
		groups[k] = append(groups[k], s)
	}
	out := map[string]any{}
	for k, slots := range groups {
		sort.Strings(slots)
		out[k] = slots
	}
	never := []string{}
	for s := range t.rejected {
		if len(t.accepted[s]) == 0 {
			never = append(never, s)
		}
	}
	sort.Strings(never)
	return map[string]any{"accepted separators -> slots (parse + generate + gofmt; every range of these trees was judged)": out,
		"slots where only rejected layouts were produced": never}
}
