package c06

import (
	"fmt"

	parser "github.com/a-h/templ/parser/v2"
)

// item is one recorded range of a parsed tree, to be judged by the extracted specification predicate.
//   kind "E": expression - range_okb (in bounds, ordered, line/col agree with index, source begins with the text)
//   kind "N": name / text - name_range_okb (in bounds, consistent, covers exactly the text)
//   kind "P": plain extent - plain_range_okb (in bounds, ordered, consistent)
type item struct {
	kind  string
	what  string // which syntactic slot, for reports and the histogram
	text  string
	r     parser.Range
	exprK int // for the parseGo tie: number of keyword bytes before From (-1: not produced by parseGo)
}

type walker struct {
	items   []item
	unknown []string
}

func (w *walker) expr(what string, e parser.Expression, k int) {
	w.items = append(w.items, item{kind: "E", what: what, text: e.Value, r: e.Range, exprK: k})
}
func (w *walker) name(what, name string, r parser.Range) {
	w.items = append(w.items, item{kind: "N", what: what, text: name, r: r, exprK: -1})
}
func (w *walker) plain(what string, r parser.Range) {
	w.items = append(w.items, item{kind: "P", what: what, r: r, exprK: -1})
}

func (w *walker) file(tf parser.TemplateFile) {
	for _, h := range tf.Header {
		w.expr("header line", h.Expression, -1)
	}
	w.expr("package", tf.Package.Expression, -1)
	for _, n := range tf.Nodes {
		switch n := n.(type) {
		case parser.TemplateFileGoExpression:
			w.expr("top-level go", n.Expression, -1)
		case parser.HTMLTemplate:
			w.plain("templ extent", n.Range)
			w.expr("templ declaration", n.Expression, -1)
			w.nodes(n.Children)
		case parser.CSSTemplate:
			w.plain("css extent", n.Range)
			w.expr("css declaration", n.Expression, -1)
			for _, p := range n.Properties {
				switch p := p.(type) {
				case parser.ConstantCSSProperty:
				case parser.ExpressionCSSProperty:
					w.expr("css property expression", p.Value.Expression, -1)
				default:
					w.unknown = append(w.unknown, fmt.Sprintf("%T", p))
				}
			}
		case parser.ScriptTemplate:
			w.plain("script extent", n.Range)
			w.expr("script name", n.Name, -1)
			w.expr("script parameters", n.Parameters, -1)
		default:
			w.unknown = append(w.unknown, fmt.Sprintf("%T", n))
		}
	}
}

func (w *walker) nodes(ns []parser.Node) {
	for _, n := range ns {
		w.node(n)
	}
}

func (w *walker) node(n parser.Node) {
	switch n := n.(type) {
	case parser.Text:
		w.name("text", n.Value, n.Range)
	case parser.Element:
		w.name("element name", n.Name, n.NameRange)
		w.attrs(n.Attributes)
		w.nodes(n.Children)
	case parser.RawElement:
		w.attrs(n.Attributes)
	case parser.ScriptElement:
		w.attrs(n.Attributes)
		for _, c := range n.Contents {
			if c.GoCode != nil {
				w.expr("go code in script", c.GoCode.Expression, 0)
			}
		}
	case parser.GoComment, parser.HTMLComment, parser.ChildrenExpression, parser.Whitespace, parser.DocType:
	case parser.CallTemplateExpression:
		w.expr("call template", n.Expression, 0)
	case parser.TemplElementExpression:
		w.expr("templ element", n.Expression, -2)
		w.nodes(n.Children)
	case parser.IfExpression:
		w.expr("if", n.Expression, 3)
		w.nodes(n.Then)
		for _, ei := range n.ElseIfs {
			w.expr("else if", ei.Expression, 3)
			w.nodes(ei.Then)
		}
		w.nodes(n.Else)
	case parser.SwitchExpression:
		w.expr("switch", n.Expression, 7)
		for _, c := range n.Cases {
			w.expr("case", c.Expression, -3)
			w.nodes(c.Children)
		}
	case parser.ForExpression:
		w.expr("for", n.Expression, 4)
		w.nodes(n.Children)
	case parser.StringExpression:
		w.expr("string expression", n.Expression, -1)
	case parser.GoCode:
		w.expr("go code", n.Expression, 0)
	case nil:
	default:
		w.unknown = append(w.unknown, fmt.Sprintf("%T", n))
	}
}

func (w *walker) attrs(as []parser.Attribute) {
	for _, a := range as {
		switch a := a.(type) {
		case parser.BoolConstantAttribute:
			w.name("attribute name", a.Name, a.NameRange)
		case parser.ConstantAttribute:
			w.name("attribute name", a.Name, a.NameRange)
		case parser.BoolExpressionAttribute:
			w.name("attribute name", a.Name, a.NameRange)
			w.expr("bool attribute expression", a.Expression, 0)
		case parser.ExpressionAttribute:
			w.name("attribute name", a.Name, a.NameRange)
			w.expr("attribute expression", a.Expression, -1)
		case parser.SpreadAttributes:
			w.expr("spread attributes", a.Expression, -4)
		case parser.ConditionalAttribute:
			w.expr("conditional attribute", a.Expression, 3)
			w.attrs(a.Then)
			w.attrs(a.Else)
		case nil:
		default:
			w.unknown = append(w.unknown, fmt.Sprintf("%T", a))
		}
	}
}
