// Package c06: the parser is total and every recorded position is faithful to the source.
package c06

import (
	"bytes"
	"crypto/sha1"
	"errors"
	"fmt"
	"go/ast"
	"go/format"
	goparser "go/parser"
	"go/token"
	"os"
	"path/filepath"
	"runtime"
	"runtime/debug"
	"strconv"
	"strings"
	"sync"
	"sync/atomic"
	"time"
	"unicode"
	"unicode/utf8"

	"github.com/a-h/parse"
	"github.com/a-h/templ/generator"
	parser "github.com/a-h/templ/parser/v2"
	"github.com/a-h/templ/parser/v2/goexpression"

	"verifharness/internal/core"
	"verifharness/internal/drv"
	"verifharness/internal/rng"
)

func init() { core.Register("C06", Run) }

var timings = map[string]string{}

// the one recorded finding of C06 (known_findings.json); see shapeOf for the decidable predicate
const narrowShape = "top-level go:leading-unicode-space-trimmed"

func replayInput(family, src string) map[string]string {
	m := map[string]string{"family": family, "template_quoted": strconv.Quote(src)}
	if utf8.ValidString(src) {
		m["template"] = src
	}
	return m
}

func Run(c *core.Ctx) {
	c.Rule = "inputs of parser.ParseString: every .templ file of the repository, the string literals of parser/v2/*_test.go and the txtar test data (raw and wrapped in a templ body), hand-written probes, their truncations, structure-aware mutations (token insert/delete/duplicate/swap, span delete, delimiter imbalance, byte replace, CRLF conversion, multi-byte text before expressions / in strings / in comment lines, blank lines, indentation), keyword layouts (" + strconv.Itoa(len(layoutForms)) + " forms - if / else if / for / switch / case / default / call / string, go-code, attribute, bool-attribute, spread, children and conditional-attribute expressions / element tags, constant attributes / templ, css, script headers / go blocks - with a hole on both sides of every token: after every keyword, operator, comma, semicolon, opening delimiter and in front of every operator, suffix operator (`...`, `++`), comma, semicolon, colon, closing brace / parenthesis / tag end; each hole filled with each of " + strconv.Itoa(len(layoutSeps)) + " separators - none, blanks, tab, LF, CRLF, CR, indented continuation lines, block / multi-line / multi-byte / line comments, NBSP - one at a time exhaustively, then several forms per file with random separators behind multi-byte / CRLF prologues, then the blank after a keyword / operator / delimiter and the blanks (or nothing) in front of a closing / suffix token of the repository templates replaced), scanner-ILLEGAL pieces in open contexts (" + strconv.Itoa(len(illForms)) + " expression forms - @call, @call { }, {{ }}, {! }, { x... }, x?={ }, { x }, x={ x }, {{ }} in script, if / else if / for / switch / case, conditional attribute, css property, templ parameters - x " + strconv.Itoa(len(illContexts)) + " open contexts - argument, index, composite literal, function literal body / parameters, behind `func`, an operator, a period, a closer, unclosed, nested - x " + strconv.Itoa(len(illPieces)) + " pieces - invalid UTF-8 bytes, NUL, U+FEFF, illegal characters, unterminated rune / string / raw string / comment, malformed literals, literals with carriage returns - each file also cut at every byte from the site on, exhaustive, ordered by length), file prologues and encodings (" + strconv.Itoa(len(filePrologues)) + " prologues - UTF-8 BOM alone / twice / before blank lines, CRLF, comments, blank lines, blanks, tab, CR, form feed, NUL, NBSP and other Unicode spaces, UTF-16 / UTF-32 BOM bytes, comment lines - and " + strconv.Itoa(len(fileEncodings)) + " whole-file encodings - BOM + CRLF, CRLF, UTF-16 LE / BE, a BOM on every line - on hand-written files, one file with every layout form and repository templates; U+FEFF, NUL, NBSP, form feed elsewhere in the file; every one through parser.ParseString AND through parser.Parse of a file on disk holding the same bytes, positions judged against the bytes as given), order independence (the hand-written files and the scanner-based forms of the ILLEGAL-piece family parsed forwards and backwards in one goroutine, outcomes compared), thorough: every truncation and coverage-guided random bytes; distinct non-trivial = distinct inputs (by SHA-1) that parse, generate and gofmt and carry at least one recorded range judged by the extracted predicate, plus distinct inputs rejected with a positioned error"
	c.Trusted = append(c.Trusted,
		"specification spec/PosOf.v (pos_of, range_ok, name_range_ok) - what a faithful position is",
		"extraction: ExtrOcamlBasic only; ocaml/driver.ml (hex line protocol)",
		"Go harness internal/c06 (tree walker over every node/attribute kind, generators, comparison) and the Go toolchain",
		"totality of the real parser and of go/parser/go/scanner is monitored on the generated inputs, not proved (DESIGN section 10)")
	c.Assume = append(c.Assume,
		"files are shorter than 2^31 bytes and 2^32 lines (NewExpression narrows int to int64/uint32)",
		"go/scanner contract: every token but ILLEGAL ends inside the source (monitored on every token of the generated expressions); nothing is assumed about the literal of an ILLEGAL token",
		"go/parser contract: positions of nodes found inside the wrapper function body lie at or after the wrapper prefix (monitored: extractor results are checked for 0 <= start <= end <= len on every parseGo expression of the accepted trees)",
		"`progress` of every node parser (success advances, failure does not move backwards) - monitored on every call during the sweep",
		"a template is `accepted` when parser.ParseString, generator.Generate and go/format.Source all succeed")
	c.Level = "proof"
	phase := func(name string, f func(*core.Ctx)) {
		t := time.Now()
		f(c)
		timings[name] = fmt.Sprintf("%.1fs", time.Since(t).Seconds())
	}
	c.Extra["phase_timings"] = timings
	phase("proofs", func(c *core.Ctx) { c.Proofs() })
	phase("parse.Input tie", inputTie)
	phase("extract tie", extractTie)
	phase("SliceArgs/Func tie", goexprTie)
	phase("scanner extractors tie", scanTie)
	var extra []tcase
	if !c.Quick() {
		phase("coverage-guided fuzzing", func(c *core.Ctx) { extra = fuzz(c) })
	}
	phase("sweep", func(c *core.Ctx) { sweep(c, extra) })
}

// ---------------------------------------------------------------------------------------------
// parse.Input: PositionAt / Peek / Take / Seek, model = implementation, and the specification on the implementation
// ---------------------------------------------------------------------------------------------
func inputTie(c *core.Ctx) {
	var strs []string
	alpha := []string{"a", "\n", "\r", "é", "\xff"}
	var gen func(p string, n int)
	gen = func(p string, n int) {
		strs = append(strs, p)
		if n == 0 {
			return
		}
		for _, a := range alpha {
			gen(p+a, n-1)
		}
	}
	gen("", c.N(4, 6))
	nExh := len(strs)
	pool := []string{"a", "b", " ", "\n", "\n", "\r\n", "\r", "é", "日本", "😀", "\xff", "\xc3", "\xe2\x80", "\t", "{", "}", "\u00a0", "\u0085", "\u2028"}
	for i := c.N(1500, 40000); i > 0; i-- {
		var sb strings.Builder
		for k := c.Rng.Intn(60); k > 0; k-- {
			sb.WriteString(rng.Pick(c.Rng, pool))
		}
		strs = append(strs, sb.String())
	}
	type opres struct{ replies []string }
	var reqs, chk []drv.Req
	var impl [][]string
	for si, s := range strs {
		in := parse.NewInput(s)
		args := [][]byte{[]byte(s)}
		chkArgs := [][]byte{[]byte(s)}
		var out []string
		// every index for the exhaustive part, all of them too for the random part (short strings)
		for i := 0; i <= len(s); i++ {
			p := in.PositionAt(i)
			args = append(args, []byte(fmt.Sprintf("q%d", i)))
			out = append(out, fmt.Sprintf("%d,%d,%d", p.Index, p.Line, p.Col))
			chkArgs = append(chkArgs, []byte("P"), nil, itoa(p.Index), itoa(p.Line), itoa(p.Col), itoa(p.Index), itoa(p.Line), itoa(p.Col))
		}
		// a random script of Take / Peek / Seek / PositionAt
		r := c.Rng
		for k := 0; k < 8; k++ {
			n := r.Intn(len(s) + 3)
			switch r.Intn(4) {
			case 0:
				t, ok := in.Take(n)
				args = append(args, []byte(fmt.Sprintf("t%d", n)))
				out = append(out, okStr(ok, t))
			case 1:
				t, ok := in.Peek(n)
				args = append(args, []byte(fmt.Sprintf("p%d", n)))
				out = append(out, okStr(ok, t))
			case 2:
				z := n - 1
				ok := in.Seek(z)
				args = append(args, []byte(fmt.Sprintf("s%d", z)))
				out = append(out, okStr(ok, "")[:1])
			default:
				if n > len(s) {
					n = len(s)
				}
				p := in.PositionAt(n)
				args = append(args, []byte(fmt.Sprintf("q%d", n)))
				out = append(out, fmt.Sprintf("%d,%d,%d", p.Index, p.Line, p.Col))
			}
		}
		out = append(out, strconv.Itoa(in.Index()))
		reqs = append(reqs, drv.Req{Fn: "ops", Args: args})
		chk = append(chk, drv.Req{Fn: "check", Args: chkArgs})
		impl = append(impl, out)
		key := ""
		if strings.Contains(s, "\n") {
			key = "input:" + s
		}
		c.Count(key)
		if si < nExh {
			c.Hist("parse.Input: exhaustive short strings over {a, LF, CR, é, 0xff}")
		} else {
			c.Hist("parse.Input: random strings with LF/CRLF/multi-byte/invalid UTF-8")
		}
	}
	res := c.Model(reqs)
	tieOK := true
	for i, r := range res {
		if len(r) != len(impl[i]) {
			tieOK = false
			if c.NFails("parse.Input: model = implementation") < 3 {
				c.Fail("tie", "parse.Input: model = implementation", "", map[string]string{"input": strconv.Quote(strs[i])}, fmt.Sprintf("model gave %d replies, implementation %d", len(r), len(impl[i])))
			}
			continue
		}
		for k := range r {
			if string(r[k]) != impl[i][k] {
				tieOK = false
				if c.NFails("parse.Input: model = implementation") < 3 {
					c.Fail("tie", "parse.Input: model = implementation", "", map[string]string{"input": strconv.Quote(strs[i]), "op": string(reqs[i].Args[k+1]), "impl": impl[i][k], "model": string(r[k])}, "Peek/Take/Seek/PositionAt differ")
				}
				break
			}
		}
	}
	c.Oblige("correspondence", "parse.Input: model Peek/Take/Seek/PositionAt = github.com/a-h/parse on all generated strings, indices and operation scripts", tieOK, "")
	res = c.Model(chk)
	propOK := true
	for i, r := range res {
		for k, b := range r {
			if string(b) != "1" {
				propOK = false
				if c.NFails("PositionAt = pos_of (specification on the implementation)") < 3 {
					c.Fail("property", "PositionAt = pos_of (specification on the implementation)", "position-at-unfaithful", map[string]string{"input": strconv.Quote(strs[i]), "index": strconv.Itoa(k), "impl": impl[i][k]},
						"parse.Input.PositionAt answered a line/column that is not (LF count before the index, distance from the line start)")
				}
				break
			}
		}
		if len(r) != len(strs[i])+1 {
			propOK = false
		}
	}
	c.Oblige("correspondence", "parse.Input: extracted pos_of agrees with PositionAt's answer at every index of every generated string", propOK, "")
	// numbers no faithful position can have (a wrapped-around uint32 column, a negative index) reach the extracted
	// predicate cut off at len(src)+1 (X06.numc, C06_checked_predicates_saturate): the driver must answer, and answer "false"
	{
		src := "ab\ncd"
		good := []string{"3", "1", "0", "5", "1", "2"} // "cd"
		var sreqs []drv.Req
		var swant []string
		mk := func(kind, text string, nums []string) {
			args := [][]byte{[]byte(src), []byte(kind), []byte(text)}
			for _, n := range nums {
				args = append(args, []byte(n))
			}
			sreqs = append(sreqs, drv.Req{Fn: "check", Args: args})
		}
		for _, kind := range []string{"E", "N", "P"} {
			mk(kind, "cd", good)
			swant = append(swant, "1")
			for k := range good {
				for _, bad := range []string{"4294967295", "4294967294", "18446744073709551615", "-1", "-9223372036854775808", "6", "7", ""} {
					nums := append([]string(nil), good...)
					nums[k] = bad
					mk(kind, "cd", nums)
					swant = append(swant, "0")
				}
			}
		}
		satOK := true
		res := c.Model(sreqs)
		for i, r := range res {
			c.Count("")
			if len(r) != 1 || string(r[0]) != swant[i] {
				satOK = false
			}
		}
		c.Hist("extracted predicate on out-of-range numbers (wrapped uint32, negative int64, beyond the source)")
		c.Oblige("side-condition", "the extracted predicates answer (and answer false) on recorded numbers outside the source: wrapped-around uint32, negative int64, len+1, len+2, empty", satOK && len(res) == len(swant), fmt.Sprintf("%d probes", len(swant)))
	}
	c.Sample(map[string]string{"input": strconv.Quote("a\r\né\nb"), "PositionAt(5)": fmt.Sprint(parse.NewInput("a\r\né\nb").PositionAt(5))})
}

func okStr(ok bool, t string) string {
	if ok {
		return "1" + t
	}
	return "0"
}
func itoa[T int | int64 | uint32](n T) []byte { return []byte(strconv.FormatInt(int64(n), 10)) }

// ---------------------------------------------------------------------------------------------
// goexpression.extract with adversarial extractors (verif export), latestEnd, TrimSpace
// ---------------------------------------------------------------------------------------------
func extractTie(c *core.Ctx) {
	contents := []string{"x", "if a {", "for i := 0; i < 10; i++ {\n<div>", "a\nb\nc", "é := 1", "switch x {\ncase 1:", "x }", "f(", "if a {\n\t<p>{ b }</p>\n}\n"}
	const plen = 38 // len("package main\nfunc templ_container() {\n"); the model's container_prefix is compared through behaviour
	var reqs []drv.Req
	type ex struct {
		content      string
		s0, e0, s, e int
	}
	var exs []ex
	propOK := true
	for _, ct := range contents {
		var vals []int
		for v := -3; v <= plen+len(ct)+6; v++ {
			if v < 3 || v > plen-4 {
				vals = append(vals, v)
			}
		}
		vals = append(vals, 1<<31, -(1 << 31), 1000003)
		for _, s0 := range vals {
			for _, e0 := range vals {
				called, s, e, _ := goexpression.VerifExtract(ct, s0, e0, nil)
				if !called {
					continue
				}
				exs = append(exs, ex{ct, s0, e0, s, e})
				reqs = append(reqs, drv.Req{Fn: "extract", Args: [][]byte{[]byte(ct), itoa(s0), itoa(e0)}})
				inContract := s0 >= plen && e0 >= plen
				key := ""
				if inContract {
					key = fmt.Sprintf("extract:%s:%d:%d", ct, s0, e0)
					c.Hist("extract: extractor answer within the wrapper body")
					if !(0 <= s && s <= e && e <= len(ct)) {
						propOK = false
						if c.NFails("extract clamps into the content") < 3 {
							c.Fail("property", "extract clamps into the content", "extract-unclamped", map[string]string{"content": ct, "start0": strconv.Itoa(s0), "end0": strconv.Itoa(e0), "start": strconv.Itoa(s), "end": strconv.Itoa(e)},
								"goexpression.extract returned a pair outside 0 <= start <= end <= len(content) although the extractor answered positions inside the body")
						}
					}
				} else {
					c.Hist("extract: extractor answer before the wrapper body (outside the contract)")
				}
				c.Count(key)
			}
		}
	}
	res := c.Model(reqs)
	tieOK := len(exs) > 1000
	for i, r := range res {
		if len(r) != 2 || string(r[0]) != strconv.Itoa(exs[i].s) || string(r[1]) != strconv.Itoa(exs[i].e) {
			tieOK = false
			if c.NFails("extract: model = implementation") < 3 {
				c.Fail("tie", "extract: model = implementation", "", map[string]string{"content": exs[i].content, "start0": strconv.Itoa(exs[i].s0), "end0": strconv.Itoa(exs[i].e0), "impl": fmt.Sprint(exs[i].s, exs[i].e), "model": fmt.Sprintf("%s", r)}, "clamping differs")
			}
		}
	}
	c.Oblige("correspondence", "extract: model prefix subtraction and clamping = goexpression.extract under adversarial extractors", tieOK, fmt.Sprintf("%d extractor answers", len(exs)))
	c.Oblige("correspondence", "extract: 0 <= start <= end <= len(content) on the implementation for every extractor answer inside the body", propOK, "")

	// latestEnd
	reqs = reqs[:0]
	var want []int
	for i := 0; i < c.N(300, 5000); i++ {
		start := c.Rng.Intn(50)
		n := c.Rng.Intn(4)
		ends := make([]int, n)
		args := [][]byte{itoa(start)}
		for k := range ends {
			ends[k] = c.Rng.Intn(60)
			args = append(args, itoa(ends[k]))
		}
		want = append(want, goexpression.VerifLatestEnd(start, ends...))
		reqs = append(reqs, drv.Req{Fn: "latest_end", Args: args})
		c.Count("")
	}
	ok := true
	for i, r := range c.Model(reqs) {
		if len(r) != 1 || string(r[0]) != strconv.Itoa(want[i]) {
			ok = false
		}
	}
	c.Oblige("correspondence", "latestEnd: model = implementation", ok, "")

	// strings.TrimSpace
	reqs = reqs[:0]
	var ins []string
	pool := []string{" ", "\t", "\n", "\r", "\v", "\f", "\u0085", "\u00a0", "\u1680", "\u2000", "\u2005", "\u200a", "\u200b", "\u2028", "\u2029", "\u202f", "\u205f", "\u3000", "\ufeff", "\u180e",
		"a", "é", "\xc2", "\xa0", "\x85", "\xe2", "\x80", "\xe2\x80", "\xe3\x80", "\x80\x80", "\xe1\x9a", "\xff", "x y"}
	for i := 0; i < c.N(4000, 100000); i++ {
		var sb strings.Builder
		for k := c.Rng.Intn(7); k > 0; k-- {
			sb.WriteString(rng.Pick(c.Rng, pool))
		}
		ins = append(ins, sb.String())
		reqs = append(reqs, drv.Req{Fn: "trim", Args: [][]byte{[]byte(sb.String())}})
		c.Count("")
	}
	ok = true
	for i, r := range c.Model(reqs) {
		if len(r) != 1 || string(r[0]) != strings.TrimSpace(ins[i]) {
			if ok {
				c.Fail("tie", "TrimSpace: model = strings.TrimSpace", "", map[string]string{"input": strconv.Quote(ins[i]), "impl": strconv.Quote(strings.TrimSpace(ins[i])), "model": fmt.Sprintf("%q", r)}, "trim differs")
			}
			ok = false
		}
	}
	c.Oblige("contract", "strings.TrimSpace = model trim_space (Unicode white space, invalid UTF-8) on random strings", ok, "")
}

// ---------------------------------------------------------------------------------------------
// goexpression.SliceArgs / Func: the slice arithmetic on go/parser's positions, and the go/parser contract
// ---------------------------------------------------------------------------------------------
const sliceArgsPrefix = "package main\nvar templ_args = []any{"
const funcPrefix = "package main\n"

func firstNode[T ast.Node](src string) (res T, found bool, clean bool) {
	node, perr := goparser.ParseFile(token.NewFileSet(), "", src, goparser.AllErrors)
	clean = perr == nil
	if node == nil {
		return res, false, clean
	}
	ast.Inspect(node, func(n ast.Node) bool {
		if found {
			return false
		}
		if t, ok := n.(T); ok {
			res, found = t, true
			return false
		}
		return true
	})
	return
}

func goexprTie(c *core.Ctx) {
	_, tmpls := repoTemplates()
	tmpls = append(tmpls, handWritten...)
	var sa, fn []string
	for _, s := range tmpls {
		for i := 0; i < len(s); i++ {
			if s[i] == '{' {
				rest := s[i+1:]
				rest = strings.TrimPrefix(rest, " ")
				sa = append(sa, rest)
			}
			if strings.HasPrefix(s[i:], "templ ") && (i == 0 || s[i-1] == '\n') {
				fn = append(fn, s[i+6:])
			}
			if strings.HasPrefix(s[i:], "css ") && (i == 0 || s[i-1] == '\n') {
				fn = append(fn, s[i+4:])
			}
		}
	}
	sa = append(sa, "a, b }", "a,\n b,\n}", "\"é\" } x", "}", " }", "f(x) /* c */ }", "a }}", "x, }", "[]string{\"a\"}[0] }", "a +\n", "a } b } c }")
	fn = append(fn, "x() {", "(r R) x(a string) {", "x(", "x", "é(a int) {\n", ") {")
	limit := c.N(500, 100000)
	pick := func(xs []string) []string {
		if len(xs) <= limit {
			return xs
		}
		out := make([]string, 0, limit)
		for i := 0; i < limit; i++ {
			out = append(out, xs[c.Rng.Intn(len(xs))])
		}
		return out
	}
	sa, fn = pick(sa), pick(fn)
	var reqs []drv.Req
	var want []string
	contractOK, tieOK := true, true
	contractDetail := ""
	notPrefixOnErrors := 0
	for _, ct := range sa {
		src := sliceArgsPrefix + ct + "}"
		lit, found, clean := firstNode[*ast.CompositeLit](src)
		var real string
		func() {
			defer func() {
				if r := recover(); r != nil {
					real = "panic"
				}
			}()
			e, _ := goexpression.SliceArgs(ct) // the error result is never set once go/parser returned a file
			real = "ok " + e
		}()
		if !found {
			continue
		}
		args := [][]byte{[]byte(ct), itoa(int(lit.Lbrace)), itoa(int(lit.Rbrace))}
		inContract := int(lit.Lbrace) == len(sliceArgsPrefix) && int(lit.Rbrace)-1 >= len(sliceArgsPrefix) && int(lit.Rbrace)-1 <= len(sliceArgsPrefix)+len(ct)
		for _, e := range lit.Elts {
			args = append(args, itoa(int(e.End())))
			if int(e.End())-1 < int(lit.Lbrace) {
				inContract = false
			}
		}
		isPrefix := strings.HasPrefix(ct, strings.TrimPrefix(real, "ok "))
		if clean {
			// go/parser accepted prefix+content+"}": the contract of the model theorem must hold
			c.Hist("SliceArgs: content go/parser accepts")
			if !inContract {
				contractOK = false
				contractDetail = fmt.Sprintf("content %q: Lbrace %d Rbrace %d", ct, lit.Lbrace, lit.Rbrace)
			}
			if real != "panic" && !isPrefix {
				c.Fail("property", "SliceArgs returns a prefix of its input when go/parser accepts it", "sliceargs-not-prefix", map[string]string{"content": ct, "expr": real}, "goexpression.SliceArgs returned text that is not a prefix of the content")
			}
		} else {
			c.Hist("SliceArgs: content go/parser rejects (error recovery)")
			if !isPrefix {
				notPrefixOnErrors++
			}
		}
		if real == "panic" {
			c.Fail("property", "SliceArgs does not panic", "sliceargs-panic", map[string]string{"content": ct}, "goexpression.SliceArgs panicked")
		}
		reqs = append(reqs, drv.Req{Fn: "slice_args", Args: args})
		want = append(want, real)
		c.Count("")
	}
	nsa := len(reqs)
	for _, ct := range fn {
		src := funcPrefix + "func " + ct
		decl, found, _ := firstNode[*ast.FuncDecl](src)
		var real string
		func() {
			defer func() {
				if r := recover(); r != nil {
					real = "panic"
				}
			}()
			_, e, err := goexpression.Func("func " + ct)
			if err != nil {
				real = "error"
			} else {
				real = "ok " + e
			}
		}()
		if !found || decl.Type == nil || decl.Type.Params == nil {
			continue
		}
		if int(decl.Pos()) != len(funcPrefix)+1 || int(decl.Type.Params.End())-1 < int(decl.Pos())+4 {
			contractOK = false
			contractDetail = fmt.Sprintf("func content %q: Pos %d Params.End %d", ct, decl.Pos(), decl.Type.Params.End())
		}
		if real == "panic" {
			c.Fail("property", "Func does not panic", "func-panic", map[string]string{"content": ct}, "goexpression.Func panicked")
		}
		reqs = append(reqs, drv.Req{Fn: "func_expr", Args: [][]byte{[]byte("func " + ct), itoa(int(decl.Pos())), itoa(int(decl.Type.Params.End()))}})
		want = append(want, real)
		c.Count("")
		c.Hist("Func on the text after each `templ ` / `css ` of the repository templates")
	}
	for i, r := range c.Model(reqs) {
		got := ""
		if len(r) >= 1 {
			got = string(r[0])
			if len(r) == 2 {
				got += " " + string(r[1])
			}
		}
		w := want[i]
		if i >= nsa && w == "error" && strings.HasPrefix(got, "ok") {
			// Func reports go/parser's syntax errors as well; the model only knows the length test
			continue
		}
		if got != w {
			tieOK = false
			if c.NFails("SliceArgs/Func: model = implementation") < 3 {
				c.Fail("tie", "SliceArgs/Func: model = implementation", "", map[string]string{"fn": reqs[i].Fn, "content": string(reqs[i].Args[0]), "impl": w, "model": got}, "slice arithmetic differs")
			}
		}
	}
	c.Extra["sliceargs_not_a_prefix_on_contents_go_parser_rejects"] = notPrefixOnErrors
	c.Oblige("correspondence", "SliceArgs / Func: model slice arithmetic on go/parser's positions = implementation", tieOK, fmt.Sprintf("%d contents", len(reqs)))
	c.Oblige("contract", "go/parser, on contents it accepts: the composite literal / function declaration found first is the wrapper's, closing brace within content, elements after the brace", contractOK, contractDetail)
}

// ---------------------------------------------------------------------------------------------
// the sweep over the real parser
// ---------------------------------------------------------------------------------------------
type noProgress struct{ msg string }

var abortSweep atomic.Bool

type outcome struct {
	tf       parser.TemplateFile
	err      error
	panicked any
	stack    string
	dur      time.Duration
	hung     bool
}

func limitFor(n int) time.Duration {
	units := (n + 10239) / 10240
	if units < 1 {
		units = 1
	}
	return time.Duration(units) * 2 * time.Second
}

// scratch directory for the cases that go through parser.Parse (set up and removed by sweep)
var fileDir string
var fileSeq atomic.Int64

func parseGuard(src string) outcome { return parseGuardVia(src, false) }

func parseGuardVia(src string, viaFile bool) outcome {
	path := ""
	if viaFile {
		path = filepath.Join(fileDir, fmt.Sprintf("f%d.templ", fileSeq.Add(1)))
		if err := os.WriteFile(path, []byte(src), 0o644); err != nil {
			return outcome{err: fmt.Errorf("harness: %w", err)}
		}
		defer os.Remove(path)
	}
	ch := make(chan outcome, 1)
	go func() {
		var o outcome
		start := time.Now()
		defer func() {
			if r := recover(); r != nil {
				o.panicked = r
				o.stack = string(debug.Stack())
			}
			o.dur = time.Since(start)
			ch <- o
		}()
		if viaFile {
			o.tf, o.err = parser.Parse(path)
		} else {
			o.tf, o.err = parser.ParseString(src)
		}
	}()
	lim := limitFor(len(src))
	select {
	case o := <-ch:
		return o
	case <-time.After(5*lim + 10*time.Second):
		return outcome{hung: true, dur: 5*lim + 10*time.Second}
	}
}

type caseResult struct {
	tc       tcase
	status   string // error | error-unpositioned | parsed | accepted | panic | slow | hung
	detail   string
	items    []item
	unknown  []string
	dur      time.Duration
	errIndex int
}

func accepted(tf parser.TemplateFile) bool {
	var buf bytes.Buffer
	ok := false
	func() {
		defer func() { recover() }()
		if _, err := generator.Generate(tf, &buf); err != nil {
			return
		}
		if _, err := format.Source(buf.Bytes()); err != nil {
			return
		}
		ok = true
	}()
	return ok
}

func process(tc tcase) caseResult {
	res := caseResult{tc: tc}
	if abortSweep.Load() {
		res.status = "skipped"
		return res
	}
	o := parseGuardVia(tc.src, tc.viaFile)
	res.dur = o.dur
	switch {
	case o.hung:
		res.status = "hung"
		res.detail = fmt.Sprintf("no answer after %v for %d bytes", o.dur, len(tc.src))
		abortSweep.Store(true) // the stuck goroutine keeps a CPU busy; do not pile up more
		return res
	case o.panicked != nil:
		if np, ok := o.panicked.(noProgress); ok {
			res.status = "no-progress"
			res.detail = np.msg
			return res
		}
		res.status = "panic"
		res.detail = fmt.Sprintf("%v\n%s", o.panicked, o.stack)
		return res
	}
	if o.dur > limitFor(len(tc.src)) {
		// confirm on a second, undisturbed run (the machine is shared)
		o2 := parseGuardVia(tc.src, tc.viaFile)
		if o2.hung || o2.dur > limitFor(len(tc.src)) {
			res.status = "slow"
			res.detail = fmt.Sprintf("%v and %v for %d bytes", o.dur, o2.dur, len(tc.src))
			return res
		}
	}
	if o.err != nil {
		res.status = "error-unpositioned"
		var pe parse.ParseError
		var ue parser.UntilNotFoundError
		switch {
		case errors.As(o.err, &pe):
			res.status, res.errIndex = "error", pe.Pos.Index
		case errors.As(o.err, &ue):
			res.status, res.errIndex = "error", ue.Pos.Index
		}
		if res.status == "error" && (res.errIndex < 0 || res.errIndex > len(tc.src)) {
			res.status = "error-outside"
			res.detail = fmt.Sprintf("error %q at index %d of a %d byte input", o.err.Error(), res.errIndex, len(tc.src))
		}
		return res
	}
	var w walker
	w.file(o.tf)
	res.items, res.unknown = w.items, w.unknown
	if accepted(o.tf) {
		res.status = "accepted"
	} else {
		res.status = "parsed"
	}
	return res
}

func checkReq(src string, items []item) drv.Req {
	args := make([][]byte, 0, 1+8*len(items))
	args = append(args, []byte(src))
	for _, it := range items {
		args = append(args, []byte(it.kind), []byte(it.text),
			itoa(it.r.From.Index), itoa(it.r.From.Line), itoa(it.r.From.Col),
			itoa(it.r.To.Index), itoa(it.r.To.Line), itoa(it.r.To.Col))
	}
	return drv.Req{Fn: "check", Args: args}
}

// modelBatch runs requests through several driver processes.
func modelBatch(c *core.Ctx, reqs []drv.Req) [][][]byte {
	if len(reqs) < 64 {
		return c.Model(reqs)
	}
	workers := runtime.NumCPU()
	if workers > 8 {
		workers = 8
	}
	out := make([][][]byte, len(reqs))
	chunk := (len(reqs) + workers - 1) / workers
	var wg sync.WaitGroup
	var mu sync.Mutex
	var firstErr error
	for w := 0; w < workers; w++ {
		lo, hi := w*chunk, (w+1)*chunk
		if lo >= len(reqs) {
			break
		}
		if hi > len(reqs) {
			hi = len(reqs)
		}
		wg.Add(1)
		go func(lo, hi int) {
			defer wg.Done()
			r, err := drv.Batch(c.Driver, reqs[lo:hi])
			if err != nil {
				mu.Lock()
				firstErr = err
				mu.Unlock()
				return
			}
			copy(out[lo:hi], r)
		}(lo, hi)
	}
	wg.Wait()
	if firstErr != nil {
		c.Oblige("correspondence", "extracted-model-runs", false, firstErr.Error())
	}
	return out
}

func extractorFor(it item) (func(string) (int, int, error), int, bool) {
	switch {
	case it.exprK == -1:
		return nil, 0, false
	case it.exprK == -2:
		return goexpression.TemplExpression, 0, true
	case it.exprK == -3:
		return goexpression.Case, 0, true
	case it.exprK == -4:
		return goexpression.Expression, 0, true
	case it.what == "if" || it.what == "else if" || it.what == "conditional attribute":
		return goexpression.If, 3, true
	case it.what == "for":
		return goexpression.For, 4, true
	case it.what == "switch":
		return goexpression.Switch, 7, true
	default:
		return goexpression.Expression, 0, true
	}
}

const randAlpha = "{}<>/\"'`@ \n\tabtempliforswch=.()"

func trunc(s string, n int) string {
	if len(s) > n {
		return s[:n]
	}
	return s
}

// leadingUnicodeSpace: s starts with a multi-byte white-space rune (NBSP, U+2028, ...).
func leadingUnicodeSpace(s string) bool {
	r, w := utf8.DecodeRuneInString(s)
	return w > 1 && unicode.IsSpace(r)
}

func hash(s string) string { return fmt.Sprintf("%x", sha1.Sum([]byte(s)))[:16] }

// shapeOf gives a narrow, decidable key for a failing range (matched against known_findings.json).
func shapeOf(it item, src string) string {
	f, t := int(it.r.From.Index), int(it.r.To.Index)
	switch {
	case f < 0 || t > len(src) || f > t:
		return it.what + ":out-of-bounds"
	case it.what == "top-level go" && !strings.HasPrefix(src[f:], it.text) && leadingUnicodeSpace(src[f:]) &&
		strings.HasPrefix(strings.TrimLeftFunc(src[f:], unicode.IsSpace), it.text):
		return narrowShape
	case it.kind != "P" && !strings.HasPrefix(src[f:], it.text):
		return it.what + ":text-not-at-from"
	case it.kind == "N" && t-f != len(it.text):
		return it.what + ":does-not-cover-exactly"
	default:
		return it.what + ":line-col-disagree-with-index"
	}
}
