package c06

import (
	"fmt"
	"go/scanner"
	"go/token"
	"sort"
	"strconv"
	"strings"

	"github.com/a-h/templ/parser/v2/goexpression"

	"verifharness/internal/core"
	"verifharness/internal/drv"
)

// Scanner-ILLEGAL input inside an open context of a Go expression.
//
// Every expression site of a template hands the REST OF THE FILE to go/scanner (TemplExpression, Expression) or
// go/parser (SliceArgs, If, For, Switch, Case, Func) and turns what comes back - token positions and the lengths of
// token LITERALS - into offsets of the file.  A literal is not always source text: an invalid UTF-8 byte is an ILLEGAL
// token whose literal is the 3-byte U+FFFD, carriage returns are dropped from comments and raw strings, an
// unterminated literal or comment runs to the end of the file.  Where the expression is still open (inside a pair, a
// function literal, behind an operator) the extractors accept any token, so that is where such a token is measured.
//
// The family is the product  expression form x open context x piece, each file also cut at every byte from the
// start of the site on; it consumes no randomness and is ordered by length, so the first failure is minimal.
// Every file goes through the ordinary judgement of the sweep: no panic, no hang, error position inside the input,
// and every recorded range of every accepted tree through the extracted specification predicate.

type illForm struct {
	name      string
	pre, post string
	topLevel  bool
	oneLine   bool // also as a one-line file without a package clause (`templ T(){` + site)
}

var illForms = []illForm{
	{"templ element", "@", "\n", false, true},
	{"templ element with children", "@", " {\n<a></a>\n}\n", false, false},
	{"go code", "{{ ", " }}\n", false, true},
	{"legacy call", "{! ", " }\n", false, true},
	{"spread attributes", "<div { ", "... }></div>\n", false, false},
	{"bool attribute expression", "<input disabled?={ ", " }/>\n", false, false},
	{"string expression", "{ ", " }\n", false, false},
	{"attribute expression", "<a href={ ", " }></a>\n", false, false},
	{"go code in script", "<script>var v = {{ ", " }};</script>\n", false, false},
	{"if", "if ", " {\n<a></a>\n}\n", false, false},
	{"else if", "if x == 1 {\n<a></a>\n} else if ", " {\n<b></b>\n}\n", false, false},
	{"for", "for _, v := range ", " {\n<a></a>\n}\n", false, false},
	{"switch", "switch ", " {\ncase 1:\n<a></a>\n}\n", false, false},
	{"case", "switch x {\ncase ", ":\n<a></a>\n}\n", false, false},
	{"conditional attribute", "<div if ", " {\n class=\"x\"\n }></div>\n", false, false},
	{"css property expression", "css c() {\n\tcolor: { ", " };\n}\n", true, false},
	{"templ parameters", "templ H(a ", ") {\n}\n", true, false},
}

// open contexts: the text of the expression with the hole written as \x01
var illContexts = []struct{ name, text string }{
	{"bare", "\x01"},
	{"call argument", "f(\x01)"},
	{"second call argument", "f(a, \x01)"},
	{"index", "xs[\x01]"},
	{"composite literal", "T{\x01}"},
	{"function literal body", "func() {\x01}"},
	{"call in a function literal in a call", "f(func() { g(\x01) })"},
	{"after the func keyword, closed by a stray )", "func \x01)"},
	{"after the func keyword, closed by a stray }", "func \x01}"},
	{"function literal parameters", "func(\x01) {}"},
	{"after a binary operator", "a + \x01"},
	{"after a period", "a.\x01"},
	{"after a closing parenthesis", "f(a)\x01"},
	{"unclosed call", "f(\x01"},
	{"nested pairs", "f(xs[T{\x01}])"},
}

var illPieces = []struct{ class, name, text string }{
	{"invalid UTF-8", "byte 0xcb", "\xcb"},
	{"invalid UTF-8", "byte 0xff", "\xff"},
	{"invalid UTF-8", "lone continuation byte 0x80", "\x80"},
	{"invalid UTF-8", "two-byte lead 0xc3 alone", "\xc3"},
	{"invalid UTF-8", "three-byte sequence cut after two", "\xe2\x80"},
	{"invalid UTF-8", "four-byte sequence cut after three", "\xf0\x9f\x98"},
	{"invalid UTF-8", "overlong encoding c0 af", "\xc0\xaf"},
	{"invalid UTF-8", "surrogate ed a0 80", "\xed\xa0\x80"},
	{"invalid UTF-8", "two invalid bytes", "\xcb\xcb"},
	{"invalid UTF-8", "invalid byte then identifier", "\xcbx"},
	{"NUL", "NUL", "\x00"},
	{"BOM in the middle", "U+FEFF", "\ufeff"},
	{"illegal character", "U+FFFD itself", "\ufffd"},
	{"illegal character", "#", "#"},
	{"illegal character", "$", "$"},
	{"illegal character", "?", "?"},
	{"illegal character", "backslash", "\\"},
	{"illegal character", "@", "@"},
	{"illegal character", "euro sign", "€"},
	{"illegal character", "emoji", "😀"},
	{"illegal character", "NBSP", "\u00a0"},
	{"illegal character", "U+2028", "\u2028"},
	{"unterminated", "rune 'a", "'a"},
	{"unterminated", "rune '", "'"},
	{"unterminated", "rune '\\", "'\\"},
	{"unterminated", "string", "\"abc"},
	{"unterminated", "string with a line break", "\"abc\n"},
	{"unterminated", "raw string", "`abc"},
	{"unterminated", "block comment", "/* abc"},
	{"unterminated", "line comment (to the end of the line)", "// abc"},
	{"malformed literal", "unknown escape", "\"\\q\""},
	{"malformed literal", "rune of two characters", "'ab'"},
	{"malformed literal", "0x", "0x"},
	{"malformed literal", "1e", "1e"},
	{"malformed literal", "0b2", "0b2"},
	{"legal, literal differs from the text", "raw string with CRLF", "`a\r\nb`"},
	{"legal, literal differs from the text", "block comment with CR", "x /*\r\r*/"},
	{"legal, literal differs from the text", "line comment with CRLF", "x // c\r\n"},
	{"legal", "multi-byte string", "\"é日本\""},
	{"legal", "multi-byte rune", "'é'"},
	{"legal", "multi-byte identifier", "é"},
	{"legal", "identifier", "x"},
	{"legal", "number", "1"},
}

const illHead = "package p\n\n"
const illOpen = "templ T(x int, xs []string) {\n"

type illCase struct {
	src     string
	site    int // offset of the expression text
	form    int
	ctx     int
	piece   int
	cutAt   int // -1: whole file
	oneLine bool
}

// illegalFamily builds the files (deduplicated, ordered by length): each whole file and its cut at every byte from the
// start of the site on (the cuts in front of the site are the same for every file).
func illegalFamily(c *core.Ctx) []illCase {
	seen := map[string]bool{}
	var out []illCase
	add := func(ic illCase) {
		if seen[ic.src] {
			return
		}
		seen[ic.src] = true
		out = append(out, ic)
	}
	for fi, f := range illForms {
		for ci, cx := range illContexts {
			hole := strings.IndexByte(cx.text, 1)
			for pi, p := range illPieces {
				expr := cx.text[:hole] + p.text + cx.text[hole+1:]
				variants := []bool{false}
				if f.oneLine {
					variants = append(variants, true)
				}
				for _, one := range variants {
					var prefix, suffix string
					switch {
					case one:
						prefix, suffix = "templ T(){"+f.pre, strings.TrimRight(f.post, "\n")+"}"
					case f.topLevel:
						prefix, suffix = illHead+f.pre, f.post
					default:
						prefix, suffix = illHead+illOpen+f.pre, f.post+"}\n"
					}
					src := prefix + expr + suffix
					site := len(prefix)
					add(illCase{src, site, fi, ci, pi, -1, one})
					for k := site - len(f.pre); k < len(src); k++ {
						add(illCase{src[:k], site, fi, ci, pi, k, one})
					}
				}
			}
		}
	}
	sort.SliceStable(out, func(a, b int) bool { return len(out[a].src) < len(out[b].src) })
	return out
}

func (ic illCase) tcase() tcase {
	fam := "illegal piece in an open context: " + illForms[ic.form].name
	if ic.cutAt >= 0 {
		fam += " (file cut inside or behind the expression)"
	}
	return tcase{family: fam, src: ic.src}
}

// panicShape: a narrow, decidable key for a recovered panic.  The crash fixed by 906dd9d - parseGo slicing the rest of
// the file with an end that TemplExpression computed from the literal of an ILLEGAL token - is recognised by the
// run-time error and the frames it passed through.
func panicShape(detail string) string {
	if strings.Contains(detail, "slice bounds out of range") && strings.Contains(detail, "parser/v2.parseGo") &&
		strings.Contains(detail, "templElementExpressionParser") {
		return "parser-panic:templ-element-expression-end-beyond-source"
	}
	return "parser-panic"
}

// ---------------------------------------------------------------------------------------------
// TemplExpression / Expression: model over go/scanner's token stream = implementation, and the contracts
// ---------------------------------------------------------------------------------------------

func tokClass(tok token.Token) string {
	switch tok {
	case token.EOF:
		return "eof"
	case token.FUNC:
		return "func"
	case token.LPAREN:
		return "o0"
	case token.LBRACE:
		return "o1"
	case token.LBRACK:
		return "o2"
	case token.RPAREN:
		return "c0"
	case token.RBRACE:
		return "c1"
	case token.RBRACK:
		return "c2"
	case token.IDENT:
		return "ident"
	case token.PERIOD:
		return "period"
	case token.SEMICOLON:
		return "semi"
	case token.ILLEGAL:
		return "illegal"
	}
	return "other"
}

const maxScanTokens = 600

// scanTokens runs go/scanner the way both extractors do and returns the model request arguments (len(src), then
// position / class / length of the token string per token), whether the stream reached EOF within the cap, the largest
// amount by which a token's string exceeds its source text, and whether every token the Expression loop takes an end
// from ends inside the source (the hypothesis of C06_scanner_extractors_inside, part 3).
func scanTokens(src string) (args [][]byte, complete bool, illegalOverhang int, legalInside bool, detail string) {
	var s scanner.Scanner
	fset := token.NewFileSet()
	file := fset.AddFile("", fset.Base(), len(src))
	s.Init(file, []byte(src), func(token.Position, string) {}, scanner.ScanComments)
	args = append(args, itoa(len(src)))
	legalInside = true
	for n := 0; n < maxScanTokens; n++ {
		pos, tok, lit := s.Scan()
		str := lit
		if tok.IsKeyword() || tok.IsOperator() {
			str = tok.String()
		}
		cl := tokClass(tok)
		args = append(args, itoa(int(pos)), []byte(cl), itoa(len(str)))
		end := int(pos) + len(str) - 1
		switch cl {
		case "eof":
			return args, true, illegalOverhang, legalInside, detail
		case "o0", "o1", "o2", "semi":
		case "illegal":
			if end-len(src) > illegalOverhang {
				illegalOverhang = end - len(src)
			}
		default:
			if cl == "c0" || cl == "c1" || cl == "c2" {
				end = int(pos)
			}
			if end < 0 || end > len(src) {
				legalInside = false
				detail = fmt.Sprintf("token %v %q at %d of %q ends at %d", tok, lit, pos, trunc(src, 80), end)
			}
		}
	}
	return args, false, illegalOverhang, legalInside, detail
}

func callExtractor(f func(string) (int, int, error), s string) (res string, inside bool) {
	defer func() {
		if r := recover(); r != nil {
			res, inside = "panic", false
		}
	}()
	st, e, err := f(s)
	if err != nil {
		return "error", true
	}
	return fmt.Sprintf("%d %d", st, e), 0 <= st && st <= e && e <= len(s)
}

func scanTie(c *core.Ctx) {
	seen := map[string]bool{}
	var strs []string
	var fams []string
	add := func(fam, s string) {
		if !seen[s] {
			seen[s] = true
			strs = append(strs, s)
			fams = append(fams, fam)
		}
	}
	tails := []string{"", "\n", " }}\n", " }\n", "... }>", " {\n<a></a>\n}\n", ")", "}"}
	for _, cx := range illContexts {
		hole := strings.IndexByte(cx.text, 1)
		for _, p := range illPieces {
			expr := cx.text[:hole] + p.text + cx.text[hole+1:]
			for _, t := range tails {
				add("scanner extractors: open context x piece x what follows", expr+t)
			}
			for k := hole; k < len(expr); k++ {
				add("scanner extractors: open context x piece, cut at every byte", expr[:k])
			}
		}
	}
	// the sites of the repository's own templates
	_, tmpls := repoTemplates()
	tmpls = append(tmpls, handWritten...)
	nRepo := 0
	limit := c.N(4000, 200000)
	for _, s := range tmpls {
		for i := 0; i < len(s) && nRepo < limit; i++ {
			if s[i] == '@' || s[i] == '{' {
				tail := s[i+1:]
				if len(tail) > 4000 {
					tail = tail[:4000]
				}
				n := len(strs)
				add("scanner extractors: text behind every @ and { of the repository templates", tail)
				nRepo += len(strs) - n
			}
		}
	}
	var reqs []drv.Req
	type want struct {
		fn, src, impl string
	}
	var wants []want
	contractOK, scannerOK, overhangSeen := true, true, 0
	contractDetail, scannerDetail := "", ""
	skipped := 0
	for i, s := range strs {
		args, complete, over, legalInside, det := scanTokens(s)
		if over > overhangSeen {
			overhangSeen = over
		}
		if !legalInside {
			scannerOK = false
			scannerDetail = det
		}
		c.Hist(fams[i])
		for _, ex := range []struct {
			fn   string
			f    func(string) (int, int, error)
			name string
		}{{"templ_expr", goexpression.TemplExpression, "TemplExpression"}, {"expr_scan", goexpression.Expression, "Expression"}} {
			impl, inside := callExtractor(ex.f, s)
			key := ""
			if impl != "error" {
				key = "scan:" + ex.fn + ":" + hash(s)
			}
			c.Count(key)
			if !inside {
				contractOK = false
				contractDetail = fmt.Sprintf("%s(%s) answered %s for %d bytes", ex.name, strconv.Quote(trunc(s, 80)), impl, len(s))
				if c.NFails("scanner-based extractors answer inside their input") < 3 {
					c.Fail("tie", "scanner-based extractors answer inside their input", "", map[string]string{"extractor": ex.name, "content_quoted": strconv.Quote(s), "answer": impl},
						"the extractor answered an offset outside 0 <= start <= end <= len(content) (parseGo slices the rest of the file with it)")
				}
			}
			if !complete {
				skipped++
				continue
			}
			reqs = append(reqs, drv.Req{Fn: ex.fn, Args: args})
			wants = append(wants, want{ex.name, s, impl})
		}
	}
	tieOK := len(reqs) > 1000
	for i, r := range modelBatch(c, reqs) {
		got := ""
		for k, b := range r {
			if k > 0 {
				got += " "
			}
			got += string(b)
		}
		if got == "none" {
			continue // the model wanted more tokens than were sent (cannot happen: the stream ended with EOF)
		}
		if got != wants[i].impl {
			tieOK = false
			if c.NFails("TemplExpression / Expression: model over the token stream = implementation") < 4 {
				c.Fail("tie", "TemplExpression / Expression: model over the token stream = implementation", "",
					map[string]string{"extractor": wants[i].fn, "content_quoted": strconv.Quote(wants[i].src), "impl": wants[i].impl, "model": got}, "start / end / error differ")
			}
		}
	}
	c.Extra["scanner_extractors"] = map[string]any{"contents": len(strs), "model evaluations": len(reqs), "contents with more than " + strconv.Itoa(maxScanTokens) + " tokens (not compared)": skipped,
		"largest overhang of an ILLEGAL token's literal beyond the end of the source (bytes)": overhangSeen}
	c.Oblige("correspondence", "TemplExpression (ExpressionParser.Insert over go/scanner's tokens, end clamped into the source) and Expression: model = goexpression on every open context x piece, their cuts, and the text behind every @ / { of the repository templates", tieOK, fmt.Sprintf("%d model evaluations", len(reqs)))
	c.Oblige("contract", "scanner-based extractors (TemplExpression, Expression) answer 0 <= start <= end <= len(content) or an error on EVERY generated content (not only in accepted files), without panicking", contractOK, contractDetail)
	c.Oblige("contract", "go/scanner: every token Expression takes an end from (everything but EOF, opening tokens, semicolons and ILLEGAL) ends inside the source (hypothesis of C06_scanner_extractors_inside); an ILLEGAL token's literal was seen to reach beyond it", scannerOK && overhangSeen > 0, scannerDetail)
}
