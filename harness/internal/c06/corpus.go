package c06

import (
	"go/ast"
	goparser "go/parser"
	"go/token"
	"os"
	"path/filepath"
	"regexp"
	"sort"
	"strconv"
	"strings"

	"verifharness/internal/core"
	"verifharness/internal/rng"
)

type tcase struct {
	family  string
	src     string
	tag     string // optional finer histogram bucket (prologue / encoding name)
	viaFile bool   // through parser.Parse of a file on disk holding exactly these bytes, instead of parser.ParseString
}

func mkCase(family, src string) tcase { return tcase{family: family, src: src} }

// repoTemplates returns every .templ file under the repository (sorted), plus the parser's benchmark template.
func repoTemplates() (names []string, srcs []string) {
	root := core.Repo()
	filepath.Walk(root, func(path string, info os.FileInfo, err error) error {
		if err != nil {
			return nil
		}
		if info.IsDir() {
			if b := info.Name(); b == ".git" || b == "node_modules" {
				return filepath.SkipDir
			}
			return nil
		}
		if strings.HasSuffix(path, ".templ") || strings.HasSuffix(path, "benchmarktestdata/benchmark.txt") {
			names = append(names, path)
		}
		return nil
	})
	sort.Strings(names)
	for _, n := range names {
		b, _ := os.ReadFile(n)
		srcs = append(srcs, string(b))
	}
	return
}

// testFragments extracts the string literals of parser/v2/*_test.go (the table cases' inputs among them)
// and the sections of the txtar test data.
func testFragments() []string {
	dir := filepath.Join(core.Repo(), "parser", "v2")
	seen := map[string]bool{}
	var out []string
	add := func(s string) {
		if len(s) < 2 || len(s) > 20000 || seen[s] {
			return
		}
		seen[s] = true
		out = append(out, s)
	}
	files, _ := filepath.Glob(filepath.Join(dir, "*_test.go"))
	sort.Strings(files)
	fset := token.NewFileSet()
	for _, f := range files {
		af, err := goparser.ParseFile(fset, f, nil, 0)
		if err != nil {
			continue
		}
		ast.Inspect(af, func(n ast.Node) bool {
			if bl, ok := n.(*ast.BasicLit); ok && bl.Kind == token.STRING {
				if s, err := strconv.Unquote(bl.Value); err == nil {
					add(s)
				}
			}
			return true
		})
	}
	for _, sub := range []string{"formattestdata", "scriptparsertestdata"} {
		txts, _ := filepath.Glob(filepath.Join(dir, sub, "*.txt"))
		sort.Strings(txts)
		for _, t := range txts {
			b, err := os.ReadFile(t)
			if err != nil {
				continue
			}
			var cur strings.Builder
			for _, l := range strings.SplitAfter(string(b), "\n") {
				if strings.HasPrefix(l, "-- ") && strings.HasSuffix(strings.TrimRight(l, "\r\n"), " --") {
					add(cur.String())
					cur.Reset()
					continue
				}
				cur.WriteString(l)
			}
			add(cur.String())
		}
	}
	return out
}

func wrap(frag string) string { return "package p\n\ntempl t() {\n" + frag + "\n}\n" }

var reTok = regexp.MustCompile(`[A-Za-z_][A-Za-z0-9_]*|[0-9]+|\r\n|\s|"(?:[^"\\\n]|\\.)*"|</|/>|\{\{|\}\}|\.\.\.|[^\s]`)

func tokens(s string) []string { return reTok.FindAllString(s, -1) }

var insertPool = []string{"{", "}", "<", ">", "\"", "'", "`", "</", "/>", "{{", "}}", "@", "if ", "for ", "switch ", "case ", "default:", "else", "} else {", "} else if ", "...",
	"templ ", "css ", "script ", "package ", "\n", "\r\n", "\t", " ", "é", "日本", "\u00a0", "\u2003", "\u0085", "\xff", "\xc3", "//", "/*", "*/", "<script>", "</script>", "<style>", "</style>", "<!--", "-->",
	"<div>", "</div>", "<br>", "</br>", "<a href={ x }>", "{ x }", "{ children... }", "{! x }", "@x()", "{{ x := 1 }}", "?={ true }", "={", "=", "(", ")", "[", "]", ":", ";", ",", "func", "\\", "0", "x",
	"<!DOCTYPE html>", "{ x... }", "class={", "if x {", "for _, x := range y {", "switch x {",
	"\ufeff", "\x00", "\xcb", "\x80", "\ufffd", "func ", "func() {", "'", "/* é", "\f"}

// mutate applies one structure-aware mutation. The second result names the mutation family.
func mutate(r *rng.R, s string) (string, string) {
	toks := tokens(s)
	if len(toks) == 0 {
		return s + rng.Pick(r, insertPool), "token insert"
	}
	join := func(t []string) string { return strings.Join(t, "") }
	switch r.Intn(12) {
	case 0: // delete a token
		i := r.Intn(len(toks))
		return join(append(append([]string{}, toks[:i]...), toks[i+1:]...)), "token delete"
	case 1: // duplicate a token
		i := r.Intn(len(toks))
		t := append(append([]string{}, toks[:i+1]...), toks[i:]...)
		return join(t), "token duplicate"
	case 2, 3: // insert a token from the pool
		i := r.Intn(len(toks) + 1)
		t := append(append(append([]string{}, toks[:i]...), rng.Pick(r, insertPool)), toks[i:]...)
		return join(t), "token insert"
	case 4: // brace / quote / tag imbalance: delete one delimiter occurrence
		var idx []int
		for i, t := range toks {
			switch t {
			case "{", "}", "<", ">", "</", "/>", "(", ")", "{{", "}}", "`", "'":
				idx = append(idx, i)
			default:
				if strings.HasPrefix(t, "\"") {
					idx = append(idx, i)
				}
			}
		}
		if len(idx) == 0 {
			return s + "{", "imbalance"
		}
		i := idx[r.Intn(len(idx))]
		if strings.HasPrefix(toks[i], "\"") && len(toks[i]) > 1 {
			t := append([]string{}, toks...)
			if r.Bool() {
				t[i] = t[i][1:]
			} else {
				t[i] = t[i][:len(t[i])-1]
			}
			return join(t), "imbalance"
		}
		return join(append(append([]string{}, toks[:i]...), toks[i+1:]...)), "imbalance"
	case 5: // swap two adjacent tokens
		if len(toks) < 2 {
			return s, "token swap"
		}
		i := r.Intn(len(toks) - 1)
		t := append([]string{}, toks...)
		t[i], t[i+1] = t[i+1], t[i]
		return join(t), "token swap"
	case 6: // delete a span of tokens
		i := r.Intn(len(toks))
		j := i + 1 + r.Intn(5)
		if j > len(toks) {
			j = len(toks)
		}
		return join(append(append([]string{}, toks[:i]...), toks[j:]...)), "span delete"
	case 7: // flip / replace a byte
		b := []byte(s)
		i := r.Intn(len(b))
		if r.Bool() {
			b[i] = byte(r.Intn(256))
		} else {
			b[i] ^= 1 << uint(r.Intn(8))
		}
		return string(b), "byte replace"
	default:
		return preserve(r, s)
	}
}

var multibyte = []string{"é", "日本語", "😀", "ß", "\u00a0", "Ω", "\u2003"}

// preserve applies a mutation that is meant to keep the template valid while moving every later position:
// CRLF conversion, multi-byte characters before expressions, extra lines, indentation.
func preserve(r *rng.R, s string) (string, string) {
	lines := strings.SplitAfter(s, "\n")
	switch r.Intn(9) {
	case 0: // CRLF everywhere
		return strings.ReplaceAll(strings.ReplaceAll(s, "\r\n", "\n"), "\n", "\r\n"), "crlf all"
	case 1: // CRLF on some lines
		var sb strings.Builder
		for _, l := range lines {
			if strings.HasSuffix(l, "\n") && !strings.HasSuffix(l, "\r\n") && r.Intn(3) == 0 {
				sb.WriteString(l[:len(l)-1] + "\r\n")
			} else {
				sb.WriteString(l)
			}
		}
		return sb.String(), "crlf some"
	case 2: // multi-byte text in front of a `{` / `<` / `@` that starts something (text node before an expression)
		var idx []int
		for i := 0; i < len(s); i++ {
			if s[i] == '{' || s[i] == '<' || s[i] == '@' {
				idx = append(idx, i)
			}
		}
		if len(idx) == 0 {
			return s, "multibyte before expression"
		}
		i := idx[r.Intn(len(idx))]
		return s[:i] + rng.Pick(r, multibyte) + s[i:], "multibyte before expression"
	case 3: // multi-byte characters inside a string literal
		var idx []int
		for i := 0; i+1 < len(s); i++ {
			if s[i] == '"' {
				idx = append(idx, i+1)
			}
		}
		if len(idx) == 0 {
			return s, "multibyte in string"
		}
		i := idx[r.Intn(len(idx))]
		return s[:i] + rng.Pick(r, multibyte) + s[i:], "multibyte in string"
	case 4: // a comment line with multi-byte text before a line
		i := r.Intn(len(lines))
		l := append(append(append([]string{}, lines[:i]...), "// "+rng.Pick(r, multibyte)+" コメント\n"), lines[i:]...)
		return strings.Join(l, ""), "multibyte comment line"
	case 5: // blank line
		i := r.Intn(len(lines))
		l := append(append(append([]string{}, lines[:i]...), "\n"), lines[i:]...)
		return strings.Join(l, ""), "blank line"
	case 6: // re-indent a line
		i := r.Intn(len(lines))
		l := append([]string{}, lines...)
		l[i] = strings.Repeat(rng.Pick(r, []string{" ", "\t", "  "}), 1+r.Intn(3)) + l[i]
		return strings.Join(l, ""), "indent"
	case 7: // a string expression node with multi-byte text on its own line
		i := r.Intn(len(lines))
		l := append(append(append([]string{}, lines[:i]...), "{ \""+rng.Pick(r, multibyte)+"\" }\n"), lines[i:]...)
		return strings.Join(l, ""), "multibyte node line"
	default: // trailing white space at a line end
		i := r.Intn(len(lines))
		l := append([]string{}, lines...)
		if strings.HasSuffix(l[i], "\n") {
			l[i] = strings.TrimSuffix(l[i], "\n") + rng.Pick(r, []string{" ", "\t", "\r"}) + "\n"
		}
		return strings.Join(l, ""), "trailing space"
	}
}

// hand-written inputs aimed at the position arithmetic: every expression slot, on later lines, after multi-byte text
var handWritten = []string{
	"package p\n\ntempl t(a templ.Attributes, b bool, s string, xs []string) {\n\té<div { a... }>ß{ s }</div>\n\t<a href={ templ.URL(s) } hidden?={ b } if b {\n class=\"x\" } else { id=\"y\" }>é</a>\n\tif b {\n\t\t日本{ s }\n\t} else if !b {\n\t\t{ s }\n\t} else {\n\t\t@t(a, b, s, xs)\n\t}\n\tfor _, x := range xs {\n\t\t{ x }\n\t}\n\tswitch s {\n\t\tcase \"é\":\n\t\t\t{ s }\n\t\tdefault:\n\t\t\t{{ y := s }}\n\t\t\t{ y }\n\t}\n\t<script>var é = {{ s }};</script>\n\t{! t(a, b, s, xs) }\n\t@t(a, b, s, xs) {\n\t\t{ children... }\n\t}\n}\n",
	"// héader\r\n// second\r\npackage p\r\n\r\nimport \"fmt\"\r\n\r\nvar x = fmt.Sprint(\"é\")\r\n\r\ntempl t() {\r\n\t<p>{ x }</p>\r\n}\r\n\r\nfunc f() string { return \"日本\" }\r\n\r\ncss c() {\r\n\tcolor: { x };\r\n}\r\n\r\nscript s(a string, b int) {\r\n\tconsole.log(a, b);\r\n}\r\n",
	"package p\n\ntempl (r R) t() {\n\t<input type=\"text\" disabled value={ r.v }/>\n\t<div\n\t\tclass=\"a\"\n\t\t{ r.attrs... }\n\t></div>\n}\n",
	"package p\n\n var x = 1\n\ntempl t() {\n<p></p>\n}\n",
	"package p\n\ntempl t() {\n}\n\n var x = 1\n",
	"package p\n\n func f() {}\n\ntempl t() {\n}\n",
}
