package c06

import (
	"strings"

	"verifharness/internal/core"
	"verifharness/internal/rng"
)

// File prologues and encodings.
//
// A recorded position is a position of the bytes THE CALLER SUPPLIED: the string passed to parser.ParseString, the bytes
// of the file on disk for parser.Parse.  Whatever a tree under test does with the beginning of a file - skip a byte
// order mark, blank lines, a shebang-like first line, decode another encoding - the indices it records have to stay
// relative to those bytes, and line / column have to agree with the index.  Whether a prologue is legal at all is
// decided by the tree under test (parse + generate + gofmt); every recorded range of every accepted tree is judged by
// the extracted specification predicate against the bytes as given, through both entry points.

type prologue struct{ name, text string }

var filePrologues = []prologue{
	{"UTF-8 BOM", "\xef\xbb\xbf"},
	{"two UTF-8 BOMs", "\xef\xbb\xbf\xef\xbb\xbf"},
	{"UTF-8 BOM, blank line", "\ufeff\n"},
	{"UTF-8 BOM, CRLF blank line", "\ufeff\r\n"},
	{"UTF-8 BOM, blanks", "\ufeff  "},
	{"UTF-8 BOM, multi-byte comment line", "\ufeff// é日本\n"},
	{"comment line, then UTF-8 BOM", "// c\n\ufeff"},
	{"blank, then UTF-8 BOM", " \ufeff"},
	{"blank line", "\n"},
	{"three blank lines", "\n\n\n"},
	{"CRLF blank lines", "\r\n\r\n"},
	{"blanks", "   "},
	{"tab", "\t"},
	{"blank lines with blanks and tabs", "\n \n\t\n"},
	{"CR", "\r"},
	{"form feed", "\f"},
	{"vertical tab", "\v"},
	{"NUL", "\x00"},
	{"NBSP", "\u00a0"},
	{"NBSP, blank line", "\u00a0\n"},
	{"U+0085 NEL", "\u0085"},
	{"U+2028 line separator", "\u2028"},
	{"U+3000 ideographic space", "\u3000"},
	{"U+200B zero width space", "\u200b"},
	{"UTF-16 LE BOM bytes", "\xff\xfe"},
	{"UTF-16 BE BOM bytes", "\xfe\xff"},
	{"UTF-32 LE BOM bytes", "\xff\xfe\x00\x00"},
	{"invalid byte", "\xcb"},
	{"multi-byte comment line", "// é日本\n"},
	{"CRLF comment lines", "// a\r\n// é\r\n"},
	{"block comment over two lines", "/* é\n日本 */\n"},
	{"shebang-like line", "#!templ\n"},
}

// whole-file encodings
func crlfAll(s string) string {
	return strings.ReplaceAll(strings.ReplaceAll(s, "\r\n", "\n"), "\n", "\r\n")
}

func utf16Bytes(s string, bigEndian bool) string {
	var sb strings.Builder
	for _, r := range s {
		if r > 0xffff {
			r = '?'
		}
		hi, lo := byte(r>>8), byte(r)
		if bigEndian {
			sb.WriteByte(hi)
			sb.WriteByte(lo)
		} else {
			sb.WriteByte(lo)
			sb.WriteByte(hi)
		}
	}
	return sb.String()
}

var fileEncodings = []struct {
	name string
	f    func(string) string
}{
	{"UTF-8 BOM + CRLF everywhere", func(s string) string { return "\ufeff" + crlfAll(s) }},
	{"UTF-8 BOM + CR line ends", func(s string) string { return "\ufeff" + strings.ReplaceAll(s, "\n", "\r") }},
	{"CRLF everywhere", crlfAll},
	{"UTF-16 LE with BOM", func(s string) string { return "\xff\xfe" + utf16Bytes(s, false) }},
	{"UTF-16 BE with BOM", func(s string) string { return "\xfe\xff" + utf16Bytes(s, true) }},
	{"UTF-16 LE without BOM (a NUL behind every byte)", func(s string) string { return utf16Bytes(s, false) }},
	{"UTF-8 BOM in front of every line", func(s string) string {
		return "\ufeff" + strings.ReplaceAll(s, "\n", "\n\ufeff")
	}},
}

// places for a byte order mark (or another prologue-only byte) elsewhere in the file
func elsewhereSites(s string) (sites []int, what []string) {
	for i := 0; i <= len(s); i++ {
		switch {
		case i == len(s):
			sites, what = append(sites, i), append(what, "at the end of the file")
		case i > 0 && s[i-1] == '\n' && strings.HasPrefix(s[i:], "templ "):
			sites, what = append(sites, i), append(what, "in front of `templ`")
		case i > 0 && s[i-1] == '\n' && strings.HasPrefix(s[:i], "package ") && strings.Count(s[:i], "\n") == 1:
			sites, what = append(sites, i), append(what, "behind the package line")
		case i > 0 && s[i-1] == '\n':
			sites, what = append(sites, i), append(what, "at the start of a line")
		case s[i] == '<' || s[i] == '@':
			sites, what = append(sites, i), append(what, "in front of a tag or a call")
		case s[i] == '{':
			sites, what = append(sites, i+1), append(what, "behind an opening brace")
		case s[i] == '"':
			sites, what = append(sites, i+1), append(what, "behind a double quote")
		case s[i] == '}' || s[i] == '>':
			sites, what = append(sites, i), append(what, "in front of a closing brace or tag end")
		}
	}
	return
}

const prologueSmall = "package p\n\ntempl t(s string) {\n\t<p class=\"c\" title={ s }>{ s }</p>\n\t@t(s)\n}\n"

// prologueFamily: every prologue and encoding on a few whole files, through both entry points; a byte order mark (NUL,
// NBSP, form feed) at structured places elsewhere.  Exhaustive over the small bases first, then repository templates at random.
func prologueFamily(c *core.Ctx, whole []string) []tcase {
	var out []tcase
	bases := []string{prologueSmall, strings.TrimPrefix(prologueSmall, "package p\n\n")}
	bases = append(bases, handWritten...)
	// a file with one of each keyword layout form
	{
		var top, body []string
		for _, f := range layoutForms {
			p := parseLayoutForm(f)
			piece := p.fill(p.defaults())
			if f.topLevel {
				top = append(top, piece)
			} else {
				body = append(body, piece)
			}
		}
		bases = append(bases, layoutFile("", top, body, "\t"))
	}
	for i := c.N(10, 200); i > 0 && len(whole) > 0; i-- {
		bases = append(bases, rng.Pick(c.Rng, whole))
	}
	both := func(tag, src string) {
		out = append(out, tcase{family: "file prologue / encoding, parser.ParseString", src: src, tag: tag})
		out = append(out, tcase{family: "file prologue / encoding, parser.Parse of the file on disk", src: src, tag: tag, viaFile: true})
	}
	for _, b := range bases {
		for _, p := range filePrologues {
			both("file prologue: "+p.name, p.text+b)
		}
		for _, e := range fileEncodings {
			both("file encoding: "+e.name, e.f(b))
		}
	}
	marks := []prologue{{"U+FEFF", "\ufeff"}, {"U+FEFF", "\ufeff"}, {"NUL", "\x00"}, {"NBSP", "\u00a0"}, {"form feed", "\f"}, {"UTF-16 BOM bytes", "\xff\xfe"}}
	for bi, b := range bases {
		sites, what := elsewhereSites(b)
		if len(sites) == 0 {
			continue
		}
		if bi == 0 {
			// the small base: U+FEFF at every site
			for k, at := range sites {
				both("U+FEFF elsewhere", b[:at]+"\ufeff"+b[at:])
				c.Hist("place of a mark elsewhere in the file: " + what[k])
			}
			continue
		}
		for n := c.N(12, 60); n > 0; n-- {
			k := c.Rng.Intn(len(sites))
			m := rng.Pick(c.Rng, marks)
			src := b[:sites[k]] + m.text + b[sites[k]:]
			if c.Rng.Intn(3) == 0 {
				src = "\ufeff" + src
			}
			both(m.name+" elsewhere", src)
			c.Hist("place of a mark elsewhere in the file: " + what[k])
		}
	}
	return out
}
