package c06

import (
	"fmt"
	"os"
	"runtime"
	"strconv"
	"strings"
	"sync"
	"time"

	parser "github.com/a-h/templ/parser/v2"

	"verifharness/internal/core"
	"verifharness/internal/drv"
	"verifharness/internal/rng"
)

// judge accumulates the verdicts of the sweep over chunks of inputs (the thorough tier does not fit in memory at once).
type judge struct {
	c *core.Ctx

	totalOK, errPosOK, walkerOK, rangeOK, repoOK, tieOK, contractOK bool
	contractDetail                                                 string
	nCases, nAccepted, nParsed, nErr, nUnpos                       int
	maxDur                                                         time.Duration
	maxDurLen                                                      int
	nItems, nItemsAccepted, outsideFalse, nTie                     int
	perSlot, reported, outsideShapes                               map[string]int
	outsideExample                                                 []map[string]string
	tieBudget                                                      int
	tParse, tCheck, tTie                                           time.Duration
	sampled                                                        [2]bool
	observe                                                        func(caseResult) // optional: sees every result (layout table)
}

func newJudge(c *core.Ctx) *judge {
	return &judge{c: c, totalOK: true, errPosOK: true, walkerOK: true, rangeOK: true, repoOK: true, tieOK: true, contractOK: true,
		perSlot: map[string]int{}, reported: map[string]int{}, outsideShapes: map[string]int{}, tieBudget: c.N(30000, 600000)}
}

func (j *judge) run(cases []tcase) {
	c := j.c
	if abortSweep.Load() || len(cases) == 0 {
		return
	}
	// ---- the real parser, in parallel ----
	t0 := time.Now()
	results := make([]caseResult, len(cases))
	workers := runtime.NumCPU()
	if workers > 12 {
		workers = 12
	}
	var wg sync.WaitGroup
	next := make(chan int, 256)
	for w := 0; w < workers; w++ {
		wg.Add(1)
		go func() {
			defer wg.Done()
			for i := range next {
				results[i] = process(cases[i])
			}
		}()
	}
	for i := range cases {
		next <- i
	}
	close(next)
	wg.Wait()
	j.tParse += time.Since(t0)
	j.nCases += len(cases)

	// ---- totality, error positions; collect the trees to judge ----
	var reqs []drv.Req
	var reqCase []int
	nOutside := 0
	for i, r := range results {
		c.Hist(r.tc.family + " -> " + r.status)
		if r.tc.tag != "" {
			c.Hist(r.tc.tag + " -> " + r.status)
		}
		if j.observe != nil {
			j.observe(r)
		}
		if r.dur > j.maxDur {
			j.maxDur, j.maxDurLen = r.dur, len(r.tc.src)
		}
		key := ""
		switch r.status {
		case "panic":
			j.totalOK = false
			if c.NFails("totality: no panic") < 5 {
				c.Fail("property", "totality: no panic", panicShape(r.detail), replayInput(r.tc.family, r.tc.src), "parser.ParseString panicked: "+r.detail)
			}
		case "no-progress":
			j.totalOK = false
			if c.NFails("totality: prompt termination") < 5 {
				c.Fail("property", "totality: prompt termination", "parser-no-progress", replayInput(r.tc.family, r.tc.src), r.detail)
			}
		case "skipped":
		case "hung", "slow":
			j.totalOK = false
			if c.NFails("totality: prompt termination") < 5 {
				c.Fail("property", "totality: prompt termination", "parser-slow", replayInput(r.tc.family, r.tc.src), "parse took longer than 2 s per 10 KB: "+r.detail)
			}
		case "error-outside":
			j.errPosOK = false
			if c.NFails("error position inside the input") < 5 {
				c.Fail("property", "error position inside the input", "error-position-outside", replayInput(r.tc.family, r.tc.src), r.detail)
			}
		case "error":
			j.nErr++
			key = "err:" + hash(r.tc.src)
		case "error-unpositioned":
			j.nUnpos++
		case "parsed", "accepted":
			if len(r.unknown) > 0 {
				j.walkerOK = false
			}
			if r.status == "accepted" {
				j.nAccepted++
				if len(r.items) > 0 {
					key = "ok:" + hash(r.tc.src)
				}
			} else {
				j.nParsed++
			}
			if r.status == "parsed" {
				nOutside++
			}
			if len(r.items) > 0 && (r.status == "accepted" || !c.Quick() || nOutside <= 3000) {
				reqs = append(reqs, checkReq(r.tc.src, r.items))
				reqCase = append(reqCase, i)
			}
		}
		c.Count(key)
		if (r.tc.family == "repository template" || r.tc.family == "hand-written probe") && r.status != "accepted" {
			j.repoOK = false
			if c.NFails("every repository template is accepted") < 3 {
				c.Fail("tie", "every repository template is accepted", "", replayInput(r.tc.family, r.tc.src), "a template of the repository no longer parses, generates and gofmts: "+r.status+" "+r.detail)
			}
		}
	}

	// ---- the extracted specification predicate on every recorded range ----
	t0 = time.Now()
	res := modelBatch(c, reqs)
	j.tCheck += time.Since(t0)
	for k, reply := range res {
		r := results[reqCase[k]]
		if len(reply) != len(r.items) {
			c.Oblige("correspondence", "extracted-model-runs", false, fmt.Sprintf("check: %d replies for %d items", len(reply), len(r.items)))
			break
		}
		for n, b := range reply {
			j.nItems++
			it := r.items[n]
			if r.status == "accepted" {
				j.nItemsAccepted++
				j.perSlot[it.what]++
			}
			if string(b) == "1" {
				continue
			}
			if r.status != "accepted" {
				j.outsideFalse++
				j.outsideShapes[shapeOf(it, r.tc.src)]++
				if len(j.outsideExample) < 3 {
					j.outsideExample = append(j.outsideExample, map[string]string{"template_quoted": strconv.Quote(trunc(r.tc.src, 300)), "slot": it.what, "text": strconv.Quote(trunc(it.text, 60)), "range": fmt.Sprintf("from %v to %v", it.r.From, it.r.To)})
				}
				continue
			}
			shape := shapeOf(it, r.tc.src)
			if shape != narrowShape {
				j.rangeOK = false
			}
			fam := "range_ok on every " + map[string]string{"E": "expression", "N": "name / text", "P": "extent"}[it.kind] + " of every accepted tree"
			quotaKey := fam
			if shape == narrowShape {
				quotaKey = narrowShape
			}
			j.reported[quotaKey]++
			if j.reported[quotaKey] <= 6 {
				in := replayInput(r.tc.family, r.tc.src)
				in["slot"] = it.what
				in["recorded_text"] = strconv.Quote(it.text)
				in["recorded_range"] = fmt.Sprintf("from %v to %v", it.r.From, it.r.To)
				if f := int(it.r.From.Index); f >= 0 && f <= len(r.tc.src) {
					end := f + 40
					if end > len(r.tc.src) {
						end = len(r.tc.src)
					}
					in["source_at_from"] = strconv.Quote(r.tc.src[f:end])
				}
				c.Fail("property", fam, shape, in, "the extracted specification predicate is false on a range recorded by the real parser")
			}
		}
	}

	// ---- model = implementation: parseGo (+ spread), name ranges, Value = src[From:To] ----
	t0 = time.Now()
	var treqs []drv.Req
	type twant struct {
		ci    int
		it    item
		what  string
		exact []item
	}
	var twants []twant
	for i, r := range results {
		if r.status != "accepted" || j.nTie+len(treqs) >= j.tieBudget {
			continue
		}
		if !(strings.HasPrefix(r.tc.family, "repository") || strings.HasPrefix(r.tc.family, "hand") || strings.HasPrefix(r.tc.family, "preserving") ||
			strings.HasPrefix(r.tc.family, "parser test") || strings.HasPrefix(r.tc.family, "coverage") || strings.HasPrefix(r.tc.family, "keyword layout") ||
			strings.HasPrefix(r.tc.family, "file prologue") || strings.HasPrefix(r.tc.family, "illegal piece")) {
			continue
		}
		src := r.tc.src
		// every constructor but the TrimSpace'd top-level block records exactly the text between its two ends
		var exact []item
		for _, it := range r.items {
			if it.kind == "E" && it.what != "top-level go" {
				x := it
				x.kind = "N"
				exact = append(exact, x)
			}
		}
		if len(exact) > 0 {
			treqs = append(treqs, checkReq(src, exact))
			twants = append(twants, twant{ci: i, what: "exact", exact: exact})
		}
		for _, it := range r.items {
			if it.kind == "N" && it.what != "text" {
				treqs = append(treqs, drv.Req{Fn: "name_range", Args: [][]byte{[]byte(src), itoa(it.r.To.Index), []byte(it.text)}})
				twants = append(twants, twant{ci: i, it: it, what: "name"})
				continue
			}
			ext, k, ok := extractorFor(it)
			if !ok {
				continue
			}
			from := int(it.r.From.Index) - k
			if from < 0 || from > len(src) {
				continue
			}
			s, e, err := ext(src[from:])
			if err != nil {
				continue
			}
			if !(0 <= s && s <= e && e <= len(src)-from) {
				j.contractOK = false
				j.contractDetail = fmt.Sprintf("%s on %q answered (%d,%d)", it.what, src[from:], s, e)
				continue
			}
			args := [][]byte{[]byte(src), itoa(from), itoa(s), itoa(e)}
			if it.exprK == -4 {
				args = append(args, []byte("spread"))
			}
			treqs = append(treqs, drv.Req{Fn: "parse_go", Args: args})
			twants = append(twants, twant{ci: i, it: it, what: "expr"})
		}
	}
	j.nTie += len(treqs)
	for k, reply := range modelBatch(c, treqs) {
		w := twants[k]
		if w.what == "exact" {
			for n, b := range reply {
				c.Count("")
				if string(b) != "1" && n < len(w.exact) {
					j.tieOK = false
					if c.NFails("expression = exactly the text between its ends (model constructors)") < 4 {
						in := replayInput(results[w.ci].tc.family, results[w.ci].tc.src)
						in["slot"] = w.exact[n].what
						in["recorded_text"] = strconv.Quote(w.exact[n].text)
						in["recorded_range"] = fmt.Sprintf("from %v to %v", w.exact[n].r.From, w.exact[n].r.To)
						c.Fail("tie", "expression = exactly the text between its ends (model constructors)", "", in, "the model constructors record Value = src[From:To]; the real parser recorded something else")
					}
				}
			}
			continue
		}
		var want []string
		if w.what == "expr" {
			want = []string{w.it.text}
		}
		want = append(want, strconv.FormatInt(w.it.r.From.Index, 10), fmt.Sprint(w.it.r.From.Line), fmt.Sprint(w.it.r.From.Col),
			strconv.FormatInt(w.it.r.To.Index, 10), fmt.Sprint(w.it.r.To.Line), fmt.Sprint(w.it.r.To.Col))
		same := len(reply) >= len(want)
		for n := 0; same && n < len(want); n++ {
			same = string(reply[n]) == want[n]
		}
		c.Count("")
		if !same {
			j.tieOK = false
			if c.NFails("parseGo / name range: model = implementation") < 4 {
				in := replayInput(results[w.ci].tc.family, results[w.ci].tc.src)
				in["slot"] = w.it.what
				in["impl"] = strings.Join(want, " | ")
				in["model"] = fmt.Sprintf("%q", reply)
				c.Fail("tie", "parseGo / name range: model = implementation", "", in, "the model constructor and the real parser record different text or positions")
			}
		}
	}
	j.tTie += time.Since(t0)

	// samples
	if !j.sampled[0] {
		for _, r := range results {
			if r.status == "accepted" && len(r.items) > 3 && strings.HasPrefix(r.tc.family, "preserving") {
				it := r.items[len(r.items)/2]
				c.Sample(map[string]string{"family": r.tc.family, "bytes": strconv.Itoa(len(r.tc.src)), "slot": it.what, "text": strconv.Quote(trunc(it.text, 60)), "from": it.r.From.String(), "to": it.r.To.String()})
				j.sampled[0] = true
				break
			}
		}
	}
	if !j.sampled[1] {
		for _, r := range results {
			if r.status == "error" && strings.HasPrefix(r.tc.family, "mutation") {
				c.Sample(map[string]string{"family": r.tc.family, "bytes": strconv.Itoa(len(r.tc.src)), "status": "rejected", "error_index": strconv.Itoa(r.errIndex)})
				j.sampled[1] = true
				break
			}
		}
	}
}

func (j *judge) finish(pcalls int64, progOK bool) {
	c := j.c
	c.Oblige("side-condition", "progress: every node parser call either advanced the index on success or did not move it backwards on failure", progOK, fmt.Sprintf("%d calls observed", pcalls))
	c.Extra["node_parser_calls_observed"] = pcalls
	c.Oblige("correspondence", "every .templ file of the repository and every hand-written probe parses, generates and gofmts", j.repoOK, "")
	c.Extra["sweep"] = map[string]any{"inputs": j.nCases, "accepted (parse+generate+gofmt)": j.nAccepted, "parsed but not accepted": j.nParsed,
		"rejected with a positioned error": j.nErr, "rejected with an unpositioned error": j.nUnpos, "slowest parse": fmt.Sprintf("%v for %d bytes", j.maxDur, j.maxDurLen)}
	c.Oblige("correspondence", "totality: no panic, no parse over 2 s per 10 KB on any generated input", j.totalOK, fmt.Sprintf("%d inputs, slowest %v (%d bytes)", j.nCases, j.maxDur, j.maxDurLen))
	c.Oblige("correspondence", "every positioned parse error lies inside the input", j.errPosOK, fmt.Sprintf("%d positioned errors", j.nErr))
	c.Oblige("side-condition", "the tree walker knows every node / attribute / css property kind the parser produced", j.walkerOK, "")
	c.Extra["ranges_judged"] = map[string]any{"all": j.nItems, "in accepted trees": j.nItemsAccepted, "false in trees of files that do not generate/gofmt (outside the property)": j.outsideFalse, "per slot (accepted)": j.perSlot,
		"outside the property: shapes": j.outsideShapes, "outside the property: examples": j.outsideExample}
	c.Oblige("correspondence", "range_ok / name_range_ok / plain_range_ok (extracted) hold on every recorded range of every accepted tree (inputs of the narrow shape "+narrowShape+" are reported as findings)", j.rangeOK, fmt.Sprintf("%d ranges in %d accepted trees", j.nItemsAccepted, j.nAccepted))
	c.Oblige("correspondence", "parseGo (if / else if / for / switch / case / go code / call / templ element / bool attr / conditional attr / spread), name ranges and Value = src[From:To]: model constructor = recorded expression", j.tieOK, fmt.Sprintf("%d model evaluations", j.nTie))
	c.Oblige("contract", "extractors (If, For, Switch, Case, Expression, TemplExpression) answer 0 <= start <= end <= len(content) whenever they succeed", j.contractOK, j.contractDetail)
	timings["sweep: inputs"] = fmt.Sprint(j.nCases)
	timings["sweep: real parser + generate + gofmt"] = fmt.Sprintf("%.1fs", j.tParse.Seconds())
	timings["sweep: extracted predicate"] = fmt.Sprintf("%.1fs", j.tCheck.Seconds())
	timings["sweep: model constructors"] = fmt.Sprintf("%.1fs", j.tTie.Seconds())
}

func sweep(c *core.Ctx, extra []tcase) {
	names, tmpls := repoTemplates()
	frags := testFragments()
	var base []tcase
	for _, s := range tmpls {
		base = append(base, mkCase("repository template", s))
	}
	for _, s := range handWritten {
		base = append(base, mkCase("hand-written probe", s))
	}
	for _, f := range frags {
		base = append(base, mkCase("parser test literal (raw)", f))
		base = append(base, mkCase("parser test literal (in a templ body)", wrap(f)))
	}
	c.Extra["repository_templates"] = len(names)
	c.Extra["parser_test_literals"] = len(frags)
	var whole, wfrag []string
	for _, b := range base {
		if b.family == "repository template" || b.family == "hand-written probe" {
			whole = append(whole, b.src)
		} else if b.family == "parser test literal (in a templ body)" {
			wfrag = append(wfrag, b.src)
		}
	}

	// ---- progress monitor on every node-parser call, for the whole sweep ----
	type progViolation struct {
		list          string
		pos           int
		before, after int
	}
	var pmu sync.Mutex
	var pviol []progViolation
	var pcalls int64
	restore := parser.VerifWrapNodeParsers(func(list string, pos, before, after int, ok bool, err error) {
		pmu.Lock()
		pcalls++
		pmu.Unlock()
		if err != nil {
			return
		}
		if ok && after <= before {
			// the loop appends a node and asks the same parsers the same question again: it never ends
			panic(noProgress{fmt.Sprintf("%s parser #%d reported success at index %d without consuming input (index now %d): templateNodeParser.Parse would loop forever", list, pos, before, after)})
		}
		if !ok && after < before {
			pmu.Lock()
			if len(pviol) < 50 {
				pviol = append(pviol, progViolation{list, pos, before, after})
			}
			pmu.Unlock()
		}
	})

	j := newJudge(c)
	const chunk = 60000
	var cases []tcase
	var all []tcase // kept only while small enough, to attribute a backwards move
	flush := func(force bool) {
		if len(cases) >= chunk || (force && len(cases) > 0) {
			j.run(cases)
			if len(all) < 200000 {
				all = append(all, cases...)
			}
			cases = nil
		}
	}
	add := func(tc tcase) {
		cases = append(cases, tc)
		flush(false)
	}
	for _, b := range base {
		add(b)
	}
	// scanner-ILLEGAL pieces in every open context of every expression form, cut at every byte (exhaustive, ordered by length)
	ill := illegalFamily(c)
	for _, ic := range ill {
		add(ic.tcase())
		c.Hist("illegal piece class: " + illPieces[ic.piece].class)
		c.Hist("open context: " + illContexts[ic.ctx].name)
	}
	c.Extra["illegal_pieces_in_open_contexts"] = map[string]any{"forms": len(illForms), "open contexts": len(illContexts), "pieces": len(illPieces), "files (distinct, cuts included)": len(ill)}
	// file prologues and encodings, through parser.ParseString and through parser.Parse of a file on disk
	if dir, err := os.MkdirTemp("", "c06files"); err == nil {
		fileDir = dir
		defer os.RemoveAll(dir)
	} else {
		c.Oblige("correspondence", "scratch directory for the files parsed through parser.Parse", false, err.Error())
	}
	for _, pc := range prologueFamily(c, whole) {
		add(pc)
	}
	// keyword layouts, one slot at a time with every separator (exhaustive, consumes no randomness, minimal inputs first)
	lcases, linfo := layoutExhaustive(c)
	ltab := &layoutTable{info: linfo, accepted: map[string][]string{}, rejected: map[string]int{}}
	j.observe = ltab.observe
	for _, lc := range lcases {
		add(lc)
	}
	for _, e := range extra {
		add(e)
	}
	// truncations: sampled in the quick tier, every one in the thorough tier
	if c.Quick() {
		for _, b := range base {
			if len(b.src) == 0 {
				continue
			}
			k := 3
			if b.family == "repository template" || b.family == "hand-written probe" {
				k = 60
			}
			for ; k > 0; k-- {
				add(mkCase("truncation of " + b.family, b.src[:c.Rng.Intn(len(b.src))]))
			}
		}
	} else {
		for _, b := range base {
			for i := 0; i < len(b.src); i++ {
				add(mkCase("truncation of " + b.family, b.src[:i]))
			}
		}
	}
	// structure-aware mutations: mostly of whole templates (they reach generate + gofmt), some of the fragments
	for i := c.N(40000, 600000); i > 0; i-- {
		var s string
		if c.Rng.Intn(4) == 0 && len(wfrag) > 0 {
			s = rng.Pick(c.Rng, wfrag)
		} else {
			s = rng.Pick(c.Rng, whole)
		}
		fam := ""
		for k := 1 + c.Rng.Intn(3); k > 0; k-- {
			var f string
			if c.Rng.Intn(3) == 0 {
				s, f = preserve(c.Rng, s)
			} else {
				s, f = mutate(c.Rng, s)
			}
			if fam == "" {
				fam = f
			}
		}
		add(mkCase("mutation: " + fam, s))
	}
	// position-moving mutations only (these mostly stay accepted)
	for i := c.N(16000, 250000); i > 0; i-- {
		s := rng.Pick(c.Rng, whole)
		fam := ""
		for k := 1 + c.Rng.Intn(4); k > 0; k-- {
			var f string
			s, f = preserve(c.Rng, s)
			if fam == "" {
				fam = f
			}
		}
		add(mkCase("preserving mutation: " + fam, s))
	}
	// random bytes
	for i := c.N(6000, 250000); i > 0; i-- {
		n := c.Rng.Intn(80)
		b := make([]byte, n)
		for k := range b {
			if c.Rng.Intn(4) == 0 {
				b[k] = byte(c.Rng.Intn(256))
			} else {
				b[k] = randAlpha[c.Rng.Intn(len(randAlpha))]
			}
		}
		s := string(b)
		if c.Rng.Bool() {
			s = "package p\n\ntempl t() {\n" + s
		}
		add(mkCase("random bytes", s))
	}
	// keyword layouts at random: several forms per file, and the blanks of the repository's own templates
	for i := c.N(7000, 150000); i > 0; i-- {
		add(layoutRandom(c, c.Rng))
	}
	for i := c.N(7000, 150000); i > 0; i-- {
		add(layoutRepo(c, c.Rng, whole))
	}
	flush(true)
	c.Extra["keyword_layouts"] = ltab.extra()
	restore()
	orderPhase(c, ill)

	// attribute backwards moves to inputs by a sequential re-run
	progOK := len(pviol) == 0
	if !progOK {
		var cur string
		found := 0
		restore := parser.VerifWrapNodeParsers(func(list string, pos, before, after int, ok bool, err error) {
			if err == nil && !ok && after < before && found < 3 {
				found++
				c.Fail("tie", "progress of every node parser (hypothesis of C06_node_loop_terminates)", "", replayInput("progress", cur),
					fmt.Sprintf("%s parser #%d answered no match and moved the index back from %d to %d", list, pos, before, after))
			}
		})
		for _, tc := range all {
			if found >= 3 {
				break
			}
			cur = tc.src
			parseGuard(tc.src)
		}
		restore()
	}
	j.finish(pcalls, progOK)
}
