package c06

import (
	"fmt"
	"strconv"
	"strings"

	parser "github.com/a-h/templ/parser/v2"

	"verifharness/internal/core"
)

// The outcome of parsing is a function of the bytes.
//
// "Parsing any byte sequence yields either a tree or an error" speaks of THE outcome for a byte sequence: whether a file
// is accepted, which expression texts and which ranges its tree holds, may not depend on what the process parsed before
// (templ generate over a directory, templ fmt and the language server parse many files in one process).  The sweep
// runs every input once, on many goroutines, so state that survives a parse (a recycled scanner, a cache) shows there
// only by accident.  Here a list of inputs is parsed one after the other in one goroutine, forwards and then
// backwards - every input is parsed behind two different predecessors - and the two outcomes are compared; a difference
// is confirmed by replaying the two two-element sequences and reported with them.

func outcomeOf(src string) (fp string) {
	defer func() {
		if r := recover(); r != nil {
			fp = fmt.Sprintf("panic: %v", r)
		}
	}()
	tf, err := parser.ParseString(src)
	if err != nil {
		return "error: " + err.Error()
	}
	var w walker
	w.file(tf)
	var sb strings.Builder
	fmt.Fprintf(&sb, "tree: %d top-level nodes", len(tf.Nodes))
	for _, it := range w.items {
		fmt.Fprintf(&sb, "; %s %q %d:%d:%d-%d:%d:%d", it.what, it.text, it.r.From.Index, it.r.From.Line, it.r.From.Col, it.r.To.Index, it.r.To.Line, it.r.To.Col)
	}
	return sb.String()
}

func orderPhase(c *core.Ctx, ill []illCase) {
	if abortSweep.Load() {
		return
	}
	var inputs []string
	inputs = append(inputs, handWritten...)
	for _, ic := range ill {
		// whole files and the cut right behind the expression, of the forms whose extractor is scanner-based
		if ic.form > 3 {
			continue
		}
		exprLen := len(illContexts[ic.ctx].text) - 1 + len(illPieces[ic.piece].text)
		if ic.cutAt == -1 || ic.cutAt == ic.site+exprLen {
			inputs = append(inputs, ic.src)
		}
	}
	if n := c.N(6000, 60000); len(inputs) > n {
		// an even selection, so that every form, context and piece stays represented
		sel := make([]string, 0, n)
		for i := 0; i < n; i++ {
			sel = append(sel, inputs[i*len(inputs)/n])
		}
		inputs = sel
	}
	n := len(inputs)
	fwd, bwd := make([]string, n), make([]string, n)
	for i := 0; i < n; i++ {
		fwd[i] = outcomeOf(inputs[i])
	}
	for i := n - 1; i >= 0; i-- {
		bwd[i] = outcomeOf(inputs[i])
	}
	ok, confirmed, unconfirmed := true, 0, 0
	for i := 0; i < n; i++ {
		c.Count("")
		if fwd[i] == bwd[i] {
			continue
		}
		ok = false
		predF, predB := "", ""
		if i > 0 {
			predF = inputs[i-1]
		}
		if i+1 < n {
			predB = inputs[i+1]
		}
		outcomeOf(predF)
		a := outcomeOf(inputs[i])
		outcomeOf(predB)
		b := outcomeOf(inputs[i])
		if a == b {
			unconfirmed++
			if unconfirmed <= 2 {
				c.Fail("tie", "the outcome of parsing is a function of the bytes", "", map[string]string{"template_quoted": strconv.Quote(inputs[i]), "outcome_forwards": trunc(fwd[i], 400), "outcome_backwards": trunc(bwd[i], 400)},
					"the same bytes gave two different outcomes in one process; replaying the two predecessors did not reproduce the difference")
			}
			continue
		}
		confirmed++
		if confirmed <= 3 {
			c.Fail("property", "the outcome of parsing is a function of the bytes", "parse-outcome-depends-on-history",
				map[string]string{"family": "two sequences parsed in one process", "template_quoted": strconv.Quote(inputs[i]),
					"parsed_before_first_quoted": strconv.Quote(predF), "outcome_first": trunc(a, 600),
					"parsed_before_second_quoted": strconv.Quote(predB), "outcome_second": trunc(b, 600)},
				"parser.ParseString gave two different outcomes for the same bytes, depending on which input was parsed just before")
		}
	}
	c.Hist("order independence: inputs parsed forwards and backwards in one goroutine")
	c.Oblige("correspondence", "the outcome of parser.ParseString (error text, or every recorded text and range of the tree) is the same whatever was parsed before: a list of inputs parsed forwards and backwards in one goroutine", ok, fmt.Sprintf("%d inputs, %d differences confirmed by replay, %d not reproduced", n, confirmed, unconfirmed))
}
