// Package rng is the single PRNG (SplitMix64) every random choice of the harness derives from.
package rng

type R struct{ s uint64 }

// New scrambles the seed first so that seeds n and n+1 do not give the same stream shifted by one draw.
func New(seed uint64) *R {
	z := seed + 0x632BE59BD9B4E019
	z = (z ^ (z >> 30)) * 0xBF58476D1CE4E5B9
	z = (z ^ (z >> 27)) * 0x94D049BB133111EB
	z ^= z >> 31
	return &R{s: z*0x9E3779B97F4A7C15 + 0x1234567}
}

func (r *R) U64() uint64 {
	r.s += 0x9E3779B97F4A7C15
	z := r.s
	z = (z ^ (z >> 30)) * 0xBF58476D1CE4E5B9
	z = (z ^ (z >> 27)) * 0x94D049BB133111EB
	return z ^ (z >> 31)
}

// Intn returns a number in [0,n).
func (r *R) Intn(n int) int {
	if n <= 0 {
		return 0
	}
	return int(r.U64() % uint64(n))
}

func (r *R) Bool() bool { return r.U64()&1 == 1 }

// Pick returns one element of xs.
func Pick[T any](r *R, xs []T) T { return xs[r.Intn(len(xs))] }

// Fork derives an independent stream.
func (r *R) Fork() *R { return New(r.U64()) }
