// Package c19: live-reload broadcast (sse.Handler, proxy.Handler's /_templ/reload/events) is reliable and
// survives client churn. The real handler is driven through forced and random schedules in a
// race-instrumented subprocess (internal/c19/child); what it does is replayed on the extracted model's
// observation monitor (coq/model/Sse.v: monitor), which accepts exactly the model's executions.
package c19

import (
	"bufio"
	"bytes"
	"encoding/json"
	"fmt"
	"os"
	"os/exec"
	"path/filepath"
	"sort"
	"strconv"
	"strings"
	"time"

	"verifharness/internal/core"
	"verifharness/internal/drv"
	"verifharness/internal/rng"
)

func init() { core.Register("C19", Run) }

// history opcodes (mirrored in child/main.go)
const (
	hSubFree = iota
	hSubBusy
	hSubCancelled
	hSend
	hBurst
	hConcurrent
	hReleaseOK
	hReleaseErr
	hCancel
	hRegCount
	hStall
	hSubHealthy
	hStallClient
	hResume
)

var opName = []string{"sub", "sub-busy", "sub-cancelled", "send", "burst", "concurrent", "release", "release-err", "cancel", "regcount", "stall-ms", "sub-healthy", "stall-client", "resume"}

type hist struct {
	ID      int     `json:"id"`
	Kind    string  `json:"kind"`
	Ops     [][]int `json:"ops,omitempty"`
	Clients int     `json:"clients,omitempty"`
	Rounds  int     `json:"rounds,omitempty"`
	Seed    uint64  `json:"seed,omitempty"`
	E2E     *e2eIn  `json:"e2e,omitempty"`
	family  string
}

type stressOut struct {
	Clients    int      `json:"clients"`
	Stayers    int      `json:"stayers"`
	Rounds     int      `json:"rounds"`
	Problems   []string `json:"problems"`
	EventsSeen int      `json:"events_seen"`
	PostStatus []int    `json:"post_status"`
}

type result struct {
	Start      *int       `json:"start"`
	ID         int        `json:"id"`
	Obs        []int      `json:"obs"`
	Q          int        `json:"q"`
	Notes      []string   `json:"notes"`
	SendMaxNs  int64      `json:"send_max_ns"`
	G0         int        `json:"g0"`
	G1         int        `json:"g1"`
	SSERunning int        `json:"sse_running"`
	Stress     *stressOut `json:"stress"`
}

func (h hist) String() string {
	if h.Kind == "stress" {
		return fmt.Sprintf("stress clients=%d rounds=%d seed=%d", h.Clients, h.Rounds, h.Seed)
	}
	var parts []string
	for _, o := range h.Ops {
		s := opName[o[0]]
		if len(o) > 1 {
			s += " " + strconv.Itoa(o[1])
		}
		parts = append(parts, s)
	}
	return strings.Join(parts, "; ")
}

func (h hist) input() map[string]any {
	if h.Kind == "stress" {
		return map[string]any{"kind": "stress", "clients": h.Clients, "rounds": h.Rounds, "seed": h.Seed,
			"z_how": "internal/c19/child (go build -race -tags verif): real HTTP clients against proxy.Handler behind httptest.Server"}
	}
	return map[string]any{"kind": "forced", "ops": h.Ops, "schedule": h.String(),
		"z_how": "internal/c19/child (go build -race -tags verif): sse.Handler.ServeHTTP with a ResponseWriter whose Write blocks until released; ops are executed one at a time, waiting for the handler to settle after each"}
}

func ptr[T any](x T) *T { return &x }

func scanDetail(err error, deadlines []string) string {
	if err != nil {
		return err.Error()
	}
	if len(deadlines) > 0 {
		return "write deadline given by: " + strings.Join(deadlines, "; ")
	}
	return ""
}

func goEnv() []string {
	return append(os.Environ(), "GOFLAGS=-mod=mod", "GOPROXY=off", "GOSUMDB=off", "GOTOOLCHAIN=local")
}

func buildChild(dir string) (string, error) {
	bin := filepath.Join(dir, "c19child")
	args := []string{"build", "-race", "-tags", "verif"}
	if core.Repo() != "/repo" {
		// development aid (scratch worktree): a private module file, so that concurrent builds cannot interfere
		mod, err := os.ReadFile(filepath.Join(core.Root, "harness", "go.mod"))
		if err != nil {
			return "", err
		}
		sum, _ := os.ReadFile(filepath.Join(core.Repo(), "go.sum"))
		os.WriteFile(filepath.Join(dir, "alt.mod"), []byte(strings.ReplaceAll(string(mod), "=> /repo", "=> "+core.Repo())), 0o644)
		os.WriteFile(filepath.Join(dir, "alt.sum"), sum, 0o644)
		args = append(args, "-modfile="+filepath.Join(dir, "alt.mod"))
	}
	args = append(args, "-o", bin, "./internal/c19/child")
	cmd := exec.Command("go", args...)
	cmd.Dir = filepath.Join(core.Root, "harness")
	cmd.Env = goEnv()
	out, err := cmd.CombinedOutput()
	if err != nil {
		return "", fmt.Errorf("%v: %s", err, lastLines(string(out), 15))
	}
	return bin, nil
}

func lastLines(s string, n int) string {
	ls := strings.Split(strings.TrimSpace(s), "\n")
	if len(ls) > n {
		ls = ls[len(ls)-n:]
	}
	return strings.Join(ls, "\n")
}

type crash struct {
	h      hist
	stderr string
	code   int
}

// runChild feeds the histories to one child process; on a crash it reports the history that was running
// and returns the results obtained so far plus the index to resume from.
func runChild(bin string, hs []hist) (map[int]result, *crash, int) {
	res := map[int]result{}
	var in bytes.Buffer
	for _, h := range hs {
		b, _ := json.Marshal(h)
		in.Write(b)
		in.WriteByte('\n')
	}
	cmd := exec.Command(bin)
	cmd.Env = append(os.Environ(), "GORACE=halt_on_error=1 exitcode=66", "GOTRACEBACK=single")
	cmd.Stdin = &in
	var stderr bytes.Buffer
	cmd.Stderr = &stderr
	out, err := cmd.StdoutPipe()
	if err != nil {
		return res, &crash{stderr: err.Error(), code: -1}, len(hs)
	}
	if err := cmd.Start(); err != nil {
		return res, &crash{stderr: err.Error(), code: -1}, len(hs)
	}
	started := -1
	sc := bufio.NewScanner(out)
	sc.Buffer(make([]byte, 1<<20), 1<<26)
	for sc.Scan() {
		var r result
		if json.Unmarshal(sc.Bytes(), &r) != nil {
			continue
		}
		if r.Start != nil {
			started = *r.Start
			continue
		}
		res[r.ID] = r
	}
	werr := cmd.Wait()
	if werr == nil {
		return res, nil, len(hs)
	}
	code := -1
	if ee, ok := werr.(*exec.ExitError); ok {
		code = ee.ExitCode()
	}
	idx := len(hs)
	var failing hist
	for i, h := range hs {
		if h.ID == started {
			if _, done := res[h.ID]; !done {
				failing = h
				idx = i + 1
			}
		}
	}
	return res, &crash{h: failing, stderr: stderr.String(), code: code}, idx
}

func obsBytes(obs []int) []byte {
	b := make([]byte, len(obs))
	for i, x := range obs {
		if x < 0 || x > 255 {
			x = 255
		}
		b[i] = byte(x)
	}
	return b
}

// dropRegCount removes the registry-size readings from an observation log.
func dropRegCount(obs []int) []int {
	out := make([]int, 0, len(obs))
	for i := 0; i+2 < len(obs); i += 3 {
		if obs[i] != 7 {
			out = append(out, obs[i], obs[i+1], obs[i+2])
		}
	}
	return out
}

var obsName = []string{"Sub", "Write", "Release", "Cancel", "Exited", "Send", "SendEnd", "RegCount", "Settled"}

func obsString(obs []int) string {
	var parts []string
	for i := 0; i+2 < len(obs); i += 3 {
		n := "?"
		if obs[i] < len(obsName) {
			n = obsName[obs[i]]
		}
		switch obs[i] {
		case 8:
			if obs[i+2] != 0 {
				n += "(timeout)"
			}
			parts = append(parts, n)
		case 1, 2:
			parts = append(parts, fmt.Sprintf("%s(%d,%d)", n, obs[i+1], obs[i+2]))
		default:
			parts = append(parts, fmt.Sprintf("%s(%d)", n, obs[i+1]))
		}
	}
	return strings.Join(parts, " ")
}

func genRandom(r *rng.R) hist {
	var ops [][]int
	n := 3 + r.Intn(13)
	clients := 0
	ops = append(ops, []int{r.Intn(2)})
	clients++
	for i := 1; i < n; i++ {
		pick := func() int { return 1 + r.Intn(clients) }
		switch x := r.Intn(31); {
		case x >= 26 && x < 28:
			if clients < 5 {
				ops = append(ops, []int{hSubHealthy})
				clients++
			}
		case x == 28:
			ops = append(ops, []int{hStallClient, pick()})
		case x >= 29:
			ops = append(ops, []int{hResume, pick()})
		case x < 3:
			if clients < 5 {
				ops = append(ops, []int{hSubFree})
				clients++
			}
		case x < 5:
			if clients < 5 {
				ops = append(ops, []int{hSubBusy})
				clients++
			}
		case x < 6:
			if clients < 5 {
				ops = append(ops, []int{hSubCancelled})
				clients++
			}
		case x < 12:
			ops = append(ops, []int{hSend})
		case x < 13:
			ops = append(ops, []int{hBurst, 2 + r.Intn(3)})
		case x < 14:
			ops = append(ops, []int{hConcurrent, 2 + r.Intn(3)})
		case x < 19:
			ops = append(ops, []int{hReleaseOK, pick()})
		case x < 20:
			ops = append(ops, []int{hReleaseErr, pick()})
		case x < 24:
			ops = append(ops, []int{hCancel, pick()})
		default:
			ops = append(ops, []int{hRegCount})
		}
	}
	return hist{Kind: "forced", Ops: ops, family: "random churn"}
}

// genStalled: a population of clients stalled in a write (never released unless an operation says so) next to
// healthy readers, several broadcasts, and in between the stalled ones being cancelled / resumed / released once,
// healthy ones stalling, and newcomers of both kinds.
func genStalled(r *rng.R) hist {
	var ops [][]int
	nStalled, nHealthy := 1+r.Intn(4), 1+r.Intn(3)
	kinds := make([]int, 0, nStalled+nHealthy)
	for i := 0; i < nStalled; i++ {
		kinds = append(kinds, hSubBusy)
	}
	for i := 0; i < nHealthy; i++ {
		if r.Intn(4) == 0 {
			kinds = append(kinds, hSubFree) // healthy until the write of its first event
		} else {
			kinds = append(kinds, hSubHealthy)
		}
	}
	for i := len(kinds) - 1; i > 0; i-- {
		j := r.Intn(i + 1)
		kinds[i], kinds[j] = kinds[j], kinds[i]
	}
	for _, k := range kinds {
		ops = append(ops, []int{k})
	}
	clients := len(kinds)
	pick := func() int { return 1 + r.Intn(clients) }
	n := 2 + r.Intn(6)
	for i := 0; i < n; i++ {
		switch x := r.Intn(20); {
		case x < 8:
			ops = append(ops, []int{hSend})
		case x < 10:
			ops = append(ops, []int{hBurst, 2 + r.Intn(4)})
		case x < 12:
			ops = append(ops, []int{hConcurrent, 2 + r.Intn(3)})
		case x < 14:
			ops = append(ops, []int{hCancel, pick()})
		case x < 15:
			ops = append(ops, []int{hStallClient, pick()})
		case x < 16:
			ops = append(ops, []int{hResume, pick()})
		case x < 17:
			ops = append(ops, []int{hReleaseOK, pick()})
		case x < 18:
			ops = append(ops, []int{hReleaseErr, pick()})
		case x < 19:
			if clients < 8 {
				ops = append(ops, []int{[]int{hSubBusy, hSubHealthy}[r.Intn(2)]})
				clients++
			}
		default:
			ops = append(ops, []int{hRegCount})
		}
	}
	ops = append(ops, []int{hSend})
	return hist{Kind: "forced", Ops: ops, family: "random: stalled writers next to healthy readers, several broadcasts"}
}

// obsFeatures reads, off the implementation's own observation log, how many clients were stalled in a write and
// how many were healthy (connected, not cancelled, not inside a write) at each broadcast.
func obsFeatures(obs []int) []string {
	type st struct{ blocked, exited, cancelled, broken bool }
	cl := map[int]*st{}
	get := func(c int) *st {
		if cl[c] == nil {
			cl[c] = &st{}
		}
		return cl[c]
	}
	capN := func(n int) string {
		if n >= 3 {
			return "3+"
		}
		return strconv.Itoa(n)
	}
	seen := map[string]bool{}
	var out []string
	both := 0
	for i := 0; i+2 < len(obs); i += 3 {
		a, b := obs[i+1], obs[i+2]
		switch obs[i] {
		case 0:
			get(a)
		case 1:
			get(a).blocked = true
		case 2:
			get(a).blocked = false
			if b == 0 {
				get(a).broken = true
			}
		case 3:
			get(a).cancelled = true
		case 4:
			get(a).exited = true
		case 5:
			stalled, healthy := 0, 0
			for _, x := range cl {
				switch {
				case x.exited:
				case x.blocked:
					stalled++
				case !x.cancelled && !x.broken:
					healthy++
				}
			}
			k := "broadcast reaching " + capN(stalled) + " stalled + " + capN(healthy) + " healthy clients"
			if !seen[k] {
				seen[k] = true
				out = append(out, k)
			}
			if stalled > 0 && healthy > 0 {
				both++
			}
		}
	}
	if both >= 2 {
		out = append(out, "two or more broadcasts while stalled and healthy clients are connected together")
	}
	return out
}

func features(h hist) []string {
	var f []string
	busy := map[int]bool{}
	clients := 0
	sentWhileBusy, cancelAfterSend, anySend, werr, multi := false, false, false, false, false
	for _, o := range h.Ops {
		switch o[0] {
		case hSubFree, hSubCancelled, hSubHealthy:
			clients++
		case hSubBusy:
			clients++
			busy[clients] = true
		case hSend, hBurst, hConcurrent:
			if clients > 0 {
				anySend = true
			}
			if o[0] != hSend {
				multi = true
			}
			if len(busy) > 0 {
				sentWhileBusy = true
			}
		case hCancel:
			if anySend {
				cancelAfterSend = true
			}
		case hReleaseErr:
			werr = true
		}
	}
	if !anySend {
		f = append(f, "no broadcast reaches a client")
	}
	if sentWhileBusy {
		f = append(f, "broadcast while a client is stalled in a write")
	}
	if cancelAfterSend {
		f = append(f, "client cancelled after a broadcast")
	}
	if multi {
		f = append(f, "back-to-back or concurrent broadcasts")
	}
	if werr {
		f = append(f, "write error")
	}
	if clients >= 2 {
		f = append(f, "two or more clients")
	}
	return f
}

func Run(c *core.Ctx) {
	c.Rule = "histories = sequences of harness operations (subscribe free/stalled/healthy/already-cancelled, broadcast, burst, concurrent broadcasts, release a stalled write with or without error, a reader stalling / resuming, cancel, read registry size) executed on the real sse.Handler in a -race subprocess: named forced schedules, every sequence over two 8-operation alphabets up to the tier's length, random churn, random populations of stalled writers next to healthy readers with several broadcasts; plus stress runs of proxy.Handler behind httptest.Server with real HTTP clients. distinct non-trivial = distinct operation sequences in which a broadcast is issued while at least one client is registered; plus end-to-end scenarios (a timeline of browsers connecting / leaving by themselves and broadcasts via SendSSE, POST and NotifyProxy, drawn from the same PRNG) against the proxy started by generatecmd.StartProxy on a real TCP port, one browser per connection-age class (quick: about 1, 6, 12, 22 and 31 s old when the closing broadcasts are issued; thorough: up to 2.5 min), run in child processes of their own concurrently with the histories; every scenario is distinct and non-trivial"
	c.Trusted = append(c.Trusted,
		"model coq/model/Sse.v: critical sections of ServeHTTP are atomic steps (straight-line, non-blocking code under the mutex); Go channel/select/mutex semantics as modelled (unbuffered rendezvous, send on closed channel panics, close of closed channel panics)",
		"extraction: ExtrOcamlBasic only; ocaml/driver.ml",
		"Go harness internal/c19 (+ child), Go race detector, runtime.NumGoroutine / runtime.Stack",
		"hook cmd/templ/generatecmd/sse/verif_c19.go (reads len(requests) under the mutex)",
		"model coq/model/SseTransport.v: net/http arms a connection's write deadline once per request and a write past it loses the bytes and cancels the request context (observed with go1.23.5); ReadTimeout / ReadHeaderTimeout / IdleTimeout do not end a response in progress (observed)",
		"end to end: the HTTP clients of internal/c19/child stand for browsers (own TCP connection each, EventSource's request headers, no reconnect); the order of the harness's log (one mutex) is the real-time order")
	c.Assume = append(c.Assume,
		"liveness (actual delivery) needs fairness: a blocked Write eventually returns, a select whose receive case stays ready eventually takes it, runnable goroutines and mutex waiters eventually run (C19_delivery_progress states what is proved without it)",
		"the browser side (EventSource reconnect) and net/http's detection of a closed connection (request context cancellation) are outside the model",
		"end to end, a browser is connected from the moment it has read its first ping until it closes the stream itself; a stream the server side ends discharges nothing (spec/Browser.v)",
		"cmd.go calls proxy.Handler.SendSSE synchronously from its event loop: that Send never blocks is what keeps the watch loop live")
	c.Proofs()

	dir, err := os.MkdirTemp("", "c19-")
	if err != nil {
		c.Oblige("correspondence", "scratch directory", false, err.Error())
		return
	}
	defer os.RemoveAll(dir)
	t0 := time.Now()
	bin, err := buildChild(dir)
	c.Oblige("correspondence", "race-instrumented child (internal/c19/child) builds against the tree with -tags verif", err == nil, fmt.Sprint(err))
	if err != nil {
		return
	}
	c.Extra["child_build_s"] = time.Since(t0).Seconds()

	// ---- end-to-end scenarios (long-lived connections): started now, in processes of their own, judged at the end ----
	quickAges := [][2]int{{500, 2000}, {5500, 8500}, {10500, 14500}, {20500, 25000}, {30500, 32000}}
	erng := c.Rng.Fork()
	var e2eHs []hist
	if c.Replay == "" {
		e2eHs = append(e2eHs, hist{ID: 1, Kind: "e2e", E2E: ptr(genE2E(erng, 32000, quickAges)), family: "end to end through StartProxy"})
		if !c.Quick() {
			e2eHs = append(e2eHs,
				hist{ID: 2, Kind: "e2e", E2E: ptr(genE2E(erng, 32000, quickAges)), family: "end to end through StartProxy"},
				hist{ID: 3, Kind: "e2e", E2E: ptr(genE2E(erng, 75000, append(append([][2]int{}, quickAges...), [2]int{30000, 45000}, [2]int{62000, 75000}))), family: "end to end through StartProxy"},
				hist{ID: 4, Kind: "e2e", E2E: ptr(genE2E(erng, 150000, append(append([][2]int{}, quickAges...), [2]int{31000, 59000}, [2]int{61000, 119000}, [2]int{121000, 150000}))), family: "end to end through StartProxy"})
		}
	} else {
		var doc struct {
			Failures []struct {
				Input struct {
					Kind string `json:"kind"`
					E2E  *e2eIn `json:"e2e"`
				} `json:"input"`
			} `json:"failures"`
		}
		if b, err := os.ReadFile(c.Replay); err == nil && json.Unmarshal(b, &doc) == nil {
			for _, f := range doc.Failures {
				if f.Input.Kind == "e2e" && f.Input.E2E != nil && len(e2eHs) < 4 {
					e2eHs = append(e2eHs, hist{ID: len(e2eHs) + 1, Kind: "e2e", E2E: f.Input.E2E, family: "replay"})
				}
			}
		}
	}
	e2eLimit := 60 * time.Second
	for _, h := range e2eHs {
		e2eLimit = max(e2eLimit, time.Duration(h.E2E.durationMs()+h.E2E.SettleMs+45000)*time.Millisecond)
	}
	e2eProcs := startE2E(bin, e2eHs)
	contractProc := startE2E(bin, []hist{{ID: 1, Kind: "contract"}})[0]
	c.Extra["first_e2e_scenario"] = ""
	if len(e2eHs) > 0 {
		c.Extra["first_e2e_scenario"] = e2eHs[0].E2E.String()
	}
	servers, deadlines, scanErr := scanTransport()
	c.Extra["e2e_listeners_in_source"] = servers
	c.Oblige("contract", "transport contract of the delivery theorems (model/SseTransport.v, wdl = None): nothing in cmd/templ/generatecmd{,/proxy,/sse} gives the connections of the events route a write deadline (static scan for http.Server.WriteTimeout, http.TimeoutHandler, SetWriteDeadline/SetDeadline; listeners found: "+strings.Join(servers, "; ")+")",
		scanErr == nil && len(deadlines) == 0 && len(servers) > 0, scanDetail(scanErr, deadlines))

	// ---- histories ----
	var hs []hist
	add := func(fam string, reps int, ops ...[]int) {
		for i := 0; i < reps; i++ {
			hs = append(hs, hist{Kind: "forced", Ops: ops, family: fam})
		}
	}
	reps := c.N(25, 300)
	add("forced: client leaves while a delivery is pending", reps, []int{hSubBusy}, []int{hSend}, []int{hCancel, 1}, []int{hReleaseOK, 1})
	add("forced: client leaves while a delivery is pending", reps, []int{hSubBusy}, []int{hBurst, 3}, []int{hCancel, 1}, []int{hReleaseOK, 1})
	add("forced: client leaves while a delivery is pending", reps/2, []int{hSubBusy}, []int{hSend}, []int{hReleaseErr, 1})
	add("forced: client leaves while a delivery is pending", reps/2, []int{hSubFree}, []int{hSubBusy}, []int{hSend}, []int{hSend}, []int{hCancel, 2}, []int{hReleaseOK, 2}, []int{hReleaseOK, 1}, []int{hReleaseOK, 1})
	add("forced: stalled reader does not hold up the broadcaster or the other client", reps/2, []int{hSubBusy}, []int{hSubFree}, []int{hConcurrent, 3}, []int{hReleaseOK, 2}, []int{hReleaseOK, 2}, []int{hReleaseOK, 2}, []int{hRegCount})
	add("forced: stalled reader does not hold up the broadcaster or the other client", reps/2, []int{hSubBusy}, []int{hSubBusy}, []int{hBurst, 4}, []int{hReleaseOK, 1}, []int{hCancel, 2}, []int{hRegCount})
	stalls := []int{60, 60, 300, 1200}
	if !c.Quick() {
		stalls = append(stalls, 60, 300, 2500, 6000)
	}
	for _, ms := range stalls {
		add("forced: slow reader (stalled for a while) still gets every event", 1, []int{hSubBusy}, []int{hSubFree}, []int{hSend}, []int{hStall, ms}, []int{hSend}, []int{hReleaseOK, 2}, []int{hStall, ms / 4}, []int{hReleaseOK, 1}, []int{hReleaseOK, 1}, []int{hReleaseOK, 2})
	}
	// stalled writers (never released before the end) next to healthy readers, several broadcasts: the healthy ones must
	// have every broadcast at every settle point, whatever the registry's iteration order
	for k := 1; k <= 4; k++ {
		for m := 1; m <= 2; m++ {
			for order := 0; order < 2; order++ {
				var ops [][]int
				subs := func(n, kind int) {
					for i := 0; i < n; i++ {
						ops = append(ops, []int{kind})
					}
				}
				if order == 0 {
					subs(k, hSubBusy)
					subs(m, hSubHealthy)
				} else {
					subs(m, hSubHealthy)
					subs(k, hSubBusy)
				}
				ops = append(ops, []int{hBurst, 2 + k}, []int{hSend}, []int{hConcurrent, 2}, []int{hRegCount}, []int{hCancel, 1 + order*m}, []int{hSend}, []int{hRegCount})
				add("forced: stalled writers next to healthy readers, several broadcasts", c.N(2, 12), ops...)
			}
		}
	}
	add("forced: edge cases", 3, []int{hSend})
	add("forced: edge cases", 5, []int{hSubCancelled}, []int{hSend}, []int{hRegCount})
	add("forced: edge cases", 5, []int{hSubFree}, []int{hCancel, 1}, []int{hSend}, []int{hRegCount})
	add("forced: edge cases", 5, []int{hSubFree}, []int{hSubFree}, []int{hSubFree}, []int{hSend}, []int{hRegCount}, []int{hCancel, 2}, []int{hSend}, []int{hRegCount})
	// every sequence over a small alphabet
	alpha := [][]int{{hSubFree}, {hSubBusy}, {hSend}, {hReleaseOK, 1}, {hCancel, 1}, {hReleaseOK, 2}, {hCancel, 2}, {hReleaseErr, 1}}
	maxLen := c.N(4, 6)
	var gen func(prefix [][]int, n int)
	gen = func(prefix [][]int, n int) {
		if len(prefix) > 0 {
			hs = append(hs, hist{Kind: "forced", Ops: append([][]int{}, prefix...), family: "exhaustive small sequences"})
		}
		if n == 0 {
			return
		}
		for _, a := range alpha {
			if len(prefix) == 0 && a[0] != hSubFree && a[0] != hSubBusy {
				continue
			}
			gen(append(prefix, a), n-1)
		}
	}
	exhStart := len(hs)
	gen(nil, maxLen)
	// shortest first, so that the first failure reported is a minimal one
	sort.SliceStable(hs[exhStart:], func(i, j int) bool { return len(hs[exhStart+i].Ops) < len(hs[exhStart+j].Ops) })
	c.Extra["exhaustive_max_ops"] = maxLen
	// targeted churn: every sequence up to churnLen operations over {sub, cancel i, send} with up to 4 clients in which a
	// client that is NOT the newest leaves, a later client subscribes, and a broadcast follows (registry keys must
	// stay unique over the handler's lifetime, whoever leaves)
	churnStart := len(hs)
	churnLen := c.N(8, 9)
	var churn func(prefix [][]int, clients int, gone map[int]bool, stage int)
	churn = func(prefix [][]int, clients int, gone map[int]bool, stage int) {
		// stage 0: nothing yet; 1: a non-newest client has left; 2: ... and a later subscribe; 3: ... and a broadcast
		if stage == 3 {
			hs = append(hs, hist{Kind: "forced", Ops: append([][]int{}, prefix...), family: "exhaustive churn: an older client leaves, a new one subscribes, then a broadcast"})
		}
		if len(prefix) == churnLen {
			return
		}
		if clients < 4 {
			st := stage
			if st == 1 {
				st = 2
			}
			churn(append(prefix, []int{hSubFree}), clients+1, gone, st)
		}
		for i := 1; i <= clients; i++ {
			if gone[i] {
				continue
			}
			st := stage
			if st == 0 && i < clients {
				st = 1
			}
			g := map[int]bool{i: true}
			for k := range gone {
				g[k] = true
			}
			churn(append(prefix, []int{hCancel, i}), clients, g, st)
		}
		if clients > 0 {
			st := stage
			if st == 2 {
				st = 3
			}
			churn(append(prefix, []int{hSend}), clients, gone, st)
		}
	}
	churn(nil, 0, map[int]bool{}, 0)
	sort.SliceStable(hs[churnStart:], func(i, j int) bool { return len(hs[churnStart+i].Ops) < len(hs[churnStart+j].Ops) })
	c.Extra["exhaustive_churn_histories"] = len(hs) - churnStart
	c.Extra["exhaustive_churn_max_ops"] = churnLen
	// every sequence over an alphabet with stalled writers, healthy readers, and readers changing between the two
	alphaS := [][]int{{hSubBusy}, {hSubHealthy}, {hSend}, {hCancel, 1}, {hCancel, 2}, {hResume, 1}, {hStallClient, 2}, {hReleaseOK, 1}}
	stStart := len(hs)
	var genS func(prefix [][]int, n int)
	genS = func(prefix [][]int, n int) {
		if len(prefix) > 0 {
			hs = append(hs, hist{Kind: "forced", Ops: append([][]int{}, prefix...), family: "exhaustive small sequences with stalled writers and healthy readers"})
		}
		if n == 0 {
			return
		}
		for _, a := range alphaS {
			if len(prefix) == 0 && a[0] != hSubBusy && a[0] != hSubHealthy {
				continue
			}
			genS(append(prefix, a), n-1)
		}
	}
	genS(nil, maxLen)
	sort.SliceStable(hs[stStart:], func(i, j int) bool { return len(hs[stStart+i].Ops) < len(hs[stStart+j].Ops) })
	nRand := c.N(5000, 40000)
	// core's seeds are consecutive SplitMix64 states (seed n+1 = seed n shifted by one draw): fork to decorrelate
	rnd := c.Rng.Fork()
	for i := 0; i < nRand; i++ {
		hs = append(hs, genRandom(rnd))
		if i == 0 {
			c.Extra["first_random_history"] = hs[len(hs)-1].String()
		}
	}
	nStalled := c.N(1500, 12000)
	for i := 0; i < nStalled; i++ {
		hs = append(hs, genStalled(rnd))
		if i == 0 {
			c.Extra["first_stalled_healthy_history"] = hs[len(hs)-1].String()
		}
	}
	nStress := c.N(10, 150)
	for i := 0; i < nStress; i++ {
		hs = append(hs, hist{Kind: "stress", Clients: 4 + rnd.Intn(c.N(12, 40)), Rounds: 3 + rnd.Intn(c.N(20, 60)), Seed: rnd.U64(), family: "stress: proxy.Handler over HTTP"})
	}
	if c.Replay != "" {
		// vcheck C19 --replay <file>: run only the histories of the replay file's failures (each several times: which
		// client a broadcast reaches first depends on Go's map iteration order and the scheduler)
		var doc struct {
			Failures []struct {
				Input struct {
					Kind string  `json:"kind"`
					Ops  [][]int `json:"ops"`
				} `json:"input"`
			} `json:"failures"`
		}
		if b, err := os.ReadFile(c.Replay); err == nil && json.Unmarshal(b, &doc) == nil {
			hs = nil
			for _, f := range doc.Failures {
				if f.Input.Kind == "forced" && len(f.Input.Ops) > 0 {
					for i := 0; i < 20; i++ {
						hs = append(hs, hist{Kind: "forced", Ops: f.Input.Ops, family: "replay"})
					}
				}
			}
			hs = append(hs, hist{Kind: "stress", Clients: 6, Rounds: 5, Seed: 1, family: "stress: proxy.Handler over HTTP"})
		}
	}
	for i := range hs {
		hs[i].ID = i + 1
	}
	byID := map[int]hist{}
	for _, h := range hs {
		byID[h.ID] = h
	}

	// ---- run them ----
	results := map[int]result{}
	var crashes []crash
	gaveUp := false
	rest := hs
	for len(rest) > 0 && len(crashes) < 6 {
		res, cr, next := runChild(bin, rest)
		for k, v := range res {
			results[k] = v
		}
		if cr != nil && cr.code == 71 {
			gaveUp = true // the child saw the handler block or fail to settle several times; its results say why
			break
		}
		if cr != nil {
			crashes = append(crashes, *cr)
		}
		rest = rest[next:]
		if cr != nil && cr.h.ID != 0 {
			// do not run the same schedule into the same crash again
			var keep []hist
			for _, h := range rest {
				if h.String() != cr.h.String() {
					keep = append(keep, h)
				}
			}
			rest = keep
		}
	}
	noPanic, noRace := true, true
	for _, cr := range crashes {
		kind, shape, fam := "property", "panic-other", "no goroutine of the handler panics"
		detail := lastLines(cr.stderr, 25)
		switch {
		case strings.Contains(cr.stderr, "send on closed channel"):
			shape = "deliver-after-close"
			noPanic = false
		case strings.Contains(cr.stderr, "close of closed channel"):
			shape = "double-close"
			noPanic = false
		case strings.Contains(cr.stderr, "DATA RACE") && strings.Contains(cr.stderr, "runtime.closechan") && strings.Contains(cr.stderr, "runtime.chansend"):
			// the race detector stops the process at the racing close before the send panics
			shape = "deliver-after-close"
			detail = "close of a channel concurrent with a delivery goroutine's send on it (send on closed channel):\n" + detail
			noPanic = false
		case strings.Contains(cr.stderr, "DATA RACE"):
			shape, fam = "data-race", "no data race on the registry"
			noRace = false
		case strings.Contains(cr.stderr, "Send never returned"):
			shape, fam = "send-blocked", "Send returns within the bound whatever the clients do"
			noPanic = false
		case strings.Contains(cr.stderr, "panic:") || strings.Contains(cr.stderr, "fatal error:"):
			noPanic = false
		default:
			kind, shape, fam = "tie", "", "child process ran to completion"
			noPanic = false
		}
		if cr.h.ID == 0 {
			kind = "tie"
		}
		c.Fail(kind, fam, shape, cr.h.input(), fmt.Sprintf("child exit status %d: %s", cr.code, detail))
	}
	c.Oblige("correspondence", "no panic in the race-instrumented subprocess over all histories (model: C19_no_panic)", noPanic, fmt.Sprintf("%d crashes", len(crashes)))
	c.Oblige("correspondence", "race detector silent over all histories (registry accessed under the mutex only)", noRace, "")

	// ---- judge the observed histories with the extracted monitor ----
	var reqs []drv.Req
	var reqH []hist
	for _, h := range hs {
		r, ok := results[h.ID]
		if !ok || h.Kind != "forced" {
			continue
		}
		q := r.Q * 3
		if q > len(r.Obs) {
			q = len(r.Obs)
		}
		// request 1: the history up to the quiescence point WITHOUT the registry-size readings - it decides whether
		// every event reached every live client, whatever the registry looks like; request 2: everything (the tie)
		// request 3: the model states at the points where the harness saw the handler come to rest (stalled writers
		// still stalled) - are they at rest, and does every healthy client have every broadcast there?
		reqs = append(reqs, drv.Req{Fn: "monitor", Args: [][]byte{obsBytes(dropRegCount(r.Obs[:q]))}}, drv.Req{Fn: "monitor", Args: [][]byte{obsBytes(r.Obs)}},
			drv.Req{Fn: "audit", Args: [][]byte{obsBytes(dropRegCount(r.Obs))}})
		reqH = append(reqH, h)
	}
	// regression witness through the extracted code: the old variant panics on the forced schedule, the current one does not
	oldTrace := []byte{0, 0, 0, 7, 1, 0, 1, 0, 0, 2, 1, 0, 3, 0, 0, 4, 0, 0, 10, 1, 0, 8, 1, 0, 11, 1, 0, 12, 1, 0, 5, 1, 1}
	newTrace := append(append([]byte{}, oldTrace[:len(oldTrace)-3]...), 6, 1, 1)
	reqs = append(reqs, drv.Req{Fn: "run", Args: [][]byte{[]byte("1"), oldTrace}}, drv.Req{Fn: "run", Args: [][]byte{[]byte("0"), newTrace}})
	res := c.Model(reqs)
	if len(res) == len(reqs) {
		a, b := res[len(res)-2], res[len(res)-1]
		ok := len(a) >= 3 && string(a[0]) == "1" && string(a[2]) == "1" && len(b) >= 4 && string(b[0]) == "1" && string(b[2]) == "0" && len(b[3]) == 0
		c.Oblige("side-condition", "extracted model: the pre-fix variant panics on [subscribe; stalled; broadcast; cancel; leave; deliver], the current variant ends the delivery through done", ok, fmt.Sprintf("old=%q new=%q", a, b))
	}
	accepted, delivered, settled, sendOK, noLeak, regOK, atRest := true, true, true, true, true, true, true
	settlePoints := 0
	var sendMax int64
	nForced := 0
	for i, h := range reqH {
		r := results[h.ID]
		nForced++
		key := ""
		fs := features(h)
		nontrivial := true
		for _, f := range fs {
			c.Hist(f)
			if f == "no broadcast reaches a client" {
				nontrivial = false
			}
		}
		for _, f := range obsFeatures(r.Obs) {
			c.Hist(f)
		}
		c.Hist("family: " + h.family)
		if nontrivial {
			key = h.String()
		}
		c.Count(key)
		if r.SendMaxNs > sendMax {
			sendMax = r.SendMaxNs
		}
		pre, full, aud := res[3*i], res[3*i+1], res[3*i+2]
		in := h.input()
		in["observed"] = obsString(r.Obs)
		if len(r.Notes) > 0 {
			in["notes"] = r.Notes
		}
		unsettledNote := ""
		for _, n := range r.Notes {
			switch {
			case strings.HasPrefix(n, "send-blocked"):
				sendOK = false
				if c.NFails("Send returns within the bound whatever the clients do") < 3 {
					c.Fail("property", "Send returns within the bound whatever the clients do", "send-blocked", in, n+" while a client was stalled in a write (model: C19_broadcaster_never_blocks - Send needs no client step)")
				}
			case strings.HasPrefix(n, "bad-write"), strings.HasPrefix(n, "no-first-ping"):
				accepted = false
				if c.NFails("handler output format") < 3 {
					c.Fail("tie", "handler output format", "", in, n)
				}
			case strings.HasPrefix(n, "unsettled"):
				settled = false
				unsettledNote = n
			}
		}
		failsBefore := len(c.Fails)
		if len(full) < 2 || len(pre) < 2 || len(aud) < 2 {
			accepted = false
			continue
		}
		// ---- the settle points: the handler came to rest while the stalled writers stayed stalled ----
		if np, err := strconv.Atoi(string(aud[0])); err == nil {
			settlePoints += np
		}
		if string(aud[1]) != "0" && len(aud) >= 8 {
			atRest = false
			idx, _ := strconv.Atoi(string(aud[2]))
			pairs := func(b []byte) []string {
				var out []string
				for j := 0; j+1 < len(b); j += 2 {
					out = append(out, fmt.Sprintf("event %d -> client %d", b[j+1], b[j]))
				}
				return out
			}
			var stalled []string
			for _, x := range aud[5] {
				stalled = append(stalled, strconv.Itoa(int(x)))
			}
			// the prefix of the observation log (registry readings left out) up to and including that settle point
			pobs := dropRegCount(r.Obs)
			if 3*(idx+1) <= len(pobs) {
				in["observed_up_to_settle_point"] = obsString(pobs[:3*(idx+1)])
			}
			const famStall = "a client stalled in its response write holds up nobody: when the handler has come to rest every client in its select has every broadcast sent while it was registered"
			if starved := pairs(aud[4]); len(starved) > 0 {
				shape := "event-not-delivered"
				what := "no client is stalled in a write"
				if len(stalled) > 0 {
					what = "client(s) " + strings.Join(stalled, ",") + " are stalled in a write (connected, not cancelled, their write has not returned)"
				}
				// narrower shape: an event a healthy client lacks is also still pending for a stalled client
				// (its delivery to the healthy client sits behind the stalled one)
				if len(aud) >= 9 {
					isStalled := map[byte]bool{}
					for _, x := range aud[5] {
						isStalled[x] = true
					}
					for j := 0; j+1 < len(aud[4]) && shape == "event-not-delivered"; j += 2 {
						for k := 0; k+1 < len(aud[8]); k += 2 {
							if aud[8][k+1] == aud[4][j+1] && isStalled[aud[8][k]] {
								shape = "held-up-behind-stalled-client"
								break
							}
						}
					}
				}
				if c.NFails(famStall) < 4 {
					c.Fail("property", famStall, shape, in, fmt.Sprintf("at observation #%d (Settled: the harness waited for the handler to come to rest) %s; healthy clients sitting in their select still lack: %s. The model state there is not at rest (stableb false; C19_stable_iff_handler_at_rest: a handler step that needs no stalled client is enabled), so C19_stalled_clients_hold_up_nobody's conclusion fails on the implementation's own history",
						idx, what, strings.Join(starved, ", ")))
				}
			} else if c.NFails("model state at rest at every settle point") < 3 {
				c.Fail("tie", "model state at rest at every settle point", "", in, fmt.Sprintf("at observation #%d the model state is not at rest: held-up deliveries [%s], a Send in progress: %s", idx, strings.Join(pairs(aud[3]), ", "), aud[7]))
			}
		}
		describe := func(obs []int, reply [][]byte) (int, int, string) {
			idx, _ := strconv.Atoi(string(reply[1]))
			if 3*idx+2 < len(obs) {
				return idx, obs[3*idx], obsString(obs[3*idx : 3*idx+3])
			}
			return idx, -1, "?"
		}
		const famAccept = "observed history is an execution of the model (extracted monitor accepts it)"
		if string(full[0]) != "1" {
			idx, op, what := describe(r.Obs, full)
			fam := famAccept
			if op == 7 {
				regOK = false
				fam = "registry size (hook) = model's registry size at quiescent points"
			} else {
				accepted = false
			}
			if c.NFails(fam) < 3 {
				c.Fail("tie", fam, "", in, fmt.Sprintf("the model cannot follow observation #%d %s", idx, what))
			}
		}
		if string(pre[0]) != "1" {
			if string(full[0]) == "1" {
				accepted = false
			}
			pobs := dropRegCount(r.Obs[:min(r.Q*3, len(r.Obs))])
			idx, _, what := describe(pobs, pre)
			if c.NFails(famAccept) < 3 {
				c.Fail("tie", famAccept, "", in, fmt.Sprintf("the model cannot follow observation #%d %s (registry readings left out)", idx, what))
			}
			continue
		}
		// accepted: is the model state quiescent at the quiescence point (every event reached every remaining client)?
		if string(pre[2]) != "1" && len(pre) >= 4 && len(pre[3]) > 0 {
			delivered = false
			var miss []string
			for j := 0; j+1 < len(pre[3]); j += 2 {
				miss = append(miss, fmt.Sprintf("event %d -> client %d", pre[3][j+1], pre[3][j]))
			}
			if c.NFails("every event reaches every client that was registered when it was broadcast and is still connected") < 4 {
				c.Fail("property", "every event reaches every client that was registered when it was broadcast and is still connected", "event-not-delivered", in,
					"after every stalled write was released and the handler settled, the model still has deliveries pending that the implementation never made: "+strings.Join(miss, ", "))
			}
		} else if string(pre[2]) != "1" {
			accepted = false
			if c.NFails("model quiescent at the quiescence point") < 3 {
				c.Fail("tie", "model quiescent at the quiescence point", "", in, "a Send call has not returned in the model")
			}
		}
		if string(full[0]) == "1" && string(full[2]) != "1" {
			accepted = false
		}
		if r.G1 > r.G0 || r.SSERunning > 0 {
			noLeak = false
			if c.NFails("no goroutine is left behind after every client has gone") < 3 {
				c.Fail("property", "no goroutine is left behind after every client has gone", "goroutine-leak", in,
					fmt.Sprintf("goroutines before=%d after=%d, %d still inside package sse 5 s after the last client returned (model: C19_no_leaked_deliveries - every delivery to a client that left ends)", r.G0, r.G1, r.SSERunning))
			}
		}
		if unsettledNote != "" && len(c.Fails) == failsBefore && c.NFails("the handler settles after every operation") < 3 {
			// nothing else explains it: the implementation did not make a step the model says is enabled
			c.Fail("tie", "the handler settles after every operation", "", in, unsettledNote)
		}
		if i%97 == 0 && len(c.Samples) < 9 {
			c.Sample(map[string]any{"schedule": h.String(), "observed": obsString(r.Obs), "send_max_us": r.SendMaxNs / 1000, "goroutines": []int{r.G0, r.G1}})
		}
	}
	c.Extra["forced_histories"] = nForced
	c.Extra["send_latency_max_us"] = sendMax / 1000
	c.Oblige("correspondence", "every observed history of sse.Handler is accepted by the extracted monitor (it is an execution of the model)", accepted, "")
	c.Oblige("correspondence", "len(Handler.requests) = model's registry size at every quiescent point", regOK, "")
	c.Oblige("correspondence", "at the quiescence point the model has nothing pending: every event reached every remaining client of its snapshot (C19_accepted_quiescent_delivered applies)", delivered, "")
	c.Oblige("correspondence", "the handler settled within the harness timeout after every operation", settled, "")
	c.Extra["settle_points_judged"] = settlePoints
	c.Oblige("correspondence", fmt.Sprintf("at each of the %d points where the harness saw the handler come to rest (stalled writers still stalled) the model state is at rest (extracted stableb): every delivery still pending is for a client itself stalled in a write, so every healthy client has every broadcast of its snapshot (C19_settled_points_judged, C19_stalled_clients_hold_up_nobody)", settlePoints), atRest && (settlePoints > 0 || c.Replay != ""), "")
	c.Oblige("correspondence", fmt.Sprintf("Send returned within %v in every history although clients were stalled (max %d us)", 2*time.Second, sendMax/1000), sendOK, "")
	c.Oblige("correspondence", "goroutine count back to the baseline and no goroutine inside package sse after every history", noLeak, "")

	// ---- stress results ----
	stressOK := true
	nS := 0
	for _, h := range hs {
		if h.Kind != "stress" {
			continue
		}
		r, ok := results[h.ID]
		if !ok || r.Stress == nil {
			continue
		}
		nS++
		c.Count(h.String())
		c.Hist("family: " + h.family)
		for _, p := range r.Stress.Problems {
			stressOK = false
			kind, shape := "tie", ""
			if strings.HasPrefix(p, "event-not-delivered") {
				kind, shape = "property", "event-not-delivered"
			}
			if c.NFails("stress: connected clients receive every broadcast exactly once") < 3 {
				c.Fail(kind, "stress: connected clients receive every broadcast exactly once", shape, h.input(), p)
			}
		}
		for _, st := range r.Stress.PostStatus {
			if st != 200 {
				stressOK = false
				c.Fail("tie", "stress: POST /_templ/reload/events", "", h.input(), fmt.Sprintf("status %d", st))
			}
		}
		if r.G1 > r.G0 || r.SSERunning > 0 {
			stressOK = false
			if c.NFails("stress: no goroutine left behind") < 2 {
				c.Fail("property", "stress: no goroutine left behind", "goroutine-leak", h.input(), fmt.Sprintf("goroutines before=%d after=%d, %d inside package sse", r.G0, r.G1, r.SSERunning))
			}
		}
		if nS <= 2 {
			c.Sample(map[string]any{"stress": h.String(), "stayers": r.Stress.Stayers, "events_seen": r.Stress.EventsSeen, "send_max_us": r.SendMaxNs / 1000})
		}
	}
	c.Extra["stress_runs"] = nS
	c.Oblige("correspondence", "stress (proxy.Handler behind httptest.Server, real HTTP clients cancelling and reading slowly): every client connected throughout received every broadcast exactly once, nothing spurious, goroutines back to baseline", stressOK && nS > 0, "")
	judgeE2E(c, e2eProcs, e2eLimit)
	judgeContract(c, contractProc)
	missing := 0
	for _, h := range hs {
		if _, ok := results[h.ID]; !ok {
			missing++
		}
	}
	c.Oblige("correspondence", "every generated history was executed", missing <= len(crashes) && !gaveUp, fmt.Sprintf("%d histories without a result, %d crashes, gave up early: %v", missing, len(crashes), gaveUp))
}
