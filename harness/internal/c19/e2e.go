package c19

// End-to-end family: the live-reload broadcast as the browser experiences it, through the entry point
// `templ generate --watch --proxy` uses (generatecmd.Generate.StartProxy, real TCP listener, real HTTP clients
// reading the event stream), with the AGE of a browser's connection at the moment of a broadcast as a dimension.
// The scenarios run in child processes of their own, concurrently with the handler-level histories, so that
// long-lived connections cost no extra wall time. The browser-side history the child records is judged by the
// extracted specification (coq/spec/Browser.v: owed must be empty once the system has settled) and followed by the
// extracted transport monitor (coq/model/SseTransport.v: the handler behind a server without a write deadline).

import (
	"bytes"
	"encoding/json"
	"fmt"
	"go/ast"
	"go/parser"
	"go/printer"
	"go/token"
	"os"
	"os/exec"
	"path/filepath"
	"sort"
	"strconv"
	"strings"
	"time"

	"verifharness/internal/core"
	"verifharness/internal/drv"
	"verifharness/internal/rng"
)

// browser-side history opcodes (mirrored in child/e2e.go); 0..4 are spec/Browser.v's bev
const (
	bOpen = iota
	bLeave
	bBroadcast
	bRecv
	bCut
	bConnect
	bPing
	bBcastDone
	bSettled
)

type e2eClient struct {
	AtMs    int `json:"at_ms"`
	LeaveMs int `json:"leave_ms"`
	SlowUs  int `json:"slow_us"`
}

type e2eBcast struct {
	AtMs int    `json:"at_ms"`
	Via  string `json:"via"`
	N    int    `json:"n"`
}

type e2eIn struct {
	Clients  []e2eClient `json:"clients"`
	Bcasts   []e2eBcast  `json:"bcasts"`
	SettleMs int         `json:"settle_ms"`
}

type e2eCut struct {
	Client int    `json:"client"`
	AgeMs  int    `json:"age_ms"`
	Err    string `json:"err"`
}

type e2eOut struct {
	Hist      [][4]int `json:"hist"`
	Cuts      []e2eCut `json:"cuts"`
	Problems  []string `json:"problems"`
	Listener  string   `json:"listener"`
	ProxyLog  string   `json:"proxy_log"`
	Pings     []int    `json:"pings"`
	SendMaxNs int64    `json:"send_max_ns"`
	WallMs    int      `json:"wall_ms"`
}

const e2eHow = "internal/c19/child (go build -race -tags verif), kind e2e: generatecmd.NewGenerate(...).StartProxy(ctx) on a free port of 127.0.0.1 in front of a one-page backend; each browser is an HTTP client of its own (own TCP connection, Accept: text/event-stream) reading GET /_templ/reload/events from at_ms until leave_ms (-1: to the end); each broadcast is issued at at_ms, n times back to back, via send = Handler.SendSSE, post = POST /_templ/reload/events, notify = proxy.NotifyProxy; afterwards the harness waits up to settle_ms for every browser still there to read what it is owed. Times are milliseconds from the start of the scenario."

func (s e2eIn) durationMs() int {
	d := 0
	for _, c := range s.Clients {
		d = max(d, c.AtMs, c.LeaveMs)
	}
	for _, b := range s.Bcasts {
		d = max(d, b.AtMs)
	}
	return d
}

func (s e2eIn) String() string {
	var p []string
	for i, c := range s.Clients {
		x := fmt.Sprintf("browser %d connects at %.1fs", i+1, float64(c.AtMs)/1000)
		if c.LeaveMs >= 0 {
			x += fmt.Sprintf(" and leaves at %.1fs", float64(c.LeaveMs)/1000)
		}
		p = append(p, x)
	}
	for _, b := range s.Bcasts {
		p = append(p, fmt.Sprintf("%dx %s at %.1fs", max(1, b.N), b.Via, float64(b.AtMs)/1000))
	}
	return strings.Join(p, "; ")
}

// genE2E draws one scenario that lasts totalMs: one browser per age class (the age its connection has when the
// closing broadcasts are issued) that stays to the end, a few more that come and go by themselves (churn), some of
// them slow readers; broadcasts of the three kinds every few seconds and a burst at the end.
func genE2E(r *rng.R, totalMs int, ageClassesMs [][2]int) e2eIn {
	var s e2eIn
	used := map[int]bool{}
	slot := func(at int) int { // keep connects 200 ms apart: the order the handlers are entered is then the order of the log
		at = max(0, at)
		at -= at % 200
		for used[at] {
			at += 200
		}
		used[at] = true
		return at
	}
	for _, ac := range ageClassesMs {
		lo, hi := ac[0], min(ac[1], totalMs)
		if lo > totalMs {
			continue
		}
		age := lo + r.Intn(hi-lo+1)
		c := e2eClient{AtMs: slot(totalMs - age), LeaveMs: -1}
		if r.Intn(4) == 0 {
			c.SlowUs = 100 + r.Intn(3000)
		}
		s.Clients = append(s.Clients, c)
	}
	for k := 1 + r.Intn(3); k > 0; k-- {
		at := r.Intn(totalMs * 3 / 4)
		c := e2eClient{AtMs: slot(at), LeaveMs: -1}
		if r.Intn(3) != 0 {
			c.LeaveMs = c.AtMs + 300 + r.Intn(totalMs-c.AtMs)
		}
		if r.Intn(4) == 0 {
			c.SlowUs = 100 + r.Intn(3000)
		}
		s.Clients = append(s.Clients, c)
	}
	sort.SliceStable(s.Clients, func(i, j int) bool { return s.Clients[i].AtMs < s.Clients[j].AtMs })
	vias := []string{"send", "send", "post", "notify"}
	nEv := 0
	gap := max(2500, totalMs/40)
	for t := 700 + r.Intn(gap); t < totalMs-500 && nEv < 200; t += gap + r.Intn(gap) {
		b := e2eBcast{AtMs: t + 37, Via: rng.Pick(r, vias), N: 1}
		if r.Intn(4) == 0 {
			b.N = 2 + r.Intn(2)
		}
		nEv += b.N
		s.Bcasts = append(s.Bcasts, b)
	}
	s.Bcasts = append(s.Bcasts, e2eBcast{AtMs: totalMs + 50, Via: "send", N: 1 + r.Intn(3)}, e2eBcast{AtMs: totalMs + 60, Via: rng.Pick(r, []string{"post", "notify"}), N: 1},
		e2eBcast{AtMs: totalMs + 300, Via: "send", N: 1})
	s.SettleMs = 6000
	return s
}

type e2eProc struct {
	h    hist
	cmd  *exec.Cmd
	out  bytes.Buffer
	errb bytes.Buffer
	err  error
	done chan struct{}
}

// startE2E starts one child process per scenario; they run while the parent drives the handler-level histories.
func startE2E(bin string, hs []hist) []*e2eProc {
	var ps []*e2eProc
	for _, h := range hs {
		p := &e2eProc{h: h, done: make(chan struct{})}
		b, _ := json.Marshal(h)
		p.cmd = exec.Command(bin)
		p.cmd.Env = append(os.Environ(), "GORACE=halt_on_error=1 exitcode=66", "GOTRACEBACK=single")
		p.cmd.Stdin = bytes.NewReader(append(b, '\n'))
		p.cmd.Stdout = &p.out
		p.cmd.Stderr = &p.errb
		if err := p.cmd.Start(); err != nil {
			p.err = err
			close(p.done)
		} else {
			go func() { p.err = p.cmd.Wait(); close(p.done) }()
		}
		ps = append(ps, p)
	}
	return ps
}

func (p *e2eProc) wait(limit time.Duration) (*e2eOut, string) {
	select {
	case <-p.done:
	case <-time.After(limit):
		if p.cmd.Process != nil {
			p.cmd.Process.Kill()
		}
		<-p.done
		return nil, "the end-to-end child did not finish within " + limit.String()
	}
	for _, line := range bytes.Split(p.out.Bytes(), []byte("\n")) {
		var r struct {
			Start *int    `json:"start"`
			E2E   *e2eOut `json:"e2e"`
		}
		if json.Unmarshal(line, &r) == nil && r.Start == nil && r.E2E != nil {
			if p.err != nil {
				return r.E2E, fmt.Sprintf("child exit: %v: %s", p.err, lastLines(p.errb.String(), 25))
			}
			return r.E2E, ""
		}
	}
	return nil, fmt.Sprintf("no result from the end-to-end child (%v): %s", p.err, lastLines(p.errb.String(), 25))
}

func ageBucket(ms int) string {
	switch {
	case ms < 5000:
		return "under 5 s (before the second ping)"
	case ms < 10000:
		return "5-10 s"
	case ms < 20000:
		return "10-20 s"
	case ms < 60000:
		return "20-60 s"
	case ms < 120000:
		return "1-2 min"
	default:
		return "over 2 min"
	}
}

func histString(h [][4]int) []string {
	var out []string
	for _, x := range h {
		t := fmt.Sprintf("%7.3fs ", float64(x[0])/1000)
		switch x[1] {
		case bOpen:
			out = append(out, t+fmt.Sprintf("browser %d: stream open (headers and first ping read)", x[2]))
		case bLeave:
			out = append(out, t+fmt.Sprintf("browser %d closes its stream itself", x[2]))
		case bBroadcast:
			out = append(out, t+fmt.Sprintf("broadcast %d begins", x[3]))
		case bRecv:
			out = append(out, t+fmt.Sprintf("browser %d reads event %d", x[2], x[3]))
		case bCut:
			out = append(out, t+fmt.Sprintf("browser %d: STREAM ENDED by the server side (the browser had not closed it)", x[2]))
		case bConnect:
			out = append(out, t+fmt.Sprintf("browser %d sends its request", x[2]))
		case bPing:
			out = append(out, t+fmt.Sprintf("browser %d reads a ping", x[2]))
		case bBcastDone:
			out = append(out, t+fmt.Sprintf("broadcast %d returned", x[3]))
		case bSettled:
			if x[3] != 0 {
				out = append(out, t+"harness stopped waiting: timed out with events still owed")
			} else {
				out = append(out, t+"every browser still there has read everything it was owed")
			}
		}
	}
	return out
}

// specBytes: the history in the specification's vocabulary, three bytes per event.
func specBytes(h [][4]int) []byte {
	var b []byte
	for _, x := range h {
		if x[1] <= bCut && x[2] >= 0 && x[2] < 250 && x[3] >= 0 && x[3] < 250 {
			b = append(b, byte(x[1]), byte(x[2]), byte(x[3]))
		}
	}
	return b
}

// transportObs renders the browser-side history in the observation language of the transport monitor
// (model/SseTransport.v tmonitor): the handler's clients are numbered in the order their streams opened; an event a
// browser was not owed (broadcast between its request and its first ping) and anything a browser reads after it left
// are not observations of the model's client; time advances in ticks of 100 ms.
func transportObs(h [][4]int) ([]byte, map[int]int) {
	id := map[int]int{} // browser -> model client
	left := map[int]bool{}
	owed := map[[2]int]bool{}
	var b []byte
	tick := 0
	put := func(op, a, c int) { b = append(b, byte(op), byte(a), byte(c)) }
	for _, x := range h {
		if t := x[0] / 100; t > tick {
			d := t - tick
			put(9, d/256, d%256)
			tick = t
		}
		c := x[2]
		switch x[1] {
		case bOpen:
			id[c] = len(id) + 1
			put(0, id[c], 0)
			put(1, id[c], 0)
			put(2, id[c], 1)
		case bPing:
			if id[c] != 0 && !left[c] {
				put(1, id[c], 0)
				put(2, id[c], 1)
			}
		case bBroadcast:
			for k := range id {
				if !left[k] {
					owed[[2]int{k, x[3]}] = true
				}
			}
			put(5, x[3], 0)
		case bBcastDone:
			put(6, x[3], 0)
		case bRecv:
			if id[c] != 0 && !left[c] && owed[[2]int{c, x[3]}] {
				put(1, id[c], x[3])
				put(2, id[c], 1)
			}
		case bLeave:
			if id[c] != 0 && !left[c] {
				left[c] = true
				put(3, id[c], 0)
				put(4, id[c], 0)
			}
		case bCut:
			// the only way the model's ServeHTTP ends for a browser that is still there: a write fails
			if id[c] != 0 && !left[c] {
				left[c] = true
				put(1, id[c], 0)
				put(2, id[c], 0)
				put(4, id[c], 0)
			}
		}
	}
	return b, id
}

// scanTransport reads, off the source of the packages the events route is served from, everything that gives a
// connection a write deadline: http.Server literals / assignments with WriteTimeout, http.TimeoutHandler,
// SetWriteDeadline / SetDeadline. (ReadHeaderTimeout, ReadTimeout and IdleTimeout do not end a response in progress.)
func scanTransport() (servers []string, deadlines []string, err error) {
	base := filepath.Join(core.Repo(), "cmd", "templ", "generatecmd")
	for _, dir := range []string{base, filepath.Join(base, "proxy"), filepath.Join(base, "sse")} {
		ents, e := os.ReadDir(dir)
		if e != nil {
			return nil, nil, e
		}
		for _, ent := range ents {
			n := ent.Name()
			if ent.IsDir() || !strings.HasSuffix(n, ".go") || strings.HasSuffix(n, "_test.go") || strings.HasPrefix(n, "verif_") {
				continue
			}
			fset := token.NewFileSet()
			f, e := parser.ParseFile(fset, filepath.Join(dir, n), nil, 0)
			if e != nil {
				return nil, nil, e
			}
			rel, _ := filepath.Rel(core.Repo(), filepath.Join(dir, n))
			src := func(x ast.Node) string {
				var sb strings.Builder
				printer.Fprint(&sb, fset, x)
				return strings.Join(strings.Fields(sb.String()), " ")
			}
			at := func(x ast.Node) string { return fmt.Sprintf("%s:%d", rel, fset.Position(x.Pos()).Line) }
			ast.Inspect(f, func(x ast.Node) bool {
				switch v := x.(type) {
				case *ast.CompositeLit:
					if strings.HasSuffix(src(v.Type), "http.Server") {
						var fields []string
						for _, el := range v.Elts {
							if kv, ok := el.(*ast.KeyValueExpr); ok {
								k := src(kv.Key)
								if strings.HasSuffix(k, "Timeout") {
									fields = append(fields, k+": "+src(kv.Value))
								}
								if k == "WriteTimeout" {
									deadlines = append(deadlines, fmt.Sprintf("%s http.Server{WriteTimeout: %s}", at(kv), src(kv.Value)))
								}
							}
						}
						servers = append(servers, fmt.Sprintf("%s http.Server{%s}", at(v), strings.Join(fields, ", ")))
					}
				case *ast.AssignStmt:
					for i, l := range v.Lhs {
						if se, ok := l.(*ast.SelectorExpr); ok && se.Sel.Name == "WriteTimeout" && i < len(v.Rhs) {
							deadlines = append(deadlines, fmt.Sprintf("%s %s = %s", at(v), src(l), src(v.Rhs[i])))
						}
					}
				case *ast.CallExpr:
					if se, ok := v.Fun.(*ast.SelectorExpr); ok {
						switch se.Sel.Name {
						case "ListenAndServe", "ListenAndServeTLS", "Serve":
							if id, ok := se.X.(*ast.Ident); ok && id.Name == "http" {
								servers = append(servers, fmt.Sprintf("%s http.%s (no timeouts)", at(v), se.Sel.Name))
							}
						case "TimeoutHandler", "SetWriteDeadline", "SetDeadline":
							deadlines = append(deadlines, fmt.Sprintf("%s %s", at(v), src(v.Fun)))
						}
					}
				}
				return true
			})
		}
	}
	return servers, deadlines, nil
}

// judgeE2E: the specification predicate on the browser-side history, then the transport monitor.
func judgeE2E(c *core.Ctx, procs []*e2eProc, limit time.Duration) {
	const famProp = "end to end (StartProxy, real TCP, real HTTP clients): every browser connected to /_templ/reload/events when a reload is broadcast reads that event, however old its connection is"
	const famTie = "end to end: the browser-side history is an execution of the handler behind a transport without a write deadline (extracted tmonitor accepts it)"
	ran, servedAll, followed, clean := 0, true, true, true
	maxAge := 0
	var reqs []drv.Req
	type item struct {
		p   *e2eProc
		out *e2eOut
		ids map[int]int
	}
	var items []item
	for _, p := range procs {
		out, problem := p.wait(limit)
		in := map[string]any{"kind": "e2e", "e2e": p.h.E2E, "scenario": p.h.E2E.String(), "z_how": e2eHow}
		if problem != "" || out == nil {
			clean = false
			kind, shape, fam := "tie", "", "end to end: child process ran to completion"
			if strings.Contains(problem, "panic:") || strings.Contains(problem, "fatal error:") {
				kind, shape, fam = "property", "panic-other", "no goroutine of the handler panics"
			} else if strings.Contains(problem, "DATA RACE") {
				kind, shape, fam = "property", "data-race", "no data race on the registry"
			}
			c.Fail(kind, fam, shape, in, problem)
			if out == nil {
				continue
			}
		}
		if len(out.Hist) == 0 {
			clean = false
			c.Fail("tie", "end to end: the proxy comes up through StartProxy", "", in, strings.Join(out.Problems, "; ")+" "+out.ProxyLog)
			continue
		}
		ob, ids := transportObs(out.Hist)
		reqs = append(reqs, drv.Req{Fn: "browser", Args: [][]byte{specBytes(out.Hist)}}, drv.Req{Fn: "tmonitor", Args: [][]byte{nil, ob}})
		items = append(items, item{p, out, ids})
	}
	res := c.Model(reqs)
	if len(res) != len(reqs) {
		c.Oblige("correspondence", "end to end: extracted specification and monitor answered", false, fmt.Sprintf("%d replies for %d requests", len(res), len(reqs)))
		return
	}
	for i, it := range items {
		out, sc := it.out, it.p.h.E2E
		spec, mon := res[2*i], res[2*i+1]
		ran++
		in := map[string]any{"kind": "e2e", "e2e": sc, "scenario": sc.String(), "z_how": e2eHow, "listener": out.Listener,
			"observed": histString(out.Hist)}
		if len(out.Cuts) > 0 {
			in["streams_ended_by_server"] = out.Cuts
		}
		if out.ProxyLog != "" {
			in["proxy_log"] = out.ProxyLog
		}
		// what happened when
		openAt, bcastAt, leftAt, cutAt := map[int]int{}, map[int]int{}, map[int]int{}, map[int]int{}
		for _, x := range out.Hist {
			switch x[1] {
			case bOpen:
				openAt[x[2]] = x[0]
			case bLeave:
				leftAt[x[2]] = x[0]
			case bCut:
				cutAt[x[2]] = x[0]
			case bBroadcast:
				bcastAt[x[3]] = x[0]
				for b, t := range openAt {
					if _, gone := leftAt[b]; !gone {
						age := x[0] - t
						maxAge = max(maxAge, age)
						c.Hist("e2e: age of a browser's connection at a broadcast it is owed: " + ageBucket(age))
					}
				}
			}
		}
		c.Hist("family: end to end through StartProxy")
		c.Hist(fmt.Sprintf("e2e: browsers %d, of which leaving by themselves %d", len(sc.Clients), len(leftAt)))
		for _, b := range sc.Bcasts {
			c.Hist("e2e: broadcast via " + b.Via)
		}
		c.Count("e2e " + sc.String())
		// ---- (2) the specification on the implementation's own history ----
		if len(spec) < 5 {
			servedAll = false
			c.Fail("tie", famProp, "", in, fmt.Sprintf("specification gave no verdict: %q", spec))
			continue
		}
		if string(spec[0]) != "1" {
			servedAll = false
			owed := spec[2]
			var lines []string
			shape := "event-not-delivered"
			for j := 0; j+1 < len(owed) && len(lines) < 8; j += 2 {
				b, e := int(owed[j]), int(owed[j+1])
				l := fmt.Sprintf("browser %d (stream open since %.1fs, never closed it) was owed reload %d, broadcast at %.1fs when its connection was %.1f s old, and never read it",
					b, float64(openAt[b])/1000, e, float64(bcastAt[e])/1000, float64(bcastAt[e]-openAt[b])/1000)
				if t, ok := cutAt[b]; ok {
					shape = "stream-cut-by-server"
					l += fmt.Sprintf("; its stream was ended by the server side at %.1fs, %.1f s after it opened", float64(t)/1000, float64(t-openAt[b])/1000)
					for _, cu := range out.Cuts {
						if cu.Client == b {
							l += " (" + cu.Err + ")"
						}
					}
				}
				lines = append(lines, l)
			}
			if c.NFails(famProp) < 3 {
				c.Fail("property", famProp, shape, in, fmt.Sprintf("spec/Browser.v: owed is not empty after the history settled (%d pairs): %s", len(owed)/2, strings.Join(lines, " | ")))
			}
		} else if len(spec[4]) > 0 {
			// everything owed was read, yet the server side ended a healthy browser's stream
			servedAll = false
			if c.NFails(famProp) < 3 {
				c.Fail("property", famProp, "stream-cut-by-server", in, fmt.Sprintf("the server side ended the stream of browser(s) %v that had not closed it: %+v", spec[4], out.Cuts))
			}
		}
		for _, p := range out.Problems {
			clean = false
			kind, shape := "tie", ""
			if c.NFails("end to end: nothing spurious, nothing twice, requests answered") < 3 {
				c.Fail(kind, "end to end: nothing spurious, nothing twice, requests answered", shape, in, p)
			}
		}
		// ---- (1) the model follows the history ----
		if len(mon) < 2 || string(mon[0]) != "1" {
			followed = false
			idx := -1
			if len(mon) >= 2 {
				idx, _ = strconv.Atoi(string(mon[1]))
			}
			if c.NFails(famTie) < 3 {
				c.Fail("tie", famTie, "", in, fmt.Sprintf("the transport model (no write deadline: a write to a browser that is still there does not fail) cannot follow observation #%d of the translated history (model client ids by order of opening: %v)", idx, it.ids))
			}
		} else if len(mon) >= 4 && string(spec[0]) == "1" && string(mon[3]) != "1" {
			followed = false
			if c.NFails(famTie) < 3 {
				c.Fail("tie", famTie, "", in, "the specification is satisfied but the model state at the end of the history is not at rest with every browser served")
			}
		}
		if i == 0 {
			c.Sample(map[string]any{"e2e": sc.String(), "listener": out.Listener, "pings_read": out.Pings, "events": len(out.Hist), "send_max_us": out.SendMaxNs / 1000, "wall_ms": out.WallMs})
		}
	}
	c.Extra["e2e_scenarios"] = ran
	c.Extra["e2e_max_connection_age_ms_at_a_broadcast"] = maxAge
	c.Oblige("correspondence", fmt.Sprintf("end to end through generatecmd.StartProxy over TCP (%d scenario(s), connections up to %.1f s old at a broadcast): the extracted specification (spec/Browser.v) finds nothing owed to any browser once the history settled, and no healthy browser's stream was ended by the server side", ran, float64(maxAge)/1000), servedAll && ran > 0, "")
	c.Oblige("correspondence", "end to end: every browser-side history is accepted by the extracted transport monitor (model/SseTransport.v, no write deadline) and ends at rest with every browser served (C19_transport_accepted_served applies)", followed && ran > 0, "")
	c.Oblige("correspondence", "end to end: child processes ran to completion; nothing spurious, nothing read twice, POSTs answered 200", clean && ran == len(procs), "")
}

// ---- contract of the transport model against the real net/http (child kind "contract") ----

type contractEvent struct {
	K     int  `json:"k"`
	AgeMs int  `json:"age_ms"`
	Read  bool `json:"read"`
}

type contractRun struct {
	DeadlineMs int             `json:"deadline_ms"`
	Events     []contractEvent `json:"events"`
	CutAgeMs   int             `json:"cut_age_ms"`
	Err        string          `json:"err"`
}

// judgeContract: what model/SseTransport.v says net/http does with a write deadline, observed on the real library with
// the real sse.Handler: without a deadline every event is read and the stream stays open; with a deadline d every event
// broadcast before the connection is d old is read, none broadcast after it is, and the server side ends the stream.
func judgeContract(c *core.Ctx, p *e2eProc) {
	const slack = 150
	select {
	case <-p.done:
	case <-time.After(60 * time.Second):
		if p.cmd.Process != nil {
			p.cmd.Process.Kill()
		}
		<-p.done
	}
	var runs []contractRun
	for _, line := range bytes.Split(p.out.Bytes(), []byte("\n")) {
		var r struct {
			Contract []contractRun `json:"contract"`
		}
		if json.Unmarshal(line, &r) == nil && len(r.Contract) > 0 {
			runs = r.Contract
		}
	}
	ok := len(runs) == 2
	var why []string
	for _, r := range runs {
		if r.Err != "" || len(r.Events) == 0 {
			ok = false
			why = append(why, fmt.Sprintf("deadline %d ms: %s", r.DeadlineMs, r.Err))
			continue
		}
		for _, e := range r.Events {
			switch {
			case r.DeadlineMs == 0 && !e.Read:
				ok = false
				why = append(why, fmt.Sprintf("no deadline: event broadcast at age %d ms not read", e.AgeMs))
			case r.DeadlineMs > 0 && e.AgeMs < r.DeadlineMs-slack && !e.Read:
				ok = false
				why = append(why, fmt.Sprintf("deadline %d ms: event broadcast at age %d ms not read", r.DeadlineMs, e.AgeMs))
			case r.DeadlineMs > 0 && e.AgeMs > r.DeadlineMs+slack && e.Read:
				ok = false
				why = append(why, fmt.Sprintf("deadline %d ms: event broadcast at age %d ms was read", r.DeadlineMs, e.AgeMs))
			}
		}
		if (r.DeadlineMs == 0) != (r.CutAgeMs < 0) {
			ok = false
			why = append(why, fmt.Sprintf("deadline %d ms: stream cut at age %d ms", r.DeadlineMs, r.CutAgeMs))
		}
	}
	c.Extra["transport_contract_runs"] = runs
	c.Oblige("contract", "net/http behaves as model/SseTransport.v says (real sse.Handler behind http.Server over TCP, an event every 200 ms): without WriteTimeout every event is read and the stream stays open; with WriteTimeout d every event broadcast before the connection is d old is read, none after, and the server side ends the stream",
		ok, strings.TrimSpace(strings.Join(why, "; ")+" "+lastLines(p.errb.String(), 5)))
}
