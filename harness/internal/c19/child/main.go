// Command child is the race-instrumented subprocess of the C19 check. It drives the real
// sse.Handler (and, in stress mode, proxy.Handler behind an httptest.Server) through the histories
// it reads from stdin, one JSON object per line, and prints one JSON result per history.
// A panic in any goroutine of the handler kills this process: its exit status and stderr are the
// observable the parent reads.
package main

import (
	"bufio"
	"context"
	"encoding/json"
	"errors"
	"fmt"
	"io"
	"log/slog"
	"net/http"
	"net/http/httptest"
	"net/url"
	"os"
	"runtime"
	"strconv"
	"strings"
	"sync"
	"sync/atomic"
	"time"

	"github.com/a-h/templ/cmd/templ/generatecmd/proxy"
	"github.com/a-h/templ/cmd/templ/generatecmd/sse"
)

// observation opcodes (decoded by coq/extract/X19.v dec_obs)
const (
	oSub = iota
	oWrite
	oRelease
	oCancel
	oExited
	oSend
	oSendEnd
	oRegCount
	oSettled // the harness waited for the handler to come to rest (b = 1: the wait timed out)
)

// history opcodes (produced by the parent)
const (
	hSubFree      = iota // subscribe, let the first ping through
	hSubBusy             // subscribe, keep the client blocked in the write of its first ping
	hSubCancelled        // subscribe with an already cancelled context
	hSend                // one broadcast
	hBurst               // a = number of back-to-back broadcasts
	hConcurrent          // a = number of concurrent broadcasts
	hReleaseOK           // a = client: let the blocked Write return
	hReleaseErr          // a = client: let the blocked Write fail
	hCancel              // a = client: cancel the request context
	hRegCount            // read len(requests)
	hStall               // a = milliseconds the harness does nothing (stalled clients stay stalled)
	hSubHealthy          // subscribe a healthy reader: every write of this client returns at once
	hStallClient         // a = client: its reader stops reading - the next write of this client blocks
	hResume              // a = client: its reader reads again - the blocked write returns and so do the later ones
)

const settle = 10 * time.Second
const sendBound = 2 * time.Second

// trouble counts waits that timed out and Sends that blocked, over the whole process. Once something has
// timed out the run is failing anyway: later waits are short, and the process gives up after a few.
var trouble int32

func settleDur() time.Duration {
	if atomic.LoadInt32(&trouble) > 0 {
		return 300 * time.Millisecond
	}
	return settle
}

var errBroken = errors.New("write: broken pipe")

type cstate struct {
	id        int
	cancel    context.CancelFunc
	rel       chan bool
	blocked   bool
	auto      bool // healthy reader: writes return at once
	exited    bool
	cancelled bool
	broken    bool
	firstPing bool
	seen      map[int]bool
	expected  map[int]bool
}

type H struct {
	mu      sync.Mutex
	cond    *sync.Cond
	obs     []int
	notes   []string
	clients []*cstate
	handler *sse.Handler
	nextEv  int
	auto    bool
	abort   bool
	sendMax time.Duration
}

func (h *H) logL(op, a, b int) { h.obs = append(h.obs, op, a, b) }
func (h *H) noteL(f string, a ...any) {
	if len(h.notes) < 20 {
		h.notes = append(h.notes, fmt.Sprintf(f, a...))
	}
}

type gw struct {
	h   *H
	cs  *cstate
	hdr http.Header
}

func (w *gw) Header() http.Header { return w.hdr }
func (w *gw) WriteHeader(int)     {}
func (w *gw) Flush()              {}

func parsePayload(p []byte) (int, bool) {
	s := string(p)
	const pre = "event: message\ndata: "
	if !strings.HasPrefix(s, pre) || !strings.HasSuffix(s, "\n\n") {
		return 0, false
	}
	d := s[len(pre) : len(s)-2]
	if d == "ping" {
		return 0, true
	}
	n, err := strconv.Atoi(d)
	if err != nil || n <= 0 || n > 250 || strconv.Itoa(n) != d {
		return 0, false
	}
	return n, true
}

func (w *gw) Write(p []byte) (int, error) {
	h, cs := w.h, w.cs
	h.mu.Lock()
	if cs.broken {
		h.mu.Unlock()
		return 0, errBroken
	}
	ev, ok := parsePayload(p)
	if !ok {
		h.noteL("bad-write: client %d wrote %q", cs.id, string(p))
		h.mu.Unlock()
		return len(p), nil
	}
	h.logL(oWrite, cs.id, ev)
	if ev > 0 {
		cs.seen[ev] = true
	}
	first := !cs.firstPing
	if ev == 0 {
		cs.firstPing = true
	}
	if h.auto || cs.auto || (ev == 0 && !first) {
		h.logL(oRelease, cs.id, 1)
		h.cond.Broadcast()
		h.mu.Unlock()
		return len(p), nil
	}
	cs.blocked = true
	h.cond.Broadcast()
	h.mu.Unlock()
	if r := <-cs.rel; !r {
		return 0, errBroken
	}
	return len(p), nil
}

// wait blocks until pred holds (evaluated under h.mu) or the timeout passes.
func (h *H) wait(timeout time.Duration, pred func() bool) bool {
	deadline := time.Now().Add(timeout)
	t := time.AfterFunc(timeout+10*time.Millisecond, func() {
		h.mu.Lock()
		h.cond.Broadcast()
		h.mu.Unlock()
	})
	defer t.Stop()
	h.mu.Lock()
	defer h.mu.Unlock()
	for !pred() {
		if time.Now().After(deadline) {
			return false
		}
		h.cond.Wait()
	}
	return true
}

func (cs *cstate) owed() int {
	n := 0
	for e := range cs.expected {
		if !cs.seen[e] {
			n++
		}
	}
	return n
}

// a client the harness still has to wait for: it is about to do something observable
func (cs *cstate) unsettled() bool {
	return !cs.blocked && !cs.exited && (cs.cancelled || cs.broken || cs.owed() > 0)
}

func (h *H) stableL() bool {
	for _, cs := range h.clients {
		if cs.unsettled() {
			return false
		}
	}
	return true
}

// settle gives the handler time to come to rest - every client that is not stalled in a write has written
// every event it is owed, every cancelled or broken client has returned - and records that it did so (oSettled):
// the parent judges the model state at these points (coq/model/Sse.v: audit, stableb). Stalled writers stay stalled.
func (h *H) settle(what string) {
	timedOut := 0
	if !h.wait(settleDur(), h.stableL) {
		timedOut = 1
		atomic.AddInt32(&trouble, 1)
		h.mu.Lock()
		for _, cs := range h.clients {
			if cs.unsettled() {
				h.noteL("unsettled after %s: client %d (cancelled=%v broken=%v owed=%d)", what, cs.id, cs.cancelled, cs.broken, cs.owed())
			}
		}
		h.mu.Unlock()
	}
	h.mu.Lock()
	if !h.abort {
		h.logL(oSettled, 0, timedOut)
	}
	h.mu.Unlock()
}

func (h *H) subscribe(mode int) {
	ctx, cancel := context.WithCancel(context.Background())
	h.mu.Lock()
	cs := &cstate{id: len(h.clients) + 1, cancel: cancel, rel: make(chan bool, 1), seen: map[int]bool{}, expected: map[int]bool{}}
	h.clients = append(h.clients, cs)
	h.logL(oSub, cs.id, 0)
	if mode == hSubCancelled {
		cs.cancelled = true
		h.logL(oCancel, cs.id, 0)
	}
	h.mu.Unlock()
	if mode == hSubCancelled {
		cancel()
	}
	w := &gw{h: h, cs: cs, hdr: http.Header{}}
	req := httptest.NewRequest(http.MethodGet, "/_templ/reload/events", nil).WithContext(ctx)
	go func() {
		h.handler.ServeHTTP(w, req)
		h.mu.Lock()
		cs.exited = true
		cs.blocked = false
		h.logL(oExited, cs.id, 0)
		h.cond.Broadcast()
		h.mu.Unlock()
	}()
	if !h.wait(settleDur(), func() bool { return cs.blocked || cs.exited }) {
		atomic.AddInt32(&trouble, 1)
		h.mu.Lock()
		h.noteL("no-first-ping: client %d neither wrote its first ping nor returned", cs.id)
		h.mu.Unlock()
		return
	}
	if mode == hSubHealthy {
		h.mu.Lock()
		cs.auto = true
		h.mu.Unlock()
	}
	if mode == hSubFree || mode == hSubHealthy {
		h.release(cs.id, true)
	}
}

// setReader makes client c's reader healthy (writes return at once; a blocked write is let through) or stalled
// (the next write blocks until released).
func (h *H) setReader(c int, healthy bool) {
	h.mu.Lock()
	if c < 1 || c > len(h.clients) {
		h.mu.Unlock()
		return
	}
	h.clients[c-1].auto = healthy
	h.mu.Unlock()
	if healthy {
		h.release(c, true)
	}
}

func (h *H) release(c int, ok bool) {
	h.mu.Lock()
	if c < 1 || c > len(h.clients) || !h.clients[c-1].blocked {
		h.mu.Unlock()
		return
	}
	cs := h.clients[c-1]
	cs.blocked = false
	b := 1
	if !ok {
		cs.broken = true
		b = 0
	}
	h.logL(oRelease, c, b)
	h.mu.Unlock()
	cs.rel <- ok
}

func (h *H) cancelClient(c int) {
	h.mu.Lock()
	if c < 1 || c > len(h.clients) || h.clients[c-1].cancelled {
		h.mu.Unlock()
		return
	}
	cs := h.clients[c-1]
	cs.cancelled = true
	h.logL(oCancel, c, 0)
	h.mu.Unlock()
	cs.cancel()
}

// send issues n broadcasts, sequentially (back to back) or concurrently.
func (h *H) send(n int, concurrent bool) {
	evs := make([]int, n)
	h.mu.Lock()
	for i := range evs {
		h.nextEv++
		evs[i] = h.nextEv
	}
	h.mu.Unlock()
	one := func(e int) {
		done := make(chan struct{})
		t0 := time.Now()
		go func() {
			h.handler.Send("message", strconv.Itoa(e))
			close(done)
		}()
		select {
		case <-done:
			d := time.Since(t0)
			h.mu.Lock()
			if d > h.sendMax {
				h.sendMax = d
			}
			h.logL(oSendEnd, e, 0)
			h.mu.Unlock()
		case <-time.After(sendBound):
			atomic.AddInt32(&trouble, 1)
			h.mu.Lock()
			h.noteL("send-blocked: Send of event %d did not return within %v", e, sendBound)
			h.abort = true
			h.auto = true
			var rel []*cstate
			for _, cs := range h.clients {
				if cs.blocked {
					cs.blocked = false
					h.logL(oRelease, cs.id, 1)
					rel = append(rel, cs)
				}
			}
			h.mu.Unlock()
			for _, cs := range rel {
				cs.rel <- true
			}
			select {
			case <-done:
			case <-time.After(settle):
				fmt.Fprintln(os.Stderr, "C19CHILD: Send never returned, even after every client was released")
				os.Exit(70)
			}
		}
	}
	logSend := func(e int) {
		h.mu.Lock()
		h.logL(oSend, e, 0)
		for _, cs := range h.clients {
			if !cs.exited {
				cs.expected[e] = true
			}
		}
		h.mu.Unlock()
	}
	if concurrent {
		for _, e := range evs {
			logSend(e)
		}
		var wg sync.WaitGroup
		for _, e := range evs {
			wg.Add(1)
			go func(e int) { defer wg.Done(); one(e) }(e)
		}
		wg.Wait()
	} else {
		for _, e := range evs {
			logSend(e)
			one(e)
		}
	}
}

func (h *H) regCount() {
	h.mu.Lock()
	ab := h.abort
	h.mu.Unlock()
	if ab {
		return
	}
	n := h.handler.VerifRegistered()
	h.mu.Lock()
	h.logL(oRegCount, n, 0)
	h.mu.Unlock()
}

type histIn struct {
	ID      int     `json:"id"`
	Kind    string  `json:"kind"` // forced | stress | e2e
	Ops     [][]int `json:"ops,omitempty"`
	Clients int     `json:"clients,omitempty"`
	Rounds  int     `json:"rounds,omitempty"`
	Seed    uint64  `json:"seed,omitempty"`
	E2E     *e2eIn  `json:"e2e,omitempty"`
}

type histOut struct {
	ID         int           `json:"id"`
	Obs        []int         `json:"obs,omitempty"`
	Q          int           `json:"q"` // number of observations before the final cancel-all (quiescence point)
	Notes      []string      `json:"notes,omitempty"`
	SendMaxNs  int64         `json:"send_max_ns"`
	G0         int           `json:"g0"`
	G1         int           `json:"g1"`
	SSERunning int           `json:"sse_running"` // goroutines still inside package sse at the end
	Stress     *stressOut    `json:"stress,omitempty"`
	E2E        *e2eOut       `json:"e2e,omitempty"`
	Contract   []contractRun `json:"contract,omitempty"`
}

func sseGoroutines() int {
	buf := make([]byte, 1<<20)
	n := runtime.Stack(buf, true)
	cnt := 0
	for _, g := range strings.Split(string(buf[:n]), "\n\n") {
		if strings.Contains(g, "generatecmd/sse.") {
			cnt++
		}
	}
	return cnt
}

// waitGoroutines polls until the goroutine count is back to the baseline and nothing runs inside package sse.
func waitGoroutines(base int) (int, int) {
	limit := 5 * time.Second
	if atomic.LoadInt32(&trouble) > 0 {
		limit = 300 * time.Millisecond
	}
	deadline := time.Now().Add(limit)
	for {
		g := runtime.NumGoroutine()
		if g <= base {
			if s := sseGoroutines(); s == 0 {
				return g, 0
			}
		}
		if time.Now().After(deadline) {
			atomic.AddInt32(&trouble, 3) // leaked goroutines stay in this process: stop after this history
			return g, sseGoroutines()
		}
		time.Sleep(200 * time.Microsecond)
	}
}

func runForced(in histIn) histOut {
	g0 := runtime.NumGoroutine()
	h := &H{handler: sse.New()}
	h.cond = sync.NewCond(&h.mu)
	for _, op := range in.Ops {
		h.mu.Lock()
		ab := h.abort
		h.mu.Unlock()
		if ab {
			break
		}
		a := 0
		if len(op) > 1 {
			a = op[1]
		}
		switch op[0] {
		case hSubFree, hSubBusy, hSubCancelled, hSubHealthy:
			h.subscribe(op[0])
		case hStallClient:
			h.setReader(a, false)
		case hResume:
			h.setReader(a, true)
		case hSend:
			h.send(1, false)
		case hBurst:
			h.send(a, false)
		case hConcurrent:
			h.send(a, true)
		case hReleaseOK:
			h.release(a, true)
		case hReleaseErr:
			h.release(a, false)
		case hCancel:
			h.cancelClient(a)
		case hStall:
			time.Sleep(time.Duration(a) * time.Millisecond)
			continue
		case hRegCount:
			h.settle("op")
			h.regCount()
			continue
		}
		h.settle(fmt.Sprintf("op %v", op))
	}
	// end of history: let every writer through, wait until every remaining client has everything
	h.mu.Lock()
	h.auto = true
	var rel []*cstate
	for _, cs := range h.clients {
		if cs.blocked {
			cs.blocked = false
			h.logL(oRelease, cs.id, 1)
			rel = append(rel, cs)
		}
	}
	h.mu.Unlock()
	for _, cs := range rel {
		cs.rel <- true
	}
	h.settle("end")
	h.regCount()
	h.mu.Lock()
	q := len(h.obs) / 3
	n := len(h.clients)
	h.mu.Unlock()
	for c := 1; c <= n; c++ {
		h.cancelClient(c)
	}
	h.settle("cancel-all")
	h.regCount()
	g1, running := waitGoroutines(g0)
	h.mu.Lock()
	defer h.mu.Unlock()
	return histOut{ID: in.ID, Obs: h.obs, Q: q, Notes: h.notes, SendMaxNs: int64(h.sendMax), G0: g0, G1: g1, SSERunning: running}
}

// ---- stress: real HTTP clients against proxy.Handler behind an httptest.Server ----

type stressOut struct {
	Clients    int      `json:"clients"`
	Stayers    int      `json:"stayers"`
	Rounds     int      `json:"rounds"`
	Problems   []string `json:"problems,omitempty"`
	EventsSeen int      `json:"events_seen"`
	PostStatus []int    `json:"post_status,omitempty"`
}

type sm struct{ s uint64 }

func (r *sm) next() uint64 {
	r.s += 0x9E3779B97F4A7C15
	z := r.s
	z = (z ^ (z >> 30)) * 0xBF58476D1CE4E5B9
	z = (z ^ (z >> 27)) * 0x94D049BB133111EB
	return z ^ (z >> 31)
}
func (r *sm) intn(n int) int { return int(r.next() % uint64(n)) }

func runStress(in histIn) histOut {
	g0 := runtime.NumGoroutine()
	rnd := &sm{s: in.Seed}
	target, _ := url.Parse("http://127.0.0.1:1")
	p := proxy.New(slog.New(slog.NewTextHandler(io.Discard, nil)), "127.0.0.1", 0, target)
	srv := httptest.NewServer(p)
	tr := &http.Transport{MaxIdleConnsPerHost: 4}
	hc := &http.Client{Transport: tr}
	out := &stressOut{Clients: in.Clients, Rounds: in.Rounds}
	var mu sync.Mutex
	problem := func(f string, a ...any) {
		mu.Lock()
		if len(out.Problems) < 10 {
			out.Problems = append(out.Problems, fmt.Sprintf(f, a...))
		}
		mu.Unlock()
	}
	type cl struct {
		id      int
		stayer  bool
		slowUs  int
		quitAt  int // cancel after this many events (non-stayers); -1 = cancel by timer
		cancel  context.CancelFunc
		ready   chan struct{}
		done    chan struct{}
		got     map[string]int
		reloads int
	}
	cls := make([]*cl, in.Clients)
	for i := range cls {
		c := &cl{id: i + 1, ready: make(chan struct{}), done: make(chan struct{}), got: map[string]int{}}
		switch rnd.intn(4) {
		case 0, 1:
			c.stayer = true
			if rnd.intn(2) == 0 {
				c.slowUs = rnd.intn(300)
			}
		case 2:
			c.quitAt = rnd.intn(in.Rounds + 1)
		default:
			c.quitAt = -1
		}
		if c.stayer {
			out.Stayers++
		}
		cls[i] = c
		ctx, cancel := context.WithCancel(context.Background())
		c.cancel = cancel
		delay := time.Duration(rnd.intn(3000)) * time.Microsecond
		go func(c *cl) {
			defer close(c.done)
			req, _ := http.NewRequestWithContext(ctx, http.MethodGet, srv.URL+"/_templ/reload/events", nil)
			resp, err := hc.Do(req)
			if err != nil {
				close(c.ready)
				if c.stayer {
					problem("stayer %d could not connect: %v", c.id, err)
				}
				return
			}
			defer resp.Body.Close()
			if ct := resp.Header.Get("Content-Type"); ct != "text/event-stream" {
				problem("client %d: Content-Type %q", c.id, ct)
			}
			rd := bufio.NewReader(resp.Body)
			readyClosed := false
			n := 0
			if c.quitAt == -1 {
				time.AfterFunc(delay, cancel)
			}
			for {
				line, err := rd.ReadString('\n')
				if err != nil {
					if !readyClosed {
						close(c.ready)
					}
					return
				}
				line = strings.TrimRight(line, "\n")
				if !strings.HasPrefix(line, "data: ") {
					continue
				}
				d := line[len("data: "):]
				if d == "ping" {
					if !readyClosed {
						readyClosed = true
						close(c.ready)
					}
					continue
				}
				mu.Lock()
				if d == "reload" {
					c.reloads++
				} else {
					c.got[d]++
				}
				out.EventsSeen++
				mu.Unlock()
				n++
				if c.slowUs > 0 {
					time.Sleep(time.Duration(c.slowUs) * time.Microsecond)
				}
				if !c.stayer && c.quitAt >= 0 && n >= c.quitAt {
					cancel()
				}
			}
		}(c)
	}
	// stayers must be registered (first ping read) before the first broadcast
	for _, c := range cls {
		if c.stayer {
			select {
			case <-c.ready:
			case <-time.After(settle):
				problem("stayer %d saw no first ping", c.id)
			}
		}
	}
	var sendMax time.Duration
	posts := 0
	var wg sync.WaitGroup
	for k := 1; k <= in.Rounds; k++ {
		k := k
		bcast := func() {
			t0 := time.Now()
			p.SendSSE("message", strconv.Itoa(k))
			d := time.Since(t0)
			mu.Lock()
			if d > sendMax {
				sendMax = d
			}
			mu.Unlock()
		}
		if rnd.intn(3) == 0 {
			wg.Add(1)
			go func() { defer wg.Done(); bcast() }()
		} else {
			bcast()
		}
		if rnd.intn(3) == 0 {
			posts++
			resp, err := hc.Post(srv.URL+"/_templ/reload/events", "text/plain", nil)
			if err != nil {
				problem("POST failed: %v", err)
			} else {
				out.PostStatus = append(out.PostStatus, resp.StatusCode)
				io.Copy(io.Discard, resp.Body)
				resp.Body.Close()
			}
		}
		if rnd.intn(4) == 0 {
			time.Sleep(time.Duration(rnd.intn(400)) * time.Microsecond)
		}
	}
	wg.Wait()
	// every stayer receives every broadcast exactly once
	deadline := time.Now().Add(settle)
	for {
		mu.Lock()
		missing := 0
		for _, c := range cls {
			if c.stayer {
				for k := 1; k <= in.Rounds; k++ {
					if c.got[strconv.Itoa(k)] == 0 {
						missing++
					}
				}
				if c.reloads < posts {
					missing++
				}
			}
		}
		mu.Unlock()
		if missing == 0 || time.Now().After(deadline) {
			break
		}
		time.Sleep(time.Millisecond)
	}
	mu.Lock()
	for _, c := range cls {
		for k := 1; k <= in.Rounds; k++ {
			n := c.got[strconv.Itoa(k)]
			if c.stayer && n == 0 {
				if len(out.Problems) < 10 {
					out.Problems = append(out.Problems, fmt.Sprintf("event-not-delivered: connected client %d never received broadcast %d", c.id, k))
				}
			}
			if n > 1 {
				if len(out.Problems) < 10 {
					out.Problems = append(out.Problems, fmt.Sprintf("duplicate: client %d received broadcast %d %d times", c.id, k, n))
				}
			}
		}
		for d := range c.got {
			if n, err := strconv.Atoi(d); err != nil || n < 1 || n > in.Rounds {
				if len(out.Problems) < 10 {
					out.Problems = append(out.Problems, fmt.Sprintf("spurious: client %d received %q", c.id, d))
				}
			}
		}
		if c.stayer && c.reloads != posts {
			if len(out.Problems) < 10 {
				out.Problems = append(out.Problems, fmt.Sprintf("event-not-delivered: connected client %d received %d of %d POSTed reloads", c.id, c.reloads, posts))
			}
		}
	}
	mu.Unlock()
	for _, c := range cls {
		c.cancel()
	}
	for _, c := range cls {
		select {
		case <-c.done:
		case <-time.After(settle):
			problem("client %d reader did not end", c.id)
		}
	}
	srv.CloseClientConnections()
	srv.Close()
	tr.CloseIdleConnections()
	g1, running := waitGoroutines(g0)
	return histOut{ID: in.ID, SendMaxNs: int64(sendMax), G0: g0, G1: g1, SSERunning: running, Stress: out}
}

func main() {
	rd := bufio.NewReaderSize(os.Stdin, 1<<20)
	wr := bufio.NewWriterSize(os.Stdout, 1<<16)
	enc := json.NewEncoder(wr)
	for {
		line, err := rd.ReadBytes('\n')
		if len(line) > 1 {
			var in histIn
			if jerr := json.Unmarshal(line, &in); jerr != nil {
				fmt.Fprintln(os.Stderr, "C19CHILD: bad input:", jerr)
				os.Exit(64)
			}
			fmt.Fprintf(wr, "{\"start\":%d}\n", in.ID)
			wr.Flush()
			var out histOut
			if in.Kind == "stress" {
				out = runStress(in)
			} else if in.Kind == "contract" {
				out = runContract(in)
			} else if in.Kind == "e2e" {
				if in.E2E == nil {
					in.E2E = &e2eIn{}
				}
				out = runE2E(in)
			} else {
				out = runForced(in)
			}
			enc.Encode(out)
			wr.Flush()
			if atomic.LoadInt32(&trouble) >= 3 {
				fmt.Fprintln(os.Stderr, "C19CHILD: giving up: the handler blocked or failed to settle several times")
				os.Exit(71)
			}
		}
		if err != nil {
			break
		}
	}
}
