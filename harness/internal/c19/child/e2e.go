package main

// End-to-end family of the C19 check: the live-reload broadcast as the BROWSER experiences it.
// The proxy is started through the entry point `templ generate --watch --proxy` uses
// (generatecmd.Generate.StartProxy: whatever listener / http.Server that function sets up, on a real TCP
// port), browsers are real HTTP clients reading GET /_templ/reload/events the way EventSource does, and
// reloads are broadcast the three ways the tool does it (Handler.SendSSE from the watch loop, POST to the
// events route, proxy.NotifyProxy).  The dimension the handler-level histories cannot have is TIME: how old
// a browser's connection is when a reload is broadcast.  Everything that happens is logged under one mutex
// in real-time order; the parent judges the log with the extracted specification (coq/spec/Browser.v).

import (
	"bufio"
	"bytes"
	"context"
	"fmt"
	"io"
	"log/slog"
	"net"
	"net/http"
	"net/http/httptest"
	"sort"
	"strconv"
	"strings"
	"sync"
	"time"

	"github.com/a-h/templ/cmd/templ/generatecmd"
	"github.com/a-h/templ/cmd/templ/generatecmd/proxy"
	"github.com/a-h/templ/cmd/templ/generatecmd/sse"
)

// browser-side history opcodes: 0..4 are the specification's (spec/Browser.v bev), the rest is for the reader
const (
	bOpen = iota
	bLeave
	bBroadcast
	bRecv
	bCut
	bConnect   // the browser starts its request
	bPing      // a ping read (after the first)
	bBcastDone // the broadcast call returned
	bSettled   // the harness stopped waiting (e = 1: it timed out with events still owed)
)

type e2eClient struct {
	AtMs    int `json:"at_ms"`    // when the browser connects
	LeaveMs int `json:"leave_ms"` // when it closes the stream itself; -1 = stays to the end
	SlowUs  int `json:"slow_us"`  // pause after each event read
}

type e2eBcast struct {
	AtMs int    `json:"at_ms"`
	Via  string `json:"via"` // send (Handler.SendSSE) | post (POST /_templ/reload/events) | notify (proxy.NotifyProxy)
	N    int    `json:"n"`   // back-to-back broadcasts
}

type e2eIn struct {
	Clients  []e2eClient `json:"clients"`
	Bcasts   []e2eBcast  `json:"bcasts"`
	SettleMs int         `json:"settle_ms"`
}

type e2eCut struct {
	Client int    `json:"client"`
	AgeMs  int    `json:"age_ms"`
	Err    string `json:"err"`
}

type e2eOut struct {
	Hist      [][4]int `json:"hist"` // t_ms, op, browser, event
	Cuts      []e2eCut `json:"cuts,omitempty"`
	Problems  []string `json:"problems,omitempty"`
	Listener  string   `json:"listener"`
	ProxyLog  string   `json:"proxy_log,omitempty"`
	Pings     []int    `json:"pings"`
	SendMaxNs int64    `json:"send_max_ns"`
	WallMs    int      `json:"wall_ms"`
}

type syncBuf struct {
	mu sync.Mutex
	b  bytes.Buffer
}

func (s *syncBuf) Write(p []byte) (int, error) {
	s.mu.Lock()
	defer s.mu.Unlock()
	if s.b.Len() < 1<<16 {
		s.b.Write(p)
	}
	return len(p), nil
}
func (s *syncBuf) String() string { s.mu.Lock(); defer s.mu.Unlock(); return s.b.String() }

// startProxy brings the proxy up through generatecmd's StartProxy on a free port and makes sure the listener
// that answers there is ours (a request for the token page goes through it to our own backend).
func startProxy(ctx context.Context, logw io.Writer, backend string, token string) (*proxy.Handler, int, error) {
	var lastErr error
	for attempt := 0; attempt < 6; attempt++ {
		l, err := net.Listen("tcp", "127.0.0.1:0")
		if err != nil {
			lastErr = err
			continue
		}
		port := l.Addr().(*net.TCPAddr).Port
		l.Close()
		g, err := generatecmd.NewGenerate(slog.New(slog.NewTextHandler(logw, nil)), generatecmd.Arguments{
			Proxy: backend, ProxyBind: "127.0.0.1", ProxyPort: port,
		})
		if err != nil {
			return nil, 0, err
		}
		p, err := g.StartProxy(ctx)
		if err != nil || p == nil {
			return nil, 0, fmt.Errorf("StartProxy: %v", err)
		}
		hc := &http.Client{Timeout: 2 * time.Second, Transport: &http.Transport{DisableKeepAlives: true}}
		for i := 0; i < 100; i++ {
			resp, err := hc.Get(p.URL + "/verif-token")
			if err != nil {
				lastErr = err
				time.Sleep(30 * time.Millisecond)
				continue
			}
			b, _ := io.ReadAll(resp.Body)
			resp.Body.Close()
			if strings.Contains(string(b), token) {
				return p, port, nil
			}
			lastErr = fmt.Errorf("port %d is answered by somebody else", port)
			break
		}
	}
	return nil, 0, fmt.Errorf("could not bring the proxy up: %v", lastErr)
}

func runE2E(in histIn) histOut {
	t00 := time.Now()
	sc := in.E2E
	out := &e2eOut{Pings: make([]int, len(sc.Clients))}
	res := histOut{ID: in.ID, E2E: out}
	token := "verif-c19-" + strconv.FormatInt(time.Now().UnixNano(), 36)
	backend := httptest.NewServer(http.HandlerFunc(func(w http.ResponseWriter, r *http.Request) {
		w.Header().Set("Content-Type", "text/html")
		io.WriteString(w, "<html><body>"+token+"</body></html>")
	}))
	defer backend.Close()
	ctx, cancelAll := context.WithCancel(context.Background())
	defer cancelAll()
	plog := &syncBuf{}
	p, port, err := startProxy(ctx, plog, backend.URL, token)
	if err != nil {
		out.Problems = append(out.Problems, "setup: "+err.Error())
		out.ProxyLog = lastLinesOf(plog.String(), 6)
		return res
	}
	out.Listener = fmt.Sprintf("generatecmd.Generate.StartProxy -> %s", p.URL)
	eventsURL := p.URL + "/_templ/reload/events"

	var mu sync.Mutex
	t0 := time.Now()
	logL := func(op, c, e int) {
		out.Hist = append(out.Hist, [4]int{int(time.Since(t0) / time.Millisecond), op, c, e})
	}
	problemL := func(f string, a ...any) {
		if len(out.Problems) < 12 {
			out.Problems = append(out.Problems, fmt.Sprintf(f, a...))
		}
	}
	type bcl struct {
		cancel   context.CancelFunc
		open     bool
		left     bool
		ended    bool
		openedAt time.Time
		owed     map[int]bool // events broadcast while this browser was open and has not left
		got      map[int]int
		reloads  []int // ids of the POSTed reloads owed, oldest first (their payload is the bare word "reload")
		startEv  int   // number of broadcasts issued before this browser started its request
		done     chan struct{}
	}
	cls := make([]*bcl, len(sc.Clients))
	nextEv := 0
	var posted []int
	isPosted := map[int]bool{}

	browser := func(i int) {
		c := cls[i]
		defer close(c.done)
		cctx, cancel := context.WithCancel(ctx)
		mu.Lock()
		c.cancel = cancel
		c.startEv = nextEv
		logL(bConnect, i+1, 0)
		mu.Unlock()
		tr := &http.Transport{DisableKeepAlives: true}
		defer tr.CloseIdleConnections()
		req, _ := http.NewRequestWithContext(cctx, http.MethodGet, eventsURL, nil)
		// what EventSource sends
		req.Header.Set("Accept", "text/event-stream")
		req.Header.Set("Cache-Control", "no-cache")
		t1 := time.Now()
		fail := func(err error) {
			mu.Lock()
			defer mu.Unlock()
			c.ended = true
			if c.left {
				return
			}
			age := int(time.Since(t1) / time.Millisecond)
			out.Cuts = append(out.Cuts, e2eCut{Client: i + 1, AgeMs: age, Err: err.Error()})
			if c.open {
				logL(bCut, i+1, 0)
			} else {
				problemL("browser %d could not open its stream: %v", i+1, err)
			}
		}
		resp, err := (&http.Client{Transport: tr}).Do(req)
		if err != nil {
			fail(err)
			return
		}
		defer resp.Body.Close()
		if resp.StatusCode != 200 || resp.Header.Get("Content-Type") != "text/event-stream" {
			mu.Lock()
			problemL("browser %d: status %d Content-Type %q", i+1, resp.StatusCode, resp.Header.Get("Content-Type"))
			mu.Unlock()
		}
		rd := bufio.NewReader(resp.Body)
		for {
			line, err := rd.ReadString('\n')
			if err != nil {
				fail(err)
				return
			}
			line = strings.TrimRight(line, "\r\n")
			if !strings.HasPrefix(line, "data: ") {
				continue
			}
			d := line[len("data: "):]
			mu.Lock()
			switch {
			case d == "ping":
				if !c.open {
					c.open = true
					c.openedAt = time.Now()
					logL(bOpen, i+1, 0)
				} else {
					out.Pings[i]++
					logL(bPing, i+1, 0)
				}
			default:
				e := 0
				if d == "reload" {
					if len(c.reloads) > 0 {
						e = c.reloads[0]
						c.reloads = c.reloads[1:]
					} else {
						// not owed: a reload POSTed while this browser was between its request and its first ping
						for _, k := range posted {
							if k > c.startEv && c.got[k] == 0 {
								e = k
								break
							}
						}
					}
				} else if n, err := strconv.Atoi(d); err == nil && n > c.startEv && n <= nextEv && !isPosted[n] {
					e = n
				}
				if e == 0 {
					problemL("spurious: browser %d read %q", i+1, d)
				} else {
					c.got[e]++
					if c.got[e] > 1 {
						problemL("duplicate: browser %d read event %d %d times", i+1, e, c.got[e])
					}
					delete(c.owed, e)
					logL(bRecv, i+1, e)
				}
			}
			mu.Unlock()
			if s := sc.Clients[i].SlowUs; s > 0 && d != "ping" {
				time.Sleep(time.Duration(s) * time.Microsecond)
			}
		}
	}

	var sendMax time.Duration
	hcPost := &http.Client{Timeout: 5 * time.Second, Transport: &http.Transport{DisableKeepAlives: true}}
	broadcast := func(via string) {
		mu.Lock()
		nextEv++
		e := nextEv
		logL(bBroadcast, 0, e)
		if via != "send" {
			posted = append(posted, e)
			isPosted[e] = true
		}
		for _, c := range cls {
			if c != nil && c.open && !c.left {
				c.owed[e] = true
				if via != "send" {
					c.reloads = append(c.reloads, e)
				}
			}
		}
		mu.Unlock()
		t1 := time.Now()
		switch via {
		case "send":
			p.SendSSE("message", strconv.Itoa(e))
		case "post":
			resp, err := hcPost.Post(eventsURL, "text/plain", nil)
			if err != nil {
				mu.Lock()
				problemL("POST %s: %v", eventsURL, err)
				mu.Unlock()
			} else {
				io.Copy(io.Discard, resp.Body)
				resp.Body.Close()
				if resp.StatusCode != 200 {
					mu.Lock()
					problemL("POST %s: status %d", eventsURL, resp.StatusCode)
					mu.Unlock()
				}
			}
		default:
			if err := proxy.NotifyProxy("127.0.0.1", port); err != nil {
				mu.Lock()
				problemL("NotifyProxy: %v", err)
				mu.Unlock()
			}
		}
		d := time.Since(t1)
		mu.Lock()
		if via == "send" && d > sendMax {
			sendMax = d
		}
		logL(bBcastDone, 0, e)
		mu.Unlock()
	}

	// the timeline
	type act struct {
		at   int
		kind int // 0 connect, 1 leave, 2 broadcast
		i    int
	}
	var acts []act
	for i, c := range sc.Clients {
		acts = append(acts, act{c.AtMs, 0, i})
		if c.LeaveMs >= 0 {
			acts = append(acts, act{c.LeaveMs, 1, i})
		}
	}
	for i, b := range sc.Bcasts {
		acts = append(acts, act{b.AtMs, 2, i})
	}
	sort.SliceStable(acts, func(i, j int) bool { return acts[i].at < acts[j].at })
	for _, a := range acts {
		if d := time.Duration(a.at)*time.Millisecond - time.Since(t0); d > 0 {
			time.Sleep(d)
		}
		switch a.kind {
		case 0:
			mu.Lock()
			cls[a.i] = &bcl{owed: map[int]bool{}, got: map[int]int{}, done: make(chan struct{})}
			mu.Unlock()
			go browser(a.i)
		case 1:
			mu.Lock()
			c := cls[a.i]
			var cancel context.CancelFunc
			if c != nil && !c.left && !c.ended && c.cancel != nil {
				c.left = true
				if c.open {
					logL(bLeave, a.i+1, 0)
				}
				c.owed = map[int]bool{}
				c.reloads = nil
				cancel = c.cancel
			}
			mu.Unlock()
			if cancel != nil {
				cancel()
			}
		case 2:
			b := sc.Bcasts[a.i]
			for k := 0; k < max(1, b.N); k++ {
				broadcast(b.Via)
			}
		}
	}
	// give every browser still there the time to read what it is owed
	deadline := time.Now().Add(time.Duration(sc.SettleMs) * time.Millisecond)
	timedOut := 0
	for {
		mu.Lock()
		owed := 0
		for _, c := range cls {
			if c != nil && !c.left {
				owed += len(c.owed)
			}
		}
		mu.Unlock()
		if owed == 0 {
			break
		}
		if time.Now().After(deadline) {
			timedOut = 1
			break
		}
		time.Sleep(2 * time.Millisecond)
	}
	mu.Lock()
	logL(bSettled, 0, timedOut)
	nHist := len(out.Hist)
	for _, c := range cls {
		if c != nil {
			c.left = true
		}
	}
	mu.Unlock()
	cancelAll()
	for _, c := range cls {
		if c != nil {
			select {
			case <-c.done:
			case <-time.After(5 * time.Second):
			}
		}
	}
	mu.Lock()
	out.Hist = out.Hist[:nHist]
	out.SendMaxNs = int64(sendMax)
	if strings.Contains(plog.String(), "Proxy failed") {
		out.ProxyLog = lastLinesOf(plog.String(), 6)
	}
	out.WallMs = int(time.Since(t00) / time.Millisecond)
	mu.Unlock()
	res.SendMaxNs = int64(sendMax)
	return res
}

func lastLinesOf(s string, n int) string {
	ls := strings.Split(strings.TrimSpace(s), "\n")
	if len(ls) > n {
		ls = ls[len(ls)-n:]
	}
	return strings.Join(ls, "\n")
}

// ---- contract of the transport model (coq/model/SseTransport.v) against the real net/http ----
// The real sse.Handler is served from an http.Server with and without a WriteTimeout; a browser connects and a
// numbered event is broadcast every stepMs. The parent compares what was read with what the model says: without a
// deadline everything, with a deadline d everything broadcast before the connection is d old and nothing after.

type contractEvent struct {
	K     int  `json:"k"`
	AgeMs int  `json:"age_ms"` // age of the browser's connection when the broadcast was issued
	Read  bool `json:"read"`
}

type contractRun struct {
	DeadlineMs int             `json:"deadline_ms"` // 0 = none
	Events     []contractEvent `json:"events"`
	CutAgeMs   int             `json:"cut_age_ms"` // -1 = the stream was still open at the end
	Err        string          `json:"err,omitempty"`
}

func runContractOne(deadlineMs, stepMs, n int) contractRun {
	out := contractRun{DeadlineMs: deadlineMs, CutAgeMs: -1}
	h := sse.New()
	srv := &http.Server{Handler: h, WriteTimeout: time.Duration(deadlineMs) * time.Millisecond}
	l, err := net.Listen("tcp", "127.0.0.1:0")
	if err != nil {
		out.Err = err.Error()
		return out
	}
	go srv.Serve(l)
	defer srv.Close()
	ctx, cancel := context.WithCancel(context.Background())
	defer cancel()
	req, _ := http.NewRequestWithContext(ctx, http.MethodGet, "http://"+l.Addr().String()+"/", nil)
	tr := &http.Transport{DisableKeepAlives: true}
	defer tr.CloseIdleConnections()
	resp, err := (&http.Client{Transport: tr}).Do(req)
	if err != nil {
		out.Err = err.Error()
		return out
	}
	defer resp.Body.Close()
	t0 := time.Now()
	var mu sync.Mutex
	read := map[int]bool{}
	opened := make(chan struct{})
	go func() {
		rd := bufio.NewReader(resp.Body)
		first := true
		for {
			line, err := rd.ReadString('\n')
			if err != nil {
				mu.Lock()
				if ctx.Err() == nil {
					out.CutAgeMs = int(time.Since(t0) / time.Millisecond)
				}
				mu.Unlock()
				if first {
					close(opened)
				}
				return
			}
			line = strings.TrimRight(line, "\r\n")
			if !strings.HasPrefix(line, "data: ") {
				continue
			}
			if first {
				first = false
				close(opened)
			}
			if k, err := strconv.Atoi(line[len("data: "):]); err == nil {
				mu.Lock()
				read[k] = true
				mu.Unlock()
			}
		}
	}()
	select {
	case <-opened:
	case <-time.After(5 * time.Second):
		out.Err = "no first ping"
		return out
	}
	for k := 1; k <= n; k++ {
		if d := time.Duration(k*stepMs)*time.Millisecond - time.Since(t0); d > 0 {
			time.Sleep(d)
		}
		out.Events = append(out.Events, contractEvent{K: k, AgeMs: int(time.Since(t0) / time.Millisecond)})
		h.Send("message", strconv.Itoa(k))
	}
	time.Sleep(400 * time.Millisecond)
	mu.Lock()
	for i := range out.Events {
		out.Events[i].Read = read[out.Events[i].K]
	}
	mu.Unlock()
	cancel()
	return out
}

func runContract(in histIn) histOut {
	var wg sync.WaitGroup
	runs := make([]contractRun, 2)
	for i, d := range []int{0, 1300} {
		wg.Add(1)
		go func(i, d int) { defer wg.Done(); runs[i] = runContractOne(d, 200, 14) }(i, d)
	}
	wg.Wait()
	return histOut{ID: in.ID, Contract: runs}
}
