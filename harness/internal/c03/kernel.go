package c03

import (
	"fmt"
	"os"
	"os/exec"
	"path/filepath"
	"strings"

	templruntime "github.com/a-h/templ/runtime"

	"verifharness/internal/core"
	"verifharness/internal/drv"
)

// kernelCheck cross-checks the extraction path on every run: for a small sample of short cases the answers of the
// extracted OCaml driver are restated as Coq goals over the SAME definitions and closed by vm_compute inside coqc.
func kernelCheck(c *core.Ctx) {
	const name = "extraction: for a sample of cases the extracted driver's answers are re-derived by vm_compute in the Coq kernel"
	r := c.Rng.Fork()
	var ss []string
	ss = append(ss, "</script>'\"`${", lsStr+string([]byte{0xE2, 0x80, '\'', 0xF0, 0x9F}), "a\\b\n\r\t\x00\x1f+/&<>")
	for len(ss) < 30 {
		s := randString(r)
		if len(s) > 0 && len(s) <= 24 {
			ss = append(ss, s)
		}
	}
	var reqs []drv.Req
	for _, s := range ss {
		in, _ := templruntime.ScriptContentInsideStringLiteral(s)
		out, _ := templruntime.ScriptContentOutsideStringLiteral(s)
		reqs = append(reqs, drv.Req{Fn: "str_all", Args: [][]byte{[]byte(s), []byte(in), []byte(out)}})
	}
	res := c.Model(reqs)
	var sb strings.Builder
	sb.WriteString("From Coq.Strings Require Import Byte String.\nFrom Coq Require Import List NArith Bool.\nImport ListNotations.\nFrom V Require Import lib.Bytes lib.Utf8 spec.JsLex spec.JsScript model.JsEsc model.JsTrack.\n")
	// script level: the verdicts of the extracted specification and the model tracker's flags, re-derived in the kernel
	for _, k := range kernelScripts {
		B := func(b string) string { return "(" + core.CoqBytes([]byte(b)) + " : bytes)" }
		var tpl []string
		for i, seg := range k.t.segs {
			if seg != "" {
				tpl = append(tpl, "map SB "+B(seg))
			}
			if i < len(k.t.idx) {
				tpl = append(tpl, fmt.Sprintf("[SH %d]", k.t.idx[i]))
			}
		}
		vals := "[" + B(k.vals[0]) + "; " + B(k.vals[1]) + "; " + B(k.vals[2]) + "]"
		fmt.Fprintf(&sb, "Goal same_tokens %s (%s) %s = %v /\\ same_ends (%s) %s = %v. Proof. split; vm_compute; reflexivity. Qed.\n",
			vals, strings.Join(tpl, " ++ "), B(k.out), k.bits[0] == '1', strings.Join(tpl, " ++ "), B(k.out), k.bits[1] == '1')
	}
	for i, s := range ss {
		a := res[i]
		if len(a) != 5 {
			c.Oblige("correspondence", name, false, "driver gave no answer")
			return
		}
		B := func(b []byte) string { return "(" + core.CoqBytes(b) + " : bytes)" }
		fmt.Fprintf(&sb, "Goal replace %s = %s. Proof. vm_compute. reflexivity. Qed.\n", B([]byte(s)), B(a[0]))
		fmt.Fprintf(&sb, "Goal json_string %s = %s. Proof. vm_compute. reflexivity. Qed.\n", B([]byte(s)), B(a[2]))
		for qi, qn := range []string{"QSingle", "QDouble", "QBacktick"} {
			if a[1][4+2*qi] == '1' && a[1][3+2*qi] == '1' {
				fmt.Fprintf(&sb, "Goal js_unescape %s %s = Some %s /\\ lex_string %s (%s ++ qbyte %s :: [x3b; x58]) = LClosed %d. Proof. split; vm_compute; reflexivity. Qed.\n",
					qn, B(a[0]), B([]byte(s)), qn, B(a[0]), qn, len(a[0]))
			}
		}
	}
	dir, err := os.MkdirTemp("", "c03kernel")
	if err != nil {
		c.Oblige("correspondence", name, false, err.Error())
		return
	}
	defer os.RemoveAll(dir)
	f := filepath.Join(dir, "cases_C03.v")
	os.WriteFile(f, []byte(sb.String()), 0o644)
	cmd := exec.Command("timeout", "300", "coqc", "-Q", filepath.Join(core.Root, "coq"), "V", f)
	cmd.Dir = dir
	out, err := cmd.CombinedOutput()
	detail := ""
	if err != nil {
		detail = string(out)
		if len(detail) > 600 {
			detail = detail[len(detail)-600:]
		}
	}
	c.Oblige("correspondence", name, err == nil, detail)
	c.Extra["kernel_cross_check_goals"] = strings.Count(sb.String(), "Goal ")
}
