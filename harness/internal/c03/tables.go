package c03

import (
	"strings"

	templruntime "github.com/a-h/templ/runtime"

	"verifharness/internal/core"
)

// Translator: the two replacement tables of runtime/scriptelement.go, dumped from the live code
// (verif-tagged export runtime/verif_c03.go) into coq/gen/Tables03.v on every build.
func init() {
	core.RegisterTable("C03 runtime/scriptelement.go: lowUnicodeReplacementTable (consulted first, for runes below its length)", func() string {
		return coqTable("low_unicode_replacement_table", templruntime.VerifLowUnicodeReplacementTable())
	})
	core.RegisterTable("C03 runtime/scriptelement.go: jsStrReplacementTable (empty entry = no replacement)", func() string {
		return coqTable("js_str_replacement_table", templruntime.VerifJSStrReplacementTable())
	})
}

func coqTable(name string, t []string) string {
	var sb strings.Builder
	sb.WriteString("Definition " + name + " : list bytes :=\n  [")
	for i, e := range t {
		if i > 0 {
			sb.WriteString(";\n   ")
		}
		sb.WriteString(core.CoqBytes([]byte(e)))
	}
	sb.WriteString("].\n")
	return sb.String()
}
