package c03

import (
	"encoding/json"
	"fmt"
	"sort"
	"strconv"
	"strings"

	"verifharness/internal/rng"
)

// val is a generated Go value in the shape json.Marshal sees it; it is turned into a real Go value (goValue) for the
// implementation and into the wire format of coq/extract/X03.v (wire) for the model.
type val struct {
	kind byte // n t f # s [ { S
	num  any  // for '#': int64 / uint64 / float64 / int32 ... (what is handed to the implementation)
	s    string
	arr  []val
	keys []string // for '{' (map: unique, any order) and 'S' (struct: field order)
	vals []val
}

// probeStruct exercises struct encoding: field order, renamed and omitted fields, a pointer, an embedded slice.
type probeStruct struct {
	Name   string            `json:"name"`
	Tags   []string          `json:"tags"`
	N      int               `json:"n"`
	Ptr    *string           `json:"ptr"`
	Hidden string            `json:"-"`
	M      map[string]string `json:"m"`
}

type namedString string

func numToken(n any) string {
	b, err := json.Marshal(n)
	if err != nil {
		return "!" + err.Error()
	}
	return string(b)
}

// goValue builds the value handed to templ.
func (v val) goValue() any {
	switch v.kind {
	case 'n':
		return nil
	case 't':
		return true
	case 'f':
		return false
	case '#':
		return v.num
	case 's':
		return v.s
	case '[':
		out := make([]any, len(v.arr))
		for i, x := range v.arr {
			out[i] = x.goValue()
		}
		return out
	case '{':
		out := make(map[string]any, len(v.keys))
		for i, k := range v.keys {
			out[k] = v.vals[i].goValue()
		}
		return out
	case 'S':
		// keys/vals were produced by structVal in field order: name, tags, n, ptr, m
		ps := probeStruct{Hidden: "</script>'\"`${"}
		ps.Name = v.vals[0].s
		if v.vals[1].kind == '[' {
			ps.Tags = make([]string, len(v.vals[1].arr))
			for i, x := range v.vals[1].arr {
				ps.Tags[i] = x.s
			}
		}
		ps.N = int(v.vals[2].num.(int64))
		if v.vals[3].kind == 's' {
			p := v.vals[3].s
			ps.Ptr = &p
		}
		if v.vals[4].kind == '{' {
			ps.M = map[string]string{}
			for i, k := range v.vals[4].keys {
				ps.M[k] = v.vals[4].vals[i].s
			}
		}
		return ps
	}
	return nil
}

func wireStr(sb *strings.Builder, s string) {
	sb.WriteString(strconv.Itoa(len(s)))
	sb.WriteByte(':')
	sb.WriteString(s)
}

// wire renders the value for the extracted model: members of maps in the order json.Marshal emits them (keys sorted bytewise).
func (v val) wire(sb *strings.Builder) {
	switch v.kind {
	case 'n', 't', 'f':
		sb.WriteByte(v.kind)
	case '#':
		sb.WriteByte('#')
		wireStr(sb, numToken(v.num))
	case 's':
		sb.WriteByte('s')
		wireStr(sb, v.s)
	case '[':
		sb.WriteByte('[')
		sb.WriteString(strconv.Itoa(len(v.arr)))
		sb.WriteByte(':')
		for _, x := range v.arr {
			x.wire(sb)
		}
	case '{', 'S':
		idx := make([]int, len(v.keys))
		for i := range idx {
			idx[i] = i
		}
		if v.kind == '{' {
			sort.Slice(idx, func(a, b int) bool { return v.keys[idx[a]] < v.keys[idx[b]] })
		}
		sb.WriteByte('{')
		sb.WriteString(strconv.Itoa(len(v.keys)))
		sb.WriteByte(':')
		for _, i := range idx {
			wireStr(sb, v.keys[i])
			v.vals[i].wire(sb)
		}
	}
}

func (v val) wireBytes() []byte {
	var sb strings.Builder
	v.wire(&sb)
	return []byte(sb.String())
}

func (v val) describe() string {
	b, _ := json.Marshal(v.goValue())
	return fmt.Sprintf("%T %s", v.goValue(), string(b))
}

// hasString reports whether any string (or key) of the value satisfies f.
func (v val) anyString(f func(string) bool) bool {
	switch v.kind {
	case 's':
		return f(v.s)
	case '[':
		for _, x := range v.arr {
			if x.anyString(f) {
				return true
			}
		}
	case '{', 'S':
		for i, k := range v.keys {
			if f(k) || v.vals[i].anyString(f) {
				return true
			}
		}
	}
	return false
}

var numPool = []any{int64(0), int64(-1), int64(42), int64(9007199254740993), int64(-9223372036854775808), uint64(18446744073709551615),
	float64(0), float64(-0.5), float64(1e21), float64(1e-7), float64(123456789.125), float64(-1.5e300), float64(5e-324),
	int32(-7), uint8(255), float32(3.25), float32(1e-10)}

func genNum(r *rng.R) val {
	switch r.Intn(3) {
	case 0:
		return val{kind: '#', num: rng.Pick(r, numPool)}
	case 1:
		return val{kind: '#', num: int64(r.U64())}
	default:
		f := float64(int64(r.U64()>>11)) / float64(uint64(1)<<uint(r.Intn(60)))
		if r.Bool() {
			f = -f
		}
		return val{kind: '#', num: f}
	}
}

func genStructVal(r *rng.R, str func() string) val {
	v := val{kind: 'S', keys: []string{"name", "tags", "n", "ptr", "m"}}
	v.vals = append(v.vals, val{kind: 's', s: str()})
	if r.Intn(4) == 0 {
		v.vals = append(v.vals, val{kind: 'n'})
	} else {
		t := val{kind: '['}
		t.arr = []val{}
		for k := r.Intn(3); k > 0; k-- {
			t.arr = append(t.arr, val{kind: 's', s: str()})
		}
		v.vals = append(v.vals, t)
	}
	v.vals = append(v.vals, val{kind: '#', num: int64(r.Intn(2000) - 1000)})
	if r.Bool() {
		v.vals = append(v.vals, val{kind: 'n'})
	} else {
		v.vals = append(v.vals, val{kind: 's', s: str()})
	}
	if r.Intn(3) == 0 {
		v.vals = append(v.vals, val{kind: 'n'})
	} else {
		m := val{kind: '{'}
		seen := map[string]bool{}
		for k := r.Intn(3); k > 0; k-- {
			key := str()
			if seen[key] {
				continue
			}
			seen[key] = true
			m.keys = append(m.keys, key)
			m.vals = append(m.vals, val{kind: 's', s: str()})
		}
		v.vals = append(v.vals, m)
	}
	return v
}

// genVal draws a nested value; str supplies the (adversarial) strings.
func genVal(r *rng.R, depth int, str func() string) val {
	top := 9
	if depth <= 0 {
		top = 6
	}
	switch r.Intn(top) {
	case 0:
		return val{kind: 'n'}
	case 1:
		if r.Bool() {
			return val{kind: 't'}
		}
		return val{kind: 'f'}
	case 2:
		return genNum(r)
	case 3, 4, 5:
		return val{kind: 's', s: str()}
	case 6:
		v := val{kind: '[', arr: []val{}}
		for k := r.Intn(4); k > 0; k-- {
			v.arr = append(v.arr, genVal(r, depth-1, str))
		}
		return v
	case 7:
		v := val{kind: '{'}
		seen := map[string]bool{}
		for k := r.Intn(4); k > 0; k-- {
			key := str()
			if seen[key] {
				continue
			}
			seen[key] = true
			v.keys = append(v.keys, key)
			v.vals = append(v.vals, genVal(r, depth-1, str))
		}
		return v
	default:
		return genStructVal(r, str)
	}
}
