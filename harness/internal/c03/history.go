package c03

import (
	"encoding/hex"
	"fmt"
	"os/exec"
	"reflect"
	"strings"

	parser "github.com/a-h/templ/parser/v2"

	"verifharness/internal/core"
	"verifharness/internal/drv"
	"verifharness/internal/rng"
)

// Parse HISTORY.  The specification's reading of a script element is a function of its text; the model tracker
// (model/JsTrack.v) starts every element outside any literal; model/JsHist.v states what that means for a process that
// parses one file after another (templ generate over a directory, --watch, the LSP): the verdict on a file does not
// depend on the files parsed before it - in particular not on files that FAILED to parse.  This family produces such
// sequences in the harness process: one to three "earlier" files - script templates from the same grammar, cut off at a
// byte offset inside the script element (inside a literal of each kind, inside a {{ }} expression, a comment, the end
// tag), with a malformed {{ }} expression at a hole, with a quote dropped or added, without end tag, valid ones that
// end inside a literal - and then a template that famScripts has parsed and judged before.  The later parse must give
// the same parts; where it does not, the rendering composed from ITS parts is judged by the extracted specification
// (confined), and the sequence is replayed in a new process (the compiled probe binary) to make sure it stands alone.

// histPool: templates famScripts parsed, rendered with the fixed values and found confined (verdict 11)
var histPool []scriptCase

type dirt struct {
	class string // mutation
	where string // lexical place of the mutation (harness-side scanner; statistics only)
	src   string // whole .templ file
	fails bool
	t     *stmpl // the mutated text as a template, when it still is one (quote dropped / added, unchanged)
}

func fileOf(bodies ...string) string {
	var sb strings.Builder
	sb.WriteString("package p\n\n")
	for i, b := range bodies {
		fmt.Fprintf(&sb, "templ T%d(a string, b string, c string) {\n\t<script>%s</script>\n}\n\n", i, b)
	}
	return sb.String()
}

// placeAt: where a JavaScript scanner stands after reading text (statistics only: the histogram of the evidence says
// which lexical places the cut-off points and malformed expressions fell into)
func placeAt(text string) string {
	const (
		code = iota
		lineC
		blockC
	)
	var q byte
	st := code
	for i := 0; i < len(text); i++ {
		c := text[i]
		switch {
		case st == lineC:
			if c == '\n' {
				st = code
			}
		case st == blockC:
			if c == '*' && i+1 < len(text) && text[i+1] == '/' {
				st = code
				i++
			}
		case q != 0:
			if c == '\\' {
				i++
				if i >= len(text) {
					return "after a backslash in " + string(q) + "..." + string(q)
				}
			} else if c == q {
				q = 0
			}
		case c == '\'' || c == '"' || c == '`':
			q = c
		case c == '/' && i+1 < len(text) && text[i+1] == '/':
			st = lineC
			i++
		case c == '/' && i+1 < len(text) && text[i+1] == '*':
			st = blockC
			i++
		}
	}
	switch {
	case st == lineC:
		return "in a line comment"
	case st == blockC:
		return "in a block comment"
	case q != 0:
		return "inside " + string(q) + "..." + string(q)
	}
	return "in script text"
}

var brokenExprs = []string{"{{ a", "{{ a }", "{{ a } }", "{{ f( }}", "{{ \"x }}", "{{ a.( }}", "{{", "{{ }}", "{{ a\n", "{{ a }\n}", "{{ 'ab' }}", "{{ a b }}", "{{ a }} }}", "{{ a ]] }}"}

// mutate derives an "earlier file" from a script template
func mutate(r *rng.R, t stmpl, kind int, arg int) dirt {
	body := t.body()
	pre := "package p\n\ntempl T0(a string, b string, c string) {\n\t<script>"
	post := "</script>\n}\n\n"
	switch kind {
	case 0: // cut off at byte offset arg of the body (0..len) - a file saved half-way
		o := arg % (len(body) + 1)
		d := dirt{class: "cut off inside the script element", where: placeAt(body[:o]), src: pre + body[:o]}
		// is the cut inside a {{ }} expression?
		if i := strings.LastIndex(body[:o], "{{"); i >= 0 && !strings.Contains(body[i:o], "}}") {
			d.where = "inside a {{ }} expression " + placeAt(body[:i])
		}
		return d
	case 1: // cut off inside the end tag or after it
		full := pre + body + post
		o := len(pre) + len(body) + arg%len(post)
		return dirt{class: "cut off in or after the end tag", where: placeAt(body), src: full[:o]}
	case 2: // a malformed expression instead of hole k
		if len(t.idx) == 0 {
			return dirt{class: "unchanged", where: placeAt(body), src: pre + body + post}
		}
		k := arg % len(t.idx)
		bx := brokenExprs[(arg/len(t.idx))%len(brokenExprs)]
		var sb strings.Builder
		for i, s := range t.segs {
			sb.WriteString(s)
			if i < len(t.idx) {
				if i == k {
					sb.WriteString(bx)
				} else {
					sb.WriteString("{{ " + paramNames[t.idx[i]] + " }}")
				}
			}
		}
		return dirt{class: "malformed {{ }} expression " + q(bx), where: placeAt(strings.Join(t.segs[:k+1], "x")), src: pre + sb.String() + post}
	case 3: // no end tag
		return dirt{class: "end tag missing", where: placeAt(body), src: pre + body + "\n}\n"}
	case 4, 5: // one quote dropped / one quote added, in the static text
		nt := stmpl{segs: append([]string{}, t.segs...), idx: t.idx, kinds: t.kinds}
		cls := "a quote added"
		if kind == 4 {
			type at struct{ seg, off int }
			var ats []at
			for si, s := range t.segs {
				for i := 0; i < len(s); i++ {
					if s[i] == '\'' || s[i] == '"' || s[i] == '`' {
						ats = append(ats, at{si, i})
					}
				}
			}
			if len(ats) == 0 {
				return dirt{class: "unchanged", where: "element ends " + placeAt(body), src: pre + body + post, t: &t}
			}
			x := ats[arg%len(ats)]
			nt.segs[x.seg] = t.segs[x.seg][:x.off] + t.segs[x.seg][x.off+1:]
			cls = "a quote dropped"
		} else {
			si := arg % len(t.segs)
			off := (arg / 64) % (len(t.segs[si]) + 1)
			nt.segs[si] = t.segs[si][:off] + string("'\"`"[(arg/7)%3]) + t.segs[si][off:]
		}
		if !nt.expressible() {
			return dirt{class: "unchanged", where: "element ends " + placeAt(body), src: pre + body + post, t: &t}
		}
		return dirt{class: cls, where: "element ends " + placeAt(nt.body()), src: pre + nt.body() + post, t: &nt}
	case 6: // the script element is fine, the file is broken after it
		return dirt{class: "broken markup after the script element", where: placeAt(body), src: pre + body + "</script>\n\t<div class=\n}\n"}
	default:
		return dirt{class: "unchanged", where: "element ends " + placeAt(body), src: pre + body + post, t: &t}
	}
}

// the parts of every script element of a file, canonically (the same text is produced by the probe binary's H mode)
func canonFile(tf parser.TemplateFile, err error) string {
	if err != nil {
		return "E"
	}
	var sb strings.Builder
	for _, node := range tf.Nodes {
		ht, ok := node.(parser.HTMLTemplate)
		if !ok {
			continue
		}
		sb.WriteString("T{")
		for _, ch := range ht.Children {
			switch e := ch.(type) {
			case parser.ScriptElement:
				sb.WriteString("\x01S[")
				for _, c := range e.Contents {
					if c.Value != nil {
						fmt.Fprintf(&sb, "J%q", *c.Value)
					} else if c.GoCode != nil {
						fmt.Fprintf(&sb, "G%v:%q:%q", c.InsideStringLiteral, c.GoCode.Expression.Value, string(c.GoCode.TrailingSpace))
					}
				}
				sb.WriteString("]")
			case parser.Whitespace:
			default:
				sb.WriteString("O")
			}
		}
		sb.WriteString("}")
	}
	return sb.String()
}

// canonText is the source of canonFile as it is compiled into the probe binary (probes.go, probeMain); %% because it
// goes through Sprintf there
const probeCanon = `
func canonFile(src string) string {
	tf, err := parser.ParseString(src)
	if err != nil {
		return "E"
	}
	var sb strings.Builder
	for _, node := range tf.Nodes {
		ht, ok := node.(parser.HTMLTemplate)
		if !ok {
			continue
		}
		sb.WriteString("T{")
		for _, ch := range ht.Children {
			switch e := ch.(type) {
			case parser.ScriptElement:
				sb.WriteString("\x01S[")
				for _, c := range e.Contents {
					if c.Value != nil {
						fmt.Fprintf(&sb, "J%%q", *c.Value)
					} else if c.GoCode != nil {
						fmt.Fprintf(&sb, "G%%v:%%q:%%q", c.InsideStringLiteral, c.GoCode.Expression.Value, string(c.GoCode.TrailingSpace))
					}
				}
				sb.WriteString("]")
			case parser.Whitespace:
			default:
				sb.WriteString("O")
			}
		}
		sb.WriteString("}")
	}
	return sb.String()
}
`

// runH parses the sources, in order, in ONE NEW process (the probe binary is compiled against the tree under check) and
// returns the canonical result of each
func (s *scratch) runH(sources []string) ([]string, error) {
	line := "H"
	for _, x := range sources {
		if x == "" {
			line += " -"
		} else {
			line += " " + hex.EncodeToString([]byte(x))
		}
	}
	cmd := exec.Command("timeout", "60", s.bin)
	cmd.Stdin = strings.NewReader(line + "\n")
	o, err := cmd.Output()
	if err != nil {
		return nil, fmt.Errorf("probe binary (H): %v", err)
	}
	for _, l := range strings.Split(string(o), "\n") {
		if strings.HasPrefix(l, "H") {
			var res []string
			for _, f := range strings.Fields(l)[1:] {
				b, _ := hex.DecodeString(f)
				res = append(res, string(b))
			}
			if len(res) == len(sources) {
				return res, nil
			}
		}
	}
	return nil, fmt.Errorf("probe binary (H): no answer")
}

func famHistory(c *core.Ctx, t *tally, sc *scratch) {
	const (
		tieHist  = "history: after any sequence of earlier parses in the same process (failing ones included), and after any earlier script element of the same file, the parser gives a script template the parts, flags and end it gives it in a fresh state (= model tracker, model/JsHist.v)"
		tieFresh = "history: a new process parsing the same sequence of files gives each the result the harness process gives it (sample)"
		propHist = "history: the script rendered from the parts the parser gives AFTER earlier parses lexes as the author's template with every hole as data (spec/JsScript.v confined)"
	)
	t.declare("tie", tieHist)
	t.declare("tie", tieFresh)
	t.declare("prop", propHist)
	if len(histPool) == 0 {
		t.tie(tieHist, map[string]string{"history": "none"}, "no script template was parsed and judged confined: nothing to follow a history with")
		return
	}
	r := c.Rng.Fork()
	// earlier files.  First the small exhaustive part: for each quote kind, a literal with a hole, then a bare hole, a
	// comment holding quotes: every cut-off point, every malformed expression at every hole, every dropped quote
	type hist struct {
		files []dirt
		same  int // 0: the template is a file of its own; 1: second templ of the earlier file; 2: second script element of the same templ
	}
	var plan []hist
	one := func(d dirt) { plan = append(plan, hist{files: []dirt{d}}) }
	var bases []stmpl
	for _, qc := range []string{"'", "\"", "`"} {
		bases = append(bases,
			stmpl{segs: []string{"var a = " + qc + "x", "y" + qc + "; var b = ", ";"}, idx: []int{0, 1}},
			stmpl{segs: []string{"// it's\nvar a = " + qc + "\\" + qc, qc + " /* \" */ + ", ""}, idx: []int{0, 1}})
	}
	for _, b := range bases {
		n := len(b.body())
		for o := 0; o <= n; o++ {
			one(mutate(r, b, 0, o))
		}
		for a := 0; a < len(b.idx)*len(brokenExprs); a++ {
			one(mutate(r, b, 2, a))
		}
		for a := 0; a < 4; a++ {
			one(mutate(r, b, 4, a))
			one(mutate(r, b, 1, a*3))
			for same := 1; same <= 2; same++ {
				plan = append(plan, hist{files: []dirt{mutate(r, b, 4, a)}, same: same})
			}
		}
		one(mutate(r, b, 3, 0))
		one(mutate(r, b, 6, 0))
	}
	nExhaustive := len(plan)
	// then random histories of one to three earlier files over the templates of the script grammar
	for i := 0; i < c.N(1200, 40000); i++ {
		var h hist
		for k := 1 + r.Intn(8)/5 + r.Intn(8)/7; k > 0; k-- {
			var b stmpl
			if r.Intn(3) == 0 {
				b = rng.Pick(r, histPool).t
			} else {
				b = genScript(r)
			}
			kind := []int{0, 0, 0, 2, 2, 2, 1, 3, 4, 4, 5, 5, 6, 7}[r.Intn(14)]
			h.files = append(h.files, mutate(r, b, kind, r.Intn(1<<20)))
		}
		if h.files[len(h.files)-1].t != nil && r.Intn(3) > 0 {
			h.same = 1 + r.Intn(2)
		}
		plan = append(plan, h)
	}
	// an earlier script element of the SAME file: only where the model tracker says its contents end at its own end tag
	// (an element that swallows its end tag changes the file's structure in a fresh state as well)
	var mreqs []drv.Req
	var mown []int
	for hi, h := range plan {
		if h.same == 0 {
			continue
		}
		d := h.files[len(h.files)-1]
		if d.t == nil {
			plan[hi].same = 0
			continue
		}
		args := [][]byte{[]byte(fmt.Sprint(sparams)), []byte("x"), []byte("y"), []byte("z"), nil}
		mreqs = append(mreqs, drv.Req{Fn: "script", Args: append(args, d.t.wire()...)})
		mown = append(mown, hi)
	}
	for j, a := range c.Model(mreqs) {
		d := plan[mown[j]].files[len(plan[mown[j]].files)-1]
		n := len(d.t.idx)
		for _, s := range d.t.segs {
			n += len(s)
		}
		if len(a) < 7 || string(a[3]) != fmt.Sprint(n) || strings.Contains(string(a[2]), "x") {
			plan[mown[j]].same = 0
		}
	}
	var log []string // every file this family handed to the parser, in order
	parse := func(src string) (parser.TemplateFile, error) {
		log = append(log, src)
		return parseTimed(src)
	}
	// a new process: does [history..., file] give the file's last script element other parts than the template alone gets?
	confirm := func(before []string, hsrc []string, alone string) (string, []string) {
		if sc == nil {
			return "not tried (no probe binary)", hsrc
		}
		ref, err := sc.runH([]string{alone})
		if err != nil {
			return "not tried: " + err.Error(), hsrc
		}
		want := lastElement(ref[0])
		for extra := 0; extra <= 12; extra += 3 {
			h := hsrc
			if extra > 0 { // the state may stem from files parsed before this history: prepend them
				n := len(before) - extra
				if n < 0 {
					n = 0
				}
				h = append(append([]string{}, before[n:]...), hsrc...)
			}
			got, err := sc.runH(h)
			if err == nil && lastElement(got[len(got)-1]) != want {
				return "yes: a new process that parses these files in this order gives the last script element parts that differ from those the template gets when parsed alone", h
			}
		}
		return "no: a new process does not reproduce it with these files alone (the harness process's state stems from earlier parses)", hsrc
	}
	nSample := 0
	differ := 0
	for hi, h := range plan {
		g := histPool[(hi*7919+r.Intn(len(histPool)))%len(histPool)]
		if hi < nExhaustive { // the small part first: short templates, so that the first failure is a small one
			g = histPool[(hi*7)%min(len(histPool), 900)]
		}
		gsrc := "package p\n\n" + g.t.source("T")
		before := append([]string{}, log[max(0, len(log)-16):]...)
		// the files of this history, the last of them holding the template
		var hsrc []string
		for i, d := range h.files {
			if i == len(h.files)-1 && h.same == 1 {
				hsrc = append(hsrc, fileOf(d.t.body(), g.t.body()))
			} else if i == len(h.files)-1 && h.same == 2 {
				hsrc = append(hsrc, strings.Replace(fileOf(d.t.body()), "</script>\n}", "</script>\n\t<script>"+g.t.body()+"</script>\n}", 1))
			} else {
				hsrc = append(hsrc, d.src)
			}
		}
		if h.same == 0 {
			hsrc = append(hsrc, gsrc)
		}
		run := func(files []string) parsedScript {
			var p parsedScript
			for i, src := range files {
				tf, err := parse(src)
				if i < len(files)-1 {
					continue
				}
				if err != nil {
					return parsedScript{why: "parse error: " + err.Error()}
				}
				se, n := lastScript(tf)
				if se == nil || (h.same == 0 && n != 1) || (h.same != 0 && n != 2) {
					return parsedScript{why: fmt.Sprintf("the file holds %d script elements", n)}
				}
				p = partsOf(*se, g.t.body())
			}
			return p
		}
		for i := range h.files {
			if i < len(h.files)-1 || h.same == 0 {
				_, err := parse(h.files[i].src)
				h.files[i].fails = err != nil
			}
			res := "parses"
			if h.files[i].fails {
				res = "fails to parse"
			}
			if i == len(h.files)-1 && h.same != 0 {
				res = []string{"", "earlier templ of the same file", "earlier script element of the same templ"}[h.same]
			}
			c.Hist("history: earlier file " + res + " - " + strings.SplitN(h.files[i].class, " \"", 2)[0] + ", " + h.files[i].where)
		}
		c.Hist(fmt.Sprintf("history: %d earlier files", len(h.files)))
		last := h.files[len(h.files)-1]
		key := ""
		if last.fails || strings.Contains(last.where, "inside") || strings.Contains(last.where, "comment") {
			key = "hist:" + last.src
		}
		c.Count(key)
		p := run(hsrc[len(hsrc)-1:])
		if reflect.DeepEqual(p, g.p) {
			// same parts, flags, trailing space: the rendering is the one famScripts judged
			if sc != nil && nSample < c.N(10, 60) && (last.fails || hi%17 == 0) && hi%5 == 0 {
				nSample++
				got, err := sc.runH(hsrc)
				if err != nil {
					t.tie(tieFresh, map[string]any{"files": hsrc}, err.Error())
				} else {
					ok := true
					for i, s := range hsrc {
						tf, perr := parse(s)
						if canonFile(tf, perr) != got[i] {
							ok = false
							t.tie(tieFresh, map[string]any{"files_parsed_in_order": hsrc, "file": s, "new_process": got[i], "harness_process": canonFile(tf, perr)}, "a new process and the harness process read the file differently")
						}
					}
					if ok {
						c.Hist("history: sequence replayed in a new process, same results")
					}
				}
			}
			continue
		}
		differ++
		in := map[string]any{"template": "<script>" + g.t.body() + "</script>",
			"flags_in_a_fresh_state": g.p.flags, "flags_after_the_history": p.flags,
			"values": map[string]string{"a": q(g.vals[0]), "b": q(g.vals[1]), "c": q(g.vals[2])}}
		if !p.ok {
			in["parser_after_the_history"] = p.why
		}
		// shrink: does the last earlier file alone do it?
		use := hsrc
		if len(hsrc) > 2 {
			if p1 := run(hsrc[len(hsrc)-2:]); reflect.DeepEqual(p1, p) {
				use = hsrc[len(hsrc)-2:]
			}
		}
		in["files_parsed_in_this_order_in_one_process"] = use
		// before reporting: replay the sequence in a new process
		standAlone := func(family string, cap int) {
			if c.NFails(family) < cap {
				verdict, files := confirm(before, use, gsrc)
				in["reproduced_in_a_new_process"] = verdict
				in["files_parsed_in_this_order_in_one_process"] = files
			}
		}
		in["how_to_replay"] = "parser.ParseString each file in order in one process; render the last script element of the last file (static parts verbatim, each expression through runtime.ScriptContentInsideStringLiteral or ...OutsideStringLiteral as its InsideStringLiteral flag says) with the values"
		if !p.ok {
			standAlone(tieHist, 3)
			t.tie(tieHist, in, "after these earlier parses the parser no longer takes a template it takes in a fresh state: "+p.why)
			continue
		}
		out, err := p.compose(g.vals)
		if err != nil {
			t.tie(tieHist, in, "composition failed: "+err.Error())
			continue
		}
		in["rendered_in_a_fresh_state"] = q("<script>" + g.out + "</script>")
		in["rendered_after_the_history"] = q("<script>" + out + "</script>")
		args := [][]byte{[]byte(fmt.Sprint(sparams))}
		for _, v := range g.vals {
			args = append(args, []byte(v))
		}
		args = append(args, []byte(out))
		args = append(args, g.t.wire()...)
		res := c.Model([]drv.Req{{Fn: "script", Args: args}})
		if len(res) != 1 || len(res[0]) < 7 {
			t.tie(tieHist, in, "the parser's result depends on the files parsed before; the model gave no verdict on the rendering")
			continue
		}
		if bits := string(res[0][0]); bits == "11" {
			standAlone(tieHist, 3)
			t.tie(tieHist, in, "the parser's parts for this template depend on what was parsed before it (the rendering still lexes as the author's template)")
			continue
		}
		want, got := decodeToks(res[0][6:])
		in["lexical_positions"] = string(res[0][1])
		in["tokens_of_template"] = want
		in["tokens_of_rendering"] = got
		standAlone(propHist, 5)
		t.prop(propHist, "parse-history-dependent", in,
			"after the earlier input was parsed in the same process the parser flags this template's holes "+p.flags+" instead of "+g.p.flags+
				", a value goes through the wrong escaper and the rendered script does not lex as the author's template with the values as data: first differing token: "+firstDiff(want, got))
	}
	// leave the process as it was found: the last parse is a good template on its own
	parseScript(histPool[0].t)
	c.Extra["history_sequences"] = len(plan)
	c.Extra["history_results_differing"] = differ
	c.Extra["history_replayed_in_new_process"] = nSample
}

// the last script element of the last templ of a file, and how many script elements that file holds
func lastScript(tf parser.TemplateFile) (*parser.ScriptElement, int) {
	var se *parser.ScriptElement
	n := 0
	for _, node := range tf.Nodes {
		ht, ok := node.(parser.HTMLTemplate)
		if !ok {
			continue
		}
		for _, ch := range ht.Children {
			if e, ok := ch.(parser.ScriptElement); ok {
				e := e
				se = &e
				n++
			}
		}
	}
	return se, n
}

// the last "S[...]" group of a canonical file description
func lastElement(canon string) string {
	if i := strings.LastIndex(canon, "\x01S["); i >= 0 {
		return canon[i:]
	}
	return canon
}
