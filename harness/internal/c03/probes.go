package c03

import (
	"bufio"
	"bytes"
	"encoding/hex"
	"fmt"
	"html"
	"os"
	"os/exec"
	"path/filepath"
	"strings"

	"github.com/a-h/templ/generator"

	"verifharness/internal/core"
	"verifharness/internal/drv"
)

// A probe is a templ template with ONE {{ }} hole in a <script> element (or one call in an on* attribute / one
// JSON script element).  It is written by the author of this check, so the JavaScript position of the hole is known
// by construction: pos is ' " ` for a hole inside a literal of that kind, 'b' for a bare hole.  The template goes
// through the repository's real parser and generator and is compiled against the tree under check; the rendered
// bytes are then judged by the extracted specification with the constructed position - which is how a quote
// tracker (parser/v2/scriptparser.go) or a generator (writeScriptContents) that picks the wrong escaper is caught.
type probe struct {
	name string
	pos  byte
	pre  string // static text before the hole, as it must appear in the output
	post string // static text after the hole
	anyV bool   // the hole receives the string as an `any` value instead of a string
}

const bt = "`"

var scriptProbes = []probe{
	{"Bare", 'b', "<script>var a = ", ";</script>", false},
	{"Single", '\'', "<script>var a = '", "';</script>", false},
	{"Double", '"', "<script>var a = \"", "\";</script>", false},
	{"Backtick", '`', "<script>var a = " + bt, bt + ";</script>", false},
	{"SingleAfterEscapedQuote", '\'', "<script>var a = 'it\\'s ", "';</script>", false},
	{"DoubleHoldingSingle", '"', "<script>var a = \"it's ", "\";</script>", false},
	{"SingleHoldingDouble", '\'', "<script>var a = 'say \"hi\" ", "';</script>", false},
	{"BacktickHoldingBoth", '`', "<script>var a = " + bt + "'\" ", bt + ";</script>", false},
	{"DoubleAfterClosedSingle", '"', "<script>var a = 'x'; var b = \"", "\";</script>", false},
	{"BareAfterClosedLiterals", 'b', "<script>var a = \"x\" + 'y' + " + bt + "z" + bt + "; var b = ", ";</script>", false},
	{"BareAfterEscapedBackslash", 'b', "<script>var a = 'x\\\\'; var b = ", ";</script>", false},
	{"SingleAfterEscapedBackslash", '\'', "<script>var a = 'x\\\\'; var b = '", "';</script>", false},
	{"BareAfterLineComment", 'b', "<script>// don't\nvar a = ", ";</script>", false},
	{"BareAfterBlockComment", 'b', "<script>/* \" ' */ var a = ", ";</script>", false},
	{"SingleWithAttrs", '\'', "<script type=\"text/javascript\" defer>var a = '", "';</script>", false},
	{"SingleUnicodeEscapeBefore", '\'', "<script>var a = '\\u0027 ", "';</script>", false},
	{"BareAny", 'b', "<script>var a = ", ";</script>", true},
	{"SingleAny", '\'', "<script>var a = '", "';</script>", true},
	{"BacktickAny", '`', "<script>var a = " + bt, bt + ";</script>", true},
}

// templ source of one script probe: the static text is the probe's pre/post with the hole between
func (p probe) templSource() string {
	typ := "string"
	if p.anyV {
		typ = "any"
	}
	return fmt.Sprintf("templ %s(s %s) {\n\t%s{{ s }}%s\n}\n\n", p.name, typ, p.pre, p.post)
}

const probeExtra = `templ CallAttr(s string, v any) {
	<button onclick={ templ.JSFuncCall("handler.onClick", s, v, templ.JSExpression("event")) }>x</button>
}

templ CallInline(s string, v any) {
	@templ.JSFuncCall("handler.onLoad", s, v)
}

templ JSONData(s string, v any) {
	@templ.JSONScript("data", v)
}

`

const probeMain = `package main

import (
	"bufio"
	"bytes"
	"context"
	"encoding/hex"
	"fmt"
	"os"
	"strings"

	"github.com/a-h/templ"
	parser "github.com/a-h/templ/parser/v2"

	"c03probes/probes"
)

type probe struct {
	name string
	f    func(string) templ.Component
}

var table = []probe{
%s}

// generated script templates with three string parameters, rendered on request:  S <name> <hexa> <hexb> <hexc>
var scripts = map[string]func(a, b, c string) templ.Component{
%s}

func unhex(h string) string {
	if h == "-" {
		return ""
	}
	b, _ := hex.DecodeString(h)
	return string(b)
}

` + probeCanon + `
func main() {
	in := bufio.NewReaderSize(os.Stdin, 1<<20)
	out := bufio.NewWriterSize(os.Stdout, 1<<20)
	defer out.Flush()
	for {
		line, err := in.ReadString('\n')
		line = strings.TrimRight(line, "\n")
		if strings.HasPrefix(line, "H ") {
			// parse history: every file of the line is parsed, in order, in this process; one canonical result each
			fmt.Fprintf(out, "H")
			for _, h := range strings.Split(line, " ")[1:] {
				fmt.Fprintf(out, " %%x", canonFile(unhex(h)))
			}
			fmt.Fprintf(out, "\n")
		} else if strings.HasPrefix(line, "S ") {
			f := strings.Split(line, " ")
			var buf bytes.Buffer
			if fn, ok := scripts[f[1]]; !ok || len(f) != 5 {
				fmt.Fprintf(out, "S !unknown\n")
			} else if rerr := fn(unhex(f[2]), unhex(f[3]), unhex(f[4])).Render(context.Background(), &buf); rerr != nil {
				fmt.Fprintf(out, "S !%%x\n", rerr.Error())
			} else if buf.Len() == 0 {
				fmt.Fprintf(out, "S -\n")
			} else {
				fmt.Fprintf(out, "S %%x\n", buf.Bytes())
			}
		} else if line != "" {
			var s []byte
			if line != "-" {
				s, _ = hex.DecodeString(line)
			}
			for _, p := range table {
				var buf bytes.Buffer
				if rerr := p.f(string(s)).Render(context.Background(), &buf); rerr != nil {
					fmt.Fprintf(out, "%%s !%%x\n", p.name, rerr.Error())
				} else if buf.Len() == 0 {
					fmt.Fprintf(out, "%%s -\n", p.name)
				} else {
					fmt.Fprintf(out, "%%s %%x\n", p.name, buf.Bytes())
				}
			}
		}
		if err != nil {
			break
		}
	}
}
`

type scratch struct{ dir, bin string }

func (s *scratch) Close() {
	if s != nil && s.dir != "" {
		os.RemoveAll(s.dir)
	}
}

// the value handed to the `v any` parameter of the call / JSON probes for input string s
func probeValue(s string) val {
	if s == "k" { // the map literal's second key overwrites the first
		return val{kind: '{', keys: []string{"k"}, vals: []val{{kind: 't'}}}
	}
	return val{kind: '{', keys: []string{"k", s}, vals: []val{{kind: '[', arr: []val{{kind: 's', s: s}, {kind: '#', num: int64(1)}, {kind: 'n'}}}, {kind: 't'}}}
}

// buildProbes regenerates every probe with the repository's own parser and generator (in-process: the harness is
// compiled against core.Repo()) - one file per probe, so that a probe the parser or generator mishandles does not
// take the others with it -, writes a module replacing templ by the tree under check, and compiles it.
// Returns the generated Go text per probe and the probes that could not be generated.
func buildProbes(pl scriptPlan) (*scratch, map[string]string, map[string]string, error) {
	dir, err := os.MkdirTemp("", "c03probes")
	if err != nil {
		return nil, nil, nil, err
	}
	s := &scratch{dir: dir}
	fail := func(e error) (*scratch, map[string]string, map[string]string, error) { s.Close(); return nil, nil, nil, e }
	os.MkdirAll(filepath.Join(dir, "probes"), 0o755)
	gen := map[string]string{}
	bad := map[string]string{}
	one := func(name, body string) {
		tf, err := parseTimed("package probes\n\n" + body)
		if err != nil {
			bad[name] = "templ parser: " + err.Error()
			return
		}
		var buf bytes.Buffer
		if _, err = generator.Generate(tf, &buf); err != nil {
			bad[name] = "generator: " + err.Error()
			return
		}
		if !strings.Contains(buf.String(), "func "+name+"(") {
			bad[name] = "the generated file does not define the template (the parser read past its end)"
			return
		}
		gen[name] = buf.String()
		os.WriteFile(filepath.Join(dir, "probes", strings.ToLower(name)+"_templ.go"), buf.Bytes(), 0o644)
	}
	for _, p := range scriptProbes {
		one(p.name, p.templSource())
	}
	one("CallAttr", probeExtra)
	var tbl strings.Builder
	for _, p := range scriptProbes {
		if _, ok := gen[p.name]; !ok {
			continue
		}
		if p.anyV {
			fmt.Fprintf(&tbl, "\t{%q, func(s string) templ.Component { return probes.%s(s) }},\n", p.name, p.name)
		} else {
			fmt.Fprintf(&tbl, "\t{%q, probes.%s},\n", p.name, p.name)
		}
	}
	if _, ok := gen["CallAttr"]; ok {
		for _, n := range []string{"CallAttr", "CallInline", "JSONData"} {
			fmt.Fprintf(&tbl, "\t{%q, func(s string) templ.Component { return probes.%s(s, map[string]any{\"k\": []any{s, 1, nil}, s: true}) }},\n", n, n)
		}
	}
	// the compiled sample of generated script templates (scripts.go)
	var tbl2 strings.Builder
	seen := map[int]bool{}
	for _, i := range pl.compiled {
		if seen[i] {
			continue
		}
		seen[i] = true
		name := fmt.Sprintf("S%d", i)
		one(name, pl.all[i].source(name))
		if _, ok := gen[name]; ok {
			fmt.Fprintf(&tbl2, "\t%q: probes.%s,\n", name, name)
		} else {
			delete(bad, name) // a generated template the parser rejects is not a broken probe; scripts.go compares the model
		}
	}
	if err = os.WriteFile(filepath.Join(dir, "main.go"), []byte(fmt.Sprintf(probeMain, tbl.String(), tbl2.String())), 0o644); err != nil {
		return fail(err)
	}
	gomod := "module c03probes\n\ngo 1.23.0\n\nrequire github.com/a-h/templ v0.0.0\n\nreplace github.com/a-h/templ => " + core.Repo() + "\n"
	os.WriteFile(filepath.Join(dir, "go.mod"), []byte(gomod), 0o644)
	if sum, err := os.ReadFile(filepath.Join(core.Repo(), "go.sum")); err == nil {
		os.WriteFile(filepath.Join(dir, "go.sum"), sum, 0o644)
	}
	s.bin = filepath.Join(dir, "c03probes.bin")
	cmd := exec.Command("timeout", "600", "go", "build", "-o", s.bin, ".")
	cmd.Dir = dir
	cmd.Env = append(os.Environ(), "GOFLAGS=-mod=mod", "GOPROXY=off", "GOSUMDB=off", "GOTOOLCHAIN=local")
	if out, err := cmd.CombinedOutput(); err != nil {
		o := string(out)
		if len(o) > 1500 {
			o = o[len(o)-1500:]
		}
		return fail(fmt.Errorf("go build of the generated probes failed: %v: %s", err, o))
	}
	return s, gen, bad, nil
}

// runLines sends S-requests (one rendering each) and returns the rendered bytes in order
func (s *scratch) runLines(lines []string) ([]string, error) {
	if len(lines) == 0 {
		return nil, nil
	}
	cmd := exec.Command("timeout", "900", s.bin)
	cmd.Stdin = strings.NewReader(strings.Join(lines, "\n") + "\n")
	var errb bytes.Buffer
	cmd.Stderr = &errb
	o, err := cmd.Output()
	if err != nil {
		return nil, fmt.Errorf("probe binary: %v: %s", err, errb.String())
	}
	var res []string
	sc := bufio.NewScanner(bytes.NewReader(o))
	sc.Buffer(make([]byte, 1<<20), 1<<28)
	for sc.Scan() {
		f := strings.SplitN(sc.Text(), " ", 2)
		if len(f) != 2 || f[0] != "S" {
			continue
		}
		v := f[1]
		if v == "-" {
			v = ""
		} else if !strings.HasPrefix(v, "!") {
			b, _ := hex.DecodeString(v)
			v = string(b)
		}
		res = append(res, v)
	}
	return res, nil
}

func (s *scratch) run(inputs []string) (map[string][]string, error) {
	var in bytes.Buffer
	for _, x := range inputs {
		if x == "" {
			in.WriteString("-\n")
		} else {
			in.WriteString(hex.EncodeToString([]byte(x)) + "\n")
		}
	}
	cmd := exec.Command("timeout", "900", s.bin)
	cmd.Stdin = &in
	var errb bytes.Buffer
	cmd.Stderr = &errb
	o, err := cmd.Output()
	if err != nil {
		return nil, fmt.Errorf("probe binary: %v: %s", err, errb.String())
	}
	res := map[string][]string{}
	sc := bufio.NewScanner(bytes.NewReader(o))
	sc.Buffer(make([]byte, 1<<20), 1<<28)
	for sc.Scan() {
		f := strings.SplitN(sc.Text(), " ", 2)
		if len(f) != 2 {
			continue
		}
		v := f[1]
		if v == "-" {
			v = ""
		} else if !strings.HasPrefix(v, "!") {
			b, _ := hex.DecodeString(v)
			v = string(b)
		}
		res[f[0]] = append(res[f[0]], v)
	}
	return res, nil
}

func famProbes(c *core.Ctx, t *tally, pl scriptPlan) {
	const (
		tieBuild = "probes: the probe templates go through the repository's parser and generator and compile against the tree"
		tieGen   = "probes: the generator calls ScriptContentInsideStringLiteral for holes inside a literal and ScriptContentOutsideStringLiteral for bare holes"
		tieOut   = "probes: rendered hole = model script_content_inside / script_content_outside for the constructed position"
		propPos  = "probes: the rendered script keeps the author's static text, and the hole meets the specification of the position it was written in"
		propCall = "probes: on* attribute call, inline call and JSON script element rendered by generated code"
	)
	t.declare("tie", tieBuild)
	t.declare("tie", tieGen)
	t.declare("tie", tieOut)
	t.declare("prop", propPos)
	t.declare("prop", propCall)
	sc, gen, bad, err := buildProbes(pl)
	if err != nil {
		t.tie(tieBuild, map[string]string{"probes": "all"}, err.Error())
		famScripts(c, t, pl, nil, nil)
		famHistory(c, t, nil)
		return
	}
	defer sc.Close()
	compiledOK := map[int]bool{}
	for _, i := range pl.compiled {
		if _, ok := gen[fmt.Sprintf("S%d", i)]; ok {
			compiledOK[i] = true
		}
	}
	defer func() {
		famScripts(c, t, pl, sc, compiledOK)
		famHistory(c, t, sc)
	}()
	for name, why := range bad {
		tpl := ""
		for _, p := range scriptProbes {
			if p.name == name {
				tpl = p.pre + "{{ s }}" + p.post
			}
		}
		t.tie(tieBuild, map[string]string{"probe": name, "template": tpl}, why)
	}
	// which escaper did the generator choose for each probe?  (read off the generated Go text)
	for _, p := range scriptProbes {
		body, ok := gen[p.name]
		if !ok {
			continue
		}
		inside := strings.Contains(body, "ScriptContentInsideStringLiteral(")
		outside := strings.Contains(body, "ScriptContentOutsideStringLiteral(")
		wantInside := p.pos != 'b'
		c.Count("probe-gen:" + p.name)
		if inside == outside || inside != wantInside {
			t.tie(tieGen, map[string]string{"probe": p.name, "template": p.pre + "{{ s }}" + p.post, "generated_inside_call": fmt.Sprint(inside), "generated_outside_call": fmt.Sprint(outside)},
				"the generator chose the wrong escaper for the hole's position")
		}
	}
	// inputs: vectors, every metacharacter, a code-point sample, random strings
	var inputs []string
	inputs = append(inputs, vectors...)
	inputs = append(inputs, metas...)
	for r := rune(0); r < 0x100; r++ {
		inputs = append(inputs, cp(r))
	}
	r := c.Rng.Fork()
	for i := 0; i < c.N(600, 20000); i++ {
		inputs = append(inputs, randString(r))
	}
	out, err := sc.run(inputs)
	if err != nil {
		t.tie(tieBuild, map[string]string{"probes": "run"}, err.Error())
		return
	}
	var reqs []drv.Req
	type ref struct {
		p     probe
		s     string
		hole  string
		whole string
	}
	var refs []ref
	for _, p := range scriptProbes {
		if _, ok := gen[p.name]; !ok {
			continue
		}
		rs := out[p.name]
		if len(rs) != len(inputs) {
			t.tie(tieBuild, map[string]string{"probe": p.name}, fmt.Sprintf("%d renderings for %d inputs", len(rs), len(inputs)))
			continue
		}
		for i, s := range inputs {
			w := rs[i]
			c.Count("")
			c.Hist("probe: " + map[byte]string{'b': "bare hole", '\'': "hole in '...'", '"': "hole in \"...\"", '`': "hole in `...`"}[p.pos])
			in := map[string]string{"probe": p.name, "template": p.pre + "{{ s }}" + p.post, "input": q(s), "rendered": q(w)}
			if strings.HasPrefix(w, "!") {
				t.prop(propPos, "probe-render-error", in, "rendering failed")
				continue
			}
			if !strings.HasPrefix(w, p.pre) || !strings.HasSuffix(w, p.post) || len(w) < len(p.pre)+len(p.post) {
				t.prop(propPos, "probe-static-text-changed", in, "the author's static text is not reproduced around the hole")
				continue
			}
			hole := w[len(p.pre) : len(w)-len(p.post)]
			refs = append(refs, ref{p, s, hole, w})
			v := val{kind: 's', s: s}
			if p.pos == 'b' {
				reqs = append(reqs, drv.Req{Fn: "outside", Args: [][]byte{v.wireBytes(), []byte(hole)}})
			} else {
				reqs = append(reqs, drv.Req{Fn: "inside_str", Args: [][]byte{[]byte(s), []byte(hole)}})
			}
		}
	}
	res := c.Model(reqs)
	for i, rf := range refs {
		a := res[i]
		in := map[string]string{"probe": rf.p.name, "template": rf.p.pre + "{{ s }}" + rf.p.post, "input": q(rf.s), "rendered": q(rf.whole)}
		if len(a) != 2 {
			t.tie(tieOut, in, "no model answer")
			continue
		}
		if string(a[0]) != rf.hole {
			in["model_hole"] = q(string(a[0]))
			t.tie(tieOut, in, "rendered hole differs from the model for the constructed position")
		}
		if rf.p.pos == 'b' {
			if cl := firstZero(a[1], bareClause); cl != "" {
				t.prop(propPos, "bare-"+cl, in, "a value in a bare hole fails the bare-position specification (clause "+cl+")")
			}
		} else {
			bits := a[1]
			// only the clauses of the literal kind the hole sits in, plus the kind-independent ones
			idx := map[byte][]int{'\'': {0, 1, 2, 3, 4}, '"': {0, 1, 2, 5, 6}, '`': {0, 1, 2, 7, 8}}[rf.p.pos]
			for _, j := range idx {
				if j >= len(bits) || bits[j] != '1' {
					t.prop(propPos, inlitShape(inlitClause[j], rf.s), in,
						"a value in a hole inside a string literal does not arrive as that string (clause "+inlitClause[j]+")")
					break
				}
			}
		}
	}
	// calls and JSON element rendered by generated code
	var creqs []drv.Req
	type cref struct {
		kind, s, w string
	}
	var crefs []cref
	for _, name := range []string{"CallAttr", "CallInline", "JSONData"} {
		if _, ok := gen["CallAttr"]; !ok {
			continue
		}
		rs := out[name]
		if len(rs) != len(inputs) {
			t.tie(tieBuild, map[string]string{"probe": name}, fmt.Sprintf("%d renderings for %d inputs", len(rs), len(inputs)))
			continue
		}
		for i, s := range inputs {
			c.Count("")
			c.Hist("probe: " + name)
			v := probeValue(s)
			crefs = append(crefs, cref{name, s, rs[i]})
			switch name {
			case "CallAttr", "CallInline":
				creqs = append(creqs, drv.Req{Fn: "safe_script", Args: [][]byte{[]byte(map[string]string{"CallAttr": "handler.onClick", "CallInline": "handler.onLoad"}[name]),
					append([]byte("v"), val{kind: 's', s: s}.wireBytes()...), append([]byte("v"), v.wireBytes()...), []byte("eevent")}[:map[string]int{"CallAttr": 4, "CallInline": 3}[name]]})
			default:
				creqs = append(creqs, drv.Req{Fn: "json_script", Args: [][]byte{[]byte("data"), []byte("application/json"), nil, v.wireBytes()}})
			}
		}
	}
	cres := c.Model(creqs)
	for i, rf := range crefs {
		a := cres[i]
		in := map[string]string{"probe": rf.kind, "input": q(rf.s), "rendered": q(rf.w)}
		switch rf.kind {
		case "CallAttr":
			const pre, post = "<button onclick=\"", "\">x</button>"
			if len(a) != 3 || !strings.HasPrefix(rf.w, pre) || !strings.HasSuffix(rf.w, post) {
				t.prop(propCall, "call-attr-shape", in, "unexpected rendering of an on* attribute call")
				continue
			}
			attr := rf.w[len(pre) : len(rf.w)-len(post)]
			// the attribute value is the call html-escaped once more by the attribute writer; decoding it once gives SafeScript's text
			if html.UnescapeString(attr) != string(a[0]) && attr != string(a[0]) {
				in["model_call"] = q(string(a[0]))
				t.tie(tieOut, in, "on* attribute value differs from the model's safe_script")
			}
			if strings.ContainsAny(attr, "\"<>") {
				t.prop(propCall, "call-attr-not-inert", in, "the on* attribute value contains a raw double quote or < >")
			}
		case "CallInline":
			if len(a) != 3 || rf.w != "<script>"+string(a[1])+"</script>" {
				if len(a) == 3 {
					in["model"] = q("<script>" + string(a[1]) + "</script>")
				}
				t.tie(tieOut, in, "inline call differs from the model's safe_script_inline")
			}
		default:
			if len(a) != 1 || rf.w != string(a[0]) {
				t.tie(tieOut, in, "JSON script element differs from the model")
			}
		}
	}
	c.Extra["probe_templates"] = len(scriptProbes) + 3
	c.Extra["probe_inputs"] = len(inputs)
}
