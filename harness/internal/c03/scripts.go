package c03

import (
	"fmt"
	"sort"
	"strings"
	"time"
	"unicode"
	"unicode/utf8"

	parser "github.com/a-h/templ/parser/v2"
	templruntime "github.com/a-h/templ/runtime"

	"verifharness/internal/core"
	"verifharness/internal/drv"
	"verifharness/internal/rng"
)

// A script template is the text of a <script> element with holes: static segments with a {{ }} expression between
// consecutive ones.  Its static text is generated from a grammar of JavaScript tokens - string literals of the three
// kinds whose bodies hold escape sequences (escaped backslashes, escaped quotes, runs of backslashes of either parity
// before the closing quote, \x \u \u{} escapes, line continuations), the other quote kinds, comment openers and tag
// openers inside literals, comments holding quotes, divisions - with holes inside literals and in script text.
//
// Nothing below tells the check where a hole "is": the template goes through the repository's parser, its parts are
// composed with the runtime's escapers exactly as the generator's code does (a sample is also generated, compiled and
// run), and the rendered script is judged by the extracted specification spec/JsScript.v: a JavaScript lexer must read,
// in the rendering, the token sequence of the author's template with every hole standing for its Go string as data.
type stmpl struct {
	segs  []string // static text; len(idx)+1 segments
	idx   []int    // value index of each hole
	kinds []byte   // how the generator built each hole: b ' " ` (statistics and the shape of a known finding only)
	feats []string
}

const sparams = 3

var paramNames = []string{"a", "b", "c"}

func (t stmpl) body() string {
	var sb strings.Builder
	for i, s := range t.segs {
		sb.WriteString(s)
		if i < len(t.idx) {
			sb.WriteString("{{ " + paramNames[t.idx[i]] + " }}")
		}
	}
	return sb.String()
}

func (t stmpl) source(name string) string {
	return fmt.Sprintf("templ %s(a string, b string, c string) {\n\t<script>%s</script>\n}\n\n", name, t.body())
}

func (t stmpl) wire() [][]byte {
	var a [][]byte
	for i, s := range t.segs {
		a = append(a, []byte(s))
		if i < len(t.idx) {
			a = append(a, []byte(fmt.Sprint(t.idx[i])))
		}
	}
	return a
}

// static text the templ syntax itself cannot carry, or that this family keeps out on purpose: "{{" in static text is an
// expression, "{" before a hole moves the hole, a backslash before a hole takes the hole's first brace with it,
// "</script" and "<!--" belong to the HTML level (counted by the specification, never generated here)
//
// Two junctions of line terminators with a hole are kept out as well (both stated where they belong):
//   - CR, a hole, then LF: with an EMPTY value the author's CR and LF meet as one CR LF - after a backslash the line
//     continuation swallows the LF (the clause cr_lf_kept of spec/JsScript.v ok_junction; props/C03.v
//     C03_ex_hole_after_backslash_cr), raw in a template literal the two line breaks cook to one.  No escaper can act
//     on an empty value; a template whose CR LF line ending has an expression between the CR and the LF is not produced;
//   - a hole followed by white space that is not ASCII (U+2028/9 here) and then "</": the parser takes the white space
//     with the expression and ends the contents at the "</" whatever the quote state; model/JsTrack.v skips ASCII white
//     space only (a stated limit of the model; "</" right after a hole is outside the tracker fragment anyway)
func (t stmpl) expressible() bool {
	for i, s := range t.segs {
		if strings.Contains(s, "{{") || strings.Contains(strings.ToLower(s), "</script") || strings.Contains(s, "<!--") {
			return false
		}
		if i < len(t.idx) && (strings.HasSuffix(s, "{") || oddBackslashes(s)) {
			return false
		}
		if i < len(t.idx) && strings.HasSuffix(s, "\r") {
			for j := i + 1; j < len(t.segs); j++ {
				if t.segs[j] != "" {
					if t.segs[j][0] == '\n' {
						return false
					}
					break
				}
			}
		}
		if i > 0 {
			ascii := strings.TrimLeft(s, " \t\n\v\f\r")
			if all := strings.TrimLeftFunc(s, unicode.IsSpace); all != ascii && strings.HasPrefix(all, "</") {
				return false
			}
		}
	}
	return true
}

func oddBackslashes(s string) bool {
	n := 0
	for len(s) > n && s[len(s)-1-n] == '\\' {
		n++
	}
	return n%2 == 1
}

// ---------------------------------------------------------------------------------------------------------
// generator

type sgen struct {
	r     *rng.R
	segs  []string
	idx   []int
	kinds []byte
	cur   strings.Builder
	feats map[string]bool
}

func (g *sgen) text(s string) {
	// never let static text spell "{{" or "${" by accident
	if c := g.last(); len(s) > 0 && s[0] == '{' && (c == '{' || c == '$') {
		g.cur.WriteByte(' ')
	}
	// ... nor across holes: "$", a hole whose value is empty, "{" is the author's own "${" as well (the known
	// junction of "$" with a hole is exercised through values that begin with "{")
	if len(s) > 0 && s[0] == '{' && g.cur.Len() == 0 {
		j := len(g.segs) - 1
		for j > 0 && g.segs[j] == "" {
			j--
		}
		if j >= 0 && strings.HasSuffix(g.segs[j], "$") {
			g.cur.WriteByte(' ')
		}
	}
	g.cur.WriteString(s)
}
func (g *sgen) last() byte {
	s := g.cur.String()
	if s == "" {
		return 0
	}
	return s[len(s)-1]
}
func (g *sgen) hole(kind byte) {
	if g.last() == '{' {
		g.cur.WriteByte(' ')
	}
	if g.last() == '$' && kind == '`' {
		g.feats["a $ directly before a hole in a template literal"] = true
	}
	if len(g.idx) > 0 && g.cur.Len() == 0 && kind != 'b' {
		g.feats["adjacent holes in a literal"] = true
	}
	g.segs = append(g.segs, g.cur.String())
	g.cur.Reset()
	g.idx = append(g.idx, g.r.Intn(sparams))
	g.kinds = append(g.kinds, kind)
	g.feats["hole: "+map[byte]string{'b': "in script text", '\'': "in '...'", '"': "in \"...\"", '`': "in `...`"}[kind]] = true
}
func (g *sgen) finish() stmpl {
	g.segs = append(g.segs, g.cur.String())
	var fs []string
	for f := range g.feats {
		fs = append(fs, f)
	}
	sort.Strings(fs)
	return stmpl{segs: g.segs, idx: g.idx, kinds: g.kinds, feats: fs}
}

var plainPieces = []string{"x", "abc", " ", "C:", "1", "%s", "-", ".", ", ", "(", ")", "=", ";", "k: ", "a b", "id-", "?q=", "#"}
var slashPieces = []string{"//", "/*", "*/", "/", "http://h/p", "//cdn.example.com/", "/* x */", "a/b"}
var markupPieces = []string{"<b>", "</b>", "<", ">", "&amp;", "<br/>", string([]byte{0xC3, 0xA9}), string([]byte{0xE2, 0x82, 0xAC}), string([]byte{0xF0, 0x9F, 0x98, 0x80})}
var escPieces = []string{"\\n", "\\t", "\\/", "\\x41", "\\u0041", "\\u{1F600}", "\\u{41}", "\\b", "\\v", "\\$", "\\{"}

func otherQuotes(q byte) []string {
	var o []string
	for _, c := range []byte{'\'', '"', '`'} {
		if c != q {
			o = append(o, string(c))
		}
	}
	return o
}

// one piece of a literal body of kind q; holes are pieces too
func (g *sgen) piece(q byte) {
	r := g.r
	switch r.Intn(16) {
	case 0, 1:
		g.text(rng.Pick(r, plainPieces))
	case 2:
		g.text(rng.Pick(r, otherQuotes(q)))
		g.feats["literal holding another quote kind"] = true
	case 3:
		g.text("\\" + string(q))
		g.feats["escaped quote"] = true
	case 4:
		g.text("\\\\")
		g.feats["escaped backslash"] = true
	case 5: // a run of k backslashes; an odd run escapes what follows it
		k := 1 + r.Intn(6)
		s := strings.Repeat("\\", k)
		if k%2 == 1 {
			s += rng.Pick(r, []string{string(q), string(q), rng.Pick(r, otherQuotes(q)), "n", "/", "x41"})
		}
		g.text(s)
		g.feats[fmt.Sprintf("run of %d backslashes", k)] = true
	case 6:
		g.text(rng.Pick(r, escPieces))
		g.feats["\\x \\u \\u{} and single-character escapes"] = true
	case 7:
		g.text(rng.Pick(r, slashPieces))
		g.feats["comment opener inside a literal"] = true
	case 8, 9, 10, 11:
		g.hole(q)
		if r.Intn(4) == 0 {
			g.text(rng.Pick(r, []string{" ", "  ", "\t"}))
		}
	case 12:
		g.text(rng.Pick(r, markupPieces))
	case 13:
		if q == '`' {
			g.text(rng.Pick(r, []string{"\n", "$", "$", "{", "}", "$ ", "\r\n"}))
			g.feats["template literal with raw line break, $ or braces"] = true
		} else {
			g.text(rng.Pick(r, plainPieces))
		}
	case 14: // a line continuation: backslash, then a line terminator in one of its five forms
		k := r.Intn(len(lineTerms))
		g.text("\\" + lineTerms[k].s)
		g.feats["line continuation"] = true
		g.feats["line continuation: backslash "+lineTerms[k].name] = true
	default:
		// a RAW line terminator in the body: part of the value in a template literal; in '...' and "..." it ends the
		// line inside the literal, which no JavaScript engine accepts (U+2028/9: since ES2019) - the parser's quote
		// state must not depend on it all the same
		if q == '`' || r.Intn(3) == 0 {
			k := r.Intn(len(lineTerms))
			g.text(lineTerms[k].s)
			if q == '`' {
				g.feats["raw "+lineTerms[k].name+" inside `...`"] = true
			} else {
				g.feats["raw "+lineTerms[k].name+" inside '...' / \"...\" (not a JavaScript literal)"] = true
			}
		} else {
			g.text(rng.Pick(r, plainPieces))
		}
	}
}

// the line terminators of ECMAScript 12.3 (CR LF counts as one)
var lineTerms = []struct{ name, s string }{{"LF", "\n"}, {"CR LF", "\r\n"}, {"CR", "\r"}, {"U+2028", lsStr}, {"U+2029", psStr}}

func (g *sgen) literal() {
	q := rng.Pick(g.r, []byte{'\'', '"', '`'})
	g.text(string(q))
	for n := g.r.Intn(6); n > 0; n-- {
		g.piece(q)
	}
	// a literal that ENDS in an escaped backslash (a path, a separator): the closing quote follows an even run
	if g.r.Intn(5) == 0 {
		g.text(strings.Repeat("\\\\", 1+g.r.Intn(3)))
		g.feats["escaped backslash directly before the closing quote"] = true
	}
	// a '...' or "..." literal that is not closed on its line: the closing quote is missing and the line ends (the text
	// after it is read with the quote still open by templ's parser, and not at all by a JavaScript engine)
	if q != '`' && g.r.Intn(20) == 0 {
		k := g.r.Intn(len(lineTerms))
		g.text(lineTerms[k].s)
		g.feats["literal not closed on its line (not valid JavaScript)"] = true
		return
	}
	g.text(string(q))
}

var commentTexts = []string{"don't", "say \"x\"", "a ` b", "plain", "it's \"both\" `", "a \\", "'", "x // y", "/* not nested"}
var blockTexts = []string{"it's", "\"", "`", "* /", "**", "/", "multi\nline 'x", "'\"`", "// x"}

func (g *sgen) comment() {
	if g.r.Bool() {
		g.text("// " + rng.Pick(g.r, commentTexts) + "\n")
		g.feats["line comment holding quotes"] = true
	} else {
		g.text("/* " + rng.Pick(g.r, blockTexts) + " */" + rng.Pick(g.r, []string{"", " ", "\n"}))
		g.feats["block comment holding quotes"] = true
	}
}

func (g *sgen) term(depth int) {
	switch g.r.Intn(10) {
	case 0, 1, 2, 3:
		g.literal()
	case 4, 5, 6:
		g.hole('b')
		if g.r.Intn(5) == 0 {
			g.text(" ")
		}
	case 7:
		g.text(rng.Pick(g.r, []string{"1", "x", "a.b", "null", "x / 2", "(a < b)", "a / b / c", "i++"}))
	default:
		if depth > 0 {
			g.text(rng.Pick(g.r, []string{"f(", "x.y(", "[", "(", "g(1, "}))
			g.term(depth - 1)
			g.text(rng.Pick(g.r, []string{")", "]", ")"}))
		} else {
			g.text("0")
		}
	}
}

func (g *sgen) statement() {
	g.text(rng.Pick(g.r, []string{"var a = ", "let b=", "const c = ", "x = ", "o.k = ", "return ", "f(", "if (a < b) x = "}))
	g.term(2)
	for n := g.r.Intn(3); n > 0; n-- {
		g.text(rng.Pick(g.r, []string{" + ", "+", ", ", " / ", " ? 1 : "}))
		g.term(1)
	}
}

func genScript(r *rng.R) stmpl {
	for {
		g := &sgen{r: r, feats: map[string]bool{}}
		if r.Intn(4) == 0 {
			g.text(rng.Pick(r, []string{"\n", "\n\t", " "}))
		}
		n := 1 + r.Intn(4)
		for i := 0; i < n; i++ {
			if r.Intn(5) == 0 {
				g.comment()
			}
			g.statement()
			last := i == n-1
			if last && r.Intn(3) == 0 {
				// the element ends right after the last term (no semicolon, perhaps white space)
				g.text(rng.Pick(r, []string{"", "", " ", "\n"}))
				g.feats["end tag directly after the last term"] = true
			} else {
				if r.Intn(8) == 0 {
					// a line terminator other than LF between two statements
					k := 1 + r.Intn(len(lineTerms)-1)
					g.text(rng.Pick(r, []string{";", "", ")"}) + lineTerms[k].s)
					g.feats["statements separated by "+lineTerms[k].name] = true
				} else {
					g.text(rng.Pick(r, []string{";", ";\n", "; ", ";\n\t", ")\n", "\n"}))
				}
				if r.Intn(6) == 0 {
					g.comment()
				}
			}
		}
		t := g.finish()
		if len(t.idx) > 0 && len(t.idx) <= 8 && t.expressible() {
			return t.withLineEndings(r)
		}
	}
}

// withLineEndings saves the template as an editor would: with LF line endings as generated, with CR LF line endings
// (every LF of the static text that does not already follow a CR becomes CR LF - inside literals, after the backslash of
// a line continuation, at the end of comments, between statements), or with a mixture of the two
func (t stmpl) withLineEndings(r *rng.R) stmpl {
	style := r.Intn(10)
	if style < 5 {
		t.feats = append(t.feats, "file saved with LF line endings")
		return t
	}
	mixed := style >= 8
	segs := make([]string, len(t.segs))
	changed := false
	for i, s := range t.segs {
		var sb strings.Builder
		for j := 0; j < len(s); j++ {
			if s[j] == '\n' && !(j > 0 && s[j-1] == '\r') && !(mixed && r.Bool()) {
				sb.WriteByte('\r')
				changed = true
			}
			sb.WriteByte(s[j])
		}
		segs[i] = sb.String()
	}
	t.segs = segs
	switch {
	case !changed:
		t.feats = append(t.feats, "file saved with LF line endings")
	case mixed:
		t.feats = append(t.feats, "file saved with mixed LF / CR LF line endings")
	default:
		t.feats = append(t.feats, "file saved with CR LF line endings")
	}
	sort.Strings(t.feats)
	return t
}

// crlfTwin is spec/JsScript.v [crlf] on the template: EVERY LF of the static text becomes CR LF
func (t stmpl) crlfTwin() stmpl {
	segs := make([]string, len(t.segs))
	for i, s := range t.segs {
		segs[i] = strings.ReplaceAll(s, "\n", "\r\n")
	}
	t.segs = segs
	t.feats = []string{"CR LF twin of a template the parser judges differently"}
	return t
}

// small exhaustive sweep over line terminators: for each quote kind and each of the five line-terminator forms, a literal
// that holds the terminator after a backslash (a line continuation), after an escaped backslash or a run of three, or raw,
// with a hole before it, directly after it or later on the continued line; a literal left open at the end of its line
// followed by statements with holes; terminators between a hole in script text and the next literal.  Every template ends
// in a hole in script text, so a quote state lost or kept wrongly shows in that hole as well.
func sweepLines() []stmpl {
	var out []stmpl
	add := func(segs []string, kinds string, feat string) {
		t := stmpl{segs: segs, kinds: []byte(kinds), feats: []string{"sweep: " + feat}}
		for i := range kinds {
			t.idx = append(t.idx, i%sparams)
		}
		if t.expressible() {
			out = append(out, t)
		}
	}
	for _, q := range []byte{'"', '\'', '`'} {
		Q := string(q)
		for _, lt := range lineTerms {
			T := lt.s
			cont := "line continuation (backslash " + lt.name + "), "
			raw := "raw " + lt.name + " in a literal, "
			end := ";" + T + "var b = "
			add([]string{"var a = " + Q + "x\\" + T + "y" + Q + end, ""}, "b", cont+"then a hole in script text")
			add([]string{"var a = " + Q + "x\\" + T, "y" + Q + end, ""}, Q+"b", cont+"hole directly after it")
			add([]string{"var a = " + Q + "x\\" + T + "  y ", " z" + Q + end, ""}, Q+"b", cont+"hole later on the continued line")
			add([]string{"var a = " + Q, "\\" + T + "y" + Q + end, ""}, Q+"b", cont+"hole before it")
			add([]string{"var a = " + Q + "x\\" + T, "\\" + T, Q + end, ""}, Q+Q+"b", cont+"twice, a hole after each")
			add([]string{"var a = " + Q + "x\\\\" + T, "y" + Q + end, ""}, Q+"b", "escaped backslash, "+raw+"hole after it")
			add([]string{"var a = " + Q + "x\\\\\\" + T, "y" + Q + end, ""}, Q+"b", "three backslashes and "+lt.name+" in a literal, hole after it")
			add([]string{"var a = " + Q + "x" + T, "y" + Q + end, ""}, Q+"b", raw+"hole after it")
			add([]string{"var a = " + Q, T + "y" + Q + end, ""}, Q+"b", raw+"hole before it")
			add([]string{"var a = " + Q + "x" + T + "y" + Q + end, ""}, "b", raw+"then a hole in script text")
			// terminators in script text around literals
			add([]string{"var a = ", T + "var b = " + Q, Q + T + "var c = ", ""}, "b"+Q+"b", lt.name+" between statements, holes in script text and in a literal")
			add([]string{"f(" + Q + "x" + Q + "," + T + Q, Q + "," + T, ")"}, Q+"b", lt.name+" between two literals")
			if q == '`' {
				continue // a template literal goes on over line ends: nothing is left open
			}
			// the literal is left open at the end of its line
			add([]string{"var a = " + Q + "x" + T + "var b = ", ";" + T + "var c = " + Q, Q + ";"}, "b"+Q, "literal not closed on its line, holes on the next lines")
			add([]string{"var a = " + Q + "x;" + T + "// it" + Q + "s" + T + "var b = ", ";"}, "b", "literal not closed on its line, the same quote in a comment on the next line")
		}
	}
	return out
}

// small exhaustive sweep: every literal body of up to maxLen pieces over a small alphabet, for each quote kind, followed by
// a hole in script text (directly before the end tag, and before a semicolon); and bodies with a hole inside
func sweepScripts(maxLen int) []stmpl {
	var out []stmpl
	for _, q := range []byte{'"', '\'', '`'} {
		oq := otherQuotes(q)[0]
		alpha := []string{"x", "\\\\", "\\" + string(q), oq, "//", "/*", "\\n", "\\\\\\" + string(q), "\\\\\\\\"}
		var bodies [][]string
		var rec func(cur []string, n int)
		rec = func(cur []string, n int) {
			bodies = append(bodies, append([]string{}, cur...))
			if n == 0 {
				return
			}
			for _, a := range alpha {
				rec(append(cur, a), n-1)
			}
		}
		rec(nil, maxLen)
		sort.SliceStable(bodies, func(i, j int) bool { return len(bodies[i]) < len(bodies[j]) })
		for _, b := range bodies {
			lit := string(q) + strings.Join(b, "") + string(q)
			for _, tail := range []string{"", ";"} {
				out = append(out, stmpl{segs: []string{"var a = " + lit + "; var b = ", tail}, idx: []int{0}, kinds: []byte{'b'}, feats: []string{"sweep: literal then a hole in script text"}})
			}
		}
		for _, b := range bodies {
			if len(b) > maxLen-1 && maxLen > 1 {
				continue
			}
			for cut := 0; cut <= len(b); cut++ {
				pre := "var a = " + string(q) + strings.Join(b[:cut], "")
				post := strings.Join(b[cut:], "") + string(q) + ";\nvar b = "
				t := stmpl{segs: []string{pre, post, ""}, idx: []int{0, 1}, kinds: []byte{q, 'b'}, feats: []string{"sweep: hole inside a literal, then a hole in script text"}}
				if t.expressible() {
					out = append(out, t)
				}
			}
		}
	}
	return out
}

// ---------------------------------------------------------------------------------------------------------
// the repository's parser on one template

type parsedScript struct {
	ok    bool   // parsed, and the script element's parts spell the body again
	why   string // when !ok
	flags string // one byte per recognised expression: '1' InsideStringLiteral, '0' not
	parts []scriptPart
}
type scriptPart struct {
	js     string
	isGo   bool
	expr   string
	inside bool
	trail  string
}

// parserHung is set when the repository's parser did not come back on some template: the goroutine cannot be stopped,
// so no further template is handed to the parser in this run
var parserHung bool

// parseTimed runs the repository's parser with a deadline (a changed parser may loop on input the pinned tests never see)
func parseTimed(src string) (tf parser.TemplateFile, err error) {
	if parserHung {
		return parser.TemplateFile{}, fmt.Errorf("parser not called: it did not terminate on an earlier template")
	}
	type res struct {
		tf  parser.TemplateFile
		err error
	}
	ch := make(chan res, 1)
	go func() {
		tf, err := parser.ParseString(src)
		ch <- res{tf, err}
	}()
	select {
	case r := <-ch:
		return r.tf, r.err
	case <-time.After(20 * time.Second):
		parserHung = true
		return parser.TemplateFile{}, fmt.Errorf("the parser did not terminate within 20 s")
	}
}

func parseScript(t stmpl) parsedScript {
	body := t.body()
	tf, err := parseTimed("package p\n\n" + t.source("T"))
	if err != nil {
		return parsedScript{why: "parse error: " + err.Error()}
	}
	var se *parser.ScriptElement
	n := 0
	for _, node := range tf.Nodes {
		ht, ok := node.(parser.HTMLTemplate)
		if !ok {
			continue
		}
		for _, ch := range ht.Children {
			switch e := ch.(type) {
			case parser.ScriptElement:
				se = &e
				n++
			case parser.Whitespace:
			default:
				n += 2
			}
		}
	}
	if se == nil || n != 1 {
		return parsedScript{why: "the template's body is not exactly one script element"}
	}
	return partsOf(*se, body)
}

// partsOf: the parts of one parsed script element; ok when they spell the expected body again
func partsOf(se parser.ScriptElement, body string) parsedScript {
	p := parsedScript{}
	var sb strings.Builder
	for _, c := range se.Contents {
		switch {
		case c.Value != nil:
			p.parts = append(p.parts, scriptPart{js: *c.Value})
			sb.WriteString(*c.Value)
		case c.GoCode != nil:
			e := strings.TrimSpace(c.GoCode.Expression.Value)
			p.parts = append(p.parts, scriptPart{isGo: true, expr: e, inside: c.InsideStringLiteral, trail: string(c.GoCode.TrailingSpace)})
			sb.WriteString("{{ " + e + " }}" + string(c.GoCode.TrailingSpace))
			if c.InsideStringLiteral {
				p.flags += "1"
			} else {
				p.flags += "0"
			}
		}
	}
	if sb.String() != body {
		return parsedScript{why: "the script element's parts do not spell the body: " + q(sb.String())}
	}
	p.ok = true
	return p
}

// what the generator's code does with the parts (generator.writeScriptContents): static text verbatim, each expression
// through the escaper its flag selects, then its trailing white space
func (p parsedScript) compose(vals []string) (string, error) {
	var sb strings.Builder
	for _, part := range p.parts {
		if !part.isGo {
			sb.WriteString(part.js)
			continue
		}
		i := strings.Index("abc", part.expr)
		if i < 0 || len(part.expr) != 1 {
			return "", fmt.Errorf("unexpected expression %q", part.expr)
		}
		var s string
		var err error
		if part.inside {
			s, err = templruntime.ScriptContentInsideStringLiteral(vals[i])
		} else {
			s, err = templruntime.ScriptContentOutsideStringLiteral(vals[i])
		}
		if err != nil {
			return "", err
		}
		sb.WriteString(s + part.trail)
	}
	return sb.String(), nil
}

// ---------------------------------------------------------------------------------------------------------
// values

var scriptAttack = []string{"alert(1)", "alert(document.cookie)", "\"", "'", "`", "\\", "</script>", "${x}", "{x}", "{alert(1)}", "*/", "//", "/*", "\n", "\r\n",
	"\"+alert(1)+\"", "';alert(1);//", "`+alert(1)+`", "\\\"", "\\'", "x", "", " ", "\\\\", "-->", "<!--", "0", "u0041", "{", "}", "$", "$(", "a\"b'c`d", lsStr, psStr, "1;alert(1)", "\\u0027"}

func scriptValues(r *rng.R, validOnly bool) []string {
	vs := make([]string, sparams)
	for i := range vs {
		for {
			switch r.Intn(3) {
			case 0:
				vs[i] = rng.Pick(r, scriptAttack)
			case 1:
				vs[i] = rng.Pick(r, scriptAttack) + rng.Pick(r, scriptAttack)
			default:
				vs[i] = randString(r)
			}
			if !validOnly || utf8.ValidString(vs[i]) {
				break
			}
		}
	}
	return vs
}

// the narrow, decidable shape of the known finding: in a template literal the author's "$" (after an even run of
// backslashes) stands directly before a hole, and the escaped form of that hole's value begins with "{"
func dollarBeforeHole(t stmpl, vals []string) []int {
	var hit []int
	for i, k := range t.kinds {
		if k != '`' || !strings.HasSuffix(t.segs[i], "$") || oddBackslashes(strings.TrimSuffix(t.segs[i], "$")) {
			continue
		}
		if e, _ := templruntime.ScriptContentInsideStringLiteral(vals[t.idx[i]]); strings.HasPrefix(e, "{") {
			hit = append(hit, i)
		}
	}
	return hit
}

// an in-literal hole (by the specification's own positions) directly followed, white space apart, by a comment opener
func commentAfterHole(t stmpl, positions string) bool {
	for i := range t.idx {
		if i < len(positions) && positions[i] == '1' {
			rest := strings.TrimLeft(t.segs[i+1], " \t\r\n\v\f")
			if strings.HasPrefix(rest, "//") || strings.HasPrefix(rest, "/*") {
				return true
			}
		}
	}
	return false
}

func decodeToks(a [][]byte) (want, got []string) {
	cur := &want
	for _, b := range a {
		if string(b) == "|" {
			cur = &got
			continue
		}
		if len(b) == 0 {
			continue
		}
		name := map[byte]string{'C': "text", 'S': "string", 's': "string(ill-formed)", 'K': "comment", 'X': "stop"}[b[0]]
		*cur = append(*cur, name+" "+q(string(b[1:])))
	}
	return
}

// ---------------------------------------------------------------------------------------------------------

type scriptCase struct {
	t    stmpl
	p    parsedScript
	vals []string
	out  string
}

// a few short judged cases, restated as Coq goals by kernelCheck (the extraction path of the script-level functions)
type kernelScript struct {
	t    stmpl
	vals []string
	out  string
	bits string
}

var kernelScripts []kernelScript

// sweep scripts handed to node in the thorough tier (node.go): the rendering, and the values the specification's lexer
// gives the two string tokens of the template
type nodeScriptCase struct{ src, tpl, a, b string }

var nodeScripts []nodeScriptCase

type scriptPlan struct {
	all      []stmpl
	compiled []int // indices into all: generated, compiled and run as well
}

func planScripts(c *core.Ctx) scriptPlan {
	var pl scriptPlan
	pl.all = append(pl.all, sweepLines()...)
	pl.all = append(pl.all, sweepScripts(c.N(3, 4))...)
	nsweep := len(pl.all)
	r := c.Rng.Fork()
	for i := 0; i < c.N(6000, 100000); i++ {
		pl.all = append(pl.all, genScript(r))
	}
	// the compiled sample: spread over the sweep, plus random ones
	for k := 0; k < c.N(24, 120); k++ {
		pl.compiled = append(pl.compiled, r.Intn(nsweep))
	}
	for k := 0; k < c.N(36, 180); k++ {
		pl.compiled = append(pl.compiled, nsweep+r.Intn(len(pl.all)-nsweep))
	}
	return pl
}

func famScripts(c *core.Ctx, t *tally, pl scriptPlan, sc *scratch, compiledOK map[int]bool) {
	const (
		tieTrack    = "scripts: model tracker (model/JsTrack.v) = parser/v2/scriptparser.go - the expressions it recognises, their InsideStringLiteral flags, the end of the contents"
		tieRender   = "scripts: model render = the parser's parts composed with the runtime escapers as generator.writeScriptContents does"
		tieCompiled = "scripts: the generated, compiled code renders that composition (sample of the templates)"
		propScript  = "scripts: a JavaScript lexer reads in the rendered script the token sequence of the author's template with every hole as data (spec/JsScript.v confined)"
		tieLines    = "scripts: the parser gives a template saved with CR LF line endings the verdicts it gives the LF file - same expressions, same InsideStringLiteral flags, accepted alike (C03_tracker_line_endings)"
	)
	t.declare("tie", tieTrack)
	t.declare("tie", tieLines)
	t.declare("tie", tieRender)
	t.declare("tie", tieCompiled)
	t.declare("prop", propScript)
	r := c.Rng.Fork()
	var cases []scriptCase
	var reqs []drv.Req
	all := append([]stmpl{}, pl.all...)
	parsed := make([]parsedScript, 0, len(all))
	rejected, twins := 0, 0
	for i := 0; i < len(all); i++ {
		tp := all[i]
		p := parseScript(tp)
		parsed = append(parsed, p)
		if i < len(pl.all) && strings.Contains(tp.body(), "\n") {
			// the same template saved with CR LF line endings: the model tracker's verdicts are proved to be the same
			// (for every template, JavaScript or not), so the parser's must be.  A twin judged differently is rendered
			// and judged by the specification like every other template
			tw := tp.crlfTwin()
			p2 := parseScript(tw)
			twins++
			if p2.ok != p.ok || p2.flags != p.flags {
				t.tie(tieLines, map[string]any{"template_lf": "<script>" + tp.body() + "</script>", "template_crlf": "<script>" + tw.body() + "</script>",
					"parser_lf": map[string]any{"accepted": p.ok, "flags": p.flags, "why": p.why}, "parser_crlf": map[string]any{"accepted": p2.ok, "flags": p2.flags, "why": p2.why}},
					"the parser's verdicts depend on how the lines of the template end")
				if len(all) < len(pl.all)+200 {
					all = append(all, tw)
				}
			}
		}
		adj := false
		for _, f := range tp.feats {
			c.Hist("script: " + f)
			if f == "adjacent holes in a literal" {
				adj = true
			}
		}
		c.Hist(fmt.Sprintf("script: %d holes", len(tp.idx)))
		if !p.ok {
			rejected++
			c.Hist("script: not accepted by the parser (no rendering to judge)")
			if strings.Contains(p.why, "did not terminate within") {
				t.tie(tieTrack, map[string]string{"template": "<script>" + tp.body() + "</script>"}, p.why)
			}
		}
		nv := 3
		if i%7 == 0 {
			nv = 6
		}
		for k := 0; k < nv; k++ {
			var vals []string
			if k == 0 {
				vals = []string{"alert(1)", "{alert(2)}", "\\\"';alert(3)//"}
			} else {
				vals = scriptValues(r, adj)
			}
			cs := scriptCase{t: tp, p: p, vals: vals}
			if p.ok {
				out, err := p.compose(vals)
				if err != nil {
					t.tie(tieRender, map[string]string{"template": tp.body()}, "composition failed: "+err.Error())
					continue
				}
				cs.out = out
			}
			args := [][]byte{[]byte(fmt.Sprint(sparams))}
			for _, v := range vals {
				args = append(args, []byte(v))
			}
			args = append(args, []byte(cs.out))
			args = append(args, tp.wire()...)
			reqs = append(reqs, drv.Req{Fn: "script", Args: args})
			cases = append(cases, cs)
			if !p.ok {
				break // one request is enough to compare the tracker
			}
		}
	}
	res := c.Model(reqs)
	bodyLen := func(tp stmpl) int {
		n := len(tp.idx)
		for _, s := range tp.segs {
			n += len(s)
		}
		return n
	}
	for i, cs := range cases {
		a := res[i]
		body := cs.t.body()
		in := map[string]any{"template": "<script>" + body + "</script>", "values": map[string]string{"a": q(cs.vals[0]), "b": q(cs.vals[1]), "c": q(cs.vals[2])}}
		key := ""
		if strings.ContainsAny(body, "\\/") {
			key = "script:" + body
		}
		c.Count(key)
		if len(a) < 7 {
			t.tie(tieTrack, in, "the model gave no answer")
			continue
		}
		bits, positions, mflags, mend, mrender, inFragment := string(a[0]), string(a[1]), string(a[2]), string(a[3]), string(a[4]), string(a[5]) == "1"
		modelOK := mend == fmt.Sprint(bodyLen(cs.t)) && !strings.Contains(mflags, "x")
		mf := strings.TrimSuffix(mflags, "E")
		in["parser_flags"] = cs.p.flags
		in["model_flags"] = mflags
		in["lexical_positions"] = positions
		if !cs.p.ok {
			// the parser did not take the template as one script element with this body: the model must say why
			if modelOK {
				in["parser"] = cs.p.why
				t.tie(tieTrack, in, "the model tracker accepts a template the parser does not")
			}
			continue
		}
		in["rendered"] = q(cs.out)
		if !modelOK && !strings.Contains(mflags, "x") {
			in["model_end"] = mend
			t.tie(tieTrack, in, "the parser accepts a template whose contents the model tracker ends elsewhere")
			continue
		}
		if strings.ReplaceAll(mf, "x", "") != cs.p.flags {
			t.tie(tieTrack, in, "the model tracker's flags differ from the parser's InsideStringLiteral flags")
		} else if !strings.Contains(mflags, "x") && mrender != cs.out {
			in["model_rendered"] = q(mrender)
			t.tie(tieRender, in, "the model's rendering differs")
		}
		if strings.Contains(mflags, "x") {
			continue // an expression the parser reads as script text: nothing was substituted
		}
		c.Hist("script: rendered and judged")
		if len(kernelScripts) < 8 && len(cs.out) < 60 && len(cs.vals[0])+len(cs.vals[1])+len(cs.vals[2]) < 40 && (i%97 == 0 || (bits != "11" && len(kernelScripts) < 3)) {
			kernelScripts = append(kernelScripts, kernelScript{cs.t, cs.vals, cs.out, bits})
		}
		if inFragment {
			c.Hist("script: rendered and judged, inside the fragment of C03_script_structure_partial")
		}
		if bits == "11" {
			if len(cs.t.idx) <= 4 && len(body) <= 160 && utf8.ValidString(body) {
				histPool = append(histPool, cs)
			}
			if !c.Quick() && len(cs.t.feats) == 1 && strings.HasPrefix(cs.t.feats[0], "sweep:") && len(nodeScripts) < 60000 &&
				utf8.ValidString(cs.vals[0]) && utf8.ValidString(cs.vals[1]) {
				// exactly two string tokens, every token well-formed: then node must agree on both values
				var strs []string
				clean := true
				for _, b := range a[6:] {
					if string(b) == "|" {
						break
					}
					switch {
					case len(b) > 0 && b[0] == 'S':
						strs = append(strs, string(b[1:]))
					case len(b) > 0 && (b[0] == 's' || b[0] == 'X'):
						clean = false
					}
				}
				if clean && len(strs) == 2 && utf8.ValidString(strs[0]) && utf8.ValidString(strs[1]) {
					nodeScripts = append(nodeScripts, nodeScriptCase{cs.out, body, strs[0], strs[1]})
				}
			}
			continue
		}
		in["in_theorem_fragment"] = fmt.Sprint(inFragment)
		want, got := decodeToks(a[6:])
		in["tokens_of_template"] = want
		in["tokens_of_rendering"] = got
		shape := "script-tokens-differ"
		// where the template's lexing stops (it is not JavaScript from there on) the holes behind the stop have no lexical
		// position: the parser's flags are compared with the positions there are
		misjudged := positions != cs.p.flags
		if n := len(want); n > 0 && strings.HasPrefix(want[n-1], "stop ") && len(positions) <= len(cs.p.flags) {
			misjudged = positions != cs.p.flags[:len(positions)]
		}
		switch {
		case len(bits) == 2 && bits[0] == '1':
			shape = "script-end-places-differ"
		case misjudged && commentAfterHole(cs.t, positions):
			shape = "comment-opener-after-hole-in-literal"
		case misjudged:
			shape = "hole-position-misjudged"
		default:
			// is the failure exactly the known "$" + "{" junction?  Only if every such hole, given a harmless first
			// character, leaves a rendering the specification accepts
			if hit := dollarBeforeHole(cs.t, cs.vals); len(hit) > 0 {
				v2 := append([]string{}, cs.vals...)
				for _, h := range hit {
					if !strings.HasPrefix(v2[cs.t.idx[h]], "x") {
						v2[cs.t.idx[h]] = "x" + v2[cs.t.idx[h]]
					}
				}
				if len(dollarBeforeHole(cs.t, v2)) == 0 {
					if out2, err := cs.p.compose(v2); err == nil {
						args := [][]byte{[]byte(fmt.Sprint(sparams))}
						for _, v := range v2 {
							args = append(args, []byte(v))
						}
						args = append(args, []byte(out2))
						args = append(args, cs.t.wire()...)
						if r2 := c.Model([]drv.Req{{Fn: "script", Args: args}}); len(r2) == 1 && len(r2[0]) > 0 && string(r2[0][0]) == "11" {
							shape = "dollar-before-hole-in-template-literal"
						}
					}
				}
			}
		}
		detail := "the rendered script does not lex as the author's template with the values as data: "
		switch shape {
		case "hole-position-misjudged", "comment-opener-after-hole-in-literal":
			detail += "the parser's InsideStringLiteral flags " + cs.p.flags + " differ from the holes' lexical positions " + positions + ", so a value went through the wrong escaper"
		case "dollar-before-hole-in-template-literal":
			detail += "the author's $ and the value's { form a template interpolation"
		case "script-end-places-differ":
			detail += "the rendering has a different number of </script / <!-- places than the author's text"
		default:
			detail += "first differing token: " + firstDiff(want, got)
		}
		if shape == "dollar-before-hole-in-template-literal" {
			t.finding(propScript, shape, in, detail)
		} else {
			t.prop(propScript, shape, in, detail)
		}
	}
	c.Extra["script_templates"] = len(all)
	c.Extra["script_templates_parsed_again_with_crlf_line_endings"] = twins
	c.Extra["script_templates_rejected_by_parser"] = rejected
	c.Extra["script_renderings_judged"] = len(cases)

	// the compiled sample: the generated code's own output for the same templates and values
	if sc == nil {
		return
	}
	var lines []string
	type cref struct {
		i    int
		vals []string
	}
	var crefs []cref
	for _, i := range pl.compiled {
		if !compiledOK[i] || !parsed[i].ok {
			continue
		}
		for k := 0; k < 4; k++ {
			vals := scriptValues(r, true)
			if k == 0 {
				vals = []string{"alert(1)", "{alert(2)}", "\\\"';alert(3)//"}
			}
			lines = append(lines, fmt.Sprintf("S S%d %s %s %s", i, hx(vals[0]), hx(vals[1]), hx(vals[2])))
			crefs = append(crefs, cref{i, vals})
		}
	}
	outs, err := sc.runLines(lines)
	if err != nil || len(outs) != len(crefs) {
		t.tie(tieCompiled, map[string]string{"compiled": "run"}, fmt.Sprintf("%v (%d answers for %d requests)", err, len(outs), len(crefs)))
		return
	}
	var creqs []drv.Req
	for j, cr := range crefs {
		c.Count("")
		c.Hist("script: compiled template rendered")
		want, _ := parsed[cr.i].compose(cr.vals)
		if outs[j] != "<script>"+want+"</script>" {
			t.tie(tieCompiled, map[string]string{"template": pl.all[cr.i].body(), "values": fmt.Sprintf("%q", cr.vals), "compiled": q(outs[j]), "composition": q("<script>" + want + "</script>")},
				"the compiled template's output differs from the composition of the parser's parts")
		}
		// the compiled code's own output under the specification
		body := strings.TrimSuffix(strings.TrimPrefix(outs[j], "<script>"), "</script>")
		args := [][]byte{[]byte(fmt.Sprint(sparams))}
		for _, v := range cr.vals {
			args = append(args, []byte(v))
		}
		args = append(args, []byte(body))
		args = append(args, pl.all[cr.i].wire()...)
		creqs = append(creqs, drv.Req{Fn: "script", Args: args})
	}
	for j, a := range c.Model(creqs) {
		cr := crefs[j]
		if len(a) < 7 || string(a[0]) == "11" || len(dollarBeforeHole(pl.all[cr.i], cr.vals)) > 0 {
			continue
		}
		want, got := decodeToks(a[6:])
		t.prop(propScript, "script-tokens-differ", map[string]any{"template": "<script>" + pl.all[cr.i].body() + "</script>", "values": fmt.Sprintf("%q", cr.vals), "rendered_by_compiled_code": q(outs[j]),
			"tokens_of_template": want, "tokens_of_rendering": got}, "the compiled template's output does not lex as the author's template with the values as data: first differing token: "+firstDiff(want, got))
	}
	c.Extra["script_templates_compiled"] = len(crefs) / 4
}

func firstDiff(want, got []string) string {
	for i := 0; i < len(want) || i < len(got); i++ {
		w, g := "(none)", "(none)"
		if i < len(want) {
			w = want[i]
		}
		if i < len(got) {
			g = got[i]
		}
		if w != g {
			return fmt.Sprintf("#%d template %s, rendering %s", i, w, g)
		}
	}
	return "(none)"
}
