package c03

import (
	"bytes"
	"encoding/hex"
	"fmt"
	"os/exec"
	"strings"
	"unicode/utf8"

	templruntime "github.com/a-h/templ/runtime"

	"verifharness/internal/core"
	"verifharness/internal/drv"
)

// nodeOracle (thorough tier, supporting evidence only): node evaluates the emitted JavaScript.
//   strings: for each of the three literal kinds,  <quote> + emitted + <quote>  must evaluate to the Go string
//            (as node's UTF-8 decoder reads it, i.e. with invalid bytes as U+FFFD);
//   values:  the bare emitted text must evaluate to a value whose JSON.stringify equals that of JSON.parse of the same text
//            (reading it as JavaScript and reading it as JSON agree).
// Source text is handed over as hex on stdin and evaluated with new Function inside try/catch, one case at a time.
const nodeScript = `
const rl=require('readline').createInterface({input:process.stdin,crlfDelay:Infinity});
const dec=new TextDecoder('utf-8');
const out=[];
function ev(src){ try { return {ok:true,v:(new Function('return ('+src+'\n)'))()}; } catch(e){ return {ok:false,e:String(e)}; } }
rl.on('line',l=>{
  const f=l.split(' ');
  const kind=f[0];
  const un=h=>h==='-'?'':dec.decode(Buffer.from(h,'hex'));
  if(kind==='S'){
    const want=un(f[1]), emitted=un(f[2]);
    let bad=[];
    for(const q of ["'",'"','` + "`" + `']){
      const r=ev(q+emitted+q);
      if(!r.ok) bad.push(q+':error:'+r.e); else if(r.v!==want) bad.push(q+':value');
    }
    out.push(bad.length?('BAD '+bad.join(';')):'OK');
  } else if(kind==='Q'){
    const qt=un(f[1]), want=un(f[2]), body=un(f[3]);
    const r=ev(qt+body+qt);
    if(!r.ok) out.push('BAD error:'+r.e); else if(r.v!==want) out.push('BAD value'); else out.push('OK');
  } else if(kind==='V'){
    const emitted=un(f[1]);
    const r=ev(emitted);
    let p; try{ p=JSON.stringify(JSON.parse(emitted)); }catch(e){ p='!parse'; }
    if(!r.ok) out.push('BAD error:'+r.e); else if(JSON.stringify(r.v)!==p) out.push('BAD value'); else out.push('OK');
  } else if(kind==='P'){
    // a whole rendered script that defines a and b: node's values of a and b against the specification's
    const dec2=new TextDecoder('utf-8',{ignoreBOM:true});   // keep a leading U+FEFF of a value
    const un2=h=>h==='-'?'':dec2.decode(Buffer.from(h,'hex'));
    const src=un2(f[1]), wa=un2(f[2]), wb=un2(f[3]);
    let r; try { r={ok:true,v:(new Function(src+'\n;return [a,b]'))()}; } catch(e){ r={ok:false,e:String(e)}; }
    if(!r.ok) out.push('BAD error:'+r.e); else if(r.v[0]!==wa) out.push('BAD a'); else if(r.v[1]!==wb) out.push('BAD b'); else out.push('OK');
  } else out.push('?');
});
rl.on('close',()=>{console.log(out.join('\n'))});
`

func hx(s string) string {
	if s == "" {
		return "-"
	}
	return hex.EncodeToString([]byte(s))
}

func nodeOracle(c *core.Ctx) {
	if _, err := exec.LookPath("node"); err != nil {
		c.Extra["node_oracle"] = "node not found; skipped"
		return
	}
	var strs []string
	strs = append(strs, vectors...)
	strs = append(strs, genSingles(0x3000)...)
	strs = append(strs, genPairs([][2]rune{{0, 0x100}, {0x2026, 0x202C}})...)
	strs = append(strs, genInvalid(false)...)
	r := c.Rng.Fork()
	for i := 0; i < 40000; i++ {
		strs = append(strs, randString(r))
	}
	vs := genValues(c, 20000)
	var in bytes.Buffer
	type item struct{ desc string }
	var items []item
	for _, s := range strs {
		e, _ := templruntime.ScriptContentInsideStringLiteral(s)
		fmt.Fprintf(&in, "S %s %s\n", hx(s), hx(e))
		items = append(items, item{"string " + q(s) + " emitted " + q(e)})
	}
	for _, v := range vs {
		e, err := templruntime.ScriptContentOutsideStringLiteral(v.goValue())
		if err != nil {
			continue
		}
		fmt.Fprintf(&in, "V %s\n", hx(e))
		items = append(items, item{"value " + v.describe() + " emitted " + q(e)})
	}
	nVals := len(items) - len(strs)
	// the specification itself against node, on UNESCAPED text: whenever spec/JsLex.v says a body closes at its end and
	// denotes v, node must evaluate the literal to v (the converse need not hold: the specification is conservative)
	{
		var raws []string
		raws = append(raws, vectors...)
		for i := 0; i < 60000; i++ {
			raws = append(raws, randString(r))
		}
		quotes := []string{"'", "\"", "`"}
		var reqs []drv.Req
		for _, s := range raws {
			for _, qt := range quotes {
				reqs = append(reqs, drv.Req{Fn: "unescape", Args: [][]byte{[]byte(qt), []byte(s)}}, drv.Req{Fn: "lex", Args: [][]byte{[]byte(qt), []byte(s + qt + ";X")}})
			}
		}
		res := c.Model(reqs)
		accepted := 0
		for i, s := range raws {
			for j, qt := range quotes {
				u, l := res[2*(3*i+j)], res[2*(3*i+j)+1]
				if !utf8.ValidString(s) {
					continue // the specification reads bytes; on ill-formed text its value is exact only up to U+FFFD substitution
				}
				if len(u) == 2 && string(u[0]) == "1" && len(l) == 2 && string(l[0]) == "C" && string(l[1]) == fmt.Sprint(len(s)) {
					accepted++
					fmt.Fprintf(&in, "Q %s %s %s\n", hx(qt), hx(string(u[1])), hx(s))
					items = append(items, item{"specification accepts " + qt + " body " + q(s) + " as denoting " + q(string(u[1]))})
				}
			}
		}
		c.Extra["node_spec_bodies_accepted"] = fmt.Sprintf("%d of %d unescaped (body, quote) pairs are well-formed by the specification and were evaluated by node", accepted, 3*len(raws))
	}
	// whole scripts: the sweep templates (var a = <literal, perhaps holding a hole>; var b = <hole>) as rendered by the parser's
	// parts and the runtime's escapers, evaluated by node; a and b must be the values the specification's lexer gives the two
	// string tokens of the TEMPLATE (the literal's value around the Go string; the Go string)
	nScripts := 0
	for _, ns := range nodeScripts {
		fmt.Fprintf(&in, "P %s %s %s\n", hx(ns.src), hx(ns.a), hx(ns.b))
		items = append(items, item{"script " + q(ns.src) + " from template " + q(ns.tpl) + ": specification says a = " + q(ns.a) + ", b = " + q(ns.b)})
		nScripts++
	}
	c.Extra["node_whole_scripts"] = nScripts
	cmd := exec.Command("timeout", "900", "node", "-e", nodeScript)
	cmd.Stdin = &in
	var errb bytes.Buffer
	cmd.Stderr = &errb
	o, err := cmd.Output()
	if err != nil {
		c.Extra["node_oracle"] = "node failed: " + err.Error() + " " + errb.String()
		c.Oblige("contract", "node evaluates the emitted JavaScript to the intended values (supporting evidence)", false, errb.String())
		return
	}
	lines := strings.Split(strings.TrimRight(string(o), "\n"), "\n")
	if len(lines) != len(items) {
		c.Oblige("contract", "node evaluates the emitted JavaScript to the intended values (supporting evidence)", false, fmt.Sprintf("%d answers for %d cases", len(lines), len(items)))
		return
	}
	bad := 0
	first := ""
	var all []string
	for i, l := range lines {
		if l != "OK" {
			bad++
			if first == "" {
				first = items[i].desc + ": " + l
			}
			if len(all) < 40 {
				all = append(all, items[i].desc+": "+l)
			}
		}
	}
	if bad > 0 {
		c.Extra["node_disagreements"] = all
	}
	c.Extra["node_oracle"] = map[string]any{"strings_x3_literal_kinds": len(strs), "values": nVals, "specification_bodies": len(items) - len(strs) - nVals - nScripts, "whole_scripts": nScripts, "disagreements": bad, "first": first}
	c.Oblige("contract", "node evaluates the emitted JavaScript to the intended values (supporting evidence)", bad == 0, first)
}
