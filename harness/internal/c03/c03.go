// Package c03: Go values placed into JavaScript arrive as data only.
package c03

import (
	"bytes"
	"context"
	"encoding/json"
	"fmt"
	"html"
	"reflect"
	"strings"
	"unicode/utf8"

	"github.com/a-h/templ"
	templruntime "github.com/a-h/templ/runtime"

	"verifharness/internal/core"
	"verifharness/internal/drv"
	"verifharness/internal/rng"
)

func init() { core.Register("C03", Run) }

var inlitClause = []string{"clean", "raw-ls-ps", "script-end", "single-closes", "single-value", "double-closes", "double-value", "backtick-closes", "backtick-value"}
var bareClause = []string{"cool", "raw-ls-ps", "script-end"}
var jstrClause = []string{"starts-with-quote", "double-closes", "double-value"}

// firstZero returns the name of the first clause whose verdict byte is not '1' ("" when all hold).
func firstZero(bits []byte, names []string) string {
	if len(bits) != len(names) {
		return "verdict-missing"
	}
	for i, b := range bits {
		if b != '1' {
			return names[i]
		}
	}
	return ""
}

func inlitShape(clause, s string) string {
	if strings.HasPrefix(clause, "backtick") && strings.Contains(s, "${") {
		return "backtick-interpolation"
	}
	return "inlit-" + clause
}

type tally struct {
	c      *core.Ctx
	tieOK  map[string]bool
	propOK map[string]bool
	order  []string
}

func newTally(c *core.Ctx) *tally {
	return &tally{c: c, tieOK: map[string]bool{}, propOK: map[string]bool{}}
}
func (t *tally) declare(kind, name string) {
	m := t.tieOK
	if kind == "prop" {
		m = t.propOK
	}
	if _, ok := m[name]; !ok {
		m[name] = true
		t.order = append(t.order, kind+"\x00"+name)
	}
}
func (t *tally) tie(name string, input any, detail string) {
	t.declare("tie", name)
	t.tieOK[name] = false
	if t.c.NFails(name) < 3 {
		t.c.Fail("tie", name, "", input, detail)
	}
}
func (t *tally) prop(name, shape string, input any, detail string) {
	t.declare("prop", name)
	t.propOK[name] = false
	// at most five inputs per shape; failures of other shapes in the same family (a recorded known finding, say) do not
	// use up this shape's room - every broken obligation comes with a failing input
	n := 0
	for _, f := range t.c.Fails {
		if f.Family == name && f.Shape == shape {
			n++
		}
	}
	if n < 5 {
		t.c.Fail("property", name, shape, input, detail)
	}
}

// finding records a property failure of a shape that is listed in known_findings.json as a recorded, unrepaired defect:
// it is reported (KNOWN-FINDING, or VIOLATION should the entry disappear) without marking the obligation broken
func (t *tally) finding(name, shape string, input any, detail string) {
	t.declare("prop", name)
	n := 0
	for _, f := range t.c.Fails {
		if f.Family == name && f.Shape == shape {
			n++
		}
	}
	if n < 5 {
		t.c.Fail("property", name, shape, input, detail)
	}
}
func (t *tally) flush() {
	for _, k := range t.order {
		p := strings.SplitN(k, "\x00", 2)
		if p[0] == "tie" {
			t.c.Oblige("correspondence", p[1], t.tieOK[p[1]], "")
		} else {
			t.c.Oblige("correspondence", p[1], t.propOK[p[1]], "")
		}
	}
}

func q(s string) string { return fmt.Sprintf("%q", s) }

func Run(c *core.Ctx) {
	c.Rule = "strings: every code point 0..0x2FFF singly (surrogates and out-of-range as invalid bytes), code points paired before/after each of 26 metacharacters, invalid lead/continuation patterns, XSS vectors and mutations, random strings over an adversarial alphabet; values: random nested slices/maps/structs of those strings with numbers, bools, nil; names: every string over a 10-symbol alphabet up to the tier's length; generated probe templates rendered through the real generator; script templates: every literal body of up to 3 (thorough 4) pieces over {x, escaped backslash, escaped quote, other quote, //, /*, \\n, backslash runs} for each quote kind followed by / holding a hole, plus a random grammar of statements, literals with escape sequences, comments and holes; line terminators: for each quote kind x each of LF, CR LF, CR, U+2028, U+2029, a literal holding the terminator after a backslash (line continuation), after an escaped backslash, after three backslashes, or raw, with a hole before it / directly after it / later on the continued line, a literal left open at the end of its line followed by statements with holes, terminators between holes and literals; in the random grammar line continuations and raw terminators of every form as pieces of literal bodies, literals left open at the end of the line, statements separated by each terminator form, and the whole template saved with LF, CR LF or mixed line endings; every template holding an LF is parsed again with CR LF line endings (the verdicts must not change); typed values: ~80 Go types of an in-literal hole (named int/uint/float/bool kinds with MarshalText or MarshalJSON returning a string, an object, an array, padded text; plain named scalars and Stringers; string kinds other than string; structs with marshalers, `,string` tags, embedded fields; json.RawMessage; pointers incl. nil and pointer-receiver marshalers; maps with TextMarshaler keys; slices, arrays, []byte; error values; json.Number, time.Time, big.Int, big.Float, net.IP, url.URL, slog.Level; the same held in interfaces; values that fail to marshal) x 8 fixed label triples x 5 JSON forms, then random labels, each called with its static type and as any; parse histories: one to three earlier files in the same process - script templates cut off at every byte offset (small bases, each quote kind) or a random one, with one of 14 malformed {{ }} expressions at a hole, a quote dropped or added, the end tag missing or cut, broken markup after the element, or unchanged - or an earlier script element of the same file (same templ / earlier templ), followed by a template already parsed and judged. distinct non-trivial = distinct inputs containing a rune the escapers must act on (control, quote, $, \\, < > & / +, U+2028/9) or an invalid byte; for names, distinct accepted names; for script templates, distinct templates whose text holds a backslash or a slash; for typed values, distinct (type, JSON text) pairs whose JSON text holds such a rune; for histories, distinct last earlier files that fail to parse or end inside a literal or comment"
	c.Trusted = append(c.Trusted,
		"specification spec/JsLex.v (JavaScript string-literal lexer and string values, script-data end condition; compared with node's evaluator in the thorough tier)",
		"specification spec/JsScript.v (lexer for a whole script element's text over templates with holes; its string mode is proved to make the decisions of JsLex.lex_go)",
		"lib/Utf8.v tied to unicode/utf8 on every generated string",
		"translator: the two replacement tables are dumped from the live code into gen/Tables03.v; their side-conditions are re-proved on every build",
		"extraction: ExtrOcamlBasic only; ocaml/driver.ml (hex line protocol, byte<->int by constructor index, asserted at start-up)",
		"number tokens are taken from strconv/encoding/json as an oracle (alphabet checked); Go harness internal/c03 and the Go toolchain",
		"typed values: json.Marshal is the oracle for the JSON text of a Go value of any type (C03_script_content_inside_any_type assumes nothing about that text)",
		"parse histories: the compiled probe binary replays a sequence of files in a new process (sample on every run; every reported history-dependent failure)")
	c.Assume = append(c.Assume,
		"the page is decoded as UTF-8: an invalid byte of a Go string reaches the script as U+FFFD (as everywhere else in the document); the byte triple E2 80 A8/A9 is U+2028/9 wherever it occurs",
		"inside '...' and \"...\" U+2028/9 are treated as line terminators (pre-ES2019 engines) - conservative",
		"templ.JSExpression and JSUnsafeFuncCall are trusted by type, like templ.Raw",
		"the static JavaScript around a {{ }} hole is the author's: the quote tracker of parser/v2/scriptparser.go is modelled (model/JsTrack.v), tied to the parser on every generated script template and proved to agree with the specification's lexer on the fragment of C03_tracker_agrees_partial; regular-expression literals, ${ } interpolations inside template literals and Annex-B HTML-like comments are outside the reach of both",
		"parse histories are sequential (one parse at a time in one process); parses running concurrently in one process are not produced",
		"script family: a {{ directly after a backslash, and {{ inside a comment, are not Go expressions in templ and are not generated; values are strings (valid UTF-8 when two holes are adjacent inside one literal: the browser's decoder, not the byte triple, decides what a split E2 80 A8 is)")
	c.Proofs()

	t := newTally(c)
	famUtf8(c, t)
	famStrings(c, t)
	famValues(c, t)
	famTyped(c, t)
	famNames(c, t)
	famCalls(c, t)
	famJSONScript(c, t)
	famProbes(c, t, planScripts(c))
	t.flush()
	kernelCheck(c)
	if !c.Quick() {
		nodeOracle(c)
	}
}

// ---------------------------------------------------------------------------------------------------------
// strings

func stringCases(c *core.Ctx) []string {
	var cases []string
	cases = append(cases, vectors...)
	cases = append(cases, genSingles(0x3000)...)
	if c.Quick() {
		cases = append(cases, genPairs([][2]rune{{0, 0x180}, {0x2020, 0x2030}, {0xD7FE, 0xD802}, {0xFFFC, 0x10001}})...)
	} else {
		cases = append(cases, genPairs([][2]rune{{0, 0x3000}, {0xD7F0, 0xE010}, {0xFFF0, 0x10010}, {0x10FFF0, 0x110002}})...)
	}
	cases = append(cases, genInvalid(!c.Quick())...)
	for _, v := range vectors {
		for _, m := range metas {
			cases = append(cases, v+m, m+v)
		}
	}
	n := c.N(25000, 600000)
	for i := 0; i < n; i++ {
		cases = append(cases, randString(c.Rng))
	}
	return cases
}

func famStrings(c *core.Ctx, t *tally) {
	const (
		tieInside  = "strings: model replace = ScriptContentInsideStringLiteral(string) = replace(s, jsStrReplacementTable)"
		tieOutside = "strings: model json_string = ScriptContentOutsideStringLiteral(string) = templ.JSONString(string)"
		propInside = "strings: in-literal specification holds of ScriptContentInsideStringLiteral's output (all three quote kinds)"
		propBare   = "strings: bare-position specification holds of ScriptContentOutsideStringLiteral's output"
		propJstr   = "strings: the marshalled string read as a JavaScript literal closes at its end and denotes the scrubbed Go string"
		propDecode = "strings: decoding commutes with escaping - the emitted bytes as a UTF-8 decoder reads them are the escaping of the decoded string"
	)
	for _, n := range []string{tieInside, tieOutside} {
		t.declare("tie", n)
	}
	for _, n := range []string{propInside, propBare, propJstr, propDecode} {
		t.declare("prop", n)
	}
	cases := stringCases(c)
	table := templruntime.VerifJSStrReplacementTable()
	reqs := make([]drv.Req, len(cases))
	ins := make([]string, len(cases))
	outs := make([]string, len(cases))
	for i, s := range cases {
		in, err := templruntime.ScriptContentInsideStringLiteral(s)
		if err != nil {
			t.tie(tieInside, map[string]string{"input": q(s)}, "unexpected error: "+err.Error())
		}
		if rep := templruntime.VerifReplace(s, table); rep != in {
			t.tie(tieInside, map[string]string{"input": q(s), "ScriptContentInsideStringLiteral": q(in), "replace": q(rep)}, "string fast path differs from replace")
		}
		out, err := templruntime.ScriptContentOutsideStringLiteral(s)
		if err != nil {
			t.tie(tieOutside, map[string]string{"input": q(s)}, "unexpected error: "+err.Error())
		}
		if js, _ := templ.JSONString(s); js != out {
			t.tie(tieOutside, map[string]string{"input": q(s), "outside": q(out), "JSONString": q(js)}, "JSONString differs from ScriptContentOutsideStringLiteral")
		}
		ins[i], outs[i] = in, out
		// what a browser's decoder makes of the emitted bytes (each invalid byte -> U+FFFD) is exactly the escaping of the
		// decoded string: so the theorems, instantiated at the decoded string, describe what the JavaScript engine sees
		if !utf8.ValidString(s) {
			if sc := string([]rune(s)); string([]rune(in)) != mustIn(sc) {
				t.prop(propDecode, "decode-does-not-commute", map[string]string{"input": q(s), "emitted": q(in), "escaping_of_decoded_input": q(mustIn(sc))},
					"invalid bytes of the input regroup with emitted bytes: the decoded script text is not the escaping of the decoded string")
			}
		}
		reqs[i] = drv.Req{Fn: "str_all", Args: [][]byte{[]byte(s), []byte(in), []byte(out)}}
		bucket, nt := classify(s)
		c.Hist(bucket)
		key := ""
		if nt {
			key = "s:" + s
		}
		c.Count(key)
	}
	res := c.Model(reqs)
	for i, r := range res {
		s := cases[i]
		if len(r) != 5 {
			t.tie(tieInside, map[string]string{"input": q(s)}, "model gave no answer")
			continue
		}
		if !bytes.Equal(r[0], []byte(ins[i])) {
			t.tie(tieInside, map[string]string{"input": q(s), "impl": q(ins[i]), "model": q(string(r[0]))}, "model and implementation differ")
		}
		if cl := firstZero(r[1], inlitClause); cl != "" {
			t.prop(propInside, inlitShape(cl, s), map[string]string{"input": q(s), "emitted": q(ins[i]), "clause": cl, "verdict": string(r[1])},
				"a Go string placed inside a JavaScript string literal does not arrive as that string (clause "+cl+" of the in-literal specification is false)")
		}
		if !bytes.Equal(r[2], []byte(outs[i])) {
			t.tie(tieOutside, map[string]string{"input": q(s), "impl": q(outs[i]), "model": q(string(r[2]))}, "model and implementation differ")
		}
		if cl := firstZero(r[3], bareClause); cl != "" {
			t.prop(propBare, "bare-"+cl, map[string]string{"input": q(s), "emitted": q(outs[i]), "clause": cl},
				"a Go string placed in script data can end the script element, open a comment or break a line (clause "+cl+")")
		}
		if cl := firstZero(r[4], jstrClause); cl != "" {
			t.prop(propJstr, "jstr-"+cl, map[string]string{"input": q(s), "emitted": q(outs[i]), "clause": cl},
				"the marshalled string is not a JavaScript literal denoting the Go string (clause "+cl+")")
		}
	}
	c.Sample(map[string]string{"input": q("</script>'\"`${"), "inside": q(mustIn("</script>'\"`${")), "outside": q(mustOut("</script>'\"`${"))})
	c.Sample(map[string]string{"input": q(lsStr + string([]byte{0xE2, 0x80})), "inside": q(mustIn(lsStr + string([]byte{0xE2, 0x80}))), "outside": q(mustOut(lsStr + string([]byte{0xE2, 0x80})))})
	c.Extra["string_cases"] = len(cases)
}

func mustIn(s string) string  { r, _ := templruntime.ScriptContentInsideStringLiteral(s); return r }
func mustOut(s string) string { r, _ := templruntime.ScriptContentOutsideStringLiteral(s); return r }

// ---------------------------------------------------------------------------------------------------------
// lib/Utf8.v against unicode/utf8

func famUtf8(c *core.Ctx, t *tally) {
	const name = "utf8: lib/Utf8.v decode_rune / encode_rune / rune_len / runes / valid_utf8 / scrub = unicode/utf8"
	t.declare("tie", name)
	var ss []string
	ss = append(ss, genInvalid(false)...)
	ss = append(ss, genSingles(0x900)...)
	ss = append(ss, vectors...)
	r := c.Rng.Fork()
	for i := 0; i < c.N(3000, 60000); i++ {
		ss = append(ss, randString(r))
	}
	var reqs []drv.Req
	for _, s := range ss {
		reqs = append(reqs, drv.Req{Fn: "decode_rune", Args: [][]byte{[]byte(s)}}, drv.Req{Fn: "runes", Args: [][]byte{[]byte(s)}},
			drv.Req{Fn: "valid_utf8", Args: [][]byte{[]byte(s)}}, drv.Req{Fn: "scrub", Args: [][]byte{[]byte(s)}})
	}
	res := c.Model(reqs)
	for i, s := range ss {
		c.Count("")
		rr, w := utf8.DecodeRuneInString(s)
		want := fmt.Sprintf("%d %d", rr, w)
		a := res[4*i]
		if len(a) != 2 || string(a[0])+" "+string(a[1]) != want {
			t.tie(name, map[string]string{"input": q(s), "utf8.DecodeRuneInString": want}, "decode_rune differs")
			continue
		}
		var sb strings.Builder
		for j := 0; j < len(s); {
			r2, w2 := utf8.DecodeRuneInString(s[j:])
			fmt.Fprintf(&sb, "%d/%d ", r2, w2)
			j += w2
		}
		if b := res[4*i+1]; len(b) != 1 || string(b[0]) != sb.String() {
			t.tie(name, map[string]string{"input": q(s)}, "runes differs from ranging over the string")
		}
		v := "0"
		if utf8.ValidString(s) {
			v = "1"
		}
		if b := res[4*i+2]; len(b) != 1 || string(b[0]) != v {
			t.tie(name, map[string]string{"input": q(s)}, "valid_utf8 differs from utf8.ValidString")
		}
		if b := res[4*i+3]; len(b) != 1 || string(b[0]) != string([]rune(s)) {
			t.tie(name, map[string]string{"input": q(s)}, "scrub differs from string([]rune(s))")
		}
	}
	var cps []rune
	for x := rune(0); x < 0x900; x++ {
		cps = append(cps, x)
	}
	cps = append(cps, 0xD7FF, 0xD800, 0xDFFF, 0xE000, 0xFFFD, 0xFFFF, 0x10000, 0x10FFFF, 0x110000, 0x7FFFFFFF)
	var reqs2 []drv.Req
	for _, x := range cps {
		reqs2 = append(reqs2, drv.Req{Fn: "encode_rune", Args: [][]byte{[]byte(fmt.Sprint(x))}})
	}
	for i, a := range c.Model(reqs2) {
		c.Count("")
		l := utf8.RuneLen(cps[i])
		if l < 0 {
			l = 0
		}
		if len(a) != 2 || string(a[0]) != string(utf8.AppendRune(nil, cps[i])) || string(a[1]) != fmt.Sprint(l) {
			t.tie(name, map[string]string{"code point": fmt.Sprint(cps[i])}, "encode_rune / rune_len differ")
		}
	}
}

// ---------------------------------------------------------------------------------------------------------
// nested values

func plainMarshal(v any) (string, error) {
	var buf bytes.Buffer
	enc := json.NewEncoder(&buf)
	enc.SetEscapeHTML(false)
	if err := enc.Encode(v); err != nil {
		return "", err
	}
	return strings.TrimSuffix(buf.String(), "\n"), nil
}

func genValues(c *core.Ctx, n int) []val {
	r := c.Rng.Fork()
	str := func() string { return randString(r) }
	var vs []val
	for _, s := range vectors {
		s := s
		vs = append(vs, val{kind: '[', arr: []val{{kind: 's', s: s}}}, val{kind: '{', keys: []string{s}, vals: []val{{kind: 's', s: s}}})
	}
	for _, x := range numPool {
		vs = append(vs, val{kind: '#', num: x})
	}
	vs = append(vs, val{kind: 'n'}, val{kind: 't'}, val{kind: 'f'}, val{kind: '[', arr: []val{}}, val{kind: '{'})
	for i := 0; i < n; i++ {
		vs = append(vs, genVal(r, 3, str))
	}
	return vs
}

func famValues(c *core.Ctx, t *tally) {
	const (
		tieIn    = "values: model script_content_inside = ScriptContentInsideStringLiteral(v) on nested values"
		tieOut   = "values: model json_encode = ScriptContentOutsideStringLiteral(v) = templ.JSONString(v) on nested values"
		propIn   = "values: in-literal specification holds of ScriptContentInsideStringLiteral(v); the literal's value is encoding/json's text of v"
		propOut  = "values: bare-position specification holds of ScriptContentOutsideStringLiteral(v)"
		propBack = "values: encoding/json reads the emitted text back as the value with invalid bytes scrubbed"
	)
	t.declare("tie", tieIn)
	t.declare("tie", tieOut)
	t.declare("prop", propIn)
	t.declare("prop", propOut)
	t.declare("prop", propBack)
	vs := genValues(c, c.N(4000, 80000))
	var reqs []drv.Req
	type rec struct{ in, out, want string }
	recs := make([]rec, len(vs))
	for i, v := range vs {
		g := v.goValue()
		in, err1 := templruntime.ScriptContentInsideStringLiteral(g)
		out, err2 := templruntime.ScriptContentOutsideStringLiteral(g)
		js, err3 := templ.JSONString(g)
		if err1 != nil || err2 != nil || err3 != nil {
			t.tie(tieOut, map[string]string{"value": v.describe()}, fmt.Sprint("unexpected error: ", err1, err2, err3))
			continue
		}
		if js != out {
			t.tie(tieOut, map[string]string{"value": v.describe(), "outside": q(out), "JSONString": q(js)}, "JSONString differs")
		}
		std, _ := json.Marshal(g) // the standard library's own text of v: what the literal must denote
		want := string(std)
		flag := "0"
		if v.kind == 's' {
			want = v.s
		}
		recs[i] = rec{in, out, want}
		w := v.wireBytes()
		reqs = append(reqs, drv.Req{Fn: "inside_val", Args: [][]byte{w, []byte(flag)}}, drv.Req{Fn: "inlit", Args: [][]byte{[]byte(want), []byte(in)}},
			drv.Req{Fn: "outside", Args: [][]byte{w, []byte(out)}})
		nt := v.anyString(func(s string) bool { _, x := classify(s); return x })
		key := ""
		if nt {
			key = "v:" + string(w)
		}
		c.Count(key)
		c.Hist("value: top-level kind " + map[byte]string{'n': "nil", 't': "bool", 'f': "bool", '#': "number", 's': "string", '[': "slice", '{': "map", 'S': "struct"}[v.kind])
		// read-back through the standard library's decoder (independent of templ): structural equality with the scrubbed value
		var back any
		if err := json.Unmarshal([]byte(out), &back); err != nil {
			t.prop(propBack, "json-unparsable", map[string]string{"value": v.describe(), "emitted": q(out)}, "emitted text is not JSON: "+err.Error())
		} else {
			plain, _ := plainMarshal(g)
			var ref any
			json.Unmarshal([]byte(plain), &ref)
			if !reflect.DeepEqual(back, ref) {
				t.prop(propBack, "json-readback-differs", map[string]string{"value": v.describe(), "emitted": q(out)}, "decoding the emitted text does not give the value back")
			}
		}
	}
	res := c.Model(reqs)
	k := 0
	for i, v := range vs {
		if recs[i].out == "" && recs[i].in == "" {
			continue
		}
		a, b, d := res[k], res[k+1], res[k+2]
		k += 3
		if len(a) != 1 || string(a[0]) != recs[i].in {
			m := ""
			if len(a) == 1 {
				m = string(a[0])
			}
			t.tie(tieIn, map[string]string{"value": v.describe(), "impl": q(recs[i].in), "model": q(m)}, "model and implementation differ")
		}
		if len(b) != 1 {
			t.tie(tieIn, map[string]string{"value": v.describe()}, "no verdict")
		} else if cl := firstZero(b[0], inlitClause); cl != "" {
			t.prop(propIn, inlitShape(cl, recs[i].want), map[string]string{"value": v.describe(), "emitted": q(recs[i].in), "clause": cl},
				"a Go value placed inside a JavaScript string literal does not arrive as its JSON text (clause "+cl+")")
		}
		if len(d) != 2 || string(d[0]) != recs[i].out {
			m := ""
			if len(d) >= 1 {
				m = string(d[0])
			}
			t.tie(tieOut, map[string]string{"value": v.describe(), "impl": q(recs[i].out), "model": q(m)}, "model and implementation differ")
		}
		if len(d) == 2 {
			if cl := firstZero(d[1], bareClause); cl != "" {
				t.prop(propOut, "bare-"+cl, map[string]string{"value": v.describe(), "emitted": q(recs[i].out), "clause": cl},
					"a Go value placed in script data can end the script element, open a comment or break a line (clause "+cl+")")
			}
		}
	}
	// a named string type does not take the string fast path: it is marshalled, then escaped
	ns := namedString("a'\"</script>")
	in, _ := templruntime.ScriptContentInsideStringLiteral(ns)
	r := c.Model([]drv.Req{{Fn: "inside_val", Args: [][]byte{val{kind: 's', s: string(ns)}.wireBytes(), []byte("1")}}})
	if len(r[0]) != 1 || string(r[0][0]) != in {
		t.tie(tieIn, map[string]string{"value": "namedString " + q(string(ns)), "impl": q(in)}, "named string type: model and implementation differ")
	}
	c.Count("v:named")
	c.Sample(map[string]string{"value": vs[0].describe(), "inside": q(recs[0].in), "outside": q(recs[0].out)})
	c.Extra["value_cases"] = len(vs)
}

// ---------------------------------------------------------------------------------------------------------
// function names

const invalidName = "__templ_invalid_js_function_name"

func famNames(c *core.Ctx, t *tally) {
	const (
		tie  = "names: model fn_name_ok = the function-name pattern as observed through SafeScriptInline"
		prop = "names: every accepted function name uses only [$_a-zA-Z0-9.]"
	)
	t.declare("tie", tie)
	t.declare("prop", prop)
	alpha := []string{"a", "Z", "0", "$", "_", ".", "-", "(", " ", "\n"}
	var names []string
	var gen func(p string, n int)
	gen = func(p string, n int) {
		names = append(names, p)
		if n == 0 {
			return
		}
		for _, a := range alpha {
			gen(p+a, n-1)
		}
	}
	gen("", c.N(4, 6))
	names = append(names, "console.log", "alert", "a.b.c", "a..b", ".a", "a.", "ab.", "ab.cd.", "ab.c", "window.location.href", "alert(1)", "x=y", "fn\n", "\nfn", "fn\r", "ﬁn",
		"__templ_invalid_js_function_name", "a1", "1a", "$$", "__", "a$", "$.ajax", "jQuery.fn.init", "ab\x00", "ab"+lsStr, "fn;alert", "fn'", "fn\"", "fn<", "fn&", "ab/", "eval", "Function")
	r := c.Rng.Fork()
	for i := 0; i < c.N(3000, 100000); i++ {
		var s string
		for k := r.Intn(9); k > 0; k-- {
			if r.Intn(12) == 0 {
				s += rng.Pick(r, randAlphabet)
			} else {
				s += rng.Pick(r, []string{"a", "b", "Z", "0", "9", "$", "_", ".", "."})
			}
		}
		names = append(names, s)
	}
	reqs := make([]drv.Req, len(names))
	for i, n := range names {
		reqs[i] = drv.Req{Fn: "fn_name", Args: [][]byte{[]byte(n)}}
	}
	res := c.Model(reqs)
	for i, n := range names {
		call := templ.SafeScriptInline(n)
		accepted := call == n+"()" && n != invalidName
		if n == invalidName {
			accepted = true // indistinguishable and harmless: the constant itself matches the pattern
		}
		key := ""
		if accepted {
			key = "n:" + n
			c.Hist("name: accepted")
		} else {
			c.Hist("name: rejected (replaced by the constant)")
			if call != invalidName+"()" {
				t.prop(prop, "name-neither-kept-nor-replaced", map[string]string{"name": q(n), "call": q(call)}, "SafeScriptInline neither kept the name nor substituted the constant")
			}
		}
		c.Count(key)
		a := res[i]
		if len(a) != 2 || (string(a[0]) == "1") != accepted {
			t.tie(tie, map[string]string{"name": q(n), "impl_accepts": fmt.Sprint(accepted)}, "model and implementation differ")
			if len(a) != 2 {
				continue
			}
		}
		if accepted && string(a[1]) != "1" {
			t.prop(prop, "name-with-foreign-byte", map[string]string{"name": q(n), "call": q(call)}, "a function name containing a byte outside [$_a-zA-Z0-9.] is emitted into JavaScript")
		}
	}
	c.Extra["name_cases"] = len(names)
}

// ---------------------------------------------------------------------------------------------------------
// calls: SafeScript, SafeScriptInline, JSFuncCall

func famCalls(c *core.Ctx, t *tally) {
	const (
		tie   = "calls: model safe_script / safe_script_inline = SafeScript / SafeScriptInline = JSFuncCall(...).Call / .CallInline"
		prop  = "calls: the attribute form contains no quote and no < >, and html-unescapes to the inline form"
		propA = "calls: every marshalled argument of the inline form meets the bare-position specification"
	)
	t.declare("tie", tie)
	t.declare("prop", prop)
	t.declare("prop", propA)
	r := c.Rng.Fork()
	str := func() string { return randString(r) }
	n := c.N(3000, 60000)
	type cs struct {
		name string
		ps   []any
		wire [][]byte
		desc []string
		args []string // marshalled arguments (non-expression)
	}
	var all []cs
	var reqs []drv.Req
	for i := 0; i < n; i++ {
		k := cs{}
		switch r.Intn(4) {
		case 0:
			k.name = rng.Pick(r, []string{"alert", "console.log", "a.b", "fn", "x", "a b", "alert(1);x", "", "f'", "</script>", "ab."})
		case 1:
			k.name = str()
		default:
			k.name = "handler.on" + rng.Pick(r, []string{"Click", "Load", "_x", "$"})
		}
		for j := r.Intn(4); j > 0; j-- {
			if r.Intn(6) == 0 {
				e := rng.Pick(r, []string{"event", "this", "event.target.value", "1+1", "a<b", "'x'", "\"y\"", "`z`", "a&&b"})
				k.ps = append(k.ps, templ.JSExpression(e))
				k.wire = append(k.wire, []byte("e"+e))
				k.desc = append(k.desc, "JSExpression "+q(e))
			} else {
				v := genVal(r, 2, str)
				k.ps = append(k.ps, v.goValue())
				k.wire = append(k.wire, append([]byte("v"), v.wireBytes()...))
				k.desc = append(k.desc, v.describe())
				m, _ := json.Marshal(v.goValue())
				k.args = append(k.args, string(m))
			}
		}
		all = append(all, k)
		reqs = append(reqs, drv.Req{Fn: "safe_script", Args: append([][]byte{[]byte(k.name)}, k.wire...)})
	}
	res := c.Model(reqs)
	var argReqs []drv.Req
	var argOwner []int
	for i, k := range all {
		c.Count("")
		c.Hist(fmt.Sprintf("call: %d parameters", len(k.ps)))
		call := templ.SafeScript(k.name, k.ps...)
		inline := templ.SafeScriptInline(k.name, k.ps...)
		fc := templ.JSFuncCall(k.name, k.ps...)
		in := map[string]string{"name": q(k.name), "params": strings.Join(k.desc, " | "), "SafeScript": q(call), "SafeScriptInline": q(inline)}
		if fc.Call != call || fc.CallInline != inline {
			t.tie(tie, in, "JSFuncCall's Call/CallInline differ from SafeScript/SafeScriptInline")
		}
		a := res[i]
		if len(a) != 3 || string(a[0]) != call || string(a[1]) != inline {
			t.tie(tie, in, "model and implementation differ")
		}
		// specification on the implementation's own output (attr_inert evaluated by the extracted predicate below)
		argReqs = append(argReqs, drv.Req{Fn: "attr_inert", Args: [][]byte{[]byte(call)}})
		argOwner = append(argOwner, i)
		if html.UnescapeString(call) != inline {
			t.prop(prop, "call-attr-unescape-differs", in, "the attribute form does not decode to the inline form")
		}
		// the inline form is name(arg,arg,...) with the marshalled arguments verbatim
		for _, m := range k.args {
			if !strings.Contains(inline, m) {
				t.prop(propA, "call-arg-not-json", in, "an argument is not emitted as encoding/json's text")
			}
			argReqs = append(argReqs, drv.Req{Fn: "bare", Args: [][]byte{[]byte(m)}})
			argOwner = append(argOwner, -1-i)
		}
	}
	for j, a := range c.Model(argReqs) {
		o := argOwner[j]
		if o >= 0 {
			if len(a) != 1 || string(a[0]) != "1" {
				k := all[o]
				t.prop(prop, "call-attr-not-inert", map[string]string{"name": q(k.name), "params": strings.Join(k.desc, " | "), "SafeScript": q(templ.SafeScript(k.name, k.ps...))},
					"the attribute form of a call contains a quote or < >: it can leave the on* attribute value")
			}
		} else {
			k := all[-1-o]
			if len(a) != 1 {
				continue
			}
			if cl := firstZero(a[0], bareClause); cl != "" {
				t.prop(propA, "bare-"+cl, map[string]string{"name": q(k.name), "params": strings.Join(k.desc, " | ")}, "a marshalled call argument fails the bare-position specification (clause "+cl+")")
			}
		}
	}
	c.Sample(map[string]string{"call": q(templ.SafeScript("fn", "a\"'<b", templ.JSExpression("event"))), "inline": q(templ.SafeScriptInline("fn", "a\"'<b", templ.JSExpression("event")))})
}

// ---------------------------------------------------------------------------------------------------------
// templ.JSONScript

func famJSONScript(c *core.Ctx, t *tally) {
	const (
		tie  = "jsonscript: model json_script = JSONScriptElement.Render"
		prop = "jsonscript: the element's body meets the bare-position specification"
	)
	t.declare("tie", tie)
	t.declare("prop", prop)
	r := c.Rng.Fork()
	str := func() string { return randString(r) }
	n := c.N(1500, 30000)
	type cs struct {
		id, typ, nonce string
		v              val
		out            string
	}
	var all []cs
	var reqs, breqs []drv.Req
	for i := 0; i < n; i++ {
		k := cs{v: genVal(r, 2, str)}
		if r.Intn(3) > 0 {
			k.id = rng.Pick(r, []string{"data", "x\"y", "a'b", "<id>", "a&b", str()})
		}
		k.typ = rng.Pick(r, []string{"application/json", "application/json", "", "importmap", "text/x\"y", str()})
		if r.Intn(3) == 0 {
			k.nonce = rng.Pick(r, []string{"abc123", "n\"onc'e", str()})
		}
		el := templ.JSONScript(k.id, k.v.goValue()).WithType(k.typ)
		if k.nonce != "" || r.Bool() {
			el = el.WithNonceFromString(k.nonce)
		}
		var buf bytes.Buffer
		if err := el.Render(context.Background(), &buf); err != nil {
			t.tie(tie, map[string]string{"value": k.v.describe()}, "unexpected error: "+err.Error())
			continue
		}
		k.out = buf.String()
		all = append(all, k)
		reqs = append(reqs, drv.Req{Fn: "json_script", Args: [][]byte{[]byte(k.id), []byte(k.typ), []byte(k.nonce), k.v.wireBytes()}})
		// body: between the end of the start tag and the final </script>, minus the encoder's newline
		body := k.out
		if j := strings.Index(body, ">"); j >= 0 {
			body = body[j+1:]
		}
		body = strings.TrimSuffix(strings.TrimSuffix(body, "</script>"), "\n")
		breqs = append(breqs, drv.Req{Fn: "bare", Args: [][]byte{[]byte(body)}})
		c.Count("")
		c.Hist("jsonscript: rendered")
	}
	res := c.Model(reqs)
	bres := c.Model(breqs)
	for i, k := range all {
		in := map[string]string{"id": q(k.id), "type": q(k.typ), "nonce": q(k.nonce), "value": k.v.describe(), "rendered": q(k.out)}
		if len(res[i]) != 1 || string(res[i][0]) != k.out {
			m := ""
			if len(res[i]) == 1 {
				m = string(res[i][0])
			}
			in["model"] = q(m)
			t.tie(tie, in, "model and implementation differ")
		}
		if len(bres[i]) == 1 {
			if cl := firstZero(bres[i][0], bareClause); cl != "" {
				t.prop(prop, "bare-"+cl, in, "the JSON script element's body can end the element, open a comment or break a line (clause "+cl+")")
			}
		}
	}
	if len(all) > 0 {
		c.Sample(map[string]string{"jsonscript": q(all[0].out)})
	}
}
