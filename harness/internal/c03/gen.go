package c03

import (
	"unicode/utf8"

	"verifharness/internal/rng"
)

// All byte strings with non-ASCII content are built from explicit bytes / code points (never from source escapes).

func cp(r rune) string { // generalised encoding: surrogates are produced as their (invalid) three-byte form
	switch {
	case r < 0x80:
		return string([]byte{byte(r)})
	case r < 0x800:
		return string([]byte{0xC0 | byte(r>>6), 0x80 | byte(r&0x3F)})
	case r < 0x10000:
		return string([]byte{0xE0 | byte(r>>12), 0x80 | byte((r>>6)&0x3F), 0x80 | byte(r&0x3F)})
	default:
		return string([]byte{0xF0 | byte(r>>18), 0x80 | byte((r>>12)&0x3F), 0x80 | byte((r>>6)&0x3F), 0x80 | byte(r&0x3F)})
	}
}

var lsStr = string([]byte{0xE2, 0x80, 0xA8})
var psStr = string([]byte{0xE2, 0x80, 0xA9})

// metacharacters of the contexts a value can land in
var metas = []string{"'", "\"", "`", "$", "{", "}", "\\", "<", ">", "&", "/", "\n", "\r", lsStr, psStr, "-", "!", "+", "\x00", "\t",
	string([]byte{0xE2}), string([]byte{0x80}), string([]byte{0xE2, 0x80}), string([]byte{0xA8}), "u", "0"}

var vectors = []string{
	"</script>", "</SCRIPT>", "</ScRiPt >", "</script", "<!--", "<!--<script>", "-->", "]]>", "<script>", "</style>",
	"${alert(1)}", "`+alert(1)+`", "'+alert(1)+'", "\"+alert(1)+\"", "';alert(1);//", "\\", "\\\\", "\\'", "\\\"", "\\`", "\\${", "$\\{", "$", "${", "$$${",
	"\\u0027", "\\x27", "\\u{27}", "\\0", "\\1", "\\\n", "\n", "\r\n", "\r", lsStr, psStr, "\\" + lsStr, "a" + lsStr + "b" + psStr,
	"&quot;", "&#39;", "&#x27;", "&lt;/script&gt;", "&amp;", "javascript:alert(1)", "\x00", "\x7f", "\x1f", "\x0b", "\x08", "\x0c",
	"{{ x }}", "{{", "}}", "/*", "*/", "//", "/", "+", "++", "=", "(", ")", "();", "[0]", "hello", "", " ",
	string([]byte{0xEF, 0xBF, 0xBD}), string([]byte{0xEF, 0xBB, 0xBF}), string([]byte{0xC0, 0xAF}), string([]byte{0xE0, 0x80, 0xAF}), string([]byte{0xED, 0xA0, 0x80}),
	string([]byte{0xF4, 0x90, 0x80, 0x80}), string([]byte{0xF0, 0x9F, 0x98, 0x80}), string([]byte{0xE2, 0x80}), string([]byte{0xE2, 0x80, 0x27}), string([]byte{0xE2, 0x27, 0xA8}),
	string([]byte{0xE2, 0xE2, 0x80, 0xA8}), string([]byte{0xE2, 0x80, 0xE2, 0x80, 0xA9}), string([]byte{0xF0, 0xE2, 0x80, 0xA8}), string([]byte{0xC2, 0x3C}), string([]byte{0xE2, 0x80, 0x3C, 0x2F}),
}

// singles: every code point below limit (surrogates as invalid bytes), plus plane boundaries.
func genSingles(limit rune) []string {
	var out []string
	for r := rune(0); r < limit; r++ {
		out = append(out, cp(r))
	}
	for _, r := range []rune{0xD7FF, 0xD800, 0xDBFF, 0xDC00, 0xDFFF, 0xE000, 0xFFFD, 0xFFFE, 0xFFFF, 0x10000, 0x1F600, 0x10FFFF, 0x110000, 0x1FFFFF} {
		out = append(out, cp(r))
	}
	return out
}

// pairs: each code point of the given ranges before and after each metacharacter.
func genPairs(ranges [][2]rune) []string {
	var out []string
	for _, rg := range ranges {
		for r := rg[0]; r < rg[1]; r++ {
			c := cp(r)
			for _, m := range metas {
				out = append(out, c+m, m+c)
			}
		}
	}
	return out
}

// invalid lead/continuation patterns, alone and followed by a metacharacter
func genInvalid(full bool) []string {
	var out []string
	// every two-byte sequence whose first byte is >= 0x80 (thorough), or boundary second bytes (quick)
	b1set := []byte{0x00, 0x22, 0x27, 0x3C, 0x5C, 0x60, 0x7F, 0x80, 0x8F, 0x90, 0x9F, 0xA0, 0xA8, 0xA9, 0xBF, 0xC0, 0xC2, 0xE2, 0xF0, 0xFF}
	for a := 0x80; a < 0x100; a++ {
		out = append(out, string([]byte{byte(a)}))
		if full {
			for b := 0; b < 0x100; b++ {
				out = append(out, string([]byte{byte(a), byte(b)}))
			}
		} else {
			for _, b := range b1set {
				out = append(out, string([]byte{byte(a), b}))
			}
		}
	}
	lead3 := []byte{0xE0, 0xE1, 0xE2, 0xEC, 0xED, 0xEE, 0xEF}
	mid := []byte{0x27, 0x7F, 0x80, 0x9F, 0xA0, 0xBF, 0xC0}
	last := []byte{0x22, 0x7F, 0x80, 0xA7, 0xA8, 0xA9, 0xAA, 0xBF, 0xC0}
	for _, a := range lead3 {
		for _, b := range mid {
			for _, c := range last {
				out = append(out, string([]byte{a, b, c}), string([]byte{a, b, c, '\''}), string([]byte{'\\', a, b, c}))
			}
		}
	}
	lead4 := []byte{0xF0, 0xF1, 0xF3, 0xF4, 0xF5, 0xF8}
	m4 := []byte{0x7F, 0x80, 0x8F, 0x90, 0xBF, 0xC0}
	for _, a := range lead4 {
		for _, b := range m4 {
			for _, c := range []byte{0x3C, 0x80, 0xBF, 0xC0} {
				for _, d := range []byte{0x26, 0x80, 0xBF, 0xE2} {
					out = append(out, string([]byte{a, b, c, d}), string([]byte{a, b, c, d, 0x80, 0xA8}))
				}
			}
		}
	}
	return out
}

var randAlphabet = append(append([]string{}, metas...), "a", "b", "Z", "9", " ", "s", "c", "r", "i", "p", "t", "S", "C", "R", "I", "P", "T", "x", "2", "8", "f", "d", "(", ")", ";", "=", ":", ",", "[", "]",
	string([]byte{0xC3, 0xA9}), string([]byte{0xE2, 0x82, 0xAC}), string([]byte{0xF0, 0x9F, 0x98, 0x80}), string([]byte{0xEF, 0xBF, 0xBD}), string([]byte{0xE2, 0x80, 0xA7}), string([]byte{0xE2, 0x80, 0xAA}), string([]byte{0xE2, 0x81, 0xA8}))

// randString draws one adversarial string.
func randString(r *rng.R) string {
	switch r.Intn(10) {
	case 0:
		return rng.Pick(r, vectors)
	case 1: // a vector with a mutation
		v := []byte(rng.Pick(r, vectors))
		for k := r.Intn(3) + 1; k > 0; k-- {
			pos := r.Intn(len(v) + 1)
			switch r.Intn(4) {
			case 0:
				ins := rng.Pick(r, randAlphabet)
				v = append(v[:pos:pos], append([]byte(ins), v[pos:]...)...)
			case 1:
				if pos < len(v) {
					v = append(v[:pos:pos], v[pos+1:]...)
				}
			case 2:
				if pos < len(v) {
					v[pos] = byte(r.Intn(256))
				}
			default:
				if pos < len(v) {
					v[pos] ^= 0x20
				}
			}
		}
		return string(v)
	case 2: // raw bytes
		n := r.Intn(12)
		b := make([]byte, n)
		for i := range b {
			b[i] = byte(r.Intn(256))
		}
		return string(b)
	case 3: // random code points (all planes)
		var s string
		for k := r.Intn(6); k > 0; k-- {
			switch r.Intn(4) {
			case 0:
				s += cp(rune(r.Intn(0x80)))
			case 1:
				s += cp(rune(r.Intn(0x3000)))
			case 2:
				s += cp(rune(0x2020 + r.Intn(0x20) - 0x10))
			default:
				s += cp(rune(r.Intn(0x110000)))
			}
		}
		return s
	default:
		var s string
		for k := r.Intn(14); k > 0; k-- {
			s += rng.Pick(r, randAlphabet)
		}
		return s
	}
}

// classify buckets an input for the distribution histogram and decides whether it is a non-trivial case:
// it contains at least one rune the escapers must act on (or an invalid byte).
func classify(s string) (bucket string, nontrivial bool) {
	special, invalid, high := false, false, false
	for i := 0; i < len(s); {
		r, w := utf8.DecodeRuneInString(s[i:])
		switch {
		case r == utf8.RuneError && w == 1:
			invalid = true
		case r < 0x20 || r == '"' || r == '\'' || r == '`' || r == '$' || r == '\\' || r == '<' || r == '>' || r == '&' || r == '/' || r == '+' || r == 0x2028 || r == 0x2029:
			special = true
		case r >= 0x80:
			high = true
		}
		i += w
	}
	switch {
	case invalid && special:
		return "string: invalid UTF-8 and characters needing escape", true
	case invalid:
		return "string: invalid UTF-8", true
	case special && high:
		return "string: characters needing escape and other non-ASCII", true
	case special:
		return "string: characters needing escape", true
	case high:
		return "string: non-ASCII, nothing to escape", false
	default:
		return "string: plain ASCII", false
	}
}
