package c03

import (
	"encoding/json"
	"errors"
	"fmt"
	"html/template"
	"log/slog"
	"math"
	"math/big"
	"net"
	"net/url"
	"os"
	"reflect"
	"strings"
	"time"

	"github.com/a-h/templ"
	templruntime "github.com/a-h/templ/runtime"

	"verifharness/internal/core"
	"verifharness/internal/drv"
	"verifharness/internal/rng"
)

// The Go TYPE space of a {{ }} hole.  ScriptContentInsideStringLiteral / ...OutsideStringLiteral are generic: what they
// are handed is whatever Go type the author's expression has - an enum (named integer with MarshalText), a flag with
// MarshalJSON, a json.Marshaler struct, a json.RawMessage, a pointer, a map with TextMarshaler keys, a time.Time ... The
// JSON text of such a value is decided by encoding/json (the oracle: json.Marshal), NOT by the value's reflect.Kind: an
// integer-kinded value may well marshal to a quoted string holding quotes, backticks and ${.  Every case below is
// called with its static type as the type argument (as generated code does) and as `any`; the emitted bytes are judged
// by the extracted in-literal specification (spec/JsLex.v: clean, the literal closes at the author's quote for each of
// the three kinds, the literal's value is the JSON text) - nothing here knows how scriptContent chooses its path.

// labels of the labelled types: value i marshals to typedLabels[i]
var typedLabels []string

func label(i int) ([]byte, error) {
	if i >= 0 && i < len(typedLabels) {
		return []byte(typedLabels[i]), nil
	}
	return []byte(fmt.Sprintf("L(%d)", i)), nil
}
func b2i(b bool) int {
	if b {
		return 1
	}
	return 0
}

// jsonQuote writes s as a JSON string literal the way a hand-written MarshalJSON typically does: only what JSON demands
// is escaped (the double quote, the backslash, control bytes); ' ` $ < > & / + and bytes >= 0x80 stay as they are.
// style 1 writes some characters as \u escapes / "\/" instead (equally valid JSON text).
func jsonQuote(s string, style int) []byte {
	var sb strings.Builder
	sb.WriteByte('"')
	for i := 0; i < len(s); i++ {
		c := s[i]
		switch {
		case c == '"' || c == '\\':
			sb.WriteByte('\\')
			sb.WriteByte(c)
		case c < 0x20 || (style == 1 && (c == '\'' || c == '<' || c == 'a')):
			fmt.Fprintf(&sb, "\\u%04x", c)
		case style == 1 && c == '/':
			sb.WriteString("\\/")
		default:
			sb.WriteByte(c)
		}
	}
	sb.WriteByte('"')
	return []byte(sb.String())
}

// ---- scalar kinds with encoding.TextMarshaler (the usual Go enum) ----
type intText int
type int8Text int8
type int16Text int16
type int32Text int32
type int64Text int64
type uintText uint
type uint8Text uint8
type uint16Text uint16
type uint32Text uint32
type uint64Text uint64
type float32Text float32
type float64Text float64
type boolText bool

func (v intText) MarshalText() ([]byte, error)     { return label(int(v)) }
func (v int8Text) MarshalText() ([]byte, error)    { return label(int(v)) }
func (v int16Text) MarshalText() ([]byte, error)   { return label(int(v)) }
func (v int32Text) MarshalText() ([]byte, error)   { return label(int(v)) }
func (v int64Text) MarshalText() ([]byte, error)   { return label(int(v)) }
func (v uintText) MarshalText() ([]byte, error)    { return label(int(v)) }
func (v uint8Text) MarshalText() ([]byte, error)   { return label(int(v)) }
func (v uint16Text) MarshalText() ([]byte, error)  { return label(int(v)) }
func (v uint32Text) MarshalText() ([]byte, error)  { return label(int(v)) }
func (v uint64Text) MarshalText() ([]byte, error)  { return label(int(v)) }
func (v float32Text) MarshalText() ([]byte, error) { return label(int(v)) }
func (v float64Text) MarshalText() ([]byte, error) { return label(int(v)) }
func (v boolText) MarshalText() ([]byte, error)    { return label(b2i(bool(v))) }

// ---- scalar kinds with json.Marshaler: a JSON string, an object or an array built from the label ----
var typedJSONForm int // 0 "label"  1 "label" with \u escapes  2 {"k":"label","n":i}  3 ["label",i]  4 padded with white space

func labelJSON(i int) ([]byte, error) {
	l, _ := label(i)
	switch typedJSONForm {
	case 1:
		return jsonQuote(string(l), 1), nil
	case 2:
		return []byte(fmt.Sprintf("{\"k\":%s,\"n\":%d}", jsonQuote(string(l), 0), i)), nil
	case 3:
		return []byte(fmt.Sprintf("[%s,%d]", jsonQuote(string(l), 0), i)), nil
	case 4:
		return []byte(fmt.Sprintf(" \t%s\n ", jsonQuote(string(l), 0))), nil
	}
	return jsonQuote(string(l), 0), nil
}

type intJSON int
type uint8JSON uint8
type int64JSON int64
type float64JSON float64
type boolJSON bool
type strJSON string
type strText string

func (v intJSON) MarshalJSON() ([]byte, error)     { return labelJSON(int(v)) }
func (v uint8JSON) MarshalJSON() ([]byte, error)   { return labelJSON(int(v)) }
func (v int64JSON) MarshalJSON() ([]byte, error)   { return labelJSON(int(v)) }
func (v float64JSON) MarshalJSON() ([]byte, error) { return labelJSON(int(v)) }
func (v boolJSON) MarshalJSON() ([]byte, error)    { return labelJSON(b2i(bool(v))) }
func (v strJSON) MarshalJSON() ([]byte, error)     { return labelJSON(len(v)) }
func (v strText) MarshalText() ([]byte, error)     { return label(len(v)) }

// pointer-receiver marshalers: used when the hole holds a pointer, ignored when it holds the value
type intPtrText int
type structPtrJSON struct{ N int }

func (v *intPtrText) MarshalText() ([]byte, error)    { return label(int(*v)) }
func (v *structPtrJSON) MarshalJSON() ([]byte, error) { return labelJSON(v.N) }

// plain named scalars, Stringers, errors
type plainInt int
type plainUint8 uint8
type plainFloat float64
type plainBool bool
type stringerInt int
type stringerStruct struct{ L string }
type strErr string
type structErr struct {
	Msg  string
	Code int
}

func (v stringerInt) String() string    { l, _ := label(int(v)); return string(l) }
func (v stringerStruct) String() string { return "S(" + v.L + ")" }
func (v strErr) Error() string          { return string(v) }
func (v structErr) Error() string       { return v.Msg }

// structs
type structJSON struct{ N int }
type structText struct{ N int }
type tagged struct {
	Quoted  int               `json:"quoted,string"`
	QFloat  float64           `json:"qf,string"`
	QBool   bool              `json:",string"`
	Opt     string            `json:"opt,omitempty"`
	Enum    intText           `json:"enum"`
	Flag    boolJSON          `json:"flag"`
	PEnum   *intText          `json:"penum"`
	Any     any               `json:"any"`
	ByEnum  map[intText]int   `json:"byEnum"`
	Raw     json.RawMessage   `json:"raw"`
	Inner   structText        `json:"inner"`
	Strs    map[string]string `json:"strs,omitempty"`
	private string
}
type embeds struct {
	stringerStruct
	structErr
	When time.Duration
}

func (v structJSON) MarshalJSON() ([]byte, error) { return labelJSON(v.N) }
func (v structText) MarshalText() ([]byte, error) { return label(v.N) }

// marshalers that fail
type errText int
type badJSON int

func (v errText) MarshalText() ([]byte, error) { return nil, errors.New("no text form") }
func (v badJSON) MarshalJSON() ([]byte, error) { l, _ := label(int(v)); return []byte("'" + string(l) + "'"), nil }

// ---------------------------------------------------------------------------------------------------------

type typedCase struct {
	class  string // histogram bucket: how the JSON text comes about
	goType string
	repro  string // Go text a reader can paste (labels spelled out)
	labels []string
	form   int
	v      any
	inside func() (string, error) // called with the static type as the type argument
	out    func() (string, error)
}

func mkTyped[T any](class, repro string, v T) typedCase {
	return typedCase{class: class, repro: repro, v: v, goType: fmt.Sprintf("%T", any(v)),
		inside: func() (string, error) { return templruntime.ScriptContentInsideStringLiteral(v) },
		out:    func() (string, error) { return templruntime.ScriptContentOutsideStringLiteral(v) }}
}

func ptr[T any](v T) *T { return &v }

// typedCases builds one case per type constructor for the given labels (ls has at least 3 entries) and JSON form.
func typedCases(ls []string, form int, r *rng.R) []typedCase {
	i := r.Intn(3)
	L := ls[i]
	lq := fmt.Sprintf("%q", L)
	txt := func(t, under string) string {
		return fmt.Sprintf("type T %s; func (T) MarshalText() ([]byte, error) { return []byte(%s), nil }; ScriptContentInsideStringLiteral(T(%d))", under, lq, i)
	}
	jsn := func(under string) string {
		typedLabels, typedJSONForm = ls, form
		j, _ := labelJSON(i)
		return fmt.Sprintf("type T %s; func (T) MarshalJSON() ([]byte, error) { return []byte(%q), nil }; ScriptContentInsideStringLiteral(T(%d))", under, string(j), i)
	}
	const (
		cText   = "scalar kind with MarshalText (enum)"
		cJSON   = "scalar kind with MarshalJSON"
		cPlain  = "plain named scalar / Stringer (number or bool token)"
		cStr    = "string kind that is not type string"
		cStruct = "struct"
		cRaw    = "json.RawMessage"
		cPtr    = "pointer"
		cMap    = "map"
		cSlice  = "slice / array / []byte"
		cErr    = "error value"
		cStd    = "standard library type"
		cAny    = "held in an interface"
	)
	var cs []typedCase
	add := func(c typedCase) { cs = append(cs, c) }
	// scalar kinds with MarshalText
	add(mkTyped(cText, txt("T", "int"), intText(i)))
	add(mkTyped(cText, txt("T", "int8"), int8Text(i)))
	add(mkTyped(cText, txt("T", "int16"), int16Text(i)))
	add(mkTyped(cText, txt("T", "int32"), int32Text(i)))
	add(mkTyped(cText, txt("T", "int64"), int64Text(i)))
	add(mkTyped(cText, txt("T", "uint"), uintText(i)))
	add(mkTyped(cText, txt("T", "uint8"), uint8Text(i)))
	add(mkTyped(cText, txt("T", "uint16"), uint16Text(i)))
	add(mkTyped(cText, txt("T", "uint32"), uint32Text(i)))
	add(mkTyped(cText, txt("T", "uint64"), uint64Text(i)))
	add(mkTyped(cText, txt("T", "float32"), float32Text(i)))
	add(mkTyped(cText, txt("T", "float64"), float64Text(i)))
	add(mkTyped(cText, fmt.Sprintf("type T bool; func (T) MarshalText() ([]byte, error) { return []byte(%s), nil }; ScriptContentInsideStringLiteral(T(%v))", lq, i%2 == 1), boolText(i%2 == 1)))
	if i%2 != i { // the bool's label is ls[i%2]
		cs[len(cs)-1].repro = fmt.Sprintf("type T bool; func (T) MarshalText() ([]byte, error) { return []byte(%q), nil }; ScriptContentInsideStringLiteral(T(false))", ls[0])
	}
	// scalar kinds with MarshalJSON
	add(mkTyped(cJSON, jsn("int"), intJSON(i)))
	add(mkTyped(cJSON, jsn("uint8"), uint8JSON(i)))
	add(mkTyped(cJSON, jsn("int64"), int64JSON(i)))
	add(mkTyped(cJSON, jsn("float64"), float64JSON(i)))
	add(mkTyped(cJSON, "type T bool with MarshalJSON returning the label as a JSON string (labels "+fmt.Sprintf("%q", ls[:2])+")", boolJSON(i%2 == 1)))
	// pointer receivers
	add(mkTyped(cPlain, "type T int with MarshalText on *T; the hole holds a T value (marshaler not used)", intPtrText(i)))
	add(mkTyped(cPtr, "type T int with MarshalText on *T returning "+lq+"; the hole holds &T", ptr(intPtrText(i))))
	add(mkTyped(cStruct, "struct with MarshalJSON on the pointer; the hole holds the struct value", structPtrJSON{i}))
	add(mkTyped(cPtr, "struct with MarshalJSON on the pointer; the hole holds the pointer", &structPtrJSON{i}))
	// plain named scalars and Stringers
	add(mkTyped(cPlain, "type T int; T(-7)", plainInt(-7-i)))
	add(mkTyped(cPlain, "type T uint8; T(200)", plainUint8(200+i)))
	add(mkTyped(cPlain, "type T float64; T(1e21)", plainFloat([]float64{1e21, -2.5e-9, 0.1}[i])))
	add(mkTyped(cPlain, "type T bool", plainBool(i == 1)))
	add(mkTyped(cPlain, "type T int with String() "+lq, stringerInt(i)))
	add(mkTyped(cPlain, "int", -i))
	add(mkTyped(cPlain, "float64 1e+21 / 1e-7", []float64{1e21, 1e-7, -0.0}[i]))
	add(mkTyped(cPlain, "uint64 max", uint64(math.MaxUint64)))
	add(mkTyped(cPlain, "bool", i == 0))
	add(mkTyped(cStd, "time.Duration", time.Duration(i)*time.Second))
	add(mkTyped(cStd, "time.Month (Stringer, no marshaler)", time.Month(i+1)))
	add(mkTyped(cStd, "reflect.Kind (Stringer)", reflect.Kind(i+1)))
	add(mkTyped(cStd, "os.FileMode (Stringer)", os.FileMode(0o644)))
	add(mkTyped(cStd, fmt.Sprintf("slog.Level(%d)  (int kind; MarshalJSON gives a quoted name such as \"INFO+2\")", 2*i-3), slog.Level(2*i-3)))
	// string kinds
	add(mkTyped("string (fast path)", "string "+lq, L))
	add(mkTyped(cStr, "type T string; T("+lq+")", namedString(L)))
	add(mkTyped(cStr, "type T string with MarshalJSON", strJSON(strings.Repeat("x", i))))
	add(mkTyped(cStr, "type T string with MarshalText returning "+lq, strText(strings.Repeat("x", i))))
	add(mkTyped(cStr, "template.HTML("+lq+")", template.HTML(L)))
	add(mkTyped(cStr, "templ.SafeURL("+lq+")", templ.SafeURL(L)))
	add(mkTyped(cStr, "type T string with Error(); T("+lq+")", strErr(L)))
	add(mkTyped(cStd, "json.Number", json.Number([]string{"1e+5", "-0", "12.5E-3"}[i])))
	// structs
	add(mkTyped(cStruct, "struct with MarshalJSON (value receiver)", structJSON{i}))
	add(mkTyped(cStruct, "struct with MarshalText returning "+lq, structText{i}))
	add(mkTyped(cStruct, "struct with a String method and a field "+lq, stringerStruct{L}))
	raw, _ := func() ([]byte, error) { typedLabels, typedJSONForm = ls, 0; return labelJSON((i + 1) % 3) }()
	tg := tagged{Quoted: -5 + i, QFloat: 1e21, QBool: i == 1, Opt: ls[(i+1)%3], Enum: intText(i), Flag: boolJSON(i == 2), Any: uint8Text((i + 2) % 3),
		ByEnum: map[intText]int{0: 1, 2: 3}, Raw: json.RawMessage(raw), Inner: structText{(i + 1) % 3}, private: L}
	if i > 0 {
		tg.PEnum = ptr(intText(i - 1))
		tg.Strs = map[string]string{L: ls[(i+2)%3]}
	}
	add(mkTyped(cStruct, "struct with `,string` fields, omitempty, an enum field, a pointer to an enum, an enum-keyed map, a RawMessage", tg))
	add(mkTyped(cStruct, "struct embedding a Stringer struct and an error struct", embeds{stringerStruct{L}, structErr{ls[(i+1)%3], i}, time.Duration(i)}))
	add(mkTyped(cStruct, "anonymous struct{ Name string }", struct{ Name string }{L}))
	// json.RawMessage: the author's JSON text, compacted and HTML-escaped by json.Marshal
	rawTexts := []string{
		string(jsonQuote(L, 0)),
		" { \"a\" : " + string(jsonQuote(L, 0)) + " ,\n\t\"b\":[1 , 2e+3, \"\\u0027\\/\\u2028\", true , null ] } ",
		"[" + string(jsonQuote(L, 1)) + ", {\"k'`${\":-0.5E+7}]",
	}
	add(mkTyped(cRaw, fmt.Sprintf("json.RawMessage(%q)", rawTexts[form%3]), json.RawMessage(rawTexts[form%3])))
	add(mkTyped(cRaw, fmt.Sprintf("*json.RawMessage(%q)", rawTexts[(form+1)%3]), ptr(json.RawMessage(rawTexts[(form+1)%3]))))
	// pointers
	add(mkTyped(cPtr, "*string "+lq, ptr(L)))
	add(mkTyped(cPtr, "**string", ptr(ptr(L))))
	add(mkTyped(cPtr, "*int", ptr(i)))
	add(mkTyped(cPtr, "nil *string", (*string)(nil)))
	add(mkTyped(cPtr, "nil *T, T an enum", (*intText)(nil)))
	add(mkTyped(cPtr, "*T, T an enum with label "+lq, ptr(intText(i))))
	add(mkTyped(cPtr, "*T, T a bool with MarshalJSON", ptr(boolJSON(i == 1))))
	// maps
	add(mkTyped(cMap, "map[string]T, T an enum", map[string]intText{L: intText(i), "k": intText((i + 1) % 3)}))
	add(mkTyped(cMap, "map[T]string, T an enum (TextMarshaler keys)", map[intText]string{0: ls[1], 1: ls[2], 2: ls[0]}))
	add(mkTyped(cMap, "map[T]bool, T a bool with MarshalText", map[boolText]bool{true: false, false: true}))
	add(mkTyped(cMap, "map[int]string", map[int]string{-1: L, 7: ls[(i+1)%3]}))
	add(mkTyped(cMap, "map[string]any holding an enum, a flag and a RawMessage", map[string]any{L: intText(i), "f": boolJSON(true), "r": json.RawMessage(rawTexts[1]), "n": nil}))
	add(mkTyped(cMap, "nil map", map[string]int(nil)))
	// slices, arrays, []byte
	add(mkTyped(cSlice, "[]T, T an enum", []intText{0, 1, 2}))
	add(mkTyped(cSlice, "[2]T, T a bool with MarshalJSON", [2]boolJSON{false, true}))
	add(mkTyped(cSlice, "[]byte (base64, may hold + and /)", []byte(L+"\xfb\xff\xfe")))
	add(mkTyped(cSlice, "[3]byte", [3]byte{1, 2, 255}))
	add(mkTyped(cSlice, "[]any", []any{L, intText(i), nil, 1.5, boolJSON(false), []string{ls[0]}}))
	add(mkTyped(cSlice, "[]*string with nil", []*string{ptr(L), nil}))
	add(mkTyped(cSlice, "nil []string", []string(nil)))
	// errors
	add(mkTyped(cErr, "errors.New("+lq+")", errors.New(L)))
	add(mkTyped(cErr, "fmt.Errorf wrapping", fmt.Errorf("wrap %s: %w", L, os.ErrNotExist)))
	add(mkTyped(cErr, "error struct with exported fields", structErr{L, i}))
	add(mkTyped(cErr, "error(T), T a string type", error(strErr(L))))
	// standard library
	zones := []*time.Location{time.UTC, time.FixedZone("", 5*3600+1800), time.FixedZone("x'y", -7*3600)}
	add(mkTyped(cStd, "time.Time in zone "+[]string{"UTC", "+05:30", "-07:00"}[i], time.Date(2024, 2, 29, 23, 59, 58, 123456789*i, zones[i])))
	add(mkTyped(cStd, "*big.Int", new(big.Int).Lsh(big.NewInt(int64(1+i)), 100)))
	add(mkTyped(cStd, "*big.Float (MarshalText)", new(big.Float).SetFloat64([]float64{1e100, -2.5e-30, 3}[i])))
	add(mkTyped(cStd, "net.IP", net.IP{10, 0, 0, byte(i)}))
	add(mkTyped(cStd, "net.IP (IPv6)", net.ParseIP("2001:db8::1")))
	if u, err := url.Parse("https://u:p'w@h/a b?q=" + url.QueryEscape(L) + "#f'`"); err == nil {
		add(mkTyped(cStd, "url.URL", *u))
		add(mkTyped(cStd, "*url.URL", u))
	}
	// held in an interface: the type argument is `any`
	add(mkTyped[any](cAny, "any(T), T an enum with label "+lq, intText(i)))
	add(mkTyped[any](cAny, "any(T), T a bool with MarshalJSON", boolJSON(i == 1)))
	add(mkTyped[any](cAny, "any(string)", L))
	add(mkTyped[any](cAny, "any(nil)", nil))
	add(mkTyped[fmt.Stringer](cAny, "fmt.Stringer(T), T an int with String()", stringerInt(i)))
	add(mkTyped[error](cAny, "error(struct)", structErr{L, i}))
	add(mkTyped[json.Marshaler](cAny, "json.Marshaler(T), T a float64 with MarshalJSON", float64JSON(i)))
	// marshalling fails: no output at all
	add(mkTyped("marshalling fails", "MarshalText returns an error", errText(i)))
	add(mkTyped("marshalling fails", "MarshalJSON returns text that is not JSON", badJSON(i)))
	add(mkTyped("marshalling fails", "NaN", math.NaN()))
	add(mkTyped("marshalling fails", "chan int", make(chan int)))
	add(mkTyped("marshalling fails", "json.Number that is not a number", json.Number("1'+alert(1)+'")))
	for k := range cs {
		cs[k].labels, cs[k].form = ls, form
	}
	return cs
}

var typedFixedLabels = [][]string{
	{"open", "won't fix", "said \"later\""},
	{"`${location}`", "</script>", "a+b/c"},
	{"\\", "x\\", "\\'"},
	{lsStr, "a\nb", "<!--"},
	{"", "'", "\""},
	{"`", "${", "$"},
	{"'+alert(1)+'", "\"+alert(1)+\"", "`+alert(1)+`"},
	{"&", "]]>", "\x00"},
}

func famTyped(c *core.Ctx, t *tally) {
	const (
		tieIn   = "typed values: ScriptContentInsideStringLiteral(v) = model replace(encoding/json's text of v), the string itself for a Go string, for every Go type of the hole (static type and any); it fails exactly when json.Marshal fails"
		tieOut  = "typed values: ScriptContentOutsideStringLiteral(v) = templ.JSONString(v) = encoding/json's text of v; SafeScriptInline(fn, v) = fn(<that text>)"
		propIn  = "typed values: in-literal specification holds of ScriptContentInsideStringLiteral(v) for named scalars with MarshalText/MarshalJSON, Marshaler structs, json.RawMessage, pointers, maps, slices, Stringers, errors, json.Number, time.Time ...: confined to the literal (all three quote kinds), value = encoding/json's text of v"
		propOut = "typed values: bare-position specification holds of ScriptContentOutsideStringLiteral(v), and the attribute form of a call with v cannot leave its attribute"
	)
	t.declare("tie", tieIn)
	t.declare("tie", tieOut)
	t.declare("prop", propIn)
	t.declare("prop", propOut)
	r := c.Rng.Fork()
	var all []typedCase
	for form := 0; form < 5; form++ {
		for _, ls := range typedFixedLabels {
			all = append(all, typedCases(ls, form, r)...)
		}
	}
	for k := 0; k < c.N(24, 600); k++ {
		ls := make([]string, 3)
		for j := 0; j < len(ls); j++ {
			switch r.Intn(3) {
			case 0:
				ls[j] = rng.Pick(r, scriptAttack)
			default:
				ls[j] = randString(r)
			}
			// labels are map keys too (map[T]string, T an enum): encoding/json's order of EQUAL keys is not determined, and
			// invalid bytes are scrubbed to U+FFFD before the keys are compared - keep the three labels distinct as JSON text
			for i := 0; i < j; i++ {
				if string([]rune(ls[i])) == string([]rune(ls[j])) {
					j--
					break
				}
			}
		}
		all = append(all, typedCases(ls, r.Intn(5), r)...)
	}
	type rec struct {
		want, in, out string
		failed        bool
	}
	recs := make([]rec, len(all))
	var reqs []drv.Req
	var owner []int
	types := map[string]bool{}
	for k, tc := range all {
		typedLabels, typedJSONForm = tc.labels, tc.form
		desc := map[string]string{"go_type": tc.goType, "how_it_marshals": tc.class, "go_value": tc.repro, "labels": fmt.Sprintf("%q", tc.labels)}
		std, werr := json.Marshal(tc.v)
		want := string(std)
		if s, ok := tc.v.(string); ok {
			want, werr = s, nil
		}
		in, ierr := tc.inside()
		inAny, aerr := templruntime.ScriptContentInsideStringLiteral[any](tc.v)
		out, oerr := tc.out()
		types[tc.goType] = true
		c.Hist("typed value: " + tc.class)
		key := ""
		if _, nt := classify(want); nt {
			key = "typed:" + tc.goType + ":" + want
		}
		c.Count(key)
		if (ierr != nil) != (werr != nil) || (aerr != nil) != (werr != nil) {
			desc["json.Marshal_error"], desc["inside_error"] = fmt.Sprint(werr), fmt.Sprint(ierr)
			t.tie(tieIn, desc, "ScriptContentInsideStringLiteral fails when json.Marshal does not, or the reverse")
			recs[k].failed = true
			continue
		}
		if _, isStr := tc.v.(string); !isStr && (oerr != nil) != (werr != nil) {
			t.tie(tieOut, desc, "ScriptContentOutsideStringLiteral fails when json.Marshal does not, or the reverse")
		}
		if werr != nil {
			if in != "" || inAny != "" || out != "" {
				desc["emitted"] = q(in + inAny + out)
				t.prop(propIn, "typed-output-despite-marshal-error", desc, "a value that cannot be marshalled is emitted all the same")
			}
			recs[k].failed = true
			continue
		}
		if inAny != in {
			desc["with_static_type"], desc["as_any"] = q(in), q(inAny)
			t.tie(tieIn, desc, "the emitted text depends on the type argument (static type / any)")
		}
		recs[k] = rec{want: want, in: in, out: out}
		reqs = append(reqs, drv.Req{Fn: "inside_str", Args: [][]byte{[]byte(want), []byte(in)}})
		owner = append(owner, k)
		if _, isStr := tc.v.(string); !isStr {
			if js, _ := templ.JSONString(tc.v); out != want || js != want {
				desc["json.Marshal"], desc["outside"], desc["JSONString"] = q(want), q(out), q(js)
				t.tie(tieOut, desc, "the bare position does not emit encoding/json's text")
			}
			if inl := templ.SafeScriptInline("fn", tc.v); inl != "fn("+want+")" {
				desc["SafeScriptInline"] = q(inl)
				t.tie(tieOut, desc, "a call argument is not emitted as encoding/json's text")
			}
			reqs = append(reqs, drv.Req{Fn: "bare", Args: [][]byte{[]byte(out)}}, drv.Req{Fn: "attr_inert", Args: [][]byte{[]byte(templ.SafeScript("fn", tc.v))}})
			owner = append(owner, -1-k, -1-k)
		}
	}
	res := c.Model(reqs)
	for j := 0; j < len(res); j++ {
		k := owner[j]
		a := res[j]
		if k >= 0 {
			tc, rc := all[k], recs[k]
			desc := map[string]string{"go_type": tc.goType, "how_it_marshals": tc.class, "go_value": tc.repro, "json.Marshal(v)": q(rc.want), "emitted": q(rc.in)}
			if len(a) != 2 {
				t.tie(tieIn, desc, "no model answer")
				continue
			}
			if string(a[0]) != rc.in {
				desc["model"] = q(string(a[0]))
				t.tie(tieIn, desc, "model and implementation differ")
			}
			if cl := firstZero(a[1], inlitClause); cl != "" {
				desc["clause"], desc["verdict"] = cl, string(a[1])
				// show the reader the literal kind the value escapes from (else the first kind whose value is wrong)
				qk := byte(0)
				for _, j := range []int{3, 5, 7, 4, 6, 8} {
					if qk == 0 && j < len(a[1]) && a[1][j] != '1' {
						qk = "'\"`"[(j-3)/2]
					}
				}
				if qk == 0 {
					qk = '\''
				}
				// what a JavaScript lexer makes of  var a = <q><emitted><q>;  (the specification's tokens, for the reader)
				seg0, seg1 := "var a = "+string(qk), string(qk)+";"
				if tr := c.Model([]drv.Req{{Fn: "script", Args: [][]byte{[]byte("1"), []byte(rc.want), []byte(seg0 + rc.in + seg1), []byte(seg0), []byte("0"), []byte(seg1)}}}); len(tr) == 1 && len(tr[0]) > 6 {
					w, g := decodeToks(tr[0][6:])
					desc["script"] = "<script>" + seg0 + "{{ v }}" + seg1 + "</script>"
					desc["rendered"] = q("<script>" + seg0 + rc.in + seg1 + "</script>")
					desc["tokens_expected"], desc["tokens_of_rendering"] = strings.Join(w, " | "), strings.Join(g, " | ")
				}
				t.prop(propIn, inlitShape(cl, rc.want), desc,
					"a Go value of type "+tc.goType+" placed inside a JavaScript string literal is not confined to it / does not arrive as its JSON text (clause "+cl+" of the in-literal specification is false)")
			}
			continue
		}
		tc, rc := all[-1-k], recs[-1-k]
		desc := map[string]string{"go_type": tc.goType, "how_it_marshals": tc.class, "go_value": tc.repro, "emitted": q(rc.out)}
		if len(a) == 1 && len(a[0]) == len(bareClause) {
			if cl := firstZero(a[0], bareClause); cl != "" {
				desc["clause"] = cl
				t.prop(propOut, "bare-"+cl, desc, "a Go value of type "+tc.goType+" placed in script data can end the script element, open a comment or break a line (clause "+cl+")")
			}
		} else if len(a) != 1 || string(a[0]) != "1" {
			desc["SafeScript"] = q(templ.SafeScript("fn", tc.v))
			t.prop(propOut, "call-attr-not-inert", desc, "the attribute form of a call with this argument contains a quote or < >")
		}
	}
	typedLabels, typedJSONForm = typedFixedLabels[0], 0
	c.Sample(map[string]string{"typed_value": "type T int with MarshalText \"won't fix\"", "inside": q(func() string { s, _ := templruntime.ScriptContentInsideStringLiteral(intText(1)); return s }()),
		"outside": q(func() string { s, _ := templruntime.ScriptContentOutsideStringLiteral(intText(1)); return s }())})
	c.Extra["typed_value_cases"] = len(all)
	c.Extra["typed_value_go_types"] = len(types)
}
