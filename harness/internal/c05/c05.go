// Package c05: dynamic CSS values cannot escape their declaration
// (safehtml.SanitizeCSS, templ.SanitizeCSS, runtime.SanitizeStyleAttributeValues, generator routing).
package c05

import (
	"bytes"
	"fmt"
	"net/url"
	"sort"
	"strings"

	"github.com/a-h/templ/safehtml"

	"verifharness/internal/core"
	"verifharness/internal/drv"
)

func init() { core.Register("C05", Run) }

// the CSS-adversarial alphabet of the property's quantifier
var alphabet = []string{";", ":", "{", "}", "(", ")", "\"", "'", "\\", "/", "*", "<", ">", ",", "@", "a", "u", "r", "l", " ", "\n"}

// extra symbols used by the splice / random generators
var extra = []string{"\t", "\r", "\f", "\v", "\x00", "\x01", "\x7f", "\u00a0", "\u0085", "\u2028", "\u3000", "\xc2", "\xa0", "[", "]", "#", "!", "&", "%", "-", "_", "1", ".", "+", "U", "R", "L", "\u00e9", "\u212a", "\u017f", "?", "="}

type ccase struct {
	prop, val string
	fam       string // generator family, for the histogram
}

// classes: one representative per sanitiser the property distinguishes
var (
	propBG      = "background-image"
	propFont    = "font-family"
	propEnum    = "display"
	propRegular = "color"
	propUnknown = "margin"
)

// words calls f on every word over alpha of length 0..maxLen, shorter words first (so the first failure is minimal).
func words(alpha []string, maxLen int, f func(string)) {
	var gen func(prefix string, n int)
	gen = func(prefix string, n int) {
		if n == 0 {
			f(prefix)
			return
		}
		for _, a := range alpha {
			gen(prefix+a, n-1)
		}
	}
	for n := 0; n <= maxLen; n++ {
		gen("", n)
	}
}

var baseBG = []string{`url("/img.png")`, `url('/img.png')`, `url(/img.png)`, `url(https://example.com/a.png)`, `url("/a"), url('/b') ,url(c)`, ` url(mailto:x) `, `url()`, `url("")`,
	`url(HTTPS://x/y?a=1&b=2#f)`, `url(//host/p)`, "\turl(a)\n,\furl(b)\r"}
var baseFont = []string{`"Georgia"`, `"Georgia", serif`, `Times New Roman`, `sans-serif`, `"a b", "c;d", monospace`, `"it's", "x(y)", "{}"`, `""`, ` "a" , b-c `, "\u00a0\"a\"\u2003", "serif\v"}
var baseRegular = []string{`red`, `1px solid`, `#fff`, `10% 20%`, `a/b`, `a*b`, `1.5em !important`, `a,b`, `a/`, `*`, `-1px`, "a\tb"}
var schemes = []string{"http", "https", "mailto", "javascript", "data", "vbscript", "file", "ftp", "tel", "ws", "blob", "about", "x"}

func genCases(c *core.Ctx, emit func(ccase)) {
	add := func(p, v, fam string) { emit(ccase{p, v, fam}) }
	quick := c.Quick()

	// A. exhaustive values over the alphabet
	lenFull := c.N(4, 5)
	lenSmall := c.N(3, 4)
	words(alphabet, lenFull, func(w string) { add(propRegular, w, "exhaustive"); add(propFont, w, "exhaustive") })
	words(alphabet, lenSmall, func(w string) {
		add(propEnum, w, "exhaustive")
		add(propBG, w, "exhaustive")
		add(propUnknown, w, "exhaustive")
	})
	if !quick {
		words(alphabet, 4, func(w string) { add(propEnum, w, "exhaustive") })
		words(alphabet, 5, func(w string) { add(propBG, w, "exhaustive") })
	}
	c.Extra["exhaustive_alphabet_len"] = map[string]int{"color,font-family": lenFull, "display,background-image,margin": lenSmall}

	// B. url( forms with an exhaustive body, and quoted font names with an exhaustive inside
	bodyLen := c.N(3, 4)
	words(alphabet, bodyLen, func(w string) {
		add(propBG, `url("`+w+`")`, "structured")
		add(propBG, `url('`+w+`')`, "structured")
		add(propBG, `url(`+w+`)`, "structured")
		add(propFont, `"`+w+`"`, "structured")
		add(propFont, `a`+w+`b`, "structured")
	})
	words(alphabet, c.N(2, 3), func(w string) {
		add(propBG, `url(a),`+w+`url("b")`, "structured")
		add(propBG, `url(a)`+w+`,url(b)`, "structured")
		add(propBG, w+`url(a)`+w, "structured")
		add(propFont, `"a",`+w+`"b"`, "structured")
		add(propFont, `"a"`+w+`,b c`, "structured")
		add(propFont, w+`"a"`+w, "structured")
	})
	// white-space runes (CSS and Unicode) around items
	wsp := []string{"", " ", "\t", "\n", "\r", "\f", "\v", "\u00a0", "\u0085", "\u1680", "\u2000", "\u200a", "\u2028", "\u2029", "\u202f", "\u205f", "\u3000", "\u200b", "\ufeff", "\xa0", "\xc2", "\xe2\x80", "\x80\xe2\x80\x80", "\xe2\x80\x80\x80", "x"}
	for _, l := range wsp {
		for _, r := range wsp {
			for _, core := range []string{`url(a)`, `url("a")`, `"a"`, `serif`, `red`, ``, `,`, `url(a),` + r + l + `url(b)`, `"a",` + r + l + `bc`} {
				for _, p := range []string{propBG, propFont, propRegular} {
					add(p, l+core+r, "whitespace")
				}
			}
		}
	}

	// C. a terminator spliced into the middle of an accepted value
	syms := append(append([]string{}, alphabet...), extra...)
	splice := func(p string, bases []string) {
		for _, b := range bases {
			add(p, b, "splice")
			for i := 0; i <= len(b); i++ {
				for _, s := range syms {
					add(p, b[:i]+s+b[i:], "splice")
					if i < len(b) {
						add(p, b[:i]+s+b[i+1:], "splice")
					}
				}
				if i < len(b) {
					add(p, b[:i]+b[i+1:], "splice")
				}
			}
		}
	}
	splice(propBG, baseBG)
	splice(propFont, baseFont)
	splice(propRegular, baseRegular)
	splice(propEnum, []string{"block", "inline-block", "none"})
	if !quick {
		for _, b := range append(append([]string{}, baseBG[:6]...), baseFont[:6]...) {
			p := propBG
			if strings.HasPrefix(b, `"`) || !strings.Contains(b, "url") {
				p = propFont
			}
			for i := 0; i <= len(b); i++ {
				for _, s1 := range alphabet {
					for _, s2 := range alphabet {
						add(p, b[:i]+s1+s2+b[i:], "splice2")
					}
				}
			}
		}
	}

	// D. URL schemes inside url(...)
	for _, sc := range schemes {
		for _, variant := range []string{sc, strings.ToUpper(sc), strings.ToUpper(sc[:1]) + sc[1:], strings.ReplaceAll(sc, "s", "\u017f"), strings.ReplaceAll(sc, "k", "\u212a"),
			" " + sc, "\x01" + sc, "\t" + sc, sc[:1] + "\t" + sc[1:], sc[:1] + "\n" + sc[1:], sc + "#", "#" + sc, "/" + sc, "1" + sc, sc + "+x", sc + ".-1", "\u00a0" + sc, sc + "\x00", "%20" + sc, sc + "%3a"} {
			for _, tail := range []string{":x", "://h/p", ":", "", ":alert`1`", "&colon;x", ":x#y:z", "/a:b"} {
				b := variant + tail
				add(propBG, `url(`+b+`)`, "scheme")
				add(propBG, `url("`+b+`")`, "scheme")
				add(propBG, `url('`+b+`') , url(/ok)`, "scheme")
			}
		}
	}

	// E. every property class x the hand-written vectors, property-name variants
	vectors := []string{
		`"</style><script>alert(1)</script>"`, `"`, `url("/x");}*{color:red;y:url("z")`, `url(javascript:alert(1))`, `expression(alert(1))`, `red;background:url(//evil)`,
		`red}*{color:blue`, `a/**/b`, `a/*`, `*/`, `//`, `\`, `a\`, `\;`, `url(\))`, `url(a\)`, "\u00a0url(a)", "\vurl(a)", `URL(a)`, `Url("a")`, `aurl(a)`, `-url(a)`, `url (a)`, `url(a`, `url("a)`, `url(a")`,
		`url(")`, `url(')`, `url("')`, `url('")`, `url("a"")`, `url(""a")`, `url(a b)`, `url( a )`, `url(a;b)`, `url(a{b)`, `url([)`, `url(a<b)`, `url(a>b)`, `image-set("a")`, `var(--x)`, `calc(1px)`,
		`"a\"b"`, "\"a\nb\"", `"a\`, `"a","`, `"a"b"`, `'a'`, `'a;b'`, `a'b`, `a"b`, `serif;`, `ser{if`, `@import`, `!important`, `<!--`, `-->`, `<`, `&#34;`, `&quot;x`, `a&b`,
	}
	names := []string{propBG, propFont, propEnum, propRegular, propUnknown, "BACKGROUND-IMAGE", "Font-Family", "DISPLAY", "Color", "background", "font", "--x", "-", "z-index", "width",
		"", " color", "color ", "a b", "color;", "color:", "a_b", "a1", "\u00e9", "\u212a", "col\u017for", "zTemplUnsafeCSSPropertyName", "ztemplunsafecsspropertyname", "}", "*/", "</style>", "a\n", "\x00"}
	for _, n := range names {
		for _, v := range vectors {
			add(n, v, "vectors")
		}
		for _, v := range baseBG[:4] {
			add(n, v, "vectors")
		}
		for _, v := range baseFont[:4] {
			add(n, v, "vectors")
		}
		for _, v := range baseRegular {
			add(n, v, "vectors")
		}
	}

	// E2. comma-separated lists: every order of (valid | invalid | bare) items up to three items, so that a
	// check that holds for one item but is skipped for another (first / middle / last) yields a failing input
	listItems := map[string][]string{
		propBG:   {`url(a)`, `url("b")`, `url('c')`, `url(/a.png)`, `url(javascript:x)`, `url(a"b)`, `url("a")b")`},
		propFont: {`"a"`, `serif`, `Times New Roman`, `"b;c"`, `"a\"`, `"a`, `a"`},
	}
	bare := []string{`/*`, `*/`, `;`, `}`, `{`, `//evil.example.com/x.png`, `javascript:x`, `a(b)`, `\`, `"`, `'`, `x`, ``, `(`, `)`, `expression(1)`, `url(`, `@import x`, `a;b:c`, `]`, `/`, `*`}
	for _, p := range []string{propBG, propFont} {
		pool := append(append([]string{}, listItems[p]...), bare...)
		seps := []string{",", ", ", " ,\n"}
		for _, a := range pool {
			add(p, a, "lists")
		}
		for _, sep := range seps { // shorter lists first, so the first failure is minimal
			for _, a := range pool {
				for _, b := range pool {
					add(p, a+sep+b, "lists")
				}
			}
		}
		for _, sep := range seps {
			for _, a := range pool {
				for _, b := range pool {
					for _, d := range pool {
						add(p, a+sep+b+sep+d, "lists")
					}
				}
			}
		}
	}

	// E3. character-reference disguises (rendered.go): references to the bytes a CSS scanner acts on, inside the
	// shapes each sanitiser accepts - the sanitiser sees the literal characters, the browser decodes the attribute first
	for _, k := range refCases(c) {
		emit(k)
	}

	// F. random values: alphabet-weighted bytes, and mutations of accepted values
	nRand := c.N(60000, 1500000)
	r := c.Rng
	props := []string{propBG, propBG, propFont, propFont, propRegular, propEnum, propUnknown}
	allBases := append(append(append([]string{}, baseBG...), baseFont...), baseRegular...)
	for i := 0; i < nRand; i++ {
		p := props[r.Intn(len(props))]
		switch r.Intn(3) {
		case 0:
			n := r.Intn(24)
			var sb strings.Builder
			for j := 0; j < n; j++ {
				switch r.Intn(8) {
				case 0:
					sb.WriteByte(byte(r.Intn(256)))
				case 1:
					sb.WriteString(extra[r.Intn(len(extra))])
				default:
					sb.WriteString(alphabet[r.Intn(len(alphabet))])
				}
			}
			add(p, sb.String(), "random")
		case 1:
			// a list of plausible items with random glue
			n := 1 + r.Intn(4)
			var sb strings.Builder
			for j := 0; j < n; j++ {
				if j > 0 {
					sb.WriteString([]string{",", ", ", " ,", ";", "", ",\n", ",,"}[r.Intn(7)])
				}
				var item string
				if p == propFont || (p != propBG && r.Intn(2) == 0) {
					item = []string{`"a"`, `"b c"`, `serif`, `Times New Roman`, `"x;y"`, `"`, `a`, `"\"`, `'a'`, `"<"`}[r.Intn(10)]
				} else {
					item = []string{`url(a)`, `url("b")`, `url('c')`, `url(javascript:x)`, `url("data:x")`, `url(`, `)`, `url( d )`, `url(e")`, `url(http://h/p)`}[r.Intn(10)]
				}
				if r.Intn(4) == 0 {
					k := r.Intn(len(item) + 1)
					item = item[:k] + syms[r.Intn(len(syms))] + item[k:]
				}
				sb.WriteString(wsp[r.Intn(len(wsp))] + item + wsp[r.Intn(len(wsp))])
			}
			add(p, sb.String(), "random")
		default:
			v := []byte(allBases[r.Intn(len(allBases))])
			for k := r.Intn(3) + 1; k > 0; k-- {
				pos := r.Intn(len(v) + 1)
				switch r.Intn(3) {
				case 0:
					v = append(v[:pos:pos], append([]byte(syms[r.Intn(len(syms))]), v[pos:]...)...)
				case 1:
					if pos < len(v) {
						v = append(v[:pos:pos], v[pos+1:]...)
					}
				default:
					if pos < len(v) {
						v[pos] = byte(r.Intn(256))
					}
				}
			}
			add(p, string(v), "random")
		}
	}
}

// parseAnswer is the real net/url's answer in the oracle encoding of extract/X05.v.
func parseAnswer(s string) []byte {
	u, err := url.Parse(s)
	if err != nil {
		return []byte("0")
	}
	return []byte("1" + u.Scheme)
}

var kindTable map[string]string

func kindOf(p string) string {
	lp := safehtml.SanitizeCSSProperty(p)
	if lp == safehtml.InnocuousPropertyName {
		return "invalid-name"
	}
	if kindTable == nil {
		kindTable = map[string]string{}
		names, kinds := safehtml.VerifC05Kinds()
		for i, n := range names {
			kindTable[n] = kinds[i]
		}
	}
	if k, ok := kindTable[lp]; ok {
		return k
	}
	return "unlisted(regular)"
}

// guarded runs an implementation call; a panic is reported instead of killing the check.
func guarded(f func()) (panicked string) {
	defer func() {
		if r := recover(); r != nil {
			panicked = fmt.Sprint(r)
		}
	}()
	f()
	return ""
}

const structural = ";{}()\"'\\/*<,"

type result struct {
	cs       ccase
	ip, iv   string   // implementation output
	oracle   [][]byte // url.Parse answers the model needs for this case
	accepted bool
}

func Run(c *core.Ctx) {
	c.Rule = "safehtml.SanitizeCSS on (property class x value): every value over the 21-symbol CSS-adversarial alphabet up to the tier's length per sanitiser class, url(...)/quoted-name shapes with an exhaustive inside, white-space-rune wrappers, every alphabet/extra symbol spliced at every position of accepted values, scheme variants inside url(), hand-written vectors x property-name variants, comma-separated lists of valid/invalid/bare items in every order up to three items, random; distinct non-trivial = distinct (sanitiser class, value) with a structural byte (one of ; { } ( ) quote backslash / * < ,) in the value; the same cases, sampled, through templ.SanitizeCSS[T] for five value types, a rendered <style> element, runtime.SanitizeStyleAttributeValues in every value form, and sequences of style-attribute renders in which one is abandoned by a recovered panic (sequential on one P and concurrent); character-reference disguises (references of every form - named, decimal, hexadecimal, unterminated, double-escaped, near misses - to quotes, ';', ':', brackets, braces, backslash, '<', exhaustively to the tier's length and as break-out texts inside quoted names and url() bodies) through every layer; RENDERED DOCUMENTS written by compiled generated code: style attributes in seven template forms judged after tokenizing and attribute decoding, and css components for every expression shape (identifier, literals, concatenations that begin and end with quotes, raw strings, parenthesised, calls, conversions, index/field/closure forms) x property class x layout judged on the <style> element the compiled class function wrote"
	c.Trusted = append(c.Trusted,
		"specification spec/CssScan.v (CSS Syntax 3 scanner: confined, urls_of, decl_list) and spec/Whatwg.v (browser scheme extraction)",
		"specification spec/CssSink.v (what the browser's CSS parser receives: spec/HtmlTok.v tokenizer, spec/HtmlRefs.v + spec/HtmlEntities.v attribute decoding with the standard's 2231 names, style-sheet rule scanner)",
		"extraction: ExtrOcamlBasic only; ocaml/driver.ml (hex line protocol)",
		"Go harness internal/c05 (its evaluation of the probe templates' Go expressions, the scratch module it compiles), the Go toolchain",
		"thorough tier: node's WHATWG URL parser as an independent oracle for the scheme of every URL in an accepted background-image value")
	c.Assume = append(c.Assume,
		"url.Parse contract (Section hypothesis of the theorems): when it returns no error the part of its argument before the first # has no byte < 0x20 or 0x7f and URL.Scheme is go_scheme(argument); checked against the real net/url on every URL body met and on random strings",
		"strings are byte strings; strings.TrimSpace strips exactly the runes of model space_runes (checked against unicode.IsSpace over all runes)",
		"a browser tokenises a declaration value per CSS Syntax Level 3 and extracts URL schemes per WHATWG URL (spec files above); the <style> text it sees is the element's text as tokenized (RAWTEXT), the style attribute value is the tokenized raw value after character-reference decoding in attribute mode")
	c.Proofs()

	run := &cssRunner{c: c, tieOK: true, propOK: true, bodies: map[string]struct{}{}}
	genCases(c, run.add)
	run.flush()
	res := run.finish()
	runProperty(c)
	contracts(c, run.bodies)
	runTemplCSS(c, res)
	escapedAgain := runGenerator(c)
	runStyleAttr(c, res, run.refs, escapedAgain)
	runStyleSeq(c, res)
	runRendered(c, res, run.refs)
	if !c.Quick() {
		nodeURLs(c, res)
	}
}

func oracleFor(bodies [][]byte) [][]byte {
	var o [][]byte
	seen := map[string]bool{}
	for _, b := range bodies {
		if seen[string(b)] {
			continue
		}
		seen[string(b)] = true
		o = append(o, b, parseAnswer(string(b)))
	}
	return o
}

func shapeOf(kind, v string) string { return "" }

// cssRunner: safehtml.SanitizeCSS against the model, and the specification predicates on its output,
// in chunks (the thorough tier generates millions of cases).
type cssRunner struct {
	c             *core.Ctx
	buf           []ccase
	kept          []result // cases handed on to the outer layers
	refs          []result // the character-reference family, all of it (for the rendered documents)
	keptAcc       int
	bodies        map[string]struct{} // URL bodies the model passed to url.Parse
	tieOK, propOK bool
}

func (r *cssRunner) add(cs ccase) {
	r.buf = append(r.buf, cs)
	if len(r.buf) >= 250000 {
		r.flush()
	}
}

func (r *cssRunner) finish() []result {
	c := r.c
	c.Oblige("correspondence", "css: model sanitize_css = safehtml.SanitizeCSS on all generated (property, value) pairs", r.tieOK, "")
	c.Oblige("correspondence", "css: extracted name_ok / confined / urls_ok hold of safehtml.SanitizeCSS's output on all generated pairs", r.propOK, "")
	for _, s := range [][2]string{{propFont, `"</style><script>alert(1)</script>"`}, {propBG, `url("/x");}*{color:red;y:url("z")`}, {propBG, "\u00a0url(a)"}, {propFont, `"a;b", serif`}, {propBG, `url(JavaScript:x)`}} {
		p, v := safehtml.SanitizeCSS(s[0], s[1])
		c.Sample(map[string]string{"property": s[0], "value": s[1], "impl_name": p, "impl_value": v})
	}
	return r.kept
}

func (r *cssRunner) flush() {
	c, cases := r.c, r.buf
	r.buf = nil
	if len(cases) == 0 {
		return
	}
	res := make([]result, len(cases))
	// phase 1: which URL bodies does the model pass to url.Parse?
	var breqs []drv.Req
	var bidx []int
	for i, cs := range cases {
		res[i].cs = cs
		if strings.Contains(cs.val, "(") {
			breqs = append(breqs, drv.Req{Fn: "bodies", Args: [][]byte{[]byte(cs.val)}})
			bidx = append(bidx, i)
		}
	}
	bres := c.Model(breqs)
	for k, i := range bidx {
		if k < len(bres) {
			res[i].oracle = oracleFor(bres[k])
		}
	}
	// phase 2
	reqs := make([]drv.Req, len(cases))
	for i, cs := range cases {
		var ip, iv string
		if p := guarded(func() { ip, iv = safehtml.SanitizeCSS(cs.prop, cs.val) }); p != "" {
			r.propOK = false
			if c.NFails("css: sanitiser panics") < 3 {
				c.Fail("property", "css: sanitiser panics", "", map[string]string{"property": cs.prop, "value": cs.val}, "safehtml.SanitizeCSS panicked: "+p)
			}
			ip, iv = "<panic>", "<panic>"
		}
		res[i].ip, res[i].iv = ip, iv
		res[i].accepted = iv == cs.val && ip != safehtml.InnocuousPropertyName
		args := append([][]byte{[]byte(cs.prop), []byte(cs.val)}, res[i].oracle...)
		reqs[i] = drv.Req{Fn: "css", Args: args}
		kind := kindOf(cs.prop)
		if res[i].accepted {
			c.Hist("css " + kind + ": value returned unchanged (" + cs.fam + ")")
		} else {
			c.Hist("css " + kind + ": replaced by the innocuous value (" + cs.fam + ")")
		}
		key := ""
		if strings.ContainsAny(cs.val, structural) {
			key = kind + "|" + cs.val
		}
		c.Count(key)
	}
	mres := c.Model(reqs)
	tieOK, propOK := true, true
	_ = tieOK
	var differ []int
	for i, r := range mres {
		if len(r) != 5 {
			tieOK = false
			continue
		}
		same := string(r[0]) == res[i].ip && string(r[1]) == res[i].iv
		if !same {
			differ = append(differ, i)
			tieOK = false
			fam := "css " + kindOf(cases[i].prop) + ": model = safehtml.SanitizeCSS"
			if c.NFails(fam) < 3 {
				c.Fail("tie", fam, "", map[string]string{"property": cases[i].prop, "value": cases[i].val, "impl_name": res[i].ip, "impl_value": res[i].iv, "model_name": string(r[0]), "model_value": string(r[1])}, "model and implementation differ")
			}
			continue
		}
		if string(r[2]) != "1" || string(r[3]) != "1" || string(r[4]) != "1" {
			propOK = false
			reportCSS(c, cases[i], res[i], string(r[2]) == "1", string(r[3]) == "1", string(r[4]) == "1")
		}
	}
	// where the implementation differs from the model, evaluate the specification on what the implementation returned
	if len(differ) > 0 {
		var sreqs []drv.Req
		for _, i := range differ {
			sreqs = append(sreqs, drv.Req{Fn: "name_ok", Args: [][]byte{[]byte(res[i].ip)}}, drv.Req{Fn: "spec", Args: [][]byte{[]byte(res[i].iv)}})
		}
		sres := c.Model(sreqs)
		for k, i := range differ {
			if 2*k+1 >= len(sres) || len(sres[2*k]) != 1 || len(sres[2*k+1]) != 2 {
				continue
			}
			n, cf, u := string(sres[2*k][0]) == "1", string(sres[2*k+1][0]) == "1", string(sres[2*k+1][1]) == "1"
			if !n || !cf || !u {
				propOK = false
				reportCSS(c, cases[i], res[i], n, cf, u)
			}
		}
	}
	r.tieOK = r.tieOK && tieOK
	r.propOK = r.propOK && propOK
	for i := range res {
		for k := 0; k+1 < len(res[i].oracle); k += 2 {
			if len(r.bodies) < 400000 {
				r.bodies[string(res[i].oracle[k])] = struct{}{}
			}
		}
		if res[i].cs.fam == "references" {
			r.refs = append(r.refs, res[i])
		}
		if res[i].accepted && strings.ContainsAny(res[i].cs.val, structural+"& \t\n") {
			if r.keptAcc < 150000 {
				r.kept = append(r.kept, res[i])
				r.keptAcc++
			}
		} else if len(r.kept) < 400000 && (res[i].cs.fam == "vectors" || c.Rng.Intn(40) == 0) {
			r.kept = append(r.kept, res[i])
		}
	}
}

func reportCSS(c *core.Ctx, cs ccase, r result, nameOK, confined, urlsOK bool) {
	kind := kindOf(cs.prop)
	what := []string{}
	if !nameOK {
		what = append(what, "the returned property name is not a run of letters and '-'")
	}
	if !confined {
		what = append(what, "the returned value does not stay inside its declaration (CSS Syntax 3 scan)")
	}
	if !urlsOK {
		what = append(what, "the returned value references a URL whose scheme is not http/https/mailto")
	}
	fam := "css " + kind + ": specification predicate on safehtml.SanitizeCSS output"
	if c.NFails(fam) < 5 {
		c.Fail("property", fam, shapeOf(kind, r.iv), map[string]string{"property": cs.prop, "value": cs.val, "impl_name": r.ip, "impl_value": r.iv}, strings.Join(what, "; "))
	}
}

// runProperty: SanitizeCSSProperty over property names.
func runProperty(c *core.Ctx) {
	alpha := []string{"-", "a", "Z", "k", "S", ":", ";", "{", " ", "_", "1", "\u00e9", "\u212a", "\u017f", "\n", "\x00", "\xff", "}", "*", "/"}
	var names []string
	words(alpha, c.N(3, 4), func(w string) { names = append(names, w) })
	for i := 0; i < c.N(5000, 100000); i++ {
		n := c.Rng.Intn(12)
		b := make([]byte, n)
		for j := range b {
			switch c.Rng.Intn(6) {
			case 0:
				b[j] = byte(c.Rng.Intn(256))
			case 1:
				b[j] = '-'
			default:
				b[j] = "abcxyzABCXYZkKsS"[c.Rng.Intn(16)]
			}
		}
		names = append(names, string(b))
	}
	reqs := make([]drv.Req, 0, 2*len(names))
	outs := make([]string, len(names))
	for i, n := range names {
		outs[i] = safehtml.SanitizeCSSProperty(n)
		reqs = append(reqs, drv.Req{Fn: "property", Args: [][]byte{[]byte(n)}}, drv.Req{Fn: "name_ok", Args: [][]byte{[]byte(outs[i])}})
		if outs[i] == safehtml.InnocuousPropertyName {
			c.Hist("property name: replaced by the innocuous name")
		} else {
			c.Hist("property name: lower-cased and kept")
		}
		key := ""
		if outs[i] != safehtml.InnocuousPropertyName {
			key = "name|" + n
		}
		c.Count(key)
	}
	mres := c.Model(reqs)
	tieOK, propOK := true, true
	for i := range names {
		if 2*i+1 >= len(mres) || len(mres[2*i]) != 1 || len(mres[2*i+1]) != 1 {
			tieOK = false
			continue
		}
		if string(mres[2*i][0]) != outs[i] {
			tieOK = false
			if c.NFails("property name: model = SanitizeCSSProperty") < 3 {
				c.Fail("tie", "property name: model = SanitizeCSSProperty", "", map[string]string{"name": names[i], "impl": outs[i], "model": string(mres[2*i][0])}, "model and implementation differ")
			}
		}
		if string(mres[2*i+1][0]) != "1" {
			propOK = false
			if c.NFails("property name: name_ok on SanitizeCSSProperty output") < 5 {
				c.Fail("property", "property name: name_ok on SanitizeCSSProperty output", "", map[string]string{"name": names[i], "impl": outs[i]}, "the returned property name is not a non-empty run of ASCII letters and '-'")
			}
		}
	}
	c.Oblige("correspondence", "property name: model sanitize_property = safehtml.SanitizeCSSProperty on all generated names", tieOK, "")
	c.Oblige("correspondence", "property name: extracted name_ok holds of safehtml.SanitizeCSSProperty's output", propOK, "")
}

// contracts: the library facts the theorems assume, checked against the real libraries.
func contracts(c *core.Ctx, bodies map[string]struct{}) {
	// url.Parse: no error => no control byte, and Scheme = go_scheme(argument)
	seen := map[string]bool{}
	var strs []string
	addS := func(s string) {
		if !seen[s] {
			seen[s] = true
			strs = append(strs, s)
		}
	}
	keys := make([]string, 0, len(bodies))
	for b := range bodies {
		keys = append(keys, b)
	}
	sort.Strings(keys)
	for _, b := range keys {
		addS(b)
	}
	nBodies := len(strs)
	pool := []string{"http", "https", "mailto", "javascript", "a", "A1+-.", "x"}
	glue := []string{":", "/", "#", "?", "%", "@", " ", "\t", "\x00", "\x7f", "\u00e9", "[", "]", ".", "+", "-", "1", "//", ":/", "a", "Z", "\\", "%zz", "%41"}
	for i := 0; i < c.N(40000, 600000); i++ {
		var sb strings.Builder
		for k := c.Rng.Intn(5); k >= 0; k-- {
			if c.Rng.Intn(3) == 0 {
				w := pool[c.Rng.Intn(len(pool))]
				if c.Rng.Intn(3) == 0 {
					w = strings.ToUpper(w)
				}
				sb.WriteString(w)
			} else if c.Rng.Intn(12) == 0 {
				sb.WriteByte(byte(c.Rng.Intn(256)))
			} else {
				sb.WriteString(glue[c.Rng.Intn(len(glue))])
			}
		}
		addS(sb.String())
	}
	reqs := make([]drv.Req, len(strs))
	for i, s := range strs {
		reqs[i] = drv.Req{Fn: "go_scheme", Args: [][]byte{[]byte(s)}}
	}
	mres := c.Model(reqs)
	ok := true
	okN, errN := 0, 0
	first := ""
	for i, s := range strs {
		u, err := url.Parse(s)
		if err != nil {
			errN++
			continue
		}
		okN++
		if i >= len(mres) || len(mres[i]) != 2 {
			ok = false
			continue
		}
		if string(mres[i][0]) != u.Scheme || string(mres[i][1]) != "0" {
			ok = false
			if first == "" {
				first = fmt.Sprintf("url.Parse(%q): Scheme=%q, model go_scheme=%q, control byte before #=%s", s, u.Scheme, mres[i][0], mres[i][1])
			}
		}
	}
	c.Extra["url_parse_contract"] = map[string]int{"strings": len(strs), "url_bodies_met": nBodies, "parsed": okN, "rejected_by_url.Parse": errN}
	c.Oblige("contract", "url.Parse: no error => no control byte before the first # and URL.Scheme = go_scheme(argument) (real net/url)", ok, first)

	// strings.TrimSpace: the white-space runes
	sres := c.Model([]drv.Req{{Fn: "space_runes"}})
	okWS := len(sres) == 1
	detail := ""
	if okWS {
		model := map[string]bool{}
		for _, w := range sres[0] {
			model[string(w)] = true
		}
		n := 0
		for r := rune(0); r <= 0x10ffff; r++ {
			if r >= 0xd800 && r <= 0xdfff {
				continue
			}
			enc := string(r)
			isSp := strings.TrimSpace(enc) == ""
			if isSp {
				n++
			}
			if isSp != model[enc] {
				okWS = false
				detail = fmt.Sprintf("U+%04X: TrimSpace strips it = %v, in model space_runes = %v", r, isSp, model[enc])
				break
			}
		}
		if okWS && n != len(sres[0]) {
			okWS = false
			detail = "model list has entries that are not single runes"
		}
	}
	c.Oblige("contract", "strings.TrimSpace strips exactly the runes listed in model space_runes (all 1,112,064 scalar values)", okWS, detail)
	// trim_space on strings with broken encodings around the edges
	frag := []string{" ", "\t", "\v", "\u00a0", "\u0085", "\u2003", "\u3000", "\xc2", "\xa0", "\x85", "\xe2", "\x80", "\xe2\x80", "\x80\x80", "a", "\"", "\xe3\x80", "\xff", "\u200b", "\u1680", "\xe1\x9a"}
	var ts []string
	words(frag, c.N(3, 4), func(w string) { ts = append(ts, w); ts = append(ts, w+"a"+w) })
	treqs := make([]drv.Req, len(ts))
	for i, s := range ts {
		treqs[i] = drv.Req{Fn: "trim_space", Args: [][]byte{[]byte(s)}}
	}
	tres := c.Model(treqs)
	okT := true
	detail = ""
	for i, s := range ts {
		c.Count("")
		if i >= len(tres) || len(tres[i]) != 1 || string(tres[i][0]) != strings.TrimSpace(s) {
			okT = false
			if detail == "" {
				detail = fmt.Sprintf("TrimSpace(%q)=%q", s, strings.TrimSpace(s))
			}
		}
	}
	c.Hist("contract: strings.TrimSpace on rune fragments")
	c.Oblige("contract", "model trim_space = strings.TrimSpace on white-space runes and broken encodings at both ends", okT, detail)
	_ = bytes.Equal
}
