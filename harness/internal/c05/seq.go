package c05

import (
	"fmt"
	"html"
	"runtime"
	"strconv"
	"sync"

	"github.com/a-h/templ"
	templruntime "github.com/a-h/templ/runtime"

	"verifharness/internal/core"
	"verifharness/internal/drv"
)

// Sequences of style-attribute renders.  SanitizeStyleAttributeValues must be a function of its own arguments:
// a render abandoned by a panic (a value func that panics, a nil func value - recovered further up, as
// net/http does per request) must leave nothing behind that a later render emits.

// ordinaryCall builds one call made only of sanitised declaration forms (maps, key/values, SafeCSSProperty maps).
func ordinaryCall(c *core.Ctx, sel []result) []sval {
	r := c.Rng
	var vals []sval
	for n := r.Intn(3); n >= 0; n-- {
		cs := sel[r.Intn(len(sel))]
		switch r.Intn(4) {
		case 0, 1:
			vals = append(vals, sval{tok: [][]byte{tb("K"), tb(cs.cs.prop), tb(cs.cs.val)}, val: templ.KV(cs.cs.prop, cs.cs.val), decls: 1, kind: "KeyValue[string,string]", oracle: cs.oracle})
		case 2:
			m := map[string]string{cs.cs.prop: cs.cs.val}
			o := append([][]byte{}, cs.oracle...)
			if r.Intn(2) == 0 {
				cs2 := sel[r.Intn(len(sel))]
				m[cs2.cs.prop] = cs2.cs.val
				o = append(o, cs2.oracle...)
			}
			vals = append(vals, sval{tok: mapTokens("M", m), val: m, decls: len(m), kind: "map[string]string", oracle: o})
		default:
			v := safeVals[r.Intn(len(safeVals))]
			vals = append(vals, sval{tok: mapTokens("S", map[string]string{cs.cs.prop: v}), val: map[string]templ.SafeCSSProperty{cs.cs.prop: templ.SafeCSSProperty(v)}, decls: 1, kind: "map[string]SafeCSSProperty"})
		}
	}
	return vals
}

// abandoning values: each makes the render panic when it is reached
func abandoningValue(c *core.Ctx) (any, string) {
	switch c.Rng.Intn(6) {
	case 0:
		return func() string { panic("value func panics") }, "func() string that panics"
	case 1:
		return func() (string, error) { panic("value func panics") }, "func() (string, error) that panics"
	case 2:
		return (func() string)(nil), "nil func() string"
	case 3:
		return (func() (map[string]string, error))(nil), "nil func() (map[string]string, error)"
	case 4:
		return []any{templ.KV("display", "none"), func() any { panic("nested value func panics") }}, "slice holding a key/value and a func that panics"
	default:
		return func() any { var m map[string]int; m["x"] = 1; return "" }, "func() any that writes to a nil map"
	}
}

type seqCall struct {
	vals     []sval
	expected string // the model's result for this call alone
	decls    int
}

func goVals(vals []sval) []any {
	out := make([]any, len(vals))
	for i, v := range vals {
		out[i] = v.val
	}
	return out
}

func runStyleSeq(c *core.Ctx, res []result) {
	defer layerPanic(c, "runtime.SanitizeStyleAttributeValues (sequences)")
	sel := pick(c, res, 3000, 1500)
	if len(sel) == 0 {
		return
	}
	nSeq := c.N(4000, 60000)
	const later = 3
	// the ordinary calls, and what each returns on its own according to the model
	calls := make([]seqCall, nSeq*later)
	reqs := make([]drv.Req, len(calls))
	kv := func(k, v string) sval {
		return sval{tok: [][]byte{tb("K"), tb(k), tb(v)}, val: templ.KV(k, v), decls: 1, kind: "KeyValue[string,string]"}
	}
	for i := range calls {
		vals := ordinaryCall(c, sel)
		if i < later {
			vals = []sval{kv("width", "1")} // the first sequence is hand-written, so the first replay is readable
		}
		var toks, oracle [][]byte
		d := 0
		for _, v := range vals {
			toks = append(toks, v.tok...)
			oracle = append(oracle, v.oracle...)
			d += v.decls
		}
		calls[i] = seqCall{vals: vals, decls: d}
		args := [][]byte{tb(strconv.Itoa(len(oracle) / 2))}
		args = append(args, oracle...)
		args = append(args, toks...)
		reqs[i] = drv.Req{Fn: "style_attr", Args: args}
	}
	mres := c.Model(reqs)
	modelOK := true
	for i := range calls {
		if i < len(mres) && len(mres[i]) == 2 && string(mres[i][0]) == "1" {
			calls[i].expected = string(mres[i][1])
		} else {
			modelOK = false
		}
	}
	if !modelOK {
		c.Oblige("correspondence", "style attribute sequences: the model answers every ordinary call", false, "")
		return
	}

	type finding struct {
		abandoned, call, got, want string
		decls                      int
		mode                       string
	}
	var mu sync.Mutex
	var finds []finding
	record := func(f finding) {
		mu.Lock()
		if len(finds) < 200 {
			finds = append(finds, f)
		}
		mu.Unlock()
	}
	abandonedRuns, abandonedPanicked := 0, 0
	// one sequence: an abandoned render (ordinary values first, then the abandoning one), then `later` ordinary renders
	sequence := func(k int, before []sval, ab any, abDesc, mode string) {
		args := append(goVals(before), ab)
		p := guarded(func() { templruntime.SanitizeStyleAttributeValues(args...) })
		mu.Lock()
		abandonedRuns++
		if p != "" {
			abandonedPanicked++
		}
		mu.Unlock()
		for j := 0; j < later; j++ {
			call := calls[k*later+j]
			var out string
			var err error
			if pp := guarded(func() { out, err = templruntime.SanitizeStyleAttributeValues(goVals(call.vals)...) }); pp != "" || err != nil {
				record(finding{describe(before) + " ; then " + abDesc, describe(call.vals), "panic/error: " + pp + fmt.Sprint(err), call.expected, call.decls, mode})
				continue
			}
			if out != call.expected {
				record(finding{describe(before) + " ; then " + abDesc, describe(call.vals), out, call.expected, call.decls, mode})
			}
		}
	}
	type plan struct {
		before []sval
		ab     any
		desc   string
	}
	plans := make([]plan, nSeq)
	for k := range plans {
		ab, desc := abandoningValue(c)
		var before []sval
		if c.Rng.Intn(8) != 0 {
			before = ordinaryCall(c, sel)
		}
		plans[k] = plan{before, ab, desc}
	}
	plans[0] = plan{[]sval{kv("display", "none")}, func() string { panic("value func panics") }, "func() string that panics"}
	// (a) deterministic: one P, one goroutine, so a pooled object put back is the next one taken
	half := nSeq / 2
	prev := runtime.GOMAXPROCS(1)
	for k := 0; k < half; k++ {
		sequence(k, plans[k].before, plans[k].ab, plans[k].desc, "sequential, GOMAXPROCS(1)")
		c.Hist("style attribute sequence: abandoned render then 3 ordinary renders (sequential)")
		c.Count("seq|" + strconv.Itoa(k))
	}
	runtime.GOMAXPROCS(prev)
	// (b) concurrent: abandoned and ordinary renders interleaved on several goroutines
	workers := 8
	var wg sync.WaitGroup
	for w := 0; w < workers; w++ {
		wg.Add(1)
		go func(w int) {
			defer wg.Done()
			for k := half + w; k < nSeq; k += workers {
				sequence(k, plans[k].before, plans[k].ab, plans[k].desc, "concurrent, 8 goroutines")
			}
		}(w)
	}
	wg.Wait()
	for k := half; k < nSeq; k++ {
		c.Hist("style attribute sequence: abandoned render then 3 ordinary renders (concurrent)")
		c.Count("seq|" + strconv.Itoa(k))
	}
	c.Extra["style_attr_sequences"] = map[string]int{"sequences": nSeq, "abandoned_renders": abandonedRuns, "abandoned_renders_that_panicked": abandonedPanicked, "ordinary_renders_checked": len(calls)}

	// what a browser reads back from each deviating result: exactly the call's own declarations?
	var preqs []drv.Req
	for _, f := range finds {
		preqs = append(preqs, drv.Req{Fn: "decls_ok", Args: [][]byte{tb(html.UnescapeString(f.got)), tb(strconv.Itoa(f.decls))}})
	}
	pres := c.Model(preqs)
	pureOK, readOK := len(finds) == 0, true
	for i, f := range finds {
		in := map[string]string{"mode": f.mode, "abandoned_render": f.abandoned, "later_render": f.call, "later_render_returned": f.got, "later_render_alone_returns": f.want}
		if i < len(pres) && len(pres[i]) == 1 && string(pres[i][0]) == "1" {
			if c.NFails("style attribute sequences: result depends only on the call's own values") < 3 {
				c.Fail("tie", "style attribute sequences: result depends only on the call's own values", "", in, "a render after an abandoned one returned something else than it returns on its own")
			}
			continue
		}
		readOK = false
		if c.NFails("style attribute sequences: a render emits exactly its own declarations") < 5 {
			c.Fail("property", "style attribute sequences: a render emits exactly its own declarations", "", in,
				fmt.Sprintf("after a render abandoned by a recovered panic, a later style attribute does not read back as exactly its own %d declarations: values written for another attribute reached it", f.decls))
		}
	}
	c.Oblige("correspondence", "style attribute sequences: after a render abandoned by a recovered panic, every later render returns what the model returns for it alone (sequential on one P, and concurrent)", pureOK, "")
	c.Oblige("correspondence", "style attribute sequences: every later render reads back (extracted decl_list) as exactly its own declarations", readOK, "")
	c.Oblige("side-condition", "style attribute sequences: the abandoning values do make the render panic (the fault is exercised)", abandonedPanicked*10 >= abandonedRuns*9, fmt.Sprintf("%d of %d", abandonedPanicked, abandonedRuns))
}
