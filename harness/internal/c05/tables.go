package c05

import (
	"fmt"
	"strings"

	"github.com/a-h/templ/safehtml"

	"verifharness/internal/core"
)

// Translator: the data tables safehtml/style.go is driven by, dumped from the live code
// (export hook /repo/safehtml/verif_c05.go) as Gallina for coq/gen/Tables05.v.
func init() { core.RegisterTable("C05 css sanitiser tables", tables) }

var kindCode = map[string]int{"regular": 0, "enum": 1, "font-family": 2, "background-image": 3}

func coqList(xs []string) string {
	parts := make([]string, len(xs))
	for i, x := range xs {
		parts[i] = core.CoqBytes([]byte(x))
	}
	return "[" + strings.Join(parts, "; ") + "]"
}

func tables() string {
	var sb strings.Builder
	names, kinds := safehtml.VerifC05Kinds()
	sb.WriteString("(* cssPropertyNameToValueSanitizer: property name -> sanitiser kind\n   0 sanitizeRegular, 1 sanitizeEnum, 2 sanitizeFontFamily, 3 sanitizeBackgroundImage, 9 a function unknown to the model *)\n")
	sb.WriteString("Definition css_table : list (bytes * N) := [\n")
	for i, n := range names {
		code, ok := kindCode[kinds[i]]
		if !ok {
			code = 9
		}
		sep := ";"
		if i == len(names)-1 {
			sep = ""
		}
		fmt.Fprintf(&sb, "  (%s, %d)%s (* %s -> %s *)\n", core.CoqBytes([]byte(n)), code, sep, n, kinds[i])
	}
	sb.WriteString("].\n")
	id, reg, enum, font := safehtml.VerifC05Patterns()
	fmt.Fprintf(&sb, "Definition css_pat_identifier : bytes := %s.\n", core.CoqBytes([]byte(id)))
	fmt.Fprintf(&sb, "Definition css_pat_regular : bytes := %s.\n", core.CoqBytes([]byte(reg)))
	fmt.Fprintf(&sb, "Definition css_pat_enum : bytes := %s.\n", core.CoqBytes([]byte(enum)))
	fmt.Fprintf(&sb, "Definition css_pat_generic_font : bytes := %s.\n", core.CoqBytes([]byte(font)))
	pre, suf := safehtml.VerifC05URLForms()
	fmt.Fprintf(&sb, "Definition css_url_prefixes : list bytes := %s.\n", coqList(pre))
	fmt.Fprintf(&sb, "Definition css_url_suffixes : list bytes := %s.\n", coqList(suf))
	fmt.Fprintf(&sb, "Definition css_innocuous_name : bytes := %s.\n", core.CoqBytes([]byte(safehtml.InnocuousPropertyName)))
	fmt.Fprintf(&sb, "Definition css_innocuous_value : bytes := %s.\n", core.CoqBytes([]byte(safehtml.InnocuousPropertyValue)))
	return sb.String()
}
