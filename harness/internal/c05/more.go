package c05

import (
	"bytes"
	"context"
	"errors"
	"fmt"
	"html"
	"os/exec"
	"regexp"
	"sort"
	"strconv"
	"strings"

	"github.com/a-h/templ"
	"github.com/a-h/templ/generator"
	parser "github.com/a-h/templ/parser/v2"
	templruntime "github.com/a-h/templ/runtime"
	"github.com/a-h/templ/safehtml"

	"verifharness/internal/core"
	"verifharness/internal/drv"
)

// layerPanic turns a panic of the implementation inside one of the outer layers into a reported failure.
func layerPanic(c *core.Ctx, layer string) {
	if r := recover(); r != nil {
		c.Fail("property", layer+": implementation panics", "", map[string]string{"panic": fmt.Sprint(r)}, "the implementation panicked while the layer was exercised (see the css family for the input)")
		c.Oblige("correspondence", layer+": runs without panicking", false, fmt.Sprint(r))
	}
}

// pick returns the cases sent through the outer layers: every accepted one (bounded) and a sample of the rest.
func pick(c *core.Ctx, res []result, maxAccepted, others int) []result {
	var acc, rej []result
	seen := map[string]bool{}
	for _, r := range res {
		k := r.cs.prop + "\x00" + r.cs.val
		if seen[k] {
			continue
		}
		seen[k] = true
		if r.accepted && strings.ContainsAny(r.cs.val, structural+"& \t\n") {
			acc = append(acc, r)
		} else {
			rej = append(rej, r)
		}
	}
	var out []result
	step := len(acc)/maxAccepted + 1
	for i := 0; i < len(acc); i += step {
		out = append(out, acc[i])
	}
	for i := 0; i < others && len(rej) > 0; i++ {
		out = append(out, rej[c.Rng.Intn(len(rej))])
	}
	return out
}

// value types templ.SanitizeCSS[T ~string] is instantiated with
type colour string
type shade colour
type almostSafe templ.SafeCSSProperty // not the trusted type itself: must be sanitised

var valueTypes = []string{"string", "named string type", "named type of a named type", "named type over SafeCSSProperty", "SafeCSSProperty"}

const vtSafe = 4

var untrustedTypes = []int{0, 1, 2, 3}

func callTemplCSS(vt int, p, v string) string {
	switch vt {
	case 0:
		return string(templ.SanitizeCSS(p, v))
	case 1:
		return string(templ.SanitizeCSS(p, colour(v)))
	case 2:
		return string(templ.SanitizeCSS(p, shade(v)))
	case 3:
		return string(templ.SanitizeCSS(p, almostSafe(v)))
	default:
		return string(templ.SanitizeCSS(p, templ.SafeCSSProperty(v)))
	}
}

// runTemplCSS: templ.SanitizeCSS[T] (css component expressions) and the <style> element it ends up in.
func runTemplCSS(c *core.Ctx, res []result) {
	defer layerPanic(c, "templ.SanitizeCSS / RenderCSSItems")
	sel := pick(c, res, c.N(6000, 60000), c.N(6000, 60000))
	var reqs []drv.Req
	type tc struct {
		r    result
		safe bool
		vt   int
		out  string
	}
	var tcs []tc
	for i, r := range sel {
		// the generic is instantiated with every kind of value type a css component parameter can have
		for vt := 0; vt < len(valueTypes); vt++ {
			if vt > 0 && vt != 1+i%(len(valueTypes)-1) && !(r.accepted == false && i%3 == 0) {
				continue // string always; the other types in rotation, and all of them on a third of the rejected values
			}
			out := callTemplCSS(vt, r.cs.prop, r.cs.val)
			tcs = append(tcs, tc{r, vt == vtSafe, vt, out})
			c.Hist("templ.SanitizeCSS[" + valueTypes[vt] + "]")
			key := ""
			if vt != vtSafe {
				key = "templ|" + valueTypes[vt] + "|" + r.cs.prop + "|" + r.cs.val
			}
			c.Count(key)
		}
	}
	for _, t := range tcs {
		flag := "0"
		if t.safe {
			flag = "1"
		}
		args := append([][]byte{[]byte(flag), []byte(t.r.cs.prop), []byte(t.r.cs.val)}, t.r.oracle...)
		reqs = append(reqs, drv.Req{Fn: "templ_css", Args: args})
		if t.safe {
			// trusted value: only the name is the sanitiser's business
			name, _, _ := strings.Cut(t.out, ":")
			reqs = append(reqs, drv.Req{Fn: "name_ok", Args: [][]byte{[]byte(name)}})
		} else {
			reqs = append(reqs, drv.Req{Fn: "decls_ok", Args: [][]byte{[]byte(t.out), []byte("1")}})
		}
	}
	mres := c.Model(reqs)
	tieOK, propOK := true, true
	for i, t := range tcs {
		if 2*i+1 >= len(mres) || len(mres[2*i]) != 1 || len(mres[2*i+1]) != 1 {
			tieOK = false
			continue
		}
		if string(mres[2*i][0]) != t.out {
			tieOK = false
			if c.NFails("templ.SanitizeCSS: model = implementation") < 3 {
				c.Fail("tie", "templ.SanitizeCSS: model = implementation", "", map[string]string{"property": t.r.cs.prop, "value": t.r.cs.val, "value_type": valueTypes[t.vt], "impl": t.out, "model": string(mres[2*i][0])}, "model and implementation differ")
			}
		}
		if string(mres[2*i+1][0]) != "1" {
			propOK = false
			if c.NFails("templ.SanitizeCSS: output is one confined declaration") < 5 {
				c.Fail("property", "templ.SanitizeCSS: output is one confined declaration", "", map[string]string{"property": t.r.cs.prop, "value": t.r.cs.val, "value_type": valueTypes[t.vt], "impl": t.out},
					"templ.SanitizeCSS's text does not read back as exactly one declaration with a letters-and-hyphen name and a confined value with allow-listed URLs")
			}
		}
	}
	c.Oblige("correspondence", "templ.SanitizeCSS: model templ_sanitize_css = templ.SanitizeCSS[T] for T = string, a named string type, a named type of a named type, a named type over SafeCSSProperty (all sanitised) and SafeCSSProperty (trusted)", tieOK, "")
	c.Oblige("correspondence", "templ.SanitizeCSS: its text reads back (extracted decl_list) as exactly one declaration satisfying name_ok/confined/urls_ok", propOK, "")

	// the <style> element: what generated css components do (generator.writeCSS), rendered by templ.RenderCSSItems
	okStyle := true
	var sreqs []drv.Req
	type sc struct {
		group []result
		html  string
		body  string
	}
	var scs []sc
	for i := 0; i+2 < len(sel); i += 3 {
		group := sel[i : i+3]
		sb := templruntime.GetBuilder()
		for k, r := range group {
			// parameters of a css component may have any string-based type; none of them is the trusted one here
			sb.WriteString(callTemplCSS(untrustedTypes[(i/3+k)%len(untrustedTypes)], r.cs.prop, r.cs.val))
		}
		id := templ.CSSID(`cls`, sb.String())
		class := templ.ComponentCSSClass{ID: id, Class: templ.SafeCSS(`.` + id + `{` + sb.String() + `}`)}
		var buf bytes.Buffer
		if err := templ.RenderCSSItems(context.Background(), &buf, class); err != nil {
			okStyle = false
			continue
		}
		out := buf.String()
		pre, post := `<style type="text/css">.`+id+`{`, `}</style>`
		c.Hist("<style> element rendered from a css component with 3 dynamic properties")
		c.Count("")
		body := ""
		if strings.HasPrefix(out, pre) && strings.HasSuffix(out, post) {
			body = out[len(pre) : len(out)-len(post)]
		} else {
			okStyle = false
		}
		scs = append(scs, sc{group, out, body})
		sreqs = append(sreqs, drv.Req{Fn: "decls_ok", Args: [][]byte{[]byte(body), []byte("3")}})
	}
	sres := c.Model(sreqs)
	for i, s := range scs {
		bad := i >= len(sres) || len(sres[i]) != 1 || string(sres[i][0]) != "1" || strings.Contains(strings.ToLower(s.body), "</style")
		if bad {
			okStyle = false
			if c.NFails("<style> element: rule body is exactly the declarations written") < 5 {
				in := map[string]string{"html": s.html}
				for k, r := range s.group {
					in[fmt.Sprintf("property%d", k)] = r.cs.prop
					in[fmt.Sprintf("value%d", k)] = r.cs.val
				}
				c.Fail("property", "<style> element: rule body is exactly the declarations written", "", in, "the rendered rule body does not read back as exactly three confined declarations (or contains </style)")
			}
		}
	}
	c.Oblige("correspondence", "<style> element: the rule body rendered by RenderCSSItems reads back as exactly the declarations written, each confined", okStyle, "")
	if len(scs) > 0 {
		c.Sample(map[string]string{"style_element": scs[0].html})
	}
}

// ---- style attribute ----

type sval struct {
	tok    [][]byte // prefix code understood by extract/X05.v
	val    any      // the Go value handed to SanitizeStyleAttributeValues
	decls  int      // declarations it must produce
	opaque bool     // contains developer-written text / unsupported pieces: only the tie is checked
	errs   bool
	kind   string
	oracle [][]byte // url.Parse answers the model needs for the values inside
}

func tb(s string) []byte { return []byte(s) }

func mapTokens(tag string, m map[string]string) [][]byte {
	keys := make([]string, 0, len(m))
	for k := range m {
		keys = append(keys, k)
	}
	sort.Strings(keys)
	t := [][]byte{tb(tag), tb(strconv.Itoa(len(keys)))}
	for _, k := range keys {
		t = append(t, tb(k), tb(m[k]))
	}
	return t
}

var safeVals = []string{"red", "1px", "10%", "#fff", "a b", ""}

func genSval(c *core.Ctx, sel []result, depth int) sval {
	r := c.Rng
	pickCase := func() result { return sel[r.Intn(len(sel))] }
	k := r.Intn(14)
	if depth > 2 && k >= 9 {
		k = r.Intn(9)
	}
	switch k {
	case 0, 1, 2: // map[string]string
		m := map[string]string{}
		var o [][]byte
		for n := r.Intn(4); n >= 0; n-- {
			cs := pickCase()
			m[cs.cs.prop] = cs.cs.val
			o = append(o, cs.oracle...)
		}
		return sval{tok: mapTokens("M", m), val: m, decls: len(m), kind: "map[string]string", oracle: o}
	case 3, 4: // KeyValue[string,string]
		cs := pickCase()
		return sval{tok: [][]byte{tb("K"), tb(cs.cs.prop), tb(cs.cs.val)}, val: templ.KV(cs.cs.prop, cs.cs.val), decls: 1, kind: "KeyValue[string,string]", oracle: cs.oracle}
	case 5: // map[string]SafeCSSProperty
		m := map[string]string{}
		gm := map[string]templ.SafeCSSProperty{}
		for n := r.Intn(3); n >= 0; n-- {
			cs := pickCase()
			v := safeVals[r.Intn(len(safeVals))]
			m[cs.cs.prop] = v
			gm[cs.cs.prop] = templ.SafeCSSProperty(v)
		}
		return sval{tok: mapTokens("S", m), val: gm, decls: len(m), kind: "map[string]SafeCSSProperty"}
	case 6: // developer-written text forms
		texts := []string{"color:red", "color:red;", "", " a:b ", "x:\"y\"", "a<b>c&d'e", "\x00", " ", ";", "\u00a0;\u00a0", "</style>", "\\", "a;;"}
		t := texts[r.Intn(len(texts))]
		var v any
		on := r.Intn(3) != 0
		css := false
		switch r.Intn(4) {
		case 0:
			v, on = t, true
		case 1:
			v, on, css = templ.SafeCSS(t), true, true
		case 2:
			v = templ.KV(t, on)
		default:
			v, css = templ.KV(templ.SafeCSS(t), on), true
		}
		if !on || t == "" {
			return sval{tok: [][]byte{tb("Z")}, val: v, opaque: true, kind: "string/SafeCSS/KeyValue[...,bool] writing nothing"}
		}
		text := t
		if !css {
			text = strings.TrimSpace(safehtml.SanitizeStyleValue(t))
		}
		return sval{tok: [][]byte{tb("T"), tb(text)}, val: v, opaque: true, kind: "string/SafeCSS/KeyValue[...,bool]"}
	case 7: // unsupported
		vals := []any{42, 1.5, struct{}{}, map[string]int{"a": 1}, func(int) string { return "" }, func() (string, int) { return "", 0 }, func() {}, templ.KV("a", 1)}
		return sval{tok: [][]byte{tb("O")}, val: vals[r.Intn(len(vals))], opaque: true, kind: "unsupported type"}
	case 8: // nested nil / error value
		if r.Intn(2) == 0 {
			return sval{tok: [][]byte{tb("N")}, val: nil, opaque: true, kind: "nil"}
		}
		return sval{tok: [][]byte{tb("V")}, val: errors.New("boom"), opaque: true, errs: true, kind: "error value"}
	case 9, 10: // func() T / func() (T, error)
		in := genSval(c, sel, depth+1)
		var v any
		tok := append([][]byte{tb("F")}, in.tok...)
		switch r.Intn(3) {
		case 0:
			v = func() any { return in.val }
		case 1:
			v = func() (any, error) { return in.val, nil }
		default:
			if m, ok := in.val.(map[string]string); ok {
				v = func() map[string]string { return m }
			} else {
				v = func() (any, error) { return in.val, nil }
			}
		}
		// a func result is handled like a nested value
		return sval{tok: tok, val: v, decls: in.decls, opaque: in.opaque || in.kind == "nil" || in.kind == "error value", kind: "func", oracle: in.oracle}
	case 11: // func returning an error
		return sval{tok: [][]byte{tb("E")}, val: func() (string, error) { return "color:red", errors.New("boom") }, errs: true, kind: "func returning error"}
	default: // slice
		n := r.Intn(4)
		var vals []any
		tok := [][]byte{tb("L"), tb(strconv.Itoa(n))}
		out := sval{kind: "slice"}
		for i := 0; i < n; i++ {
			in := genSval(c, sel, depth+1)
			vals = append(vals, in.val)
			tok = append(tok, in.tok...)
			out.decls += in.decls
			out.opaque = out.opaque || in.opaque
			out.oracle = append(out.oracle, in.oracle...)
		}
		out.tok, out.val = tok, vals
		if r.Intn(3) == 0 && n > 0 {
			// a typed slice
			if m, ok := vals[0].(map[string]string); ok {
				ms := []map[string]string{m}
				out.val = ms
				in0 := mapTokens("M", m)
				out.tok = append([][]byte{tb("L"), tb("1")}, in0...)
				out.decls = len(m)
				out.opaque = false
			}
		}
		return out
	}
}

// runStyleAttr: runtime.SanitizeStyleAttributeValues in every value form, and the attribute as rendered.
func runStyleAttr(c *core.Ctx, res []result, refs []result, escapedAgain bool) {
	defer layerPanic(c, "runtime.SanitizeStyleAttributeValues")
	sel := pick(c, res, 4000, 2000)
	// the character-reference family by stride, first (so that it goes through the one-map / one-KV part below)
	var rsel []result
	for i, step := 0, len(refs)/c.N(3000, 40000)+1; i < len(refs); i += step {
		rsel = append(rsel, refs[i])
	}
	sel = append(rsel, sel...)
	n := c.N(12000, 200000)
	type ac struct {
		vals   []sval
		out    string
		err    bool
		decls  int
		opaque bool
	}
	var acs []ac
	var reqs []drv.Req
	for i := 0; i < n; i++ {
		var vals []sval
		if i < len(sel) {
			// one map / one KV per picked case, so every accepted shape goes through the attribute path
			cs := sel[i]
			if i%2 == 0 {
				m := map[string]string{cs.cs.prop: cs.cs.val}
				vals = []sval{{tok: mapTokens("M", m), val: m, decls: 1, kind: "map[string]string", oracle: cs.oracle}}
			} else {
				vals = []sval{{tok: [][]byte{tb("K"), tb(cs.cs.prop), tb(cs.cs.val)}, val: templ.KV(cs.cs.prop, cs.cs.val), decls: 1, kind: "KeyValue[string,string]", oracle: cs.oracle}}
			}
		} else {
			for k := c.Rng.Intn(3); k >= 0; k-- {
				vals = append(vals, genSval(c, sel, 0))
			}
		}
		a := ac{vals: vals}
		var govals []any
		var toks [][]byte
		oracle := [][]byte{}
		for _, v := range vals {
			govals = append(govals, v.val)
			toks = append(toks, v.tok...)
			a.decls += v.decls
			// top-level nil is skipped; a top-level error value fails the call
			a.opaque = a.opaque || (v.opaque && v.kind != "nil")
			oracle = append(oracle, v.oracle...)
			c.Hist("style attribute value form: " + v.kind)
		}
		out, err := templruntime.SanitizeStyleAttributeValues(govals...)
		a.out, a.err = out, err != nil
		acs = append(acs, a)
		args := [][]byte{tb(strconv.Itoa(len(oracle) / 2))}
		args = append(args, oracle...)
		args = append(args, toks...)
		reqs = append(reqs, drv.Req{Fn: "style_attr", Args: args})
		c.Count("attr|" + string(bytes.Join(toks, []byte{0})))
	}
	mres := c.Model(reqs)
	tieOK := true
	for i, a := range acs {
		ok := i < len(mres) && len(mres[i]) >= 1
		if ok {
			if a.err {
				ok = string(mres[i][0]) == "0"
			} else {
				ok = len(mres[i]) == 2 && string(mres[i][0]) == "1" && string(mres[i][1]) == a.out
			}
		}
		if !ok {
			tieOK = false
			if c.NFails("style attribute: model = SanitizeStyleAttributeValues") < 3 {
				m := ""
				if i < len(mres) {
					m = fmt.Sprintf("%q", mres[i])
				}
				c.Fail("tie", "style attribute: model = SanitizeStyleAttributeValues", "", map[string]string{"values": describe(a.vals), "impl": a.out, "impl_error": fmt.Sprint(a.err), "model": m}, "model and implementation differ")
			}
		}
	}
	c.Oblige("correspondence", "style attribute: model style_attr = runtime.SanitizeStyleAttributeValues on every value form (maps, key/values, SafeCSSProperty maps, funcs, slices, nil, errors, unsupported)", tieOK, "")

	// property: what the browser reads back from the attribute.  Generated code writes the result between
	// style=" and " (runGenerator reports whether it escapes it once more); the browser decodes character references once.
	render := func(out string) string {
		if escapedAgain {
			return templ.EscapeString(out)
		}
		return out
	}
	// (1) every byte of the result is HTML-escaped, for every value form: this is what keeps the attribute closed
	closedOK := true
	for _, a := range acs {
		if a.err {
			continue
		}
		if rawByte.MatchString(a.out) {
			closedOK = false
			if c.NFails("style attribute: result is HTML-escaped throughout") < 5 {
				c.Fail("property", "style attribute: result is HTML-escaped throughout", "", map[string]string{"values": describe(a.vals), "impl": a.out},
					"SanitizeStyleAttributeValues returned a raw quote, '<', '>' or an '&' that does not start one of the five references html.EscapeString writes: the text can end the style attribute")
			}
		}
	}
	c.Oblige("correspondence", "style attribute: SanitizeStyleAttributeValues' result contains no raw \" ' < > and no & outside &amp; &lt; &gt; &#34; &#39;, for every value form", closedOK, "")
	// (2) decoded once, the attribute reads back as exactly the declarations written
	var preqs []drv.Req
	var pidx []int
	for i, a := range acs {
		if a.err || a.opaque {
			continue
		}
		preqs = append(preqs, drv.Req{Fn: "attr_value", Args: [][]byte{tb(render(a.out)), tb(strconv.Itoa(a.decls))}})
		pidx = append(pidx, i)
	}
	pres := c.Model(preqs)
	rendOK := true
	for k, i := range pidx {
		a := acs[i]
		seen := ""
		if k < len(pres) && len(pres[k]) == 2 {
			seen = string(pres[k][0])
			if string(pres[k][1]) == "1" {
				continue
			}
		}
		rendOK = false
		fam := "style attribute as rendered, character references decoded once"
		if c.NFails(fam) < 5 {
			c.Fail("property", fam, "", map[string]string{"values": describe(a.vals), "attribute_text": render(a.out), "css_seen": seen, "generated_code_escapes_again": fmt.Sprint(escapedAgain)},
				fmt.Sprintf("the CSS a browser sees in the rendered style attribute does not read back as exactly %d confined declarations", a.decls))
		}
	}
	c.Oblige("correspondence", "style attribute as rendered by generated code, decoded by the specification's attribute decoder (css_decode_attr), reads back (extracted decl_list) as exactly the declarations written, each with name_ok/confined/urls_ok", rendOK, "")
	m := map[string]string{"font-family": `"a;color:red;b"`}
	o, _ := templruntime.SanitizeStyleAttributeValues(m)
	c.Sample(map[string]string{"style_map": `{"font-family": "\"a;color:red;b\""}`, "SanitizeStyleAttributeValues": o, "rendered_attribute": render(o), "css_seen_by_browser": html.UnescapeString(render(o))})
}

// a byte html.EscapeString would have replaced, or an '&' it did not write
var rawByte = regexp.MustCompile("[\"'<>]|&(?:[^alg#]|$)|&a(?:[^m]|$)|&am(?:[^p]|$)|&amp(?:[^;]|$)|&l(?:[^t]|$)|&lt(?:[^;]|$)|&g(?:[^t]|$)|&gt(?:[^;]|$)|&#(?:[^3]|$)|&#3(?:[^49]|$)|&#3[49](?:[^;]|$)")

func describe(vals []sval) string {
	var parts []string
	for _, v := range vals {
		var ts []string
		for _, t := range v.tok {
			ts = append(ts, strconv.Quote(string(t)))
		}
		parts = append(parts, v.kind+"["+strings.Join(ts, " ")+"]")
	}
	return strings.Join(parts, " ; ")
}

// runGenerator: generated code routes css expressions and style attributes through the sanitisers.
func runGenerator(c *core.Ctx) (escapedAgain bool) {
	gen := func(src string) (string, error) {
		tf, err := parser.ParseString(src)
		if err != nil {
			return "", err
		}
		var buf bytes.Buffer
		if _, err = generator.Generate(tf, &buf); err != nil {
			return "", err
		}
		return buf.String(), nil
	}
	okCSS, okAttr := true, true
	props := []string{"color", "background-image", "font-family", "display", "margin", "Color", "z-index", "--x"}
	for i, p := range props {
		for _, layout := range []string{"\t%s: { v };\n", "\twidth: 1px;\n\t%s: { v };\n", "\t%s: { v };\n\theight: 2px;\n", "\tcolor: { w };\n\t%s: { v };\n"} {
			src := "package p\n\ncss c(v string, w string) {\n" + fmt.Sprintf(layout, p) + "}\n"
			g, err := gen(src)
			c.Count("gen-css|" + p + layout)
			c.Hist("generator: css component with a dynamic property")
			if err != nil {
				c.Hist("generator: css template rejected by the parser")
				continue
			}
			want := "templ_7745c5c3_CSSBuilder.WriteString(string(templ.SanitizeCSS(`" + p + "`, v)))"
			// every WriteString of a non-constant must be the sanitising call
			bad := !strings.Contains(g, want)
			for _, line := range strings.Split(g, "\n") {
				l := strings.TrimSpace(line)
				if strings.HasPrefix(l, "templ_7745c5c3_CSSBuilder.WriteString(") && !strings.HasPrefix(l, "templ_7745c5c3_CSSBuilder.WriteString(`") && !strings.HasPrefix(l, "templ_7745c5c3_CSSBuilder.WriteString(\"") &&
					!strings.HasPrefix(l, "templ_7745c5c3_CSSBuilder.WriteString(string(templ.SanitizeCSS(`") {
					bad = true
				}
			}
			if bad {
				okCSS = false
				if c.NFails("generator: css expression goes through templ.SanitizeCSS") < 3 {
					c.Fail("property", "generator: css expression goes through templ.SanitizeCSS", "", map[string]string{"template": src, "expected_line": want}, "the generated css component does not pass the dynamic value through templ.SanitizeCSS with the property's name")
				}
			}
			if i == 0 {
				okCSS = okCSS && strings.Contains(g, "Class: templ.SafeCSS(`.` + templ_7745c5c3_CSSID + `{` + templ_7745c5c3_CSSBuilder.String() + `}`),")
			}
		}
	}
	for _, el := range []string{"div", "p", "a", "DIV", "svg", "input"} {
		for _, attr := range []string{"style"} {
			for _, expr := range []string{"v", "m, v", "templ.KV(\"color\", v)"} {
				src := "package p\n\ntempl t(v string, m map[string]string) {\n\t<" + el + " " + attr + "={ " + expr + " }></" + el + ">\n}\n"
				if el == "input" {
					src = "package p\n\ntempl t(v string, m map[string]string) {\n\t<" + el + " " + attr + "={ " + expr + " }/>\n}\n"
				}
				g, err := gen(src)
				c.Count("gen-attr|" + el + attr + expr)
				c.Hist("generator: element with a dynamic style attribute")
				if err != nil {
					c.Hist("generator: style template rejected by the parser")
					continue
				}
				// var X string; X, err = templruntime.SanitizeStyleAttributeValues(expr); ...; Buffer.WriteString(X) between style=\" and \"
				mm := reAttrVar.FindStringSubmatch(g)
				sanitised := mm != nil && strings.Contains(g, mm[1]+", templ_7745c5c3_Err = templruntime.SanitizeStyleAttributeValues("+expr+")")
				plain := sanitised && strings.Contains(g, "templ_7745c5c3_Buffer.WriteString("+mm[1]+")")
				again := sanitised && strings.Contains(g, "templ_7745c5c3_Buffer.WriteString(templ.EscapeString("+mm[1]+"))")
				if again {
					escapedAgain = true
				}
				if !sanitised || !(plain || again) {
					okAttr = false
					if c.NFails("generator: style attribute goes through SanitizeStyleAttributeValues") < 3 {
						c.Fail("property", "generator: style attribute goes through SanitizeStyleAttributeValues", "", map[string]string{"template": src, "sanitised": fmt.Sprint(sanitised)},
							"the generated code does not write the result of templruntime.SanitizeStyleAttributeValues(expr) as the style attribute's value")
					}
				}
			}
		}
	}
	c.Oblige("correspondence", "generator: every dynamic css property is emitted as templ.SanitizeCSS(`name`, expr) inside `.id{...}`", okCSS, "")
	c.Oblige("correspondence", "generator: a dynamic style attribute is emitted as the result of templruntime.SanitizeStyleAttributeValues(expr)", okAttr, "")
	c.Extra["generated_code_escapes_style_attribute_again"] = escapedAgain
	return escapedAgain
}

var reAttrVar = regexp.MustCompile(`var (templ_7745c5c3_Var\d+) string\n\s*templ_7745c5c3_Var\d+, templ_7745c5c3_Err = templruntime\.SanitizeStyleAttributeValues\(`)

// nodeURLs (thorough tier): an independent oracle for the URL part. Every URL referenced by a value that
// sanitizeBackgroundImage returned unchanged is resolved by node's WHATWG URL parser; its scheme must be
// absent (relative reference), http, https or mailto.
func nodeURLs(c *core.Ctx, res []result) {
	if _, err := exec.LookPath("node"); err != nil {
		c.Extra["node_url_oracle"] = "node not found; skipped"
		return
	}
	var reqs []drv.Req
	for _, r := range res {
		if r.accepted && kindOf(r.cs.prop) == "background-image" && len(reqs) < 80000 {
			reqs = append(reqs, drv.Req{Fn: "urls", Args: [][]byte{[]byte(r.iv)}})
		}
	}
	seen := map[string]bool{}
	var urls []string
	for _, l := range c.Model(reqs) {
		for _, u := range l {
			if !seen[string(u)] {
				seen[string(u)] = true
				urls = append(urls, string(u))
			}
		}
	}
	var in bytes.Buffer
	for _, s := range urls {
		fmt.Fprintf(&in, "%x\n", s)
	}
	script := `const rl=require('readline').createInterface({input:process.stdin});const out=[];
rl.on('line',l=>{const s=new TextDecoder('utf-8').decode(Buffer.from(l,'hex'));let r;
try{const u=new URL(s,'zzbase://h/p');r=(u.protocol==='zzbase:'&&!/^[\u0000- ]*z[\t\n\r]*z[\t\n\r]*b/i.test(s))?'-':u.protocol.slice(0,-1);}catch(e){r='!'}
out.push(r)});rl.on('close',()=>{console.log(out.join('\n'))})`
	cmd := exec.Command("node", "-e", script)
	cmd.Stdin = &in
	o, err := cmd.Output()
	if err != nil {
		c.Extra["node_url_oracle"] = "node failed: " + err.Error()
		return
	}
	lines := strings.Split(strings.TrimRight(string(o), "\n"), "\n")
	if len(urls) == 0 || len(lines) != len(urls) {
		c.Extra["node_url_oracle"] = fmt.Sprintf("node returned %d lines for %d inputs", len(lines), len(urls))
		return
	}
	ok := true
	first := ""
	hist := map[string]int{}
	for i, l := range lines {
		hist[l]++
		c.Count("")
		if l != "-" && l != "http" && l != "https" && l != "mailto" && l != "!" {
			ok = false
			if first == "" {
				first = fmt.Sprintf("%q resolves with scheme %s", urls[i], l)
			}
			if c.NFails("background-image: accepted URL has an allow-listed scheme for node's URL parser") < 5 {
				c.Fail("property", "background-image: accepted URL has an allow-listed scheme for node's URL parser", "", map[string]string{"url": urls[i], "node_scheme": l}, "a URL inside a value that sanitizeBackgroundImage returned unchanged resolves to a scheme other than http, https, mailto")
			}
		}
	}
	c.Hist("node oracle: URLs of accepted background-image values")
	c.Extra["node_url_oracle"] = map[string]any{"urls": len(urls), "node_scheme_histogram ('-' relative, '!' rejected by node)": hist}
	c.Oblige("contract", "every URL of an accepted background-image value resolves in node's WHATWG URL parser to no scheme, http, https or mailto", ok, first)
}
