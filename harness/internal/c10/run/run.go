// Package run executes C10 render jobs against the real templ runtime: scripted faulty destination writers,
// hand-built components (templ.ComponentFunc around the real templruntime.GetBuffer / ReleaseBuffer / WriteString,
// templ.Join, templ.Flush, templ.Raw, templ.Error), compiled probe templates, error canonicalisation.
//
// The same source is used in two places: in-process by the harness (package c10) and, copied verbatim into a
// scratch module, by the probe runner subprocess. It may import only the standard library and templ.
package run

import (
	"bufio"
	"bytes"
	"context"
	"encoding/json"
	"errors"
	"fmt"
	"io"
	"os"
	"runtime"
	"sort"
	"strconv"
	"time"

	"github.com/a-h/templ"
	templruntime "github.com/a-h/templ/runtime"
)

// ---------- programs ----------

type Op struct {
	K string `json:"k"` // w = w.Write(B), s = io.WriteString(w, B), x = return CompErr{N}
	B []byte `json:"b,omitempty"`
	N int    `json:"n,omitempty"`
}

type Node struct {
	K     string  `json:"k"` // lit expr templ join flush raw func nop if for host
	B     []byte  `json:"b,omitempty"`
	ID    int     `json:"id,omitempty"`
	File  string  `json:"file,omitempty"`
	Line  int     `json:"line,omitempty"`
	Col   int     `json:"col,omitempty"`
	Guard bool    `json:"guard,omitempty"`
	Err   int     `json:"err,omitempty"` // raw: error id (0 = none)
	Kids  []*Node `json:"kids,omitempty"`
	Ops   []Op    `json:"ops,omitempty"`
	// if: Cond "b" = boolean oracle ID, "c" = switch tag oracle ID selects Case; Kids = then, Else = else.
	// for: oracle ID gives the number of iterations; Kids = body.
	Cond string  `json:"cond,omitempty"`
	Case int     `json:"case,omitempty"`
	Else []*Node `json:"else,omitempty"`
	// host: a hand-written component that is passed a block of children (Kids; for a probe the block is the generated
	// closure it receives through templ.GetChildren) and renders it Times times (0: not at all)
	//   HK "pass"    into the writer it was given
	//      "fwd"     through a forwarding writer of its own (Write only, hands the bytes on to w.Write); Lim >= 0: that writer
	//                takes Lim bytes in all, then fails with CompErr{HErr}; Own: the component reports its writer's failure
	//                itself before looking at what the children returned
	//      "capture" into a bytes.Buffer of its own, copied to w with one Write once the children have returned nil
	//      "bufio"   through a bufio.Writer of its own (size Size) in front of w (Write only), flushed afterwards
	// Pre / Post: what the component writes (io.WriteString) around the children.
	HK    string `json:"hk,omitempty"`
	Lim   int    `json:"lim,omitempty"`
	HErr  int    `json:"herr,omitempty"`
	Own   bool   `json:"own,omitempty"`
	Times int    `json:"times,omitempty"`
	Size  int    `json:"size,omitempty"`
	Pre   []byte `json:"pre,omitempty"`
	Post  []byte `json:"post,omitempty"`
}

// Env maps Key(path, id) to what the oracle with that id answers inside the loop iterations path (innermost first).
type Env map[string]Val

// Key is the environment key of oracle id asked within the enclosing loop iterations path (innermost first).
func Key(path []int, id int) string {
	var sb []byte
	for _, k := range path {
		sb = strconv.AppendInt(sb, int64(k), 10)
		sb = append(sb, '.')
	}
	sb = append(sb, ':')
	return string(strconv.AppendInt(sb, int64(id), 10))
}

func (e Env) str(path []int, id int) (string, error) {
	x := e[Key(path, id)]
	if x.Err != 0 {
		return string(x.S), &ExprErr{ID: x.Err}
	}
	return string(x.S), nil
}
func (e Env) truth(path []int, id int) bool { return string(e[Key(path, id)].S) == "1" }
func (e Env) num(path []int, id int) int {
	n, _ := strconv.Atoi(string(e[Key(path, id)].S))
	return n
}
func (e Env) test(path []int, n *Node) bool {
	if n.Cond == "c" {
		return e.num(path, n.ID) == n.Case
	}
	return e.truth(path, n.ID)
}

type Val struct {
	S   []byte `json:"s"`
	Err int    `json:"err,omitempty"` // 0 = nil
}

type SinkSpec struct {
	Mode    int  `json:"mode"` // 0 never fails; 1 error accepting up to the limit; 2 error accepting nothing of the failing call; 3 short once then fine; 4 short then (0,nil) for ever
	Limit   int  `json:"limit"`
	ErrID   int  `json:"errid"`
	SW      bool `json:"sw"`      // implements io.StringWriter
	Flusher bool `json:"flusher"` // implements http.Flusher
	// RF: the writer also implements io.ReaderFrom (with SW and Flusher: what net/http's response writer offers).
	RF bool `json:"rf,omitempty"`
	// Wrap > 0: the destination handed to Render is the caller's *bufio.Writer of that size in front of the scripted
	// writer (which then is what fails / is observed). The caller flushes it after Render and Resets it after an error.
	Wrap int `json:"wrap,omitempty"`
	// BB: the destination is a *bytes.Buffer (never fails; only its contents are observed).
	BB bool `json:"bb,omitempty"`
}

type Job struct {
	Tag    string        `json:"tag"`
	Probe  string        `json:"probe,omitempty"` // name of a compiled probe template; otherwise Prog is built by hand
	Prog   *Node         `json:"prog,omitempty"`
	Env    Env           `json:"env,omitempty"`
	Comps  map[int]*Node `json:"comps,omitempty"` // hand-built components the probe receives through v.C(i)
	Hosts  map[int]*Node `json:"hosts,omitempty"` // hand-written components (K "host", no Kids) the probe passes a block of children to: v.K(i)
	Cancel int           `json:"cancel,omitempty"`
	HTML   bool          `json:"html,omitempty"`
	Sink   SinkSpec      `json:"sink"`
	// Reuse: render into the very same destination VALUE as the previous direct render of this process (the same
	// connection / recorder object used again), after re-arming it with this job's Sink (healed, or failing elsewhere).
	Reuse bool `json:"reuse,omitempty"`
	// Slot != 0 names a destination OBJECT the caller keeps: the first job that mentions a slot creates the object,
	// later jobs with the same slot render into the very same object again (its scripted writer re-armed with this
	// job's Sink), other renders - into other objects - happening in between. NewSeq forgets all objects first.
	Slot   int  `json:"slot,omitempty"`
	NewSeq bool `json:"newseq,omitempty"`
	// GC: two garbage collections before the render, which empty sync.Pool - the render is then served by a
	// brand-new pooled buffer, as at process start.
	GC bool `json:"gc,omitempty"`
}

// Foreign reports that a destination object other than the one a render was given saw calls during that render
// (or during the caller's flush of its buffered writer afterwards).
type Foreign struct {
	Slot  int `json:"slot"`
	Calls int `json:"calls"`
	Bytes int `json:"bytes"`
}

type Call struct {
	Off int `json:"off"`
	Acc int `json:"acc"`
	Err int `json:"err,omitempty"`
}

type Obs struct {
	Res   string `json:"res"`
	Out   []byte `json:"out"`
	Calls []Call `json:"calls,omitempty"`
	Marks []int  `json:"marks,omitempty"`
	Spun  bool   `json:"spun,omitempty"`
	Panic string `json:"panic,omitempty"`
	// destination = the caller's bufio.Writer: Out / Calls are those of the writer behind it, after the caller's
	// Flush; FRes is that Flush's result, NRender the number of Calls made before Render returned, Thru the bytes
	// that had arrived by then.
	FRes    string    `json:"fres,omitempty"`
	NRender int       `json:"nrender,omitempty"`
	Thru    int       `json:"thru,omitempty"`
	Foreign []Foreign `json:"foreign,omitempty"`
}

// ---------- errors ----------

type SinkErr struct{ ID int }

func (e *SinkErr) Error() string { return "sink error " + strconv.Itoa(e.ID) }

type ExprErr struct{ ID int }

func (e *ExprErr) Error() string { return "expression error " + strconv.Itoa(e.ID) }

type CompErr struct{ ID int }

func (e *CompErr) Error() string { return "component error " + strconv.Itoa(e.ID) }

// Classify canonicalises an error returned by Render: templ.Error is recognised only at the top (a type assertion,
// not errors.As), the cause by errors.Is / errors.As, so "wraps the cause" is what is tested.
func Classify(err error) string {
	if err == nil {
		return "nil"
	}
	if te, ok := err.(templ.Error); ok {
		return fmt.Sprintf("templ:%s:%d:%d:%s", te.FileName, te.Line, te.Col, Classify(te.Err))
	}
	var se *SinkErr
	var ee *ExprErr
	var ce *CompErr
	switch {
	case errors.As(err, &se):
		return "sink:" + strconv.Itoa(se.ID)
	case errors.Is(err, io.ErrShortWrite):
		return "short"
	case errors.Is(err, context.Canceled):
		return "ctx:1"
	case errors.Is(err, context.DeadlineExceeded):
		return "ctx:2"
	case errors.As(err, &ee):
		return "expr:" + strconv.Itoa(ee.ID)
	case errors.As(err, &ce):
		return "comp:" + strconv.Itoa(ce.ID)
	}
	return "other:" + err.Error()
}

// ---------- the faulty destination ----------

type spin struct{}

type base struct {
	spec    SinkSpec
	limit   int
	tripped bool
	got     []byte
	calls   []Call
	marks   []int
	zeros   int
}

func (b *base) write(p []byte) (int, error) {
	n, id := b.answer(len(p))
	b.got = append(b.got, p[:n]...)
	b.calls = append(b.calls, Call{Off: len(p), Acc: n, Err: id})
	if n == 0 && id == 0 && len(p) > 0 {
		b.zeros++
		if b.zeros > 3000 {
			panic(spin{}) // the caller is looping on (0, nil): stop it
		}
	} else {
		b.zeros = 0
	}
	if id != 0 {
		return n, &SinkErr{ID: id}
	}
	return n, nil
}

func (b *base) answer(l int) (int, int) {
	m := b.spec.Mode
	if m == 0 {
		return l, 0
	}
	if b.tripped {
		switch m {
		case 3:
			return l, 0
		case 4:
			return 0, 0
		}
		return 0, b.spec.ErrID
	}
	if l <= b.limit {
		b.limit -= l
		return l, 0
	}
	k := b.limit
	b.limit, b.tripped = 0, true
	switch m {
	case 1:
		return k, b.spec.ErrID
	case 2:
		return 0, b.spec.ErrID
	}
	return k, 0
}

type sinkW struct{ b *base }

func (s sinkW) Write(p []byte) (int, error) { return s.b.write(p) }

type sinkWS struct{ b *base }

func (s sinkWS) Write(p []byte) (int, error)       { return s.b.write(p) }
func (s sinkWS) WriteString(p string) (int, error) { return s.b.write([]byte(p)) }

type sinkWF struct{ b *base }

func (s sinkWF) Write(p []byte) (int, error) { return s.b.write(p) }
func (s sinkWF) Flush()                      { s.b.marks = append(s.b.marks, len(s.b.got)) }

type sinkWSF struct{ b *base }

func (s sinkWSF) Write(p []byte) (int, error)       { return s.b.write(p) }
func (s sinkWSF) WriteString(p string) (int, error) { return s.b.write([]byte(p)) }
func (s sinkWSF) Flush()                            { s.b.marks = append(s.b.marks, len(s.b.got)) }

// what net/http's response writer offers: Write, WriteString, Flush and ReadFrom
type sinkHTTP struct{ b *base }

func (s sinkHTTP) Write(p []byte) (int, error)       { return s.b.write(p) }
func (s sinkHTTP) WriteString(p string) (int, error) { return s.b.write([]byte(p)) }
func (s sinkHTTP) Flush()                            { s.b.marks = append(s.b.marks, len(s.b.got)) }
func (s sinkHTTP) ReadFrom(r io.Reader) (int64, error) {
	var total int64
	buf := make([]byte, 512)
	for {
		n, rerr := r.Read(buf)
		if n > 0 {
			k, werr := s.b.write(buf[:n])
			total += int64(k)
			if werr != nil {
				return total, werr
			}
			if k < n {
				return total, io.ErrShortWrite
			}
		}
		if rerr == io.EOF {
			return total, nil
		}
		if rerr != nil {
			return total, rerr
		}
	}
}

// ---------- destination objects the caller keeps ----------

type slot struct {
	spec  SinkSpec      // the kind the object was created with
	w     io.Writer     // what Render is given
	inner io.Writer     // the scripted writer (== w unless wrapped)
	b     *base         // its record
	bw    *bufio.Writer // the caller's buffered writer, if any
	bb    *bytes.Buffer // the caller's bytes.Buffer, if any
	calls int           // calls / bytes this object had seen when its own last render ended
	bytes int
}

func (s *slot) seen() (int, int) {
	if s.bb != nil {
		return 0, s.bb.Len()
	}
	return len(s.b.calls), len(s.b.got)
}

var slots = map[int]*slot{}

func sameKind(a, b SinkSpec) bool {
	return a.SW == b.SW && a.Flusher == b.Flusher && a.RF == b.RF && a.Wrap == b.Wrap && a.BB == b.BB
}

// slotFor returns the caller's destination object for a job, creating it on first use and re-arming it otherwise.
func slotFor(j *Job) *slot {
	if j.NewSeq {
		slots = map[int]*slot{}
	}
	if s, ok := slots[j.Slot]; ok && sameKind(s.spec, j.Sink) {
		b := s.b
		b.spec, b.limit, b.tripped, b.zeros = j.Sink, j.Sink.Limit, false, 0
		b.got, b.calls, b.marks = nil, nil, nil
		if s.bb != nil {
			s.bb.Reset()
		}
		s.calls, s.bytes = 0, 0
		return s
	}
	s := &slot{spec: j.Sink}
	switch {
	case j.Sink.BB:
		s.bb = new(bytes.Buffer)
		s.w, s.b = s.bb, &base{spec: j.Sink}
	default:
		s.inner, s.b = newSink(j.Sink)
		s.w = s.inner
		if j.Sink.Wrap > 0 {
			s.bw = bufio.NewWriterSize(s.inner, j.Sink.Wrap)
			s.w = s.bw
		}
	}
	slots[j.Slot] = s
	return s
}

// epilogue is what the caller does once Render has returned: flush its buffered writer (and Reset it if that
// reports an error - a bufio.Writer's error is sticky); then every other destination object is looked at.
func (s *slot) epilogue(j *Job, o *Obs) {
	if s.bw != nil {
		o.Thru, o.NRender = len(s.b.got), len(s.b.calls)
		ferr := s.bw.Flush()
		o.FRes = Classify(ferr)
		if ferr != nil {
			s.bw.Reset(s.inner)
		}
	}
	if s.bb != nil {
		s.b.got = append([]byte(nil), s.bb.Bytes()...)
	}
	o.Out, o.Calls, o.Marks = s.b.got, s.b.calls, s.b.marks
	s.calls, s.bytes = s.seen()
	ids := make([]int, 0, len(slots))
	for id := range slots {
		ids = append(ids, id)
	}
	sort.Ints(ids)
	for _, id := range ids {
		t := slots[id]
		if t == s {
			continue
		}
		if c, n := t.seen(); c != t.calls || n != t.bytes {
			o.Foreign = append(o.Foreign, Foreign{Slot: id, Calls: c - t.calls, Bytes: n - t.bytes})
			t.calls, t.bytes = c, n
		}
	}
}

// the destination of the previous direct render in this process
var lastW io.Writer
var lastB *base

// sinkFor returns the destination for a job: a new value, or - for Reuse - the previous one re-armed in place.
func sinkFor(j *Job) (io.Writer, *base) {
	if j.Reuse && lastB != nil && lastB.spec.SW == j.Sink.SW && lastB.spec.Flusher == j.Sink.Flusher {
		b := lastB
		b.spec, b.limit, b.tripped, b.zeros = j.Sink, j.Sink.Limit, false, 0
		b.got, b.calls, b.marks = nil, nil, nil
		return lastW, b
	}
	w, b := newSink(j.Sink)
	lastW, lastB = w, b
	return w, b
}

func newSink(spec SinkSpec) (io.Writer, *base) {
	b := &base{spec: spec, limit: spec.Limit}
	switch {
	case spec.RF:
		return sinkHTTP{b}, b
	case spec.SW && spec.Flusher:
		return sinkWSF{b}, b
	case spec.SW:
		return sinkWS{b}, b
	case spec.Flusher:
		return sinkWF{b}, b
	}
	return sinkW{b}, b
}

// ---------- hand-built components over the real runtime ----------

// V is what a probe template receives: the environment of one job.
type V struct {
	env   Env
	path  []int
	comps map[int]templ.Component
	hosts map[int]templ.Component
	once  map[int]*templ.OnceHandle
}

// S is a Go expression returning (string, error).
func (v V) S(i int) (string, error) { return v.env.str(v.path, i) }

// B is a Go boolean expression.
func (v V) B(i int) bool { return v.env.truth(v.path, i) }

// W is a switch tag: the index of the case it selects.
func (v V) W(i int) int { return v.env.num(v.path, i) }

// L is a slice to range over; element k sees the environment of iteration k.
func (v V) L(i int) []V {
	n := v.env.num(v.path, i)
	out := make([]V, n)
	for k := range out {
		out[k] = V{env: v.env, path: append([]int{k}, v.path...), comps: v.comps, hosts: v.hosts, once: v.once}
	}
	return out
}

// C is a component handed in from outside the template.
func (v V) C(i int) templ.Component {
	if c, ok := v.comps[i]; ok {
		return c
	}
	return templ.NopComponent
}

// K is a hand-written component that is passed a block of children.
func (v V) K(i int) templ.Component {
	if c, ok := v.hosts[i]; ok {
		return c
	}
	return templ.NopComponent
}

// H is a once handle, the same for every use within one job.
func (v V) H(i int) *templ.OnceHandle {
	if h, ok := v.once[i]; ok {
		return h
	}
	h := templ.NewOnceHandle()
	v.once[i] = h
	return h
}

// ---------- hand-written components that are passed a block of children ----------

// fwdW is the writer such a component puts between the block and the writer it was given itself: a tee, a byte
// counter, a hasher, a cache ... It has Write only. With limited set it takes rem bytes in all.
type fwdW struct {
	w       io.Writer
	limited bool
	rem     int
	failed  bool
	err     error
	n       int // bytes handed on (what a counter / cache would keep)
}

func (f *fwdW) Write(p []byte) (int, error) {
	if f.failed {
		return 0, f.err
	}
	q := p
	if f.limited && len(p) > f.rem {
		q = p[:f.rem]
	}
	n, err := f.w.Write(q)
	f.n += n
	if f.limited {
		f.rem -= n
	}
	if err != nil {
		return n, err
	}
	if len(q) < len(p) {
		f.failed = true
		return n, f.err
	}
	return n, nil
}

// onlyWriter hides every method of a writer but Write.
type onlyWriter struct{ w io.Writer }

func (o onlyWriter) Write(p []byte) (int, error) { return o.w.Write(p) }

// hostComp is the hand-written component described by a host node; the block is what templ.GetChildren returns.
func hostComp(n *Node) templ.Component {
	return templ.ComponentFunc(func(ctx context.Context, w io.Writer) error {
		children := templ.GetChildren(ctx)
		ctx = templ.ClearChildren(ctx)
		if len(n.Pre) > 0 {
			if _, err := io.WriteString(w, string(n.Pre)); err != nil {
				return err
			}
		}
		switch n.HK {
		case "fwd":
			fw := &fwdW{w: w, limited: n.Lim >= 0, rem: n.Lim, err: &CompErr{ID: n.HErr}}
			var err error
			for i := 0; i < n.Times && err == nil; i++ {
				err = children.Render(ctx, fw)
			}
			if n.Own && fw.failed {
				return fw.err
			}
			if err != nil {
				return err
			}
		case "capture":
			var buf bytes.Buffer
			for i := 0; i < n.Times; i++ {
				if err := children.Render(ctx, &buf); err != nil {
					return err
				}
			}
			if _, err := w.Write(buf.Bytes()); err != nil {
				return err
			}
		case "bufio":
			bw := bufio.NewWriterSize(onlyWriter{w}, n.Size)
			for i := 0; i < n.Times; i++ {
				if err := children.Render(ctx, bw); err != nil {
					return err
				}
			}
			if err := bw.Flush(); err != nil {
				return err
			}
		default: // pass
			for i := 0; i < n.Times; i++ {
				if err := children.Render(ctx, w); err != nil {
					return err
				}
			}
		}
		if len(n.Post) > 0 {
			if _, err := io.WriteString(w, string(n.Post)); err != nil {
				return err
			}
		}
		return nil
	})
}

type stmt func(ctx context.Context, buf *templruntime.Buffer) error

// handTempl is the generated template skeleton written by hand around the real runtime calls.
func handTempl(guard bool, body []stmt) templ.Component {
	return templruntime.GeneratedTemplate(func(in templruntime.GeneratedComponentInput) (err error) {
		w, ctx := in.Writer, in.Context
		if guard {
			if cerr := ctx.Err(); cerr != nil {
				return cerr
			}
		}
		buf, isBuf := templruntime.GetBuffer(w)
		if !isBuf {
			defer func() {
				bufErr := templruntime.ReleaseBuffer(buf)
				if err == nil {
					err = bufErr
				}
			}()
		}
		ctx = templ.InitializeContext(ctx)
		for _, st := range body {
			if err = st(ctx, buf); err != nil {
				return err
			}
		}
		return nil
	})
}

func buildBody(kids []*Node, env Env, path []int) []stmt {
	var body []stmt
	for i, k := range kids {
		k := k
		idx := i + 1
		switch k.K {
		case "lit":
			s := string(k.B)
			body = append(body, func(ctx context.Context, buf *templruntime.Buffer) error {
				return templruntime.WriteString(buf, idx, s)
			})
		case "expr":
			body = append(body, func(ctx context.Context, buf *templruntime.Buffer) error {
				v, err := templ.JoinStringErrs(env.str(path, k.ID))
				if err != nil {
					return templ.Error{Err: err, FileName: k.File, Line: k.Line, Col: k.Col}
				}
				_, err = buf.WriteString(templ.EscapeString(v))
				return err
			})
		case "if":
			body = append(body, func(ctx context.Context, buf *templruntime.Buffer) error {
				branch := k.Else
				if env.test(path, k) {
					branch = k.Kids
				}
				for _, st := range buildBody(branch, env, path) {
					if err := st(ctx, buf); err != nil {
						return err
					}
				}
				return nil
			})
		case "for":
			body = append(body, func(ctx context.Context, buf *templruntime.Buffer) error {
				n := env.num(path, k.ID)
				for it := 0; it < n; it++ {
					for _, st := range buildBody(k.Kids, env, append([]int{it}, path...)) {
						if err := st(ctx, buf); err != nil {
							return err
						}
					}
				}
				return nil
			})
		default:
			if k.K == "host" {
				hc := hostComp(k)
				block := handTempl(false, buildBody(k.Kids, env, path))
				body = append(body, func(ctx context.Context, buf *templruntime.Buffer) error {
					return hc.Render(templ.WithChildren(ctx, block), buf) // as the generated code passes a block
				})
				continue
			}
			c := Build(k, env, path)
			if k.K == "flush" && len(k.Kids) > 0 {
				block := handTempl(false, buildBody(k.Kids, env, path))
				body = append(body, func(ctx context.Context, buf *templruntime.Buffer) error {
					if err := templ.Flush().Render(templ.WithChildren(ctx, block), buf); err != nil {
						return err
					}
					templ.ClearChildren(ctx) // as the generated code does once a block has been passed
					return nil
				})
				continue
			}
			body = append(body, func(ctx context.Context, buf *templruntime.Buffer) error {
				return c.Render(ctx, buf)
			})
		}
	}
	return body
}

// Build turns a program into a component using the real runtime.
func Build(n *Node, env Env, path []int) templ.Component {
	switch n.K {
	case "templ":
		return handTempl(n.Guard, buildBody(n.Kids, env, path))
	case "join":
		var cs []templ.Component
		for _, k := range n.Kids {
			cs = append(cs, Build(k, env, path))
		}
		return templ.Join(cs...)
	case "flush":
		if len(n.Kids) == 0 {
			return templ.Flush()
		}
		block := handTempl(false, buildBody(n.Kids, env, path))
		return templ.ComponentFunc(func(ctx context.Context, w io.Writer) error {
			if err := templ.Flush().Render(templ.WithChildren(ctx, block), w); err != nil {
				return err
			}
			templ.ClearChildren(ctx)
			return nil
		})
	case "raw":
		if n.Err != 0 {
			return templ.Raw(string(n.B), &CompErr{ID: n.Err})
		}
		return templ.Raw(string(n.B))
	case "func":
		ops := n.Ops
		return templ.ComponentFunc(func(ctx context.Context, w io.Writer) error {
			for _, o := range ops {
				switch o.K {
				case "w":
					if _, err := w.Write(o.B); err != nil {
						return err
					}
				case "s":
					if _, err := io.WriteString(w, string(o.B)); err != nil {
						return err
					}
				case "x":
					return &CompErr{ID: o.N}
				}
			}
			return nil
		})
	case "nop":
		return templ.NopComponent
	case "host":
		hc := hostComp(n)
		block := handTempl(false, buildBody(n.Kids, env, path))
		return templ.ComponentFunc(func(ctx context.Context, w io.Writer) error {
			return hc.Render(templ.WithChildren(ctx, block), w)
		})
	}
	// a statement outside a template body: wrap in a block closure
	return handTempl(false, buildBody([]*Node{n}, env, path))
}

// Probes is the table of compiled probe templates (filled by the runner's main package).
type Probes map[string]func(V) templ.Component

// Exec runs one job and reports what was observed.
func Exec(j *Job, probes Probes) (o Obs) {
	var comp templ.Component
	if j.Probe != "" {
		f, ok := probes[j.Probe]
		if !ok {
			return Obs{Res: "other:no such probe " + j.Probe}
		}
		v := V{env: j.Env, comps: map[int]templ.Component{}, hosts: map[int]templ.Component{}, once: map[int]*templ.OnceHandle{}}
		for i, n := range j.Comps {
			v.comps[i] = Build(n, j.Env, nil)
		}
		for i, n := range j.Hosts {
			v.hosts[i] = hostComp(n)
		}
		comp = f(v)
	} else {
		comp = Build(j.Prog, j.Env, nil)
	}
	ctx := context.Background()
	switch j.Cancel {
	case 1:
		c, cancel := context.WithCancel(ctx)
		cancel()
		ctx = c
	case 2:
		c, cancel := context.WithDeadline(ctx, time.Unix(1, 0))
		defer cancel()
		ctx = c
	}
	if j.HTML {
		s, err := templ.ToGoHTML(ctx, comp)
		return Obs{Res: Classify(err), Out: []byte(s)}
	}
	if j.GC {
		runtime.GC()
		runtime.GC()
	}
	if j.Slot != 0 {
		return execSlot(j, comp, ctx)
	}
	w, b := sinkFor(j)
	defer func() {
		if r := recover(); r != nil {
			if _, ok := r.(spin); ok {
				o = Obs{Res: "spin", Out: b.got, Calls: b.calls, Marks: b.marks, Spun: true}
				return
			}
			o = Obs{Res: "other:panic", Out: b.got, Calls: b.calls, Marks: b.marks, Panic: fmt.Sprint(r)}
		}
	}()
	err := comp.Render(ctx, w)
	return Obs{Res: Classify(err), Out: b.got, Calls: b.calls, Marks: b.marks}
}

// execSlot renders into one of the destination objects the caller keeps and then plays the caller's part.
func execSlot(j *Job, comp templ.Component, ctx context.Context) (o Obs) {
	s := slotFor(j)
	defer func() {
		if r := recover(); r != nil {
			if _, ok := r.(spin); ok {
				o = Obs{Res: "spin", Out: s.b.got, Calls: s.b.calls, Marks: s.b.marks, Spun: true}
				return
			}
			o = Obs{Res: "other:panic", Out: s.b.got, Calls: s.b.calls, Marks: s.b.marks, Panic: fmt.Sprint(r)}
		}
	}()
	err := comp.Render(ctx, s.w)
	o = Obs{Res: Classify(err)}
	s.epilogue(j, &o)
	return o
}

// Serve is the probe runner's main loop: one JSON job per line in, one JSON observation per line out.
// All jobs run in this one process, one after the other, so they share the two buffer pools.
func Serve(in io.Reader, out io.Writer, probes Probes) {
	if c := os.Getenv("C10_CAP"); c != "" {
		if n, err := strconv.Atoi(c); err == nil && n > 0 {
			templruntime.DefaultBufferSize = n
		}
	}
	rd := bufio.NewReaderSize(in, 1<<20)
	wr := bufio.NewWriterSize(out, 1<<20)
	defer wr.Flush()
	enc := json.NewEncoder(wr)
	for {
		line, err := rd.ReadBytes('\n')
		if len(line) > 1 {
			var j Job
			if jerr := json.Unmarshal(line, &j); jerr != nil {
				enc.Encode(Obs{Res: "other:bad job " + jerr.Error()})
			} else {
				enc.Encode(Exec(&j, probes))
			}
		}
		if err != nil {
			return
		}
	}
}
