// Package c10: rendering is exact and fail-stop under writer, expression and context failures.
package c10

import (
	"bufio"
	"bytes"
	_ "embed"
	"encoding/json"
	"fmt"
	"go/format"
	"html"
	"os"
	"os/exec"
	"path/filepath"
	"runtime"
	"sort"
	"strconv"
	"strings"
	"sync"
	"time"

	"github.com/a-h/templ/generator"
	parser "github.com/a-h/templ/parser/v2"

	"verifharness/internal/c10/run"
	"verifharness/internal/core"
	"verifharness/internal/drv"
	"verifharness/internal/rng"
)

func init() { core.Register("C10", Run) }

//go:embed run/run.go
var runSource []byte

const probeFile = "probes.templ"

// one job with everything needed to compare it
type item struct {
	family string
	cap    int
	job    *run.Job
	model  *run.Node // the model program (for probes: translated from the generated text)
	progID string    // jobs with the same progID share model program and environment
	obs    run.Obs
	prev   *item // the render executed just before this one in the same process (same pools)
	// destination-object sequences: all renders of the sequence up to this one (oldest first), this render's position,
	// and loose = the calls on the destination cannot be compared with the model (a *bytes.Buffer shows none; behind a
	// bufio.Writer a writer without WriteString is called in smaller pieces than the model's), only results and bytes
	seq   []*item
	pos   int
	loose bool
	// specOnly: behind the caller's bufio.Writer stands a FAILING writer without WriteString; the model does not
	// describe how bufio feeds it, so only the specification predicate is evaluated on what was observed
	specOnly bool
}

type checker struct {
	c       *core.Ctx
	items   []*item
	frameOK map[string]bool // per family: no destination object other than a render's own saw a call
	nextSlot int
}

func filler(n int) string {
	var sb strings.Builder
	for i := 0; sb.Len() < n; i++ {
		fmt.Fprintf(&sb, "w%04x", i)
	}
	return sb.String()[:n]
}

func expandFill(src string) string {
	for {
		i := strings.Index(src, "%%FILL:")
		if i < 0 {
			return src
		}
		j := strings.Index(src[i+7:], "%%")
		n, _ := strconv.Atoi(src[i+7 : i+7+j])
		src = src[:i] + filler(n) + src[i+7+j+2:]
	}
}

func goEnv() []string {
	env := []string{}
	for _, e := range os.Environ() {
		if strings.HasPrefix(e, "TEMPL_DEV_MODE") || strings.HasPrefix(e, "GOFLAGS=") || strings.HasPrefix(e, "C10_CAP=") {
			continue
		}
		env = append(env, e)
	}
	return append(env, "GOFLAGS=-mod=mod", "GOPROXY=off", "GOSUMDB=off", "GOTOOLCHAIN=local")
}

// buildProbes generates the probe templates with the live generator, compiles the runner in a scratch module.
func buildProbes(c *core.Ctx) (dir string, g *genFile, src string, err error) {
	raw, err := os.ReadFile(filepath.Join(core.Root, "harness", "probes", "c10", probeFile))
	if err != nil {
		return "", nil, "", err
	}
	mainSrc, err := os.ReadFile(filepath.Join(core.Root, "harness", "probes", "c10", "main.go.txt"))
	if err != nil {
		return "", nil, "", err
	}
	src = expandFill(string(raw))
	tf, err := parser.ParseString(src)
	if err != nil {
		return "", nil, src, fmt.Errorf("probe templates do not parse: %v", err)
	}
	var gen bytes.Buffer
	if _, err = generator.Generate(tf, &gen, generator.WithFileName(probeFile)); err != nil {
		return "", nil, src, fmt.Errorf("generator failed on the probe templates: %v", err)
	}
	// `templ generate` passes the generator's output through go/format before writing it
	formatted, ferr := format.Source(gen.Bytes())
	if ferr != nil {
		return "", nil, src, fmt.Errorf("generated code does not format: %v", ferr)
	}
	gen.Reset()
	gen.Write(formatted)
	g = parseGenerated(gen.String())
	dir, err = os.MkdirTemp("", "verif_c10_")
	if err != nil {
		return "", g, src, err
	}
	os.MkdirAll(filepath.Join(dir, "run"), 0o755)
	sum, _ := os.ReadFile(filepath.Join(core.Repo(), "go.sum"))
	files := map[string][]byte{
		"go.mod":          []byte("module c10probe\n\ngo 1.23.0\n\nrequire github.com/a-h/templ v0.0.0\n\nreplace github.com/a-h/templ => " + core.Repo() + "\n"),
		"go.sum":          sum,
		"probes_templ.go": gen.Bytes(),
		"main.go":         mainSrc,
		"run/run.go":      runSource,
	}
	for name, b := range files {
		if err = os.WriteFile(filepath.Join(dir, name), b, 0o644); err != nil {
			return dir, g, src, err
		}
	}
	cmd := exec.Command("timeout", "300", "go", "build", "-o", "runner", ".")
	cmd.Dir = dir
	cmd.Env = goEnv()
	if out, berr := cmd.CombinedOutput(); berr != nil {
		return dir, g, src, fmt.Errorf("probe runner does not build: %v: %s", berr, tail(string(out), 1500))
	}
	return dir, g, src, nil
}

func tail(s string, n int) string {
	if len(s) > n {
		return s[len(s)-n:]
	}
	return s
}

// runSubprocess executes jobs in one runner process (so they share the pools), with the given buffer size.
func runSubprocess(dir string, cap int, items []*item) error {
	cmd := exec.Command("timeout", "600", filepath.Join(dir, "runner"))
	cmd.Env = goEnv()
	if cap != 4096 {
		cmd.Env = append(cmd.Env, "C10_CAP="+strconv.Itoa(cap))
	}
	in, err := cmd.StdinPipe()
	if err != nil {
		return err
	}
	out, err := cmd.StdoutPipe()
	if err != nil {
		return err
	}
	var stderr bytes.Buffer
	cmd.Stderr = &stderr
	if err := cmd.Start(); err != nil {
		return err
	}
	go func() {
		w := bufio.NewWriterSize(in, 1<<20)
		enc := json.NewEncoder(w)
		for _, it := range items {
			enc.Encode(it.job)
		}
		w.Flush()
		in.Close()
	}()
	rd := bufio.NewReaderSize(out, 1<<20)
	n := 0
	for {
		line, rerr := rd.ReadBytes('\n')
		if len(line) > 1 && n < len(items) {
			if jerr := json.Unmarshal(line, &items[n].obs); jerr != nil {
				items[n].obs = run.Obs{Res: "other:bad reply"}
			}
			n++
		}
		if rerr != nil {
			break
		}
	}
	werr := cmd.Wait()
	if n != len(items) {
		return fmt.Errorf("runner answered %d of %d jobs (%v): %s", n, len(items), werr, tail(stderr.String(), 1500))
	}
	return nil
}

// ---------- model requests ----------

type menc struct{ args [][]byte }

func (m *menc) push(b []byte) { m.args = append(m.args, append([]byte{'b'}, b...)) }
func (m *menc) num(n int)     { m.push([]byte(strconv.Itoa(n))) }
func (m *menc) opt(n int) {
	if n == 0 {
		m.push(nil)
	} else {
		m.num(n)
	}
}
func (m *menc) flag(b bool) {
	if b {
		m.push([]byte("1"))
	} else {
		m.push([]byte("0"))
	}
}
func (m *menc) op(c byte) { m.args = append(m.args, []byte{c}) }

func (m *menc) node(n *run.Node) {
	switch n.K {
	case "lit":
		m.push(n.B)
		m.op('L')
	case "expr":
		m.num(n.ID)
		m.push([]byte(n.File))
		m.num(n.Line)
		m.num(n.Col)
		m.op('E')
	case "templ":
		for _, k := range n.Kids {
			m.node(k)
		}
		m.flag(n.Guard)
		m.num(len(n.Kids))
		m.op('T')
	case "join", "flush":
		for _, k := range n.Kids {
			m.node(k)
		}
		m.num(len(n.Kids))
		if n.K == "join" {
			m.op('J')
		} else {
			m.op('F')
		}
	case "if":
		for _, k := range n.Kids {
			m.node(k)
		}
		for _, k := range n.Else {
			m.node(k)
		}
		m.flag(n.Cond == "c")
		m.num(n.ID)
		m.num(n.Case)
		m.num(len(n.Kids))
		m.num(len(n.Else))
		m.op('I')
	case "for":
		for _, k := range n.Kids {
			m.node(k)
		}
		m.num(n.ID)
		m.num(len(n.Kids))
		m.op('O')
	case "raw":
		m.push(n.B)
		m.opt(n.Err)
		m.op('R')
	case "host":
		// what the component writes around the children is a hand-written write before / after: Join(pre, host, post)
		parts := 1
		if len(n.Pre) > 0 {
			m.push(n.Pre)
			m.op('S')
			m.op('U')
			parts++
		}
		for _, k := range n.Kids {
			m.node(k)
		}
		switch n.HK {
		case "fwd":
			m.push([]byte("f"))
			if n.Lim >= 0 {
				m.num(n.Lim)
			} else {
				m.push(nil)
			}
		case "bufio": // judged by the specification only: for the document it is a forwarding writer without a limit
			m.push([]byte("f"))
			m.push(nil)
		case "capture":
			m.push([]byte("c"))
			m.push(nil)
		default:
			m.push([]byte("p"))
			m.push(nil)
		}
		m.num(n.HErr)
		m.flag(n.Own)
		m.num(n.Times)
		m.num(len(n.Kids))
		m.op('H')
		if len(n.Post) > 0 {
			m.push(n.Post)
			m.op('S')
			m.op('U')
			parts++
		}
		if parts > 1 {
			m.num(parts)
			m.op('J')
		}
	case "func":
		for _, o := range n.Ops {
			switch o.K {
			case "w":
				m.push(o.B)
				m.op('W')
			case "s":
				m.push(o.B)
				m.op('S')
			case "x":
				m.num(o.N)
				m.op('X')
			}
		}
		m.op('U')
	default:
		m.op('N')
	}
}

func encCalls(calls []run.Call, cap int) string {
	var sb strings.Builder
	for _, cl := range calls {
		d := "0"
		if cl.Off > cap {
			d = "1"
		}
		res := "nil"
		if cl.Err != 0 {
			res = "sink:" + strconv.Itoa(cl.Err)
		}
		fmt.Fprintf(&sb, "%s:%d:%d:%s;", d, cl.Off, cl.Acc, res)
	}
	return sb.String()
}

func encMarks(ms []int) string {
	var sb strings.Builder
	for _, m := range ms {
		fmt.Fprintf(&sb, "%d;", m)
	}
	return sb.String()
}

type group struct {
	cap     int
	sw, fl  bool
	members []*item
}

func inputOf(it *item) map[string]any {
	j := it.job
	in := map[string]any{"family": it.family, "tag": j.Tag, "buffer_size": it.cap, "sink": j.Sink, "cancel": j.Cancel, "to_go_html": j.HTML, "env": j.Env}
	if j.Reuse {
		in["same_destination_value_as_previous_direct_render"] = true
	}
	if it.seq != nil {
		if j.Slot != 0 {
			in["destination_object"] = j.Slot
			in["destination_kind"] = destKind(j.Sink)
			in["pool_emptied_before_render"] = j.GC
		}
		var before []map[string]any
		for _, p := range it.seq {
			if p == it {
				break
			}
			e := map[string]any{"tag": p.job.Tag, "destination_object": p.job.Slot, "sink": p.job.Sink, "pool_emptied_before_render": p.job.GC, "to_go_html": p.job.HTML, "cancel": p.job.Cancel, "result": p.obs.Res}
			if p.job.Slot != 0 {
				e["destination_kind"] = destKind(p.job.Sink)
			}
			before = append(before, e)
		}
		in["earlier_renders_of_this_sequence_same_program_same_process"] = before
	}
	if it.prev != nil {
		in["previous_render_in_same_process"] = map[string]any{"tag": it.prev.job.Tag, "sink": it.prev.job.Sink, "result": it.prev.obs.Res}
	}
	if j.Probe != "" {
		in["probe"] = j.Probe
		in["comps"] = j.Comps
		if len(j.Hosts) > 0 {
			in["hand_written_components_passed_a_block"] = j.Hosts
		}
	} else if b, _ := json.Marshal(j.Prog); len(b) < 3000 {
		in["program"] = j.Prog
	} else {
		in["program"] = "(large: " + it.progID + ")"
	}
	return in
}

// compare runs the model on every item and compares it with what the implementation did.
func (k *checker) compare() {
	c := k.c
	groups := map[string]*group{}
	var order []string
	var wrapped []*item
	for _, it := range k.items {
		if it.job.Slot != 0 && it.job.Sink.Wrap > 0 {
			wrapped = append(wrapped, it)
			continue
		}
		key := fmt.Sprintf("%d/%v/%v", it.cap, it.job.Sink.SW, it.job.Sink.Flusher)
		g, ok := groups[key]
		if !ok {
			g = &group{cap: it.cap, sw: it.job.Sink.SW, fl: it.job.Sink.Flusher}
			groups[key] = g
			order = append(order, key)
		}
		g.members = append(g.members, it)
	}
	sort.Strings(order)
	var reqs []drv.Req
	var gs []*group
	for _, key := range order {
		g := groups[key]
		// split into requests of bounded size
		var m *menc
		var cur []*item
		size := 0
		last := ""
		flush := func() {
			if m != nil && len(cur) > 0 {
				reqs = append(reqs, drv.Req{Fn: "run", Args: m.args})
				gs = append(gs, &group{cap: g.cap, sw: g.sw, fl: g.fl, members: cur})
			}
			m, cur, size, last = nil, nil, 0, ""
		}
		for _, it := range g.members {
			if m == nil {
				m = &menc{}
				m.args = append(m.args, []byte(strconv.Itoa(g.cap)), []byte(map[bool]string{true: "1", false: "0"}[g.sw]), []byte(map[bool]string{true: "1", false: "0"}[g.fl]))
			}
			before := len(m.args)
			if it.progID == "" || it.progID != last {
				if last != "" || len(cur) > 0 {
					m.op('p')
				}
				m.node(it.model)
				m.op('z')
				keys := make([]string, 0, len(it.job.Env))
				for key := range it.job.Env {
					keys = append(keys, key)
				}
				sort.Strings(keys)
				for _, key := range keys {
					colon := strings.IndexByte(key, ':')
					m.push([]byte(key[:colon])) // the loop path, innermost first: "2.0."
					m.push([]byte(key[colon+1:]))
					m.push(it.job.Env[key].S)
					m.opt(it.job.Env[key].Err)
					m.op('V')
				}
				last = it.progID
			}
			j := it.job
			m.opt(j.Cancel)
			m.flag(j.HTML)
			m.num(j.Sink.Mode)
			m.num(j.Sink.Limit)
			m.num(j.Sink.ErrID)
			m.num(c.Rng.Intn(3))
			m.num(c.Rng.Intn(3))
			m.op('G')
			nz := 0
			for _, cl := range it.obs.Calls {
				if cl.Acc == 0 && cl.Err == 0 {
					nz++
					if it.obs.Spun && nz > 20 {
						continue
					}
				}
				m.flag(cl.Off > it.cap)
				m.num(cl.Off)
				m.num(cl.Acc)
				m.opt(cl.Err)
				m.op('c')
			}
			if it.obs.Spun {
				m.op('s')
			}
			m.push([]byte(it.obs.Res))
			m.push(it.obs.Out)
			m.op('K')
			cur = append(cur, it)
			for _, a := range m.args[before:] {
				size += len(a)
			}
			if size > 6<<20 || len(cur) >= 300 || len(m.args) > 30000 { // ocaml/driver.ml maps over the argument list non-tail-recursively
				flush()
			}
		}
		flush()
	}
	res := k.modelParallel(reqs)
	tieOK := map[string]bool{}
	propOK := map[string]bool{}
	for gi, g := range gs {
		r := res[gi]
		for mi, it := range g.members {
			if _, ok := tieOK[it.family]; !ok {
				tieOK[it.family], propOK[it.family] = true, true
			}
			if len(r) < 7*(mi+1) {
				if tieOK[it.family] {
					c.Fail("tie", it.family+": model = implementation", "", inputOf(it), fmt.Sprintf("the extracted model returned %d fields for %d jobs (%s)", len(r), len(g.members), firstField(r)))
				}
				tieOK[it.family] = false
				continue
			}
			f := r[7*mi : 7*mi+7]
			mres, mout, mlog, mmarks, spec, doc, de := string(f[0]), f[1], string(f[2]), string(f[3]), string(f[4]), f[5], string(f[6])
			o := it.obs
			var diffs []string
			if it.specOnly {
				// a hand-written component with a bufio.Writer of its own between the block and its writer: the model does not
				// describe how that writer cuts the block's output up; only the specification predicate judges the render
				mres, mout = o.Res, o.Out
			}
			if mres != o.Res {
				diffs = append(diffs, fmt.Sprintf("result: model %s, implementation %s", mres, o.Res))
			}
			if !bytes.Equal(mout, o.Out) {
				diffs = append(diffs, fmt.Sprintf("bytes received: model %d bytes, implementation %d bytes (first difference at %d)", len(mout), len(o.Out), firstDiff(mout, o.Out)))
			}
			if !o.Spun && !it.job.HTML && !it.loose {
				if il := encCalls(o.Calls, it.cap); il != mlog {
					diffs = append(diffs, fmt.Sprintf("calls on the destination: model %s, implementation %s", trunc(mlog, 200), trunc(il, 200)))
				}
				if im := encMarks(o.Marks); im != mmarks {
					diffs = append(diffs, fmt.Sprintf("http.Flusher calls: model %s, implementation %s", mmarks, im))
				}
			}
			if len(diffs) > 0 {
				tieOK[it.family] = false
				if c.NFails(it.family+": model = implementation") < 3 {
					c.Fail("tie", it.family+": model = implementation", "", inputOf(it), strings.Join(diffs, "; "))
				}
			}
			if spec != "1" {
				propOK[it.family] = false
				shape, detail := "error-does-not-wrap-cause", fmt.Sprintf("Render returned %s; the program's own first failure is %s; destination calls %s", o.Res, de, trunc(encCalls(o.Calls, it.cap), 200))
				switch {
				case !bytes.HasPrefix(doc, o.Out):
					shape, detail = "received-not-a-prefix", fmt.Sprintf("the destination received %d bytes that are not a prefix of the %d-byte document (first difference at %d); Render returned %s", len(o.Out), len(doc), firstDiff(doc, o.Out), o.Res)
				case o.Res == "nil" && !bytes.Equal(doc, o.Out):
					shape, detail = "nil-result-incomplete-output", fmt.Sprintf("Render returned nil but the destination received %d of %d bytes", len(o.Out), len(doc))
				case o.Res == "nil":
					shape, detail = "nil-result-despite-failure", fmt.Sprintf("Render returned nil although the program failed with %s / the destination refused (%s)", de, trunc(encCalls(o.Calls, it.cap), 200))
				}
				if c.NFails(it.family+": specification on the implementation") < 4 {
					in := inputOf(it)
					in["observed"] = map[string]any{"result": o.Res, "received_bytes": len(o.Out), "received_tail": string(lastBytes(o.Out, 60)), "document_bytes": len(doc)}
					c.Fail("property", it.family+": specification on the implementation", shape, in, detail)
				}
			}
			key := ""
			if o.Res != "nil" || it.job.Cancel != 0 {
				key = fmt.Sprintf("%s|%s|%d|%d|%d|%v|%s", it.family, it.progID, it.cap, it.job.Sink.Mode, it.job.Sink.Limit, it.job.Sink.SW, o.Res)
			}
			if it.job.Slot != 0 {
				// a render into a destination object of a sequence: non-trivial when it fails or comes back to an object
				key = ""
				if o.Res != "nil" || it.revisit() {
					key = fmt.Sprintf("%s|%s|%s|%d|%d|%d|%v|%s", it.family, it.progID, destKind(it.job.Sink), it.pos, it.job.Sink.Mode, it.job.Sink.Limit, it.job.GC, o.Res)
				}
				c.Count(key)
				c.Hist(it.family + ": " + destClass(it))
				k.foreign(it, tieOK)
				continue
			}
			c.Count(key)
			c.Hist(it.family + ": " + resClass(o.Res))
			for _, hc := range hostClasses(it.model) {
				c.Hist("block passed to a hand-written component, into " + hc + " -> " + hostRes(o.Res))
			}
		}
	}
	k.compareWrapped(wrapped, tieOK, propOK)
	fams := make([]string, 0, len(tieOK))
	for f := range tieOK {
		fams = append(fams, f)
	}
	sort.Strings(fams)
	ffams := make([]string, 0, len(k.frameOK))
	for f := range k.frameOK {
		ffams = append(ffams, f)
	}
	sort.Strings(ffams)
	for _, f := range ffams {
		c.Oblige("correspondence", f+": no destination object other than the one a render was given is called during that render or the caller's flush after it", k.frameOK[f], "")
	}
	for _, f := range fams {
		c.Oblige("correspondence", f+": model result / bytes received / destination calls / flusher calls = implementation on every job", tieOK[f], "")
		c.Oblige("correspondence", f+": extracted specification predicate spec_okb holds of the implementation's observations on every job", propOK[f], "")
	}
}

// modelParallel runs the requests through several driver processes at once (each request is independent).
func (k *checker) modelParallel(reqs []drv.Req) [][][]byte {
	c := k.c
	workers := runtime.NumCPU()
	if workers > 8 {
		workers = 8
	}
	if workers < 1 {
		workers = 1
	}
	res := make([][][]byte, len(reqs))
	errs := make([]error, workers)
	var wg sync.WaitGroup
	for w := 0; w < workers; w++ {
		wg.Add(1)
		go func(w int) {
			defer wg.Done()
			var mine []drv.Req
			var idx []int
			for i := w; i < len(reqs); i += workers {
				mine = append(mine, reqs[i])
				idx = append(idx, i)
			}
			if len(mine) == 0 {
				return
			}
			out, err := drv.Batch(c.Driver, mine)
			if err != nil {
				errs[w] = err
				return
			}
			for j, i := range idx {
				res[i] = out[j]
			}
		}(w)
	}
	wg.Wait()
	for _, e := range errs {
		if e != nil {
			c.Oblige("correspondence", "extracted-model-runs", false, e.Error())
			break
		}
	}
	return res
}

func firstField(r [][]byte) string {
	if len(r) == 0 {
		return ""
	}
	return trunc(string(r[0]), 40)
}

func resClass(r string) string {
	switch {
	case r == "nil":
		return "nil"
	case strings.HasPrefix(r, "templ:"):
		return "templ.Error"
	case strings.HasPrefix(r, "sink:"):
		return "sink error"
	case strings.HasPrefix(r, "ctx:"):
		return "context error"
	case strings.HasPrefix(r, "comp:"):
		return "component error"
	}
	return r
}

func firstDiff(a, b []byte) int {
	n := len(a)
	if len(b) < n {
		n = len(b)
	}
	for i := 0; i < n; i++ {
		if a[i] != b[i] {
			return i
		}
	}
	return n
}
func lastBytes(b []byte, n int) []byte {
	if len(b) > n {
		return b[len(b)-n:]
	}
	return b
}
func trunc(s string, n int) string {
	if len(s) > n {
		return s[:n] + "..."
	}
	return s
}

// ---------- job generation ----------

var words = []string{"<p>", "</p>", "a&b", "\"q\"", "x<y>z", "'", "plain text", "é", "0123456789", "<div class=\"c\">", "</div>", "\n\t", "&amp;", "z"}

func randText(r *rng.R, max int) []byte {
	var b []byte
	n := r.Intn(max + 1)
	for len(b) < n {
		b = append(b, rng.Pick(r, words)...)
	}
	if len(b) > n {
		b = b[:n]
	}
	return b
}

// randComp builds a component (anything that can stand where a templ.Component is expected).
func randComp(r *rng.R, depth int, maxLit int, nextID *int) *run.Node {
	k := r.Intn(10)
	if depth <= 0 && k < 4 {
		k = 4 + r.Intn(6)
	}
	switch k {
	case 0, 1:
		return &run.Node{K: "templ", Guard: r.Intn(4) != 0, Kids: randBody(r, depth-1, maxLit, nextID)}
	case 2:
		n := &run.Node{K: "join"}
		for i := r.Intn(3); i >= 0; i-- {
			n.Kids = append(n.Kids, randComp(r, depth-1, maxLit, nextID))
		}
		return n
	case 3:
		n := &run.Node{K: "flush"}
		if r.Bool() {
			n.Kids = randBody(r, depth-1, maxLit, nextID)
		}
		return n
	case 4:
		return &run.Node{K: "flush"}
	case 5, 6:
		n := &run.Node{K: "raw", B: randText(r, maxLit)}
		if r.Intn(12) == 0 {
			n.Err = 20 + r.Intn(5)
		}
		return n
	case 7, 8:
		n := &run.Node{K: "func"}
		for i := r.Intn(3); i >= 0; i-- {
			switch r.Intn(7) {
			case 0:
				if r.Intn(4) == 0 {
					n.Ops = append(n.Ops, run.Op{K: "x", N: 30 + r.Intn(5)})
					continue
				}
				fallthrough
			case 1, 2, 3:
				n.Ops = append(n.Ops, run.Op{K: "w", B: randText(r, 3*maxLit)})
			default:
				n.Ops = append(n.Ops, run.Op{K: "s", B: randText(r, 3*maxLit)})
			}
		}
		return n
	}
	return &run.Node{K: "nop"}
}

// hostKinds are the things a hand-written component does with the block it is passed (run.Node, K "host").
var hostKinds = []string{"pass", "fwd", "fwd", "fwd-limited", "fwd-limited", "capture", "bufio"}

// mkHost describes one such component. span is roughly the length of the block's output: the limit of a limited
// forwarding writer is drawn from 0 .. a little beyond it, so that it fails at the first byte, in the middle, at the
// last byte, or not at all.
func mkHost(r *rng.R, kind string, span int) *run.Node {
	h := &run.Node{K: "host", HK: kind, Lim: -1, Times: 1, HErr: 80 + r.Intn(9)}
	switch r.Intn(6) {
	case 0:
		h.Times = 2
	case 1:
		if r.Intn(3) == 0 {
			h.Times = 0
		}
	}
	switch kind {
	case "fwd":
		h.Own = r.Bool()
	case "fwd-limited":
		h.HK = "fwd"
		h.Own = r.Bool()
		h.Lim = r.Intn(h.Times*span + 3)
		if r.Intn(5) == 0 {
			h.Lim = []int{0, 1, span - 1, span, span + 1}[r.Intn(5)]
			if h.Lim < 0 {
				h.Lim = 0
			}
		}
	case "bufio":
		h.Size = []int{1, 7, 16, 64, 4096}[r.Intn(5)]
	}
	if r.Intn(3) != 0 {
		h.Pre, h.Post = []byte("<sec>"), []byte("</sec>")
	}
	return h
}

// randHost: a hand-written component that is passed a block of random statements.
func randHost(r *rng.R, depth int, maxLit int, nextID *int) *run.Node {
	kids := randBody(r, depth-1, maxLit, nextID)
	span := 0
	for _, k := range kids {
		span += docLen(k, run.Env{}, nil)
	}
	h := mkHost(r, hostKinds[r.Intn(len(hostKinds))], span+8)
	h.Kids = kids
	return h
}

// hasHost reports whether the program contains a host component satisfying p.
func hasHost(n *run.Node, p func(*run.Node) bool) bool {
	if n == nil {
		return false
	}
	if n.K == "host" && p(n) {
		return true
	}
	for _, k := range n.Kids {
		if hasHost(k, p) {
			return true
		}
	}
	for _, k := range n.Else {
		if hasHost(k, p) {
			return true
		}
	}
	return false
}

// hostClasses names, for the evidence histogram, what each hand-written component of the program does with its block.
func hostClasses(n *run.Node) []string {
	set := map[string]bool{}
	hasHost(n, func(h *run.Node) bool {
		k := h.HK
		if k == "fwd" {
			k = "forwarding writer of its own"
			if h.Lim >= 0 {
				k = "forwarding writer of its own failing after k bytes"
				if h.Own {
					k += ", reported by the component"
				} else {
					k += ", reported by the block"
				}
			}
		}
		switch k {
		case "pass":
			k = "the writer it was given"
		case "capture":
			k = "bytes.Buffer of its own, copied afterwards"
		case "bufio":
			k = "bufio.Writer of its own (judged by the specification only)"
		}
		switch h.Times {
		case 0:
			k += ", not rendered at all"
		case 1:
		default:
			k += ", rendered twice"
		}
		set[k] = true
		return false
	})
	ks := make([]string, 0, len(set))
	for k := range set {
		ks = append(ks, k)
	}
	sort.Strings(ks)
	return ks
}

// coarse result class for the host histogram
func hostRes(res string) string {
	switch {
	case res == "nil":
		return "nil"
	case strings.HasPrefix(res, "comp:8"):
		return "the component's own writer's error"
	}
	return "another error"
}

func randBody(r *rng.R, depth int, maxLit int, nextID *int) []*run.Node {
	var body []*run.Node
	for i := 1 + r.Intn(5); i > 0; i-- {
		switch r.Intn(9) {
		case 0, 1:
			body = append(body, &run.Node{K: "lit", B: randText(r, maxLit)})
		case 2:
			*nextID++
			body = append(body, &run.Node{K: "expr", ID: *nextID, File: "hand.templ", Line: 1 + r.Intn(90), Col: r.Intn(70)})
		case 3:
			if depth <= 0 {
				body = append(body, &run.Node{K: "lit", B: randText(r, maxLit)})
				continue
			}
			// if / else-if / else, a conditional or boolean attribute (one literal, no else)
			*nextID++
			n := &run.Node{K: "if", Cond: "b", ID: *nextID}
			switch r.Intn(4) {
			case 0:
				n.Kids = []*run.Node{{K: "lit", B: randText(r, maxLit)}}
			case 1:
				n.Kids = randBody(r, depth-1, maxLit, nextID)
				*nextID++
				n.Else = []*run.Node{{K: "if", Cond: "b", ID: *nextID, Kids: randBody(r, depth-1, maxLit, nextID), Else: randBody(r, depth-1, maxLit, nextID)}}
			default:
				n.Kids = randBody(r, depth-1, maxLit, nextID)
				if r.Bool() {
					n.Else = randBody(r, depth-1, maxLit, nextID)
				}
			}
			body = append(body, n)
		case 4:
			if depth <= 0 {
				body = append(body, &run.Node{K: "lit", B: randText(r, maxLit)})
				continue
			}
			// switch with 1-3 cases and an optional default
			*nextID++
			id := *nextID
			var chain []*run.Node
			if r.Bool() {
				chain = randBody(r, depth-1, maxLit, nextID)
			}
			for k := r.Intn(3); k >= 0; k-- {
				chain = []*run.Node{{K: "if", Cond: "c", ID: id, Case: k, Kids: randBody(r, depth-1, maxLit, nextID), Else: chain}}
			}
			body = append(body, chain...)
		case 5:
			if depth <= 0 {
				body = append(body, &run.Node{K: "lit", B: randText(r, maxLit)})
				continue
			}
			*nextID++
			body = append(body, &run.Node{K: "for", ID: *nextID, Kids: randBody(r, depth-1, maxLit, nextID)})
		case 6:
			if depth <= 0 {
				body = append(body, randComp(r, depth, maxLit, nextID))
				continue
			}
			body = append(body, randHost(r, depth, maxLit, nextID))
		default:
			body = append(body, randComp(r, depth, maxLit, nextID))
		}
	}
	return body
}

// injectCompFailure makes one nested component of the program, chosen uniformly over all of them (first, middle
// or last of a join, inside a flush block, ...), return an error.
func injectCompFailure(r *rng.R, prog *run.Node) {
	var cands []*run.Node
	var walk func(n *run.Node)
	walk = func(n *run.Node) {
		if n.K == "raw" || n.K == "func" {
			cands = append(cands, n)
		}
		for _, kd := range n.Kids {
			walk(kd)
		}
		for _, kd := range n.Else {
			walk(kd)
		}
	}
	walk(prog)
	if len(cands) == 0 {
		return
	}
	n := cands[r.Intn(len(cands))]
	if n.K == "raw" {
		n.Err = 20 + r.Intn(5)
		return
	}
	at := r.Intn(len(n.Ops) + 1)
	ops := append([]run.Op{}, n.Ops[:at]...)
	ops = append(ops, run.Op{K: "x", N: 30 + r.Intn(5)})
	n.Ops = append(ops, n.Ops[at:]...)
}

// buildEnv answers every oracle the program can ask: string expressions, conditions, switch tags and iteration
// counts, for every enclosing loop iteration. With failExpr, one string expression evaluation that the program
// reaches - chosen uniformly, so also "in iteration k of a loop" - returns an error.
func buildEnv(r *rng.R, prog *run.Node, failExpr bool, maxIter int) run.Env {
	env := run.Env{}
	var reached []string
	var walk func(n *run.Node, path []int, live bool)
	walkAll := func(ns []*run.Node, path []int, live bool) {
		for _, kd := range ns {
			walk(kd, path, live)
		}
	}
	walk = func(n *run.Node, path []int, live bool) {
		key := run.Key(path, n.ID)
		switch n.K {
		case "expr":
			if _, ok := env[key]; !ok {
				env[key] = run.Val{S: randText(r, 12)}
			}
			if live {
				reached = append(reached, key)
			}
		case "if":
			if _, ok := env[key]; !ok {
				if n.Cond == "c" {
					env[key] = run.Val{S: []byte(strconv.Itoa(r.Intn(4)))}
				} else {
					env[key] = run.Val{S: []byte(strconv.Itoa(r.Intn(2)))}
				}
			}
			taken := string(env[key].S) == "1"
			if n.Cond == "c" {
				taken = string(env[key].S) == strconv.Itoa(n.Case)
			}
			walkAll(n.Kids, path, live && taken)
			walkAll(n.Else, path, live && !taken)
			return
		case "host":
			walkAll(n.Kids, path, live && n.Times > 0)
			return
		case "for":
			cnt := r.Intn(maxIter + 1)
			if r.Intn(4) == 0 {
				cnt = 0
			}
			env[key] = run.Val{S: []byte(strconv.Itoa(cnt))}
			for it := 0; it < cnt; it++ {
				walkAll(n.Kids, append([]int{it}, path...), live)
			}
			return
		}
		walkAll(n.Kids, path, live)
	}
	walk(prog, nil, true)
	if failExpr && len(reached) > 0 {
		key := reached[r.Intn(len(reached))]
		v := env[key]
		v.Err = 40 + r.Intn(9)
		env[key] = v
	}
	return env
}

type cfVariant struct {
	env      run.Env
	failComp int
	what     string
}

// cfEnv answers the oracles of probe template cf.
func cfEnv(b101, b102, b103, b104 bool, outer int, inner func(k int) int, tag int, failKey string) run.Env {
	env := run.Env{}
	bit := func(b bool) []byte {
		if b {
			return []byte("1")
		}
		return []byte("0")
	}
	for i, b := range []bool{b101, b102, b103, b104} {
		env[run.Key(nil, 101+i)] = run.Val{S: bit(b)}
	}
	for _, i := range []int{1, 2, 4, 5} {
		env[run.Key(nil, i)] = run.Val{S: []byte(fmt.Sprintf("s%d<&>", i))}
	}
	env[run.Key(nil, 201)] = run.Val{S: []byte(strconv.Itoa(outer))}
	env[run.Key(nil, 203)] = run.Val{S: []byte(strconv.Itoa(outer))}
	env[run.Key(nil, 301)] = run.Val{S: []byte(strconv.Itoa(tag))}
	for k := 0; k < outer; k++ {
		p := []int{k}
		env[run.Key(p, 3)] = run.Val{S: []byte(fmt.Sprintf("item%d\"", k))}
		env[run.Key(p, 7)] = run.Val{S: []byte(fmt.Sprintf("o%d", k))}
		env[run.Key(p, 105)] = run.Val{S: bit(k%2 == 1)}
		n := inner(k)
		env[run.Key(p, 202)] = run.Val{S: []byte(strconv.Itoa(n))}
		for j := 0; j < n; j++ {
			env[run.Key([]int{j, k}, 6)] = run.Val{S: []byte(fmt.Sprintf("%d.%d", k, j))}
		}
	}
	if failKey != "" {
		v := env[failKey]
		v.Err = 70 + len(failKey)
		env[failKey] = v
	}
	return env
}

func cfVariants() []cfVariant {
	none := func(int) int { return 0 }
	kmod := func(k int) int { return k % 3 }
	two := func(int) int { return 2 }
	vs := []cfVariant{
		{cfEnv(true, true, true, false, 3, kmod, 0, ""), 0, "if-branch, 3 iterations, case 0, attributes on"},
		{cfEnv(false, false, false, true, 1, two, 1, ""), 0, "else-if branch, 1 iteration, case 1, attributes off"},
		{cfEnv(false, true, false, false, 0, none, 2, ""), 0, "else branch, 0 iterations, default case"},
		{cfEnv(true, false, true, true, 5, kmod, 7, ""), 0, "5 iterations with inner loops, default case"},
		{cfEnv(true, false, true, false, 3, kmod, 0, ""), 1, "component after the switch fails"},
		{cfEnv(true, false, true, false, 3, kmod, 0, ""), 2, "component inside the loop fails (first iteration)"},
		{cfEnv(true, false, true, false, 2, none, 0, ""), 3, "component that ends the second loop's body fails"},
	}
	fails := []struct {
		key  string
		what string
	}{
		{run.Key(nil, 1), "expression in the if-branch fails"},
		{run.Key(nil, 4), "expression in case 0 fails"},
		{run.Key([]int{0}, 3), "loop expression fails in iteration 0"},
		{run.Key([]int{2}, 3), "loop expression fails in iteration 2"},
		{run.Key([]int{1, 2}, 6), "inner loop expression fails in iteration 2/1"},
		{run.Key([]int{3}, 7), "second loop's expression fails in its last iteration"},
	}
	for _, f := range fails {
		vs = append(vs, cfVariant{cfEnv(true, true, true, false, 4, func(k int) int { return k }, 0, f.key), 0, f.what})
	}
	vs = append(vs,
		cfVariant{cfEnv(false, false, false, true, 2, none, 1, run.Key(nil, 2)), 0, "expression in the else-if branch fails"},
		cfVariant{cfEnv(false, false, false, false, 2, none, 1, run.Key(nil, 5)), 0, "expression in the conditional attribute's else fails"},
		cfVariant{cfEnv(true, false, false, false, 2, none, 1, run.Key(nil, 5)), 0, "failing expression sits in the branch not taken"})
	return vs
}

// offsets at which the destination is made to fail
func offsets(r *rng.R, docLen int, cap int, exhaustive bool, extra int) []int {
	set := map[int]bool{}
	if exhaustive {
		for i := 0; i <= docLen+1; i++ {
			set[i] = true
		}
	} else {
		for _, x := range []int{0, 1, 2, docLen - 2, docLen - 1, docLen, docLen + 1} {
			set[x] = true
		}
		for b := cap; b <= docLen+cap; b += cap {
			for d := -2; d <= 2; d++ {
				if r.Intn(3) != 0 || b <= 3*cap {
					set[b+d] = true
				}
			}
		}
		for i := 0; i < extra; i++ {
			set[r.Intn(docLen+1)] = true
		}
	}
	var out []int
	for x := range set {
		if x >= 0 {
			out = append(out, x)
		}
	}
	sort.Ints(out)
	return out
}

var sinkKinds = []struct{ sw, fl bool }{{false, false}, {true, true}, {true, false}, {false, true}}

func (k *checker) add(family string, cap int, progID string, model *run.Node, j *run.Job) *item {
	it := &item{family: family, cap: cap, job: j, model: model, progID: progID}
	if hasHost(model, func(h *run.Node) bool { return h.HK == "bufio" }) {
		it.specOnly, it.loose = true, true
	}
	for i := len(k.items) - 1; i >= 0 && i >= len(k.items)-3; i-- {
		if k.items[i].family == family {
			it.prev = k.items[i]
			break
		}
	}
	k.items = append(k.items, it)
	return it
}

// docLen is the document length when nothing fails (both branches of an if are counted), only used to choose fault offsets.
func docLen(n *run.Node, env run.Env, path []int) int {
	sum := func(ns []*run.Node, path []int) int {
		t := 0
		for _, kd := range ns {
			t += docLen(kd, env, path)
		}
		return t
	}
	switch n.K {
	case "lit", "raw":
		return len(n.B)
	case "expr":
		return len(html.EscapeString(string(env[run.Key(path, n.ID)].S)))
	case "func":
		t := 0
		for _, o := range n.Ops {
			t += len(o.B)
		}
		return t
	case "if":
		return sum(n.Kids, path) + sum(n.Else, path)
	case "for":
		cnt, _ := strconv.Atoi(string(env[run.Key(path, n.ID)].S))
		t := 0
		for it := 0; it < cnt; it++ {
			t += sum(n.Kids, append([]int{it}, path...))
		}
		return t
	case "host":
		return len(n.Pre) + n.Times*sum(n.Kids, path) + len(n.Post)
	}
	return sum(n.Kids, path)
}

// sweep adds, for one program and environment, a fault sweep; every failing render is followed, now and then, by a
// clean render and a ToGoHTML render that go through the same pools.
func (k *checker) sweep(family string, cap int, progID string, model *run.Node, mk func() *run.Job, offs []int, modes []int, kinds int) {
	r := k.c.Rng
	n := 0
	for ki := 0; ki < kinds; ki++ {
		sk := sinkKinds[ki]
		for _, m := range modes {
			for _, off := range offs {
				j := mk()
				j.Sink = run.SinkSpec{Mode: m, Limit: off, ErrID: 1 + r.Intn(9), SW: sk.sw, Flusher: sk.fl}
				j.Tag = fmt.Sprintf("%s mode=%d offset=%d", progID, m, off)
				k.add(family, cap, progID, model, j)
				n++
				// the SAME destination value again, healed (or failing somewhere else): a retry on the same
				// connection / recorder object after a failed render, drawing the same pooled buffer
				if m == 1 || n%3 == 0 {
					jr := mk()
					jr.Reuse = true
					jr.Sink = run.SinkSpec{Mode: 0, SW: sk.sw, Flusher: sk.fl}
					if r.Intn(6) == 0 && len(offs) > 0 {
						jr.Sink.Mode, jr.Sink.Limit, jr.Sink.ErrID = 1+r.Intn(3), offs[r.Intn(len(offs))], 10+r.Intn(9)
					}
					jr.Tag = fmt.Sprintf("%s same destination value again after mode=%d offset=%d", progID, m, off)
					k.add(family, cap, progID, model, jr)
				}
				if n%7 == 0 {
					j2 := mk()
					j2.Sink = run.SinkSpec{Mode: 0, SW: sk.sw, Flusher: sk.fl}
					j2.Tag = progID + " clean render after a failed one"
					k.add(family, cap, progID, model, j2)
				}
				if n%11 == 0 {
					j3 := mk()
					j3.HTML = true
					j3.Sink = run.SinkSpec{Mode: 0, SW: sk.sw, Flusher: sk.fl}
					j3.Tag = progID + " ToGoHTML after a failed render"
					k.add(family, cap, progID, model, j3)
					// ... and the failed render's destination value once more after the ToGoHTML in between
					j4 := mk()
					j4.Reuse = true
					j4.Sink = run.SinkSpec{Mode: 0, SW: sk.sw, Flusher: sk.fl}
					j4.Tag = fmt.Sprintf("%s same destination value again after a ToGoHTML following mode=%d offset=%d", progID, m, off)
					k.add(family, cap, progID, model, j4)
				}
			}
		}
	}
}

func Run(c *core.Ctx) {
	c.Rule = "one evaluation = one render job (program x environment x context x destination fault) executed by the real runtime and by the extracted model; distinct non-trivial = distinct (family, program, buffer size, fault mode, fault offset, destination kind, result) with a non-nil result or a cancelled context; in the destination-object families: distinct (family, program, kind of destination object, position in the sequence, fault, pool emptied, result) of a render that fails or comes back to an object used before"
	c.Trusted = append(c.Trusted,
		"specification spec/RenderSpec.v (denote: the document and the program's own first failure; first_refusal; spec_ok) and spec/RenderDestSpec.v (spec_wrap_ok: the same on the writer behind a buffered writer the caller owns, plus: no other destination object is called)",
		"model of Go's bufio.Writer (model/Bufio.v), of the generated skeleton (model/RenderSkel.v: incl. a block closure that is handed a writer other than the enclosing render's buffer, takes a pooled buffer of its own, flushes it on return and adopts the flush error; the forwarding / capturing writers of hand-written components) and of the caller's own bufio.Writer as a destination (model/RenderDest.v), tied to the code by this run",
		"translation of the generated probe text into the model's program shape (harness/internal/c10/translate.go): line-for-line match of prologue and error handlers, deviations reported",
		"extraction: ExtrOcamlBasic only; ocaml/driver.ml", "Go harness internal/c10, the Go toolchain, sync.Pool's contract (Get returns a value previously Put, or New())")
	c.Assume = append(c.Assume,
		"destination writers never report more bytes than offered (otherwise bufio panics); termination additionally needs: a call that returns a nil error accepts at least one byte (io.Writer demands n<len => err!=nil) - without it bufio's large-write loop spins, reproduced as C10_spin_witness",
		"TEMPL_DEV_MODE is off (runtime/watchmode.go WriteString then is io.WriteString)",
		"Go expressions and hand-written components are opaque: an expression yields (string, error); a hand-written component writes/returns as scripted, checks every write error and does not retain the writer",
		"a hand-written component that is passed a block of children renders it 0, 1 or more times, one after the other, into the writer it was given, through a forwarding writer of its own (Write only; unlimited, or taking k bytes in all and then returning its own error), into a bytes.Buffer of its own that it copies with one Write, or through a bufio.Writer of its own (the last is not modelled: judged by the extracted specification predicate only); when such a limited writer has failed Render may return that writer's error (spec_ok's third alternative, empty for programs without one)",
		"a render's context does not change state during the render",
		"a destination value used again by a later render is modelled as a destination in the state it then has (its own record of accepted bytes starting empty)",
		"a caller that hands Render its own *bufio.Writer flushes it after Render and Resets it when that Flush reports an error (C10_buffered_destination: the writer is then as new); behind it the model wants a writer with WriteString - behind a bufio.Writer a writer without it is compared on results and bytes only while it never fails, and judged by the specification predicate alone when it fails")
	c.Proofs()
	c.Oblige("side-condition", "TEMPL_DEV_MODE is not set in the check's environment", os.Getenv("TEMPL_DEV_MODE") == "", "")

	k := &checker{c: c, frameOK: map[string]bool{}}
	r := c.Rng
	smallCap := 16

	// ---- family 1: hand-built components over the real runtime, in this process (buffer size 4096)
	nHand := c.N(12, 150)
	var handSrcs []progSrc
	for p := 0; p < nHand; p++ {
		id := 0
		maxLit := []int{20, 60, 1500, 5000}[r.Intn(4)]
		prog := &run.Node{K: "templ", Guard: r.Intn(5) != 0, Kids: randBody(r, 2, maxLit, &id)}
		failing := false
		switch r.Intn(3) {
		case 0:
			failing = true
		case 1:
			injectCompFailure(r, prog)
		}
		env := buildEnv(r, prog, failing, 3)
		pid := fmt.Sprintf("hand%d", p)
		dl := docLen(prog, env, nil)
		if dl > c.N(60000, 200000) { // loops over large literals: bound the documents of the in-process family
			env = buildEnv(r, prog, failing, 1)
			dl = docLen(prog, env, nil)
		}
		if dl > c.N(60000, 200000) {
			continue
		}
		offs := offsets(r, dl, 4096, false, c.N(4, 30))
		k.sweep("hand-built in process (4096)", 4096, pid, prog, func() *run.Job { return &run.Job{Prog: prog, Env: env} }, offs, []int{1, 2, 3}, 2)
		jc := &run.Job{Prog: prog, Env: env, Cancel: 1 + r.Intn(2), Tag: pid + " cancelled context"}
		k.add("hand-built in process (4096)", 4096, pid, prog, jc)
		handSrcs = append(handSrcs, progSrc{pid, prog, func() *run.Job { return &run.Job{Prog: prog, Env: env} }, dl})
	}
	// ---- family 1b: the same programs over destination objects the caller keeps and comes back to
	k.destSequences("destination objects in process (4096)", 4096, handSrcs, c.N(25, 250))
	for _, it := range k.items {
		it.obs = run.Exec(it.job, nil)
	}
	inProc := len(k.items)

	// ---- families 2-4 run in the probe runner subprocess
	c.Extra["jobs_in_process"] = inProc
	tBuild := time.Now()
	dir, g, src, err := buildProbes(c)
	c.Extra["seconds_probe_build"] = time.Since(tBuild).Seconds()
	if dir != "" {
		defer os.RemoveAll(dir)
	}
	c.Oblige("correspondence", "probe templates are generated by the live generator, compile and link against the working tree", err == nil, fmt.Sprint(err))
	if g != nil {
		c.Oblige("correspondence", "generated skeleton: ctx.Err check, GetBuffer, deferred ReleaseBuffer adopting the flush error only if the body returned nil, and an error check after every statement, line for line",
			len(g.deviations) == 0, strings.Join(g.deviations, " | "))
	}
	if err == nil {
		var sub4096, subSmall []*item
		mark := len(k.items)

		// family 2: hand-built, buffer size 16, every byte offset, all fault modes incl. (0,nil) for ever
		nSmall := c.N(25, 200)
		var srcs4096, srcs16 []progSrc
		for p := 0; p < nSmall; p++ {
			id := 0
			prog := &run.Node{K: "templ", Guard: r.Intn(5) != 0, Kids: randBody(r, 2, []int{6, 14, 40}[r.Intn(3)], &id)}
			failing := false
			switch r.Intn(3) {
			case 0:
				failing = true
			case 1:
				injectCompFailure(r, prog)
			}
			env := buildEnv(r, prog, failing, 3)
			pid := fmt.Sprintf("handsmall%d", p)
			dl := docLen(prog, env, nil)
			if dl > 160 {
				dl = 160
			}
			offs := offsets(r, dl, smallCap, true, 0)
			k.sweep("hand-built in runner (16)", smallCap, pid, prog, func() *run.Job { return &run.Job{Prog: prog, Env: env} }, offs, []int{1, 2, 3, 4}, c.N(2, 4))
			k.add("hand-built in runner (16)", smallCap, pid, prog, &run.Job{Prog: prog, Env: env, Cancel: 1, Tag: pid + " cancelled context"})
			srcs16 = append(srcs16, progSrc{pid, prog, func() *run.Job { return &run.Job{Prog: prog, Env: env} }, dl})
		}
		subSmall = append(subSmall, k.items[mark:]...)
		mark = len(k.items)

		// families 3, 4: compiled probe templates at buffer size 4096 and 16
		type pv struct {
			name  string
			nExpr int
			nComp int
			large bool
			huge  bool
			nHost int // hand-written components the template passes a block of children to (v.K(i))
		}
		probes := []pv{{"small", 2, 0, false, false, 0}, {"nested", 4, 2, false, false, 0}, {"fl", 3, 2, false, false, 0}, {"once", 2, 0, false, false, 0}, {"jn", 2, 3, false, false, 0},
			{"cf", 0, 3, false, false, 0}, {"big", 3, 2, true, false, 0}, {"edge", 2, 1, true, false, 0}, {"huge", 2, 1, true, true, 0},
			{"hostone", 3, 1, false, false, 1}, {"hostnest", 3, 0, false, false, 3}, {"hostbig", 2, 1, true, false, 1}}
		for _, pr := range probes {
			// environments: all fine; each expression failing in turn; each component failing in turn
			type variant struct {
				env   run.Env
				comps map[int]*run.Node
				what  string
				hosts map[int]*run.Node
			}
			mkComps := func(fail int) map[int]*run.Node {
				cs := map[int]*run.Node{}
				for i := 1; i <= pr.nComp; i++ {
					n := &run.Node{K: "func", Ops: []run.Op{{K: "w", B: []byte("[c" + strconv.Itoa(i) + " written with Write]")}, {K: "s", B: []byte("(and WriteString)")}}}
					if pr.large && i == 1 {
						n.Ops = append(n.Ops, run.Op{K: "w", B: []byte(filler(4500))})
					}
					if i == fail {
						n.Ops = append(n.Ops, run.Op{K: "x", N: 60 + i})
					}
					cs[i] = n
				}
				return cs
			}
			mkEnv := func(fail int) run.Env {
				env := run.Env{}
				for i := 1; i <= 4; i++ {
					v := run.Val{S: []byte(fmt.Sprintf("v%d <&\"'> é", i))}
					if i == fail {
						v.Err = 50 + i
					}
					env[run.Key(nil, i)] = v
				}
				return env
			}
			variants := []variant{{mkEnv(0), mkComps(0), "ok", nil}}
			if pr.name == "cf" {
				// control flow: arguments selecting every branch, 0 / 1 / many iterations, nested loops, every switch
				// arm, the conditional and boolean attributes on and off, an erroring expression in each position
				// including iteration k of the outer and of the inner loop
				variants = nil
				for _, o := range cfVariants() {
					variants = append(variants, variant{o.env, mkComps(o.failComp), o.what, nil})
				}
			}
			for e := 1; e <= 4 && pr.name != "cf"; e++ {
				variants = append(variants, variant{mkEnv(e), mkComps(0), fmt.Sprintf("expr%d fails", e), nil})
			}
			for cpi := 1; cpi <= pr.nComp; cpi++ {
				variants = append(variants, variant{mkEnv(0), mkComps(cpi), fmt.Sprintf("comp%d fails", cpi), nil})
			}
			if pr.nHost > 0 {
				// the block goes to a hand-written component: every thing such a component does with it (into its own writer,
				// through a forwarding writer of its own - unlimited, or failing after k bytes for k from 0 to beyond the
				// block's output -, into a bytes.Buffer or a bufio.Writer of its own; once, twice, not at all), with all
				// expressions fine and with an expression / a component inside or after the block failing
				base := variants
				variants = nil
				mkEnvH := func(fail int) run.Env {
					env := mkEnv(fail)
					env[run.Key(nil, 201)] = run.Val{S: []byte("2")}
					for it := 0; it < 2; it++ {
						env[run.Key([]int{it}, 3)] = run.Val{S: []byte(fmt.Sprintf("it%d&", it))}
					}
					return env
				}
				// the length of each component's block, measured on the model with pass-through components
				spans := map[int]int{}
				{
					hs := map[int]*run.Node{}
					for i := 1; i <= pr.nHost; i++ {
						hs[i] = &run.Node{K: "host", HK: "pass", Lim: -1, Times: 1, HErr: 80 + i}
					}
					if m0, terrs := modelOfProbe(g, pr.name, mkComps(0), hs); len(terrs) == 0 {
						hasHost(m0, func(h *run.Node) bool {
							t := 0
							for _, kd := range h.Kids {
								t += docLen(kd, mkEnvH(0), nil)
							}
							spans[h.HErr-80] = t
							return false
						})
					}
				}
				type hcfg struct {
					kind  string
					times int
					lim   int // -1 none; -2: drawn at random within the block; otherwise relative to the end of the block's output: span + lim - 100
					own   bool
					size  int
				}
				cfgs := []hcfg{{"pass", 1, -1, false, 0}, {"fwd", 1, -1, false, 0}, {"capture", 1, -1, false, 0}, {"pass", 2, -1, false, 0}, {"fwd", 2, -1, true, 0},
					{"fwd", 0, -1, false, 0}, {"capture", 2, -1, false, 0}, {"capture", 0, -1, false, 0},
					{"fwd", 1, 0, false, 0}, {"fwd", 1, 0, true, 0}, {"fwd", 1, 1, false, 0}, {"fwd", 1, -2, false, 0}, {"fwd", 1, -2, true, 0}, {"fwd", 2, -2, false, 0},
					{"fwd", 1, 99, false, 0}, {"fwd", 1, 100, true, 0}, {"fwd", 1, 101, false, 0},
					{"bufio", 1, -1, false, 8}, {"bufio", 1, -1, false, 4096}, {"bufio", 2, -1, false, 1}}
				if pr.large {
					cfgs = []hcfg{{"fwd", 1, -1, false, 0}, {"capture", 1, -1, false, 0}, {"fwd", 1, -2, false, 0}, {"fwd", 1, 99, true, 0}, {"fwd", 2, -1, false, 0}, {"bufio", 1, -1, false, 64}}
				}
				for ci, cf := range cfgs {
					hs := map[int]*run.Node{}
					var names []string
					for i := 1; i <= pr.nHost; i++ {
						cfi := cfgs[(ci+(i-1)*7)%len(cfgs)] // the other components of a template take other behaviours
						if i == 1 {
							cfi = cf
						}
						h := &run.Node{K: "host", HK: cfi.kind, Lim: -1, Times: cfi.times, Own: cfi.own, Size: cfi.size, HErr: 80 + i}
						span := spans[i] * cfi.times
						switch {
						case cfi.lim == -2:
							h.Lim = r.Intn(span + 1)
						case cfi.lim >= 90:
							h.Lim = span + cfi.lim - 100
						case cfi.lim >= 0:
							h.Lim = cfi.lim
						}
						if h.Lim < -1 {
							h.Lim = 0
						}
						if (ci+i)%3 != 0 {
							h.Pre, h.Post = []byte("<sec>"), []byte("</sec>")
						}
						hs[i] = h
						names = append(names, fmt.Sprintf("%s x%d lim=%d own=%v size=%d around=%v", h.HK, h.Times, h.Lim, h.Own, h.Size, len(h.Pre) > 0))
					}
					what := fmt.Sprintf("components %d: %s", ci, strings.Join(names, " | "))
					variants = append(variants, variant{mkEnvH(0), mkComps(0), what + ", ok", hs})
					if ci%3 == 0 || !c.Quick() {
						fe := 1 + ci%pr.nExpr
						variants = append(variants, variant{mkEnvH(fe), mkComps(0), fmt.Sprintf("%s, expr%d fails", what, fe), hs})
						if pr.nComp > 0 {
							variants = append(variants, variant{mkEnvH(0), mkComps(1), what + ", comp1 fails", hs})
						}
					}
				}
				_ = base
			}
			for vi, v := range variants {
				v := v
				model, terrs := modelOfProbe(g, pr.name, v.comps, v.hosts)
				if len(terrs) > 0 {
					c.Oblige("correspondence", "probe "+pr.name+" translates into the model's program shape", false, strings.Join(terrs, "; "))
					continue
				}
				pid := fmt.Sprintf("probe:%s/%s", pr.name, v.what)
				mk := func() *run.Job { return &run.Job{Probe: pr.name, Env: v.env, Comps: v.comps, Hosts: v.hosts} }
				dl := docLen(model, v.env, nil)
				if !pr.huge && (vi == 0 || vi == len(variants)-1 || (pr.nHost > 0 && vi%5 == 1)) {
					for w := 0; w < 1+2*(len(variants)-1-vi)/(len(variants)-1); w++ { // the all-fine variant three times, a failing one once
						srcs4096 = append(srcs4096, progSrc{pid, model, mk, dl})
						if !pr.large {
							srcs16 = append(srcs16, progSrc{pid, model, mk, dl})
						}
					}
				}
				for _, capv := range []int{4096, smallCap} {
					fam := fmt.Sprintf("generated probes (%d)", capv)
					m0 := len(k.items)
					var offs []int
					modes := []int{1, 2, 3}
					kinds := 2
					switch {
					case pr.huge:
						if capv == smallCap {
							continue
						}
						offs = offsets(r, dl, capv, false, 0)
						if vi > 0 {
							offs = []int{0, 29990, 30010, dl / 2, dl + 1}
							modes = []int{1}
							kinds = 1
						} else if c.Quick() {
							modes = []int{1, 3}
						}
					case pr.large:
						if capv == smallCap {
							if vi > 0 {
								continue
							}
							offs = offsets(r, dl, 4096, false, 4)
							modes = []int{1, 4}
							kinds = 1
						} else {
							offs = offsets(r, dl, capv, false, c.N(6, 60))
							if vi > 0 {
								modes = []int{1, 3}
								kinds = 1
							}
						}
					default:
						if vi == 0 || !c.Quick() || (pr.name == "cf" && vi < 3) {
							offs = offsets(r, dl, capv, true, 0)
							modes = []int{1, 2, 3, 4}
							kinds = c.N(2, 4)
						} else {
							offs = offsets(r, dl, capv, false, 6)
							modes = []int{1, 3}
							kinds = 1
						}
					}
					k.sweep(fam, capv, pid, model, mk, offs, modes, kinds)
					jc := mk()
					jc.Cancel = 1 + vi%2
					jc.Tag = pid + " cancelled context"
					k.add(fam, capv, pid, model, jc)
					if capv == 4096 {
						sub4096 = append(sub4096, k.items[m0:]...)
					} else {
						subSmall = append(subSmall, k.items[m0:]...)
					}
				}
			}
		}
		// families 5, 6: destination objects the caller keeps and comes back to (kinds of writer, the caller's own
		// bufio.Writer, emptied pool), over the probe templates and the small hand-built programs
		sub4096 = append(sub4096, k.destSequences("destination objects in runner (4096)", 4096, srcs4096, c.N(120, 1500))...)
		subSmall = append(subSmall, k.destSequences("destination objects in runner (16)", smallCap, srcs16, c.N(150, 2000))...)

		// expression positions against the template source: Line is the 1-based line of the expression, Col the
		// column just past it
		posOK := true
		srcLines := strings.Split(src, "\n")
		var walkPos func(name string, ss []rawStmt)
		walkPos = func(name string, ss []rawStmt) {
			for _, s := range ss {
				walkPos(name, s.thn)
				walkPos(name, s.els)
				if s.kind != "expr" {
					continue
				}
				txt := fmt.Sprintf("%s.S(%d)", s.recv, s.exprID)
				ok := s.file == probeFile && s.line >= 1 && s.line <= len(srcLines) && s.col >= len(txt) && s.col <= len(srcLines[s.line-1]) &&
					srcLines[s.line-1][s.col-len(txt):s.col] == txt
				c.Count("position:" + name + ":" + txt + ":" + strconv.Itoa(s.line))
				if !ok {
					posOK = false
					c.Fail("property", "expression error position", "expression-error-position-outside-expression",
						map[string]any{"template": name, "expression": txt, "file": s.file, "line": s.line, "col": s.col},
						"the templ.Error the generated code returns for this expression does not carry the template file name and a position inside the expression")
				}
			}
		}
		for name, t := range g.templates {
			walkPos(name, t.stmts)
		}
		for _, b := range g.blocks {
			walkPos("(block)", b.stmts)
		}
		c.Oblige("correspondence", "every probe expression's recorded FileName/Line/Col lies at that expression in the template source", posOK, "")

		tRun := time.Now()
		e1 := runSubprocess(dir, 4096, sub4096)
		e2 := runSubprocess(dir, smallCap, subSmall)
		c.Extra["seconds_runner"] = time.Since(tRun).Seconds()
		c.Extra["jobs_runner_4096"], c.Extra["jobs_runner_16"] = len(sub4096), len(subSmall)
		c.Oblige("correspondence", "probe runner executed every job (buffer sizes 4096 and 16)", e1 == nil && e2 == nil, fmt.Sprint(e1, " ", e2))
		if e1 != nil || e2 != nil {
			k.items = k.items[:inProc]
		}
	} else {
		k.items = k.items[:inProc]
	}

	tCmp := time.Now()
	k.compare()
	c.Extra["seconds_model_and_compare"] = time.Since(tCmp).Seconds()
	c.Extra["jobs"] = len(k.items)
	perProbe := map[string]map[string]int{}
	for _, it := range k.items {
		if it.job.Probe != "" {
			if perProbe[it.job.Probe] == nil {
				perProbe[it.job.Probe] = map[string]int{}
			}
			perProbe[it.job.Probe][resClass(it.obs.Res)]++
		}
	}
	c.Extra["probe_results"] = perProbe
	for _, it := range k.items {
		if it.obs.Res != "nil" && it.job.Probe != "" && len(c.Samples) < 4 {
			c.Sample(map[string]any{"tag": it.job.Tag, "family": it.family, "sink": it.job.Sink, "result": it.obs.Res, "received_bytes": len(it.obs.Out)})
		}
	}
	for _, it := range k.items {
		if it.obs.Spun && len(c.Samples) < 6 {
			c.Sample(map[string]any{"tag": it.job.Tag, "family": it.family, "sink": it.job.Sink, "result": "the render did not return (destination answers (0,nil) to a large write); stopped by the watchdog"})
		}
	}
}

// ---------- destination objects: kinds, reuse, the caller's own buffered writer ----------

func destKind(sp run.SinkSpec) string {
	inner := "Write"
	switch {
	case sp.RF:
		inner = "Write+WriteString+Flush+ReadFrom"
	case sp.SW && sp.Flusher:
		inner = "Write+WriteString+Flush"
	case sp.SW:
		inner = "Write+WriteString"
	case sp.Flusher:
		inner = "Write+Flush"
	}
	switch {
	case sp.BB:
		return "*bytes.Buffer"
	case sp.Wrap > 0:
		return fmt.Sprintf("*bufio.Writer(size %d) in front of a writer with %s", sp.Wrap, inner)
	}
	return "writer with " + inner
}

func (it *item) revisit() bool {
	for _, p := range it.seq {
		if p == it {
			break
		}
		if p.job.Slot == it.job.Slot {
			return true
		}
	}
	return false
}

func destClass(it *item) string {
	sp := it.job.Sink
	kind := "scripted writer"
	switch {
	case sp.BB:
		kind = "*bytes.Buffer"
	case sp.RF && sp.Wrap == 0:
		kind = "http-like writer"
	case sp.Wrap > 0 && sp.Wrap >= it.cap:
		kind = "caller's bufio.Writer >= templ's buffer"
	case sp.Wrap > 0:
		kind = "caller's bufio.Writer < templ's buffer"
	}
	if it.revisit() {
		kind += ", object used again"
	}
	if it.job.GC {
		kind += ", pool emptied"
	}
	if it.job.Sink.Mode != 0 {
		kind += ", failing"
	}
	return kind
}

func foreignTotal(fs []run.Foreign) int {
	t := 0
	for _, f := range fs {
		t += f.Calls + f.Bytes
	}
	return t
}

// foreign judges "the caller's other destination objects are untouched" for a render into a plain destination object.
func (k *checker) foreign(it *item, tieOK map[string]bool) {
	c := k.c
	if _, ok := k.frameOK[it.family]; !ok {
		k.frameOK[it.family] = true
	}
	if len(it.obs.Foreign) == 0 {
		return
	}
	k.frameOK[it.family] = false
	if c.NFails(it.family+": other destination objects untouched") < 3 {
		in := inputOf(it)
		in["observed"] = map[string]any{"result": it.obs.Res, "received_bytes": len(it.obs.Out), "calls_on_other_destination_objects": it.obs.Foreign}
		c.Fail("property", it.family+": other destination objects untouched", "bytes-delivered-to-another-destination", in,
			fmt.Sprintf("while this render ran, destination object(s) it was not given were called: %+v (a document, or part of one, went to the writer of another render)", it.obs.Foreign))
	}
}

// compareWrapped: renders whose destination is the caller's own *bufio.Writer. The model (model/RenderDest.v) is run
// on each, the specification spec_wrap_okb is evaluated on what the writer BEHIND the caller's bufio.Writer was handed.
func (k *checker) compareWrapped(items []*item, tieOK, propOK map[string]bool) {
	c := k.c
	if len(items) == 0 {
		return
	}
	byCap := map[int][]*item{}
	var caps []int
	for _, it := range items {
		if _, ok := byCap[it.cap]; !ok {
			caps = append(caps, it.cap)
		}
		byCap[it.cap] = append(byCap[it.cap], it)
	}
	sort.Ints(caps)
	var reqs []drv.Req
	var members [][]*item
	for _, cp := range caps {
		var m *menc
		var cur []*item
		last := ""
		size := 0
		flush := func() {
			if m != nil && len(cur) > 0 {
				reqs = append(reqs, drv.Req{Fn: "runw", Args: m.args})
				members = append(members, cur)
			}
			m, cur, last, size = nil, nil, "", 0
		}
		for _, it := range byCap[cp] {
			if m == nil {
				m = &menc{}
				m.args = append(m.args, []byte(strconv.Itoa(cp)))
			}
			before := len(m.args)
			if it.progID == "" || it.progID != last {
				if last != "" || len(cur) > 0 {
					m.op('p')
				}
				m.node(it.model)
				m.op('z')
				keys := make([]string, 0, len(it.job.Env))
				for key := range it.job.Env {
					keys = append(keys, key)
				}
				sort.Strings(keys)
				for _, key := range keys {
					colon := strings.IndexByte(key, ':')
					m.push([]byte(key[:colon]))
					m.push([]byte(key[colon+1:]))
					m.push(it.job.Env[key].S)
					m.opt(it.job.Env[key].Err)
					m.op('V')
				}
				last = it.progID
			}
			j := it.job
			m.num(j.Sink.Wrap)
			m.opt(j.Cancel)
			m.flag(false)
			m.num(j.Sink.Mode)
			m.num(j.Sink.Limit)
			m.num(j.Sink.ErrID)
			m.num(0)
			m.num(0)
			m.op('g')
			for _, cl := range it.obs.Calls {
				m.flag(cl.Off > j.Sink.Wrap)
				m.num(cl.Off)
				m.num(cl.Acc)
				m.opt(cl.Err)
				m.op('c')
			}
			m.push([]byte(it.obs.Res))
			m.push(it.obs.Out)
			m.push([]byte(it.obs.FRes))
			m.num(it.obs.NRender)
			m.num(foreignTotal(it.obs.Foreign))
			m.op('k')
			cur = append(cur, it)
			for _, a := range m.args[before:] {
				size += len(a)
			}
			if size > 6<<20 || len(cur) >= 300 || len(m.args) > 30000 {
				flush()
			}
		}
		flush()
	}
	tW := time.Now()
	res := k.modelParallel(reqs)
	c.Extra["seconds_model_callers_bufio"] = time.Since(tW).Seconds()
	c.Extra["jobs_callers_bufio"] = len(items)
	for gi, ms := range members {
		r := res[gi]
		for mi, it := range ms {
			if _, ok := tieOK[it.family]; !ok {
				tieOK[it.family], propOK[it.family] = true, true
			}
			if _, ok := k.frameOK[it.family]; !ok {
				k.frameOK[it.family] = true
			}
			if len(r) < 9*(mi+1) {
				if tieOK[it.family] {
					c.Fail("tie", it.family+": model = implementation", "", inputOf(it), fmt.Sprintf("the extracted model returned %d fields for %d jobs (%s)", len(r), len(ms), firstField(r)))
				}
				tieOK[it.family] = false
				continue
			}
			f := r[9*mi : 9*mi+9]
			mres, mfres, mgot, mlog, mn1, mthru, spec, doc, de := string(f[0]), string(f[1]), f[2], string(f[3]), string(f[4]), string(f[5]), string(f[6]), f[7], string(f[8])
			o := it.obs
			var diffs []string
			if it.specOnly {
				mres, mfres, mgot = o.Res, o.FRes, o.Out
			}
			if mres != o.Res {
				diffs = append(diffs, fmt.Sprintf("result: model %s, implementation %s", mres, o.Res))
			}
			if mfres != o.FRes {
				diffs = append(diffs, fmt.Sprintf("the caller's Flush: model %s, implementation %s", mfres, o.FRes))
			}
			if !bytes.Equal(mgot, o.Out) {
				diffs = append(diffs, fmt.Sprintf("bytes handed to the writer behind the caller's bufio.Writer: model %d bytes, implementation %d bytes (first difference at %d)", len(mgot), len(o.Out), firstDiff(mgot, o.Out)))
			}
			if len(o.Marks) != 0 {
				diffs = append(diffs, fmt.Sprintf("the http.Flusher of the writer behind the caller's bufio.Writer was called (%s)", encMarks(o.Marks)))
			}
			if !it.loose {
				if il := encCalls(o.Calls, it.job.Sink.Wrap); il != mlog {
					diffs = append(diffs, fmt.Sprintf("calls on the writer behind the caller's bufio.Writer: model %s, implementation %s", trunc(mlog, 200), trunc(il, 200)))
				}
				if mn1 != strconv.Itoa(o.NRender) || mthru != strconv.Itoa(o.Thru) {
					diffs = append(diffs, fmt.Sprintf("calls / bytes that had reached the writer behind when Render returned: model %s / %s, implementation %d / %d", mn1, mthru, o.NRender, o.Thru))
				}
			}
			if len(diffs) > 0 {
				tieOK[it.family] = false
				if c.NFails(it.family+": model = implementation") < 3 {
					c.Fail("tie", it.family+": model = implementation", "", inputOf(it), strings.Join(diffs, "; "))
				}
			}
			if len(o.Foreign) > 0 {
				k.frameOK[it.family] = false
			}
			if spec != "1" {
				propOK[it.family] = false
				shape, detail := "error-does-not-wrap-cause", fmt.Sprintf("Render returned %s, the caller's Flush %s; the program's own first failure is %s; calls on the writer behind the caller's bufio.Writer %s (the first %d during Render)", o.Res, o.FRes, de, trunc(encCalls(o.Calls, it.job.Sink.Wrap), 200), o.NRender)
				switch {
				case !bytes.HasPrefix(doc, o.Out):
					shape, detail = "received-not-a-prefix", fmt.Sprintf("the writer behind the caller's bufio.Writer received %d bytes that are not a prefix of the %d-byte document (first difference at %d); Render returned %s", len(o.Out), len(doc), firstDiff(doc, o.Out), o.Res)
				case len(o.Foreign) > 0:
					shape, detail = "bytes-delivered-to-another-destination", fmt.Sprintf("Render returned %s and the caller's Flush %s; the writer behind the caller's bufio.Writer received %d of %d bytes, while destination object(s) this render was not given were called: %+v", o.Res, o.FRes, len(o.Out), len(doc), o.Foreign)
				case o.Res == "nil" && o.FRes == "nil" && !bytes.Equal(doc, o.Out):
					shape, detail = "nil-result-incomplete-output", fmt.Sprintf("Render and the caller's Flush returned nil but the writer behind the caller's bufio.Writer received %d of %d bytes", len(o.Out), len(doc))
				case o.Res == "nil" && de != "nil":
					shape, detail = "nil-result-despite-failure", fmt.Sprintf("Render returned nil although the program failed with %s", de)
				}
				if c.NFails(it.family+": specification on the implementation") < 4 {
					in := inputOf(it)
					in["observed"] = map[string]any{"result": o.Res, "callers_flush": o.FRes, "received_bytes": len(o.Out), "received_tail": string(lastBytes(o.Out, 60)), "document_bytes": len(doc), "calls_on_other_destination_objects": o.Foreign}
					c.Fail("property", it.family+": specification on the implementation", shape, in, detail)
				}
			}
			key := ""
			if o.Res != "nil" || o.FRes != "nil" || it.revisit() {
				key = fmt.Sprintf("%s|%s|%s|%d|%d|%d|%v|%s|%s", it.family, it.progID, destKind(it.job.Sink), it.pos, it.job.Sink.Mode, it.job.Sink.Limit, it.job.GC, o.Res, o.FRes)
			}
			c.Count(key)
			c.Hist(it.family + ": " + destClass(it))
		}
	}
}

// progSrc is a program with an environment from which jobs can be made.
type progSrc struct {
	pid   string
	model *run.Node
	mk    func() *run.Job
	dl    int
}

// destSequences adds sequences of renders over a few destination OBJECTS the caller keeps: each sequence draws 2-3
// objects of random kinds (scripted writers with and without WriteString / Flush / ReadFrom, a *bytes.Buffer, the
// caller's own *bufio.Writer of a size below, at and above templ's buffer size in front of such a writer), and
// renders into them in an order that comes back to an object after renders into the others; the pool is emptied
// before some renders (so that a brand-new pooled buffer meets that destination first); some renders fail.
func (k *checker) destSequences(family string, cap int, srcs []progSrc, n int) []*item {
	r := k.c.Rng
	var out []*item
	if len(srcs) == 0 {
		return nil
	}
	wrapSizes := []int{1, 7, cap / 2, cap - 1, cap, cap, cap + 1, 2 * cap, 4096, 4096, 8192, 65536}
	for s := 0; s < n; s++ {
		src := srcs[r.Intn(len(srcs))]
		nObj := 2 + r.Intn(2)
		kinds := make([]run.SinkSpec, nObj)
		loose := make([]bool, nObj)
		ids := make([]int, nObj)
		for i := range kinds {
			k.nextSlot++
			ids[i] = k.nextSlot
			var sp run.SinkSpec
			x := r.Intn(10)
			if i == 0 && r.Intn(4) != 0 {
				x = 5 + r.Intn(5) // most sequences start on a caller's bufio.Writer
			}
			switch {
			case x < 2:
				sk := sinkKinds[r.Intn(len(sinkKinds))]
				sp.SW, sp.Flusher = sk.sw, sk.fl
			case x == 2:
				sp.SW, sp.Flusher, sp.RF = true, true, true
			case x == 3:
				sp.SW, sp.BB = true, true
				loose[i] = true
			default:
				sp.Wrap = wrapSizes[r.Intn(len(wrapSizes))]
				if sp.Wrap < 1 {
					sp.Wrap = 1
				}
				switch r.Intn(5) {
				case 0:
					sp.SW, sp.Flusher, sp.RF = true, true, true
				case 1:
					sp.SW, sp.Flusher = true, true
				case 2: // e.g. a net.Conn: no WriteString; bufio then feeds it differently from the model, only a never-failing one is compared (results and bytes)
					loose[i] = true
				default:
					sp.SW = true
				}
			}
			kinds[i] = sp
		}
		// the order: come back to an object after renders into others
		nJobs := 3 + r.Intn(4)
		order := []int{0, 1, 0}
		for len(order) < nJobs {
			order = append(order, r.Intn(nObj))
		}
		if r.Intn(3) == 0 {
			order[1], order[2] = order[2], 1%nObj // twice in a row into the same object, then another
		}
		offs := offsets(r, src.dl, cap, false, 3)
		var seq []*item
		for pos, oi := range order {
			j := src.mk()
			j.Slot = ids[oi]
			j.NewSeq = pos == 0
			j.Sink = kinds[oi]
			j.Sink.Mode = 0
			specOnly := false
			if !j.Sink.BB && r.Intn(3) == 0 {
				j.Sink.Mode, j.Sink.Limit, j.Sink.ErrID = 1+r.Intn(3), offs[r.Intn(len(offs))], 1+r.Intn(9)
				specOnly = loose[oi]
			}
			j.GC = (pos == 0 && r.Intn(4) != 0) || r.Intn(8) == 0
			if r.Intn(25) == 0 {
				j.Cancel = 1 + r.Intn(2)
			}
			j.Tag = fmt.Sprintf("%s sequence %d render %d into object %d (%s)", src.pid, s, pos, ids[oi], destKind(j.Sink))
			it := k.add(family, cap, src.pid, src.model, j)
			it.loose, it.specOnly = it.loose || loose[oi], it.specOnly || specOnly
			seq = append(seq, it)
			it.seq, it.pos = seq, pos
			out = append(out, it)
			if r.Intn(10) == 0 { // a ToGoHTML render in between (the other pool)
				jh := src.mk()
				jh.HTML = true
				jh.Sink = run.SinkSpec{Mode: 0, SW: true}
				jh.Tag = fmt.Sprintf("%s sequence %d ToGoHTML after render %d", src.pid, s, pos)
				ih := k.add(family, cap, src.pid, src.model, jh)
				seq = append(seq, ih)
				ih.seq, ih.pos = seq, pos
				out = append(out, ih)
			}
		}
		for _, it := range seq {
			it.seq = seq
		}
	}
	return out
}
