package c10

import (
	"fmt"
	"regexp"
	"strconv"
	"strings"

	"verifharness/internal/c10/run"
)

// Translation of the text the real generator emitted for the probe templates into the model's program shape.
// Every statement must be followed by the generated error handler; the template prologue (ctx.Err check, GetBuffer,
// deferred ReleaseBuffer adopting the flush error only when the body returned nil) must be there line for line.
// Anything else is recorded as a deviation of the generated skeleton (a broken correspondence).

type rawStmt struct {
	kind     string // lit expr call
	lit      string
	exprID   int
	file     string
	line     int
	col      int
	callee   string
	children string // variable holding the block passed as children, "" if none
	recv     string // expr: the variable the expression is evaluated on (v, or a loop variable)
	// control flow: kind "if" (cond "b": boolean oracle exprID; cond "c": switch tag oracle exprID selects caseK) with
	// thn / els; kind "for" (oracle exprID gives the iteration count) with thn as body
	cond  string
	caseK int
	thn   []rawStmt
	els   []rawStmt
}

type rawTempl struct {
	guard       bool
	childrenVar string
	stmts       []rawStmt
}

type genFile struct {
	templates  map[string]*rawTempl
	blocks     map[string]*rawTempl
	deviations []string
}

var (
	reFunc   = regexp.MustCompile(`^func (\w+)\(v run\.V\) templ\.Component \{$`)
	reBlock  = regexp.MustCompile(`^(templ_7745c5c3_Var\d+) := templruntime\.GeneratedTemplate\(func\(templ_7745c5c3_Input templruntime\.GeneratedComponentInput\) \(templ_7745c5c3_Err error\) \{$`)
	reLit    = regexp.MustCompile(`^templ_7745c5c3_Err = templruntime\.WriteString\(templ_7745c5c3_Buffer, \d+, (".*")\)$`)
	reVar    = regexp.MustCompile(`^var (templ_7745c5c3_Var\d+) string$`)
	reJoinS  = regexp.MustCompile(`^(templ_7745c5c3_Var\d+), templ_7745c5c3_Err = templ\.JoinStringErrs\((\w+)\.S\((\d+)\)\)$`)
	reIf     = regexp.MustCompile(`^if \w+\.B\((\d+)\) \{$`)
	reElseIf = regexp.MustCompile(`^\} else if \w+\.B\((\d+)\) \{$`)
	reFor    = regexp.MustCompile(`^for _, \w+ := range \w+\.L\((\d+)\) \{$`)
	reSwitch = regexp.MustCompile(`^switch \w+\.W\((\d+)\) \{$`)
	reCase   = regexp.MustCompile(`^case (\d+):$`)
	reTErr   = regexp.MustCompile("^return templ\\.Error\\{Err: templ_7745c5c3_Err, FileName: `([^`]*)`, Line: (\\d+), Col: (\\d+)\\}$")
	reWrite  = regexp.MustCompile(`^_, templ_7745c5c3_Err = templ_7745c5c3_Buffer\.WriteString\(templ\.EscapeString\((templ_7745c5c3_Var\d+)\)\)$`)
	reCall   = regexp.MustCompile(`^templ_7745c5c3_Err = (.+)\.Render\(ctx, templ_7745c5c3_Buffer\)$`)
	reCallCh = regexp.MustCompile(`^templ_7745c5c3_Err = (.+)\.Render\(templ\.WithChildren\(ctx, (templ_7745c5c3_Var\d+)\), templ_7745c5c3_Buffer\)$`)
	reChild  = regexp.MustCompile(`^(templ_7745c5c3_Var\d+) := templ\.GetChildren\(ctx\)$`)
)

const retFunc = "return templruntime.GeneratedTemplate(func(templ_7745c5c3_Input templruntime.GeneratedComponentInput) (templ_7745c5c3_Err error) {"

var prologueGuard = []string{
	"if templ_7745c5c3_CtxErr := ctx.Err(); templ_7745c5c3_CtxErr != nil {",
	"return templ_7745c5c3_CtxErr",
	"}",
}
var prologueBuffer = []string{
	"templ_7745c5c3_Buffer, templ_7745c5c3_IsBuffer := templruntime.GetBuffer(templ_7745c5c3_W)",
	"if !templ_7745c5c3_IsBuffer {",
	"defer func() {",
	"templ_7745c5c3_BufErr := templruntime.ReleaseBuffer(templ_7745c5c3_Buffer)",
	"if templ_7745c5c3_Err == nil {",
	"templ_7745c5c3_Err = templ_7745c5c3_BufErr",
	"}",
	"}()",
	"}",
	"ctx = templ.InitializeContext(ctx)",
}
var handler = []string{"if templ_7745c5c3_Err != nil {", "return templ_7745c5c3_Err", "}"}

type lineParser struct {
	lines []string
	i     int
	g     *genFile
	where string
}

func (p *lineParser) peek() string {
	if p.i < len(p.lines) {
		return p.lines[p.i]
	}
	return "<eof>"
}
func (p *lineParser) dev(format string, a ...any) {
	if len(p.g.deviations) < 20 {
		p.g.deviations = append(p.g.deviations, p.where+": "+fmt.Sprintf(format, a...))
	}
}

// expect consumes the given lines if they are next; otherwise records a deviation and consumes nothing.
func (p *lineParser) expect(what string, want []string) bool {
	for k, w := range want {
		if p.i+k >= len(p.lines) || p.lines[p.i+k] != w {
			got := "<eof>"
			if p.i+k < len(p.lines) {
				got = p.lines[p.i+k]
			}
			p.dev("%s: expected %q, found %q", what, w, got)
			return false
		}
	}
	p.i += len(want)
	return true
}

func parseGenerated(src string) *genFile {
	g := &genFile{templates: map[string]*rawTempl{}, blocks: map[string]*rawTempl{}}
	var lines []string
	for _, l := range strings.Split(src, "\n") {
		lines = append(lines, strings.TrimSpace(l))
	}
	p := &lineParser{lines: lines, g: g}
	for p.i < len(p.lines) {
		m := reFunc.FindStringSubmatch(p.lines[p.i])
		if m == nil {
			p.i++
			continue
		}
		p.i++
		p.where = m[1]
		if !p.expect("template wrapper", []string{retFunc}) {
			continue
		}
		t := p.closure(true)
		g.templates[m[1]] = t
	}
	return g
}

// closure parses the body of a GeneratedTemplate closure, the opening line already consumed.
func (p *lineParser) closure(top bool) *rawTempl {
	t := &rawTempl{}
	p.expect("writer/context", []string{"templ_7745c5c3_W, ctx := templ_7745c5c3_Input.Writer, templ_7745c5c3_Input.Context"})
	if p.peek() == prologueGuard[0] {
		if p.expect("ctx.Err check", prologueGuard) {
			t.guard = true
		}
	}
	if top && !t.guard {
		p.dev("generated template has no ctx.Err() check before acquiring the buffer")
	}
	if !p.expect("buffer acquisition and deferred release", prologueBuffer) {
		// resynchronise after the prologue so that the statements are still read
		for p.i < len(p.lines) && p.lines[p.i] != "ctx = templ.InitializeContext(ctx)" {
			p.i++
		}
		p.i++
	}
	if m := reChild.FindStringSubmatch(p.peek()); m != nil {
		t.childrenVar = m[1]
		p.i++
		p.expect("children default", []string{"if " + m[1] + " == nil {", m[1] + " = templ.NopComponent", "}", "ctx = templ.ClearChildren(ctx)"})
	}
	t.stmts = p.stmts()
	if p.peek() == "return nil" {
		p.i++
		p.expect("closure end", []string{"})"})
	} else {
		p.dev("closure not terminated by `return nil`: found %q", p.peek())
	}
	return t
}

// ends reports whether l ends a statement list (not consumed by stmts).
func ends(l string) bool {
	return l == "return nil" || l == "}" || l == "default:" || l == "<eof>" || strings.HasPrefix(l, "} else") || reCase.MatchString(l)
}

// ifTail parses the rest of an if statement, its opening line already consumed.
func (p *lineParser) ifTail(id int) rawStmt {
	st := rawStmt{kind: "if", cond: "b", exprID: id}
	st.thn = p.stmts()
	l := p.peek()
	switch {
	case reElseIf.MatchString(l):
		n, _ := strconv.Atoi(reElseIf.FindStringSubmatch(l)[1])
		p.i++
		st.els = []rawStmt{p.ifTail(n)}
	case l == "} else {":
		p.i++
		st.els = p.stmts()
		p.expect("end of else", []string{"}"})
	default:
		p.expect("end of if", []string{"}"})
	}
	return st
}

// stmts parses a statement list up to (not including) the line that ends it.
func (p *lineParser) stmts() []rawStmt {
	var out []rawStmt
	for p.i < len(p.lines) {
		l := p.lines[p.i]
		switch {
		case ends(l):
			return out
		case l == "ctx = templ.ClearChildren(ctx)" || l == "":
			p.i++
		case reIf.MatchString(l):
			n, _ := strconv.Atoi(reIf.FindStringSubmatch(l)[1])
			p.i++
			out = append(out, p.ifTail(n))
		case reFor.MatchString(l):
			n, _ := strconv.Atoi(reFor.FindStringSubmatch(l)[1])
			p.i++
			body := p.stmts()
			p.expect("end of for", []string{"}"})
			out = append(out, rawStmt{kind: "for", exprID: n, thn: body})
		case reSwitch.MatchString(l):
			id, _ := strconv.Atoi(reSwitch.FindStringSubmatch(l)[1])
			p.i++
			type arm struct {
				k    int
				body []rawStmt
			}
			var arms []arm
			var def []rawStmt
			for p.i < len(p.lines) {
				cl := p.lines[p.i]
				if m := reCase.FindStringSubmatch(cl); m != nil {
					k, _ := strconv.Atoi(m[1])
					p.i++
					arms = append(arms, arm{k, p.stmts()})
				} else if cl == "default:" {
					p.i++
					def = p.stmts()
				} else {
					break
				}
			}
			p.expect("end of switch", []string{"}"})
			// Go takes the first case equal to the tag, else default: the same as an if-chain on the case oracle
			chain := def
			for i := len(arms) - 1; i >= 0; i-- {
				chain = []rawStmt{{kind: "if", cond: "c", exprID: id, caseK: arms[i].k, thn: arms[i].body, els: chain}}
			}
			out = append(out, chain...)
		case reLit.MatchString(l):
			m := reLit.FindStringSubmatch(l)
			s, err := strconv.Unquote(m[1])
			if err != nil {
				p.dev("literal does not unquote: %s", m[1])
			}
			p.i++
			p.expect("error check after a literal write", handler)
			out = append(out, rawStmt{kind: "lit", lit: s})
		case reVar.MatchString(l):
			v := reVar.FindStringSubmatch(l)[1]
			p.i++
			st := rawStmt{kind: "expr"}
			if m := reJoinS.FindStringSubmatch(p.peek()); m != nil && m[1] == v {
				st.recv = m[2]
				st.exprID, _ = strconv.Atoi(m[3])
				p.i++
			} else {
				p.dev("expression evaluation: found %q", p.peek())
			}
			if p.peek() == handler[0] {
				p.i++
				if m := reTErr.FindStringSubmatch(p.peek()); m != nil {
					st.file = m[1]
					st.line, _ = strconv.Atoi(m[2])
					st.col, _ = strconv.Atoi(m[3])
					p.i++
					p.expect("expression error handler end", []string{"}"})
				} else {
					p.dev("expression error is not returned as templ.Error: %q", p.peek())
				}
			} else {
				p.dev("no error check after evaluating an expression: %q", p.peek())
			}
			if m := reWrite.FindStringSubmatch(p.peek()); m != nil && m[1] == v {
				p.i++
			} else {
				p.dev("escaped expression write: found %q", p.peek())
			}
			p.expect("error check after an expression write", handler)
			out = append(out, st)
		case reBlock.MatchString(l):
			v := reBlock.FindStringSubmatch(l)[1]
			p.i++
			b := p.closure(false)
			p.g.blocks[v] = b
		case reCallCh.MatchString(l):
			m := reCallCh.FindStringSubmatch(l)
			p.i++
			p.expect("error check after a component render", handler)
			out = append(out, rawStmt{kind: "call", callee: m[1], children: m[2]})
		case reCall.MatchString(l):
			m := reCall.FindStringSubmatch(l)
			p.i++
			p.expect("error check after a component render", handler)
			out = append(out, rawStmt{kind: "call", callee: m[1]})
		default:
			p.dev("unrecognised statement %q", l)
			p.i++
		}
	}
	return out
}

// instantiate builds the model program for one probe template, in execution order.
type inst struct {
	g     *genFile
	comps map[int]*run.Node
	hosts map[int]*run.Node
	seen  map[int]bool
	errs  []string
}

var (
	reTemplCall = regexp.MustCompile(`^(\w+)\(v\)$`)
	reComp      = regexp.MustCompile(`^\w+\.C\((\d+)\)$`)
	reHost      = regexp.MustCompile(`^\w+\.K\((\d+)\)$`)
	reOnce      = regexp.MustCompile(`^v\.H\((\d+)\)\.Once\(\)$`)
	reRaw       = regexp.MustCompile(`^templ\.Raw\((".*")\)$`)
	reJoin      = regexp.MustCompile(`^templ\.Join\((.*)\)$`)
)

func (in *inst) template(name string, children *run.Node) *run.Node {
	t, ok := in.g.templates[name]
	if !ok {
		in.errs = append(in.errs, "no template "+name)
		return &run.Node{K: "nop"}
	}
	return &run.Node{K: "templ", Guard: t.guard, Kids: in.stmts(t.stmts, t.childrenVar, children)}
}

func (in *inst) block(v string, chVar string, children *run.Node) *run.Node {
	b, ok := in.g.blocks[v]
	if !ok {
		in.errs = append(in.errs, "no block "+v)
		return &run.Node{K: "nop"}
	}
	return &run.Node{K: "templ", Guard: b.guard, Kids: in.stmts(b.stmts, chVar, children)}
}

func (in *inst) stmts(ss []rawStmt, chVar string, children *run.Node) []*run.Node {
	var out []*run.Node
	for _, s := range ss {
		switch s.kind {
		case "if":
			out = append(out, &run.Node{K: "if", Cond: s.cond, ID: s.exprID, Case: s.caseK,
				Kids: in.stmts(s.thn, chVar, children), Else: in.stmts(s.els, chVar, children)})
		case "for":
			out = append(out, &run.Node{K: "for", ID: s.exprID, Kids: in.stmts(s.thn, chVar, children)})
		case "lit":
			out = append(out, &run.Node{K: "lit", B: []byte(s.lit)})
		case "expr":
			out = append(out, &run.Node{K: "expr", ID: s.exprID, File: s.file, Line: s.line, Col: s.col})
		case "call":
			out = append(out, in.call(s.callee, s.children, chVar, children))
		}
	}
	return out
}

func (in *inst) call(callee, blockVar, chVar string, children *run.Node) *run.Node {
	var blk func() *run.Node
	if blockVar != "" {
		blk = func() *run.Node { return in.block(blockVar, chVar, children) }
	}
	switch {
	case chVar != "" && callee == chVar:
		if children == nil {
			return &run.Node{K: "nop"}
		}
		return children
	case reTemplCall.MatchString(callee):
		var ch *run.Node
		if blk != nil {
			ch = blk()
		}
		return in.template(reTemplCall.FindStringSubmatch(callee)[1], ch)
	case reComp.MatchString(callee):
		k, _ := strconv.Atoi(reComp.FindStringSubmatch(callee)[1])
		if n, ok := in.comps[k]; ok {
			return n
		}
		return &run.Node{K: "nop"}
	case reHost.MatchString(callee):
		// a hand-written component that is passed the block: what it does with it is the job's host description
		k, _ := strconv.Atoi(reHost.FindStringSubmatch(callee)[1])
		h, ok := in.hosts[k]
		if !ok {
			return &run.Node{K: "nop"}
		}
		n := *h
		n.Kids = nil
		if blk != nil {
			n.Kids = blk().Kids
		}
		return &n
	case callee == "templ.Flush()":
		n := &run.Node{K: "flush"}
		if blk != nil {
			n.Kids = blk().Kids
		}
		return n
	case reOnce.MatchString(callee):
		k, _ := strconv.Atoi(reOnce.FindStringSubmatch(callee)[1])
		if in.seen[k] {
			return &run.Node{K: "nop"}
		}
		in.seen[k] = true
		if blk != nil {
			return blk()
		}
		return &run.Node{K: "nop"}
	case reRaw.MatchString(callee):
		s, err := strconv.Unquote(reRaw.FindStringSubmatch(callee)[1])
		if err != nil {
			in.errs = append(in.errs, "raw argument: "+callee)
		}
		return &run.Node{K: "raw", B: []byte(s)}
	case reJoin.MatchString(callee):
		n := &run.Node{K: "join"}
		for _, a := range strings.Split(reJoin.FindStringSubmatch(callee)[1], ", ") {
			if a == "" {
				continue
			}
			n.Kids = append(n.Kids, in.call(a, "", chVar, children))
		}
		return n
	}
	in.errs = append(in.errs, "unrecognised component expression "+callee)
	return &run.Node{K: "nop"}
}

// modelOfProbe returns the model program of a compiled probe for the given hand-built components.
func modelOfProbe(g *genFile, name string, comps map[int]*run.Node, hosts map[int]*run.Node) (*run.Node, []string) {
	in := &inst{g: g, comps: comps, hosts: hosts, seen: map[int]bool{}}
	n := in.template(name, nil)
	return n, in.errs
}
