package c11

import (
	"bytes"
	"fmt"
	"runtime"
	"time"

	"github.com/a-h/templ"

	"verifharness/internal/core"
	"verifharness/internal/drv"
	"verifharness/internal/rng"
)

// Overlapping requests. A scenario is a list of buffered requests and a schedule:
//
//	start r   - request r is served on its own goroutine; its component blocks on a harness gate after
//	            blocks_after_chunks chunks, so the request is in flight, holding its pooled buffer
//	serve r   - request r is served from start to end while the started ones are still blocked
//	release r - the gate of request r is opened and the request runs to its end
//
// GOMAXPROCS(1) makes sync.Pool's hand-off between the goroutines deterministic. Every response of every
// scenario must equal the model's (which is the sequential one: C11_pool_discipline) and satisfy the
// specification predicate for its own document.
type oreq struct {
	tcase
	BlockAt int `json:"blocks_after_chunks"` // only for started requests
}

type ostep struct {
	Step string `json:"step"`
	Req  int    `json:"request"`
}

type scenario struct {
	Reqs  []oreq  `json:"requests"`
	Steps []ostep `json:"schedule"`
	// true: the buffer pool was emptied before the scenario; false: it is in the state the earlier
	// scenarios of the same run (same seed) left it in
	FreshPool bool `json:"starts_from_empty_pool"`
}

func runScenario(sc scenario) ([]response, string) {
	res := make([]response, len(sc.Reqs))
	gates := map[int]chan struct{}{}
	dones := map[int]chan struct{}{}
	problem := ""
	for _, st := range sc.Steps {
		r := sc.Reqs[st.Req]
		chunks := r.Out.chunks()
		switch st.Step {
		case "start":
			co := &compOpts{blockAt: r.BlockAt, reached: make(chan struct{}), gate: make(chan struct{})}
			done := make(chan struct{})
			gates[st.Req], dones[st.Req] = co.gate, done
			i := st.Req
			go func() {
				res[i] = viaRecorder(handlerForOpt(r.tcase, chunks, co), r.Req)
				close(done)
			}()
			select {
			case <-co.reached:
			case <-done:
				problem = fmt.Sprintf("request %d finished without reaching its gate", i)
			case <-time.After(20 * time.Second):
				problem = fmt.Sprintf("request %d did not reach its gate", i)
			}
		case "serve":
			res[st.Req] = viaRecorder(handlerFor(r.tcase, chunks, nil), r.Req)
		case "release":
			close(gates[st.Req])
			select {
			case <-dones[st.Req]:
			case <-time.After(20 * time.Second):
				problem = fmt.Sprintf("request %d did not finish after its gate was opened", st.Req)
			}
		}
	}
	return res, problem
}

func smallReq(r *rng.R, seed *uint64, fails bool, eh *[]op, status int) oreq {
	*seed++
	k := 2 + r.Intn(3)
	o := outcome{Seed: *seed, Fails: fails}
	for i := 0; i < k; i++ {
		n := 8 + r.Intn(40)
		if r.Intn(10) == 0 {
			n = 4090 + r.Intn(10)
		}
		o.Sizes = append(o.Sizes, n)
	}
	if fails {
		o.ErrKind = errKinds[r.Intn(len(errKinds))].name
	}
	// any request: the recorder keeps what the handler wrote whatever the method
	return oreq{tcase{config{Status: status, EH: eh}, o, randRequest(r)}, 1 + r.Intn(k)}
}

var nTemplates int

func overlapScenarios(c *core.Ctx) []scenario {
	r := c.Rng.Fork()
	seed := c.Seed*7919 + 500000
	var scs []scenario
	// T1: h failed requests one after the other, then n requests in flight at once, finished in start order or in reverse
	for h := 0; h <= 3; h++ {
		for _, n := range []int{2, 3} {
			for _, lifo := range []bool{false, true} {
				for _, eh := range []*[]op{nil, ehs[2]} {
					var sc scenario
					for i := 0; i < h; i++ {
						sc.Reqs = append(sc.Reqs, smallReq(r, &seed, true, eh, 0))
						sc.Steps = append(sc.Steps, ostep{"serve", i})
					}
					for i := 0; i < n; i++ {
						sc.Reqs = append(sc.Reqs, smallReq(r, &seed, i == n-1 && h%2 == 1, eh, []int{0, 201}[i%2]))
						sc.Steps = append(sc.Steps, ostep{"start", h + i})
					}
					for i := 0; i < n; i++ {
						j := i
						if lifo {
							j = n - 1 - i
						}
						sc.Steps = append(sc.Steps, ostep{"release", h + j})
					}
					scs = append(scs, sc)
				}
			}
		}
	}
	// T2: a slow page in flight while another request fails, repeated
	for reps := 1; reps <= 6; reps++ {
		var sc scenario
		for i := 0; i < reps; i++ {
			sc.Reqs = append(sc.Reqs, smallReq(r, &seed, false, nil, 0), smallReq(r, &seed, true, nil, 0))
			sc.Steps = append(sc.Steps, ostep{"start", 2 * i}, ostep{"serve", 2*i + 1}, ostep{"release", 2 * i})
		}
		scs = append(scs, sc)
	}
	nTemplates = len(scs)
	// random schedules
	for n := c.N(250, 6000); n > 0; n-- {
		var sc scenario
		var inflight []int
		steps := 4 + r.Intn(10)
		for len(sc.Steps) < steps || len(inflight) > 0 {
			x := r.Intn(10)
			switch {
			case len(sc.Steps) < steps && x < 4 && len(inflight) < 4:
				eh := rng.Pick(r, []*[]op{nil, nil, ehs[1], ehs[2], ehs[6]})
				sc.Reqs = append(sc.Reqs, smallReq(r, &seed, r.Intn(3) == 0, eh, rng.Pick(r, []int{0, 0, 201, 404})))
				inflight = append(inflight, len(sc.Reqs)-1)
				sc.Steps = append(sc.Steps, ostep{"start", len(sc.Reqs) - 1})
			case len(sc.Steps) < steps && x < 7:
				eh := rng.Pick(r, []*[]op{nil, nil, ehs[1], ehs[2], ehs[6]})
				sc.Reqs = append(sc.Reqs, smallReq(r, &seed, r.Intn(3) != 0, eh, rng.Pick(r, []int{0, 0, 201, 404})))
				sc.Steps = append(sc.Steps, ostep{"serve", len(sc.Reqs) - 1})
			case len(inflight) > 0:
				i := r.Intn(len(inflight))
				sc.Steps = append(sc.Steps, ostep{"release", inflight[i]})
				inflight = append(inflight[:i], inflight[i+1:]...)
			}
		}
		scs = append(scs, sc)
	}
	return scs
}

func overlapping(c *core.Ctx) {
	defer runtime.GOMAXPROCS(runtime.GOMAXPROCS(1))
	scs := overlapScenarios(c)
	type ref struct{ sc, req int }
	var refs []ref
	var reqs []drv.Req
	var obsv []obs
	schedOK, schedDetail := true, ""
	ehCache := map[string]response{}
	nFresh := 0
	for si, sc := range scs {
		// the first scenarios each start from an empty pool (two collections drop everything a sync.Pool
		// holds), so that a failure among them is reproduced by its scenario alone
		if fresh := si < nTemplates+300; fresh {
			runtime.GC()
			runtime.GC()
			nFresh++
		}
		scs[si].FreshPool = si < nTemplates+300
		sc = scs[si]
		res, problem := runScenario(sc)
		if problem != "" && schedOK {
			schedOK, schedDetail = false, problem
		}
		for ri, r := range sc.Reqs {
			var ehr response
			if r.Cfg.EH != nil {
				k := fmt.Sprint(*r.Cfg.EH, r.Cfg.ctype(), r.Req.key())
				if e, ok := ehCache[k]; ok {
					ehr = e
				} else {
					ehr = viaRecorder(ehAloneHandler(*r.Cfg.EH, r.Cfg.ctype()), r.Req)
					ehCache[k] = ehr
				}
			}
			refs = append(refs, ref{si, ri})
			obsv = append(obsv, obs{tc: r.tcase, via: "recorder", real: res[ri], ehr: ehr, prev: -1})
			reqs = append(reqs, serveReq(r.tcase, "recorder", r.Out.chunks(), res[ri], ehr))
		}
	}
	out := c.Model(reqs)
	tieOK, propOK := true, true
	const family = "handler: buffered, recorder, overlapping requests (GOMAXPROCS 1)"
	for i, r := range out {
		o := obsv[i]
		key := ""
		if o.tc.Out.Fails {
			key = fmt.Sprintf("overlap|%d|%d", refs[i].sc, refs[i].req)
		}
		c.Count(key)
		c.Hist("overlapping requests (recorder, GOMAXPROCS 1)")
		if o.tc.Out.Fails {
			c.Hist("error kind: " + errName(o.tc.Out))
		}
		ok := len(r) == 6
		input := func() map[string]any {
			return map[string]any{"scenario": scs[refs[i].sc], "wrong_response_of_request": refs[i].req,
				"response":               map[string]any{"status": o.real.Status, "headers": o.real.Hdr, "body_len": len(o.real.Body), "body_head": clip(o.real.Body, 200)},
				"expected_document_head": clip(bytes.Join(o.tc.Out.chunks(), nil), 200),
				"how":                    "runtime.GOMAXPROCS(1); if starts_from_empty_pool, runtime.GC() twice; follow the schedule: start = serve the request on its own goroutine, its component blocking on a gate after blocks_after_chunks chunks; serve = serve the request to its end; release = open the gate and wait for the request (harness/internal/c11/overlap.go: runScenario); chunk i = fill(chunk_seed, i, chunk_sizes[i])"}
		}
		if !(ok && string(r[0]) == "1") {
			tieOK = false
			if c.NFails(family+" (model = implementation)") < 2 {
				c.Fail("tie", family+" (model = implementation)", "", input(), "model and implementation differ")
			}
		}
		if !(ok && string(r[1]) == "1") {
			propOK = false
			if c.NFails(family) < 3 {
				c.Fail("property", family, "", input(), why(o))
			}
		}
	}
	c.Extra["overlap_scenarios"] = len(scs)
	c.Extra["overlap_scenarios_from_empty_pool"] = nFresh
	c.Oblige("side-condition", "overlap: every started request reached its gate and finished after it was opened", schedOK, schedDetail)
	c.Oblige("correspondence", fmt.Sprintf("handler: model = templ.Handler on every response of %d overlapping-request scenarios (%d responses)", len(scs), len(out)), tieOK, "")
	c.Oblige("correspondence", "handler: specification predicate all_or_nothing_b (extracted) holds of every response of the overlapping-request scenarios", propOK, "")
	if len(scs) > 0 {
		c.Sample(map[string]any{"overlap_scenario": scs[len(scs)-1]})
	}
	poolDiscipline(c, "after the overlapping-request scenarios (GOMAXPROCS 1)")
}

// poolDiscipline: the invariant C11_pooled_all_or_nothing and C11_pool_discipline rest on, observed on the
// real pool: k GetBuffer calls in a row return k distinct, empty buffers.
func poolDiscipline(c *core.Ctx, when string) {
	defer runtime.GOMAXPROCS(runtime.GOMAXPROCS(1))
	const k = 24
	bufs := make([]*bytes.Buffer, k)
	seen := map[*bytes.Buffer]int{}
	ok, detail := true, ""
	for i := range bufs {
		bufs[i] = templ.GetBuffer()
		if j, dup := seen[bufs[i]]; dup && ok {
			ok, detail = false, fmt.Sprintf("GetBuffer call %d returned the buffer call %d still holds", i, j)
		}
		seen[bufs[i]] = i
		if bufs[i].Len() != 0 && ok {
			ok, detail = false, fmt.Sprintf("GetBuffer call %d returned a buffer holding %d bytes: %q", i, bufs[i].Len(), clip(bufs[i].Bytes(), 60))
		}
	}
	for b := range seen {
		templ.ReleaseBuffer(b)
	}
	c.Count("")
	c.Oblige("contract", fmt.Sprintf("pool discipline %s: %d GetBuffer calls in a row return distinct, empty buffers", when, k), ok, detail)
}
