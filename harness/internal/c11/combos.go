package c11

// The components served by the handler are a dimension of their own: the all-or-nothing statement is about
// "any component and any point at which its rendering fails", and the handler theorems take the component's
// Render contract - an error is returned iff something failed, and a render that did not fail wrote the
// complete document - as their hypothesis. This family discharges that hypothesis on components built from
// templ's own combinators and generated code: templ.ComponentFunc, templ.Raw, templ.Join, templ.Flush with
// children, OnceHandle.Once (children and WithComponent), templates generated from pages.templ by the
// generator of the tree under test and compiled (nested, children blocks, loops, failing expressions), and
// writers that fail after n bytes - with a failure injected at every position.
//
// The compositions run in a scratch program (kit/kit.go + the regenerated templates). For each one
//   - the Render contract is checked on the real combinators (contract obligation; replay = the composition):
//     the extracted model of the combinators (coq/model/CompModel.v, proved to meet coq/spec/CompSpec.v) says
//     whether Render fails and what it writes;
//   - the composition is served by the real templ.Handler (recorder and real server, GET and HEAD, contexts
//     live and done, configurations as in the rest of the check) and the extracted specification predicate is
//     evaluated on the response the client saw, with the document and "failed" of the composition.

import (
	"bytes"
	_ "embed"
	"encoding/json"
	"fmt"
	"html"
	"os"
	"os/exec"
	"path/filepath"
	"strconv"
	"strings"

	"github.com/a-h/templ/generator"
	parser "github.com/a-h/templ/parser/v2"

	"verifharness/internal/c11/kit"
	"verifharness/internal/core"
	"verifharness/internal/drv"
	"verifharness/internal/rng"
)

//go:embed kit/kit.go
var kitSrc string

//go:embed pages.templ
var pagesSrc string

const kitMain = `package main

import (
	"c11probe/kit"
	"c11probe/pages"

	"github.com/a-h/templ"
)

func main() {
	kit.ErrExpr = pages.ErrExpr
	pages.OnFail = kit.NoteFailure
	kit.Templates = map[string]func(kit.Args) templ.Component{
		"Wrap":       func(a kit.Args) templ.Component { return pages.Wrap(a.Kid(0)) },
		"Pair":       func(a kit.Args) templ.Component { return pages.Pair(a.Kid(0), a.Kid(1)) },
		"Flushed":    func(a kit.Args) templ.Component { return pages.Flushed(a.Kid(0), a.Kid(1)) },
		"FlushFirst": func(a kit.Args) templ.Component { return pages.FlushFirst(a.Kid(0)) },
		"OnceT":      func(a kit.Args) templ.Component { return pages.OnceT(a.Handle, a.Kid(0)) },
		"Boxed":      func(a kit.Args) templ.Component { return pages.Boxed(a.Kid(0)) },
		"Text":       func(a kit.Args) templ.Component { return pages.Text(a.S, a.Fail) },
		"Loop":       func(a kit.Args) templ.Component { return pages.Loop(a.N, a.Kid(0)) },
		"Nest":       func(a kit.Args) templ.Component { return pages.Nest(a.Kid(0), a.Kid(1)) },
		"Deep":       func(a kit.Args) templ.Component { return pages.Deep(a.Handle, a.Kid(0), a.Kid(1)) },
	}
	kit.Main()
}
`

// ---------- the scratch program ----------

type kitProg struct {
	dir, bin string
}

func (p *kitProg) close() {
	if p != nil && p.dir != "" {
		os.RemoveAll(p.dir)
	}
}

// buildKit regenerates pages.templ with the generator the harness is linked against (the tree under test's)
// and compiles it with kit.go against core.Repo().
func buildKit() (*kitProg, string, error) {
	tf, err := parser.ParseString(pagesSrc)
	if err != nil {
		return nil, "", fmt.Errorf("the tree's parser rejects pages.templ: %w", err)
	}
	var code bytes.Buffer
	if _, err := generator.Generate(tf, &code, generator.WithFileName("pages.templ")); err != nil {
		return nil, "", fmt.Errorf("the tree's generator fails on pages.templ: %w", err)
	}
	dir, err := os.MkdirTemp("", "verif-c11kit-")
	if err != nil {
		return nil, "", err
	}
	p := &kitProg{dir: dir, bin: filepath.Join(dir, "c11kit")}
	write := func(rel, content string) {
		_ = os.MkdirAll(filepath.Dir(filepath.Join(dir, rel)), 0o755)
		_ = os.WriteFile(filepath.Join(dir, rel), []byte(content), 0o644)
	}
	write("go.mod", "module c11probe\n\ngo 1.23.0\n\nrequire github.com/a-h/templ v0.0.0\n\nreplace github.com/a-h/templ => "+core.Repo()+"\n")
	if b, err := os.ReadFile(filepath.Join(core.Repo(), "go.sum")); err == nil {
		write("go.sum", string(b))
	}
	write("kit/kit.go", kitSrc)
	write("pages/pages.templ", pagesSrc)
	write("pages/pages_templ.go", code.String())
	write("main.go", kitMain)
	cmd := exec.Command("go", "build", "-o", p.bin, ".")
	cmd.Dir = dir
	cmd.Env = append(os.Environ(), "GOFLAGS=-mod=mod", "GOPROXY=off", "GOSUMDB=off", "GOTOOLCHAIN=local")
	out, err := cmd.CombinedOutput()
	if err != nil {
		p.close()
		return nil, string(out), fmt.Errorf("the regenerated templates do not compile: %w", err)
	}
	return p, string(out), nil
}

func (p *kitProg) run(cases []kit.Case) ([]kit.Result, error) {
	cmd := exec.Command(p.bin)
	in, err := cmd.StdinPipe()
	if err != nil {
		return nil, err
	}
	var stderr bytes.Buffer
	cmd.Stderr = &stderr
	out, err := cmd.StdoutPipe()
	if err != nil {
		return nil, err
	}
	if err := cmd.Start(); err != nil {
		return nil, err
	}
	go func() {
		enc := json.NewEncoder(in)
		for _, c := range cases {
			if enc.Encode(c) != nil {
				break
			}
		}
		in.Close()
	}()
	dec := json.NewDecoder(out)
	res := make([]kit.Result, 0, len(cases))
	for {
		var r kit.Result
		if err := dec.Decode(&r); err != nil {
			break
		}
		res = append(res, r)
	}
	werr := cmd.Wait()
	if len(res) != len(cases) {
		return res, fmt.Errorf("the scratch program answered %d of %d cases (%v): %s", len(res), len(cases), werr, clip(stderr.Bytes(), 600))
	}
	return res, nil
}

// ---------- compositions ----------

func nLeaf(chunks ...string) kit.Node      { return kit.Node{K: "leaf", Chunks: chunks} }
func nRaw(s string) kit.Node               { return kit.Node{K: "raw", S: s} }
func nJoin(ks ...kit.Node) kit.Node        { return kit.Node{K: "join", Kids: ks} }
func nFlush(ks ...kit.Node) kit.Node       { return kit.Node{K: "flush", Kids: ks} }
func nOnce(h int, k kit.Node) kit.Node     { return kit.Node{K: "once", H: h, Kids: []kit.Node{k}} }
func nOnceC(d int) kit.Node                { return kit.Node{K: "oncec", H: d} }
func nLimit(n int, k kit.Node) kit.Node    { return kit.Node{K: "limit", N: n, Kids: []kit.Node{k}} }
func nT(t string, ks ...kit.Node) kit.Node { return kit.Node{K: "t", T: t, Kids: ks} }
func nTH(t string, h int, ks ...kit.Node) kit.Node {
	return kit.Node{K: "t", T: t, H: h, Kids: ks}
}
func nText(s string, fail bool) kit.Node { return kit.Node{K: "t", T: "Text", S: s, Fail: fail} }
func nLoop(n int, k kit.Node) kit.Node   { return kit.Node{K: "t", T: "Loop", N: n, Kids: []kit.Node{k}} }

// mc: the composition as the model sees it (coq/spec/CompSpec.v), generated templates expanded into their bodies.
type mc struct {
	k    string // N L R S F O P T M
	chs  []string
	fail bool
	b    string
	n    int
	kids []*mc
}

func mRaw(s string) *mc { return &mc{k: "R", b: s} }
func mSeq(xs ...*mc) *mc {
	switch len(xs) {
	case 0:
		return &mc{k: "N"}
	case 1:
		return xs[0]
	}
	return &mc{k: "S", kids: []*mc{xs[0], mSeq(xs[1:]...)}}
}
func mT(xs ...*mc) *mc    { return &mc{k: "T", kids: []*mc{mSeq(xs...)}} }
func mF(x *mc) *mc        { return &mc{k: "F", kids: []*mc{x}} }
func mO(h int, x *mc) *mc { return &mc{k: "O", n: h, kids: []*mc{x}} }

func kidOf(n kit.Node, i int, defs []kit.Node) *mc {
	if i < len(n.Kids) {
		return expand(n.Kids[i], defs)
	}
	return &mc{k: "N"}
}

// expand: what each node is in terms of the specification's combinators. For the generated templates this is
// pages.templ read by hand: literal text, holes, Flush/Once/children blocks, each template a CTempl.
func expand(n kit.Node, defs []kit.Node) *mc {
	switch n.K {
	case "leaf":
		return &mc{k: "L", chs: n.Chunks, fail: n.Fail}
	case "raw":
		return mRaw(n.S)
	case "join":
		var xs []*mc
		for _, k := range n.Kids {
			xs = append(xs, expand(k, defs))
		}
		return mSeq(xs...)
	case "flush":
		return mF(kidOf(n, 0, defs))
	case "once":
		return mO(n.H, kidOf(n, 0, defs))
	case "oncec":
		d := &mc{k: "N"}
		if n.H < len(defs) {
			d = expand(defs[n.H], defs)
		}
		return &mc{k: "P", n: 1000 + n.H, kids: []*mc{d}}
	case "limit":
		if len(n.Kids) == 0 {
			return &mc{k: "N"}
		}
		return &mc{k: "M", n: n.N, kids: []*mc{kidOf(n, 0, defs)}}
	case "t":
		a, b := kidOf(n, 0, defs), kidOf(n, 1, defs)
		switch n.T {
		case "Wrap":
			return mT(mRaw("<div>"), a, mRaw("</div>"))
		case "Pair":
			return mT(mRaw("<header>"), a, mRaw("</header><main>"), b, mRaw("</main>"))
		case "Flushed":
			return mT(mRaw("<h1>r</h1>"), mF(mSeq(mRaw("<ul>"), a, mRaw("</ul>"))), mRaw("<footer>"), b, mRaw("</footer>"))
		case "FlushFirst":
			return mT(mF(&mc{k: "N"}), mRaw("<i>"), a, mRaw("</i>"))
		case "OnceT":
			return mT(mO(n.H, mSeq(mRaw("<aside>"), a, mRaw("</aside>"))))
		case "Boxed":
			return mT(mT(mRaw(`<div class="box">`), mSeq(mRaw("<p>"), a, mRaw("</p>")), mRaw("</div>")))
		case "Text":
			if n.Fail {
				return mT(mRaw("<span>"), &mc{k: "L", fail: true}, mRaw("</span>"))
			}
			return mT(mRaw("<span>"), mRaw(html.EscapeString(n.S)), mRaw("</span>"))
		case "Loop":
			var xs []*mc
			for i := 0; i < n.N; i++ {
				xs = append(xs, mRaw("<li>"), kidOf(n, 0, defs), mRaw("</li>"))
			}
			return mT(xs...)
		case "Nest":
			return mT(mRaw("<section>"),
				mT(mRaw("<div>"), a, mRaw("</div>")),
				mT(mT(mRaw(`<div class="box">`), mSeq(mRaw("<p>"), b, mRaw("</p>")), mRaw("</div>"))),
				mRaw("</section>"))
		case "Deep":
			return mT(mT(mRaw(`<div class="box">`),
				mO(n.H, mF(mSeq(mRaw("<em>"), a, mRaw("</em>")))), mRaw(" "), b, // the generator keeps one space after a call with a children block
				mRaw("</div>")))
		}
	}
	return &mc{k: "N"}
}

func (m *mc) enc(a [][]byte) [][]byte {
	a = append(a, []byte(m.k))
	switch m.k {
	case "L":
		a = append(a, flag(m.fail), itoa(len(m.chs)))
		for _, c := range m.chs {
			a = append(a, []byte(c))
		}
	case "R":
		a = append(a, []byte(m.b))
	case "O", "P", "M":
		a = append(a, itoa(m.n))
	}
	for _, k := range m.kids {
		a = k.enc(a)
	}
	return a
}

// ---------- generators ----------

type compCase struct {
	kc      kit.Case
	shape   string // name of the composition's shape, for the histogram
	failure string // which failure point was injected: none | component | expression | writer | context
}

// leafFor: the i-th hole's component; recognisable chunks.
func leafFor(seed uint64, i int, sizes ...int) kit.Node {
	chs := make([]string, len(sizes))
	for j, n := range sizes {
		chs[j] = string(fill(seed+uint64(i)*31, j, n))
	}
	return kit.Node{K: "leaf", Chunks: chs}
}

type shape struct {
	name  string
	holes int
	mk    func(h []kit.Node) (kit.Node, []kit.Node) // tree and shared definitions
}

func noDefs(f func(h []kit.Node) kit.Node) func(h []kit.Node) (kit.Node, []kit.Node) {
	return func(h []kit.Node) (kit.Node, []kit.Node) { return f(h), nil }
}

var shapes = []shape{
	{"a component on its own", 1, noDefs(func(h []kit.Node) kit.Node { return h[0] })},
	{"Join(a, Raw, b, c)", 3, noDefs(func(h []kit.Node) kit.Node { return nJoin(h[0], nRaw("<hr>"), h[1], h[2]) })},
	{"generated template with a hole", 1, noDefs(func(h []kit.Node) kit.Node { return nT("Wrap", h[0]) })},
	{"generated template with two holes", 2, noDefs(func(h []kit.Node) kit.Node { return nT("Pair", h[0], h[1]) })},
	{"@templ.Flush() { children } in a generated template", 2, noDefs(func(h []kit.Node) kit.Node { return nT("Flushed", h[0], h[1]) })},
	{"@templ.Flush() without children in a generated template", 1, noDefs(func(h []kit.Node) kit.Node { return nT("FlushFirst", h[0]) })},
	{"Flush with children on a plain writer", 2, noDefs(func(h []kit.Node) kit.Node { return nJoin(nFlush(nJoin(nRaw("<ul>"), h[0], nRaw("</ul>"))), h[1]) })},
	{"Flush with children in Join in a generated template", 2, noDefs(func(h []kit.Node) kit.Node { return nT("Wrap", nJoin(nFlush(h[0]), nFlush(), h[1])) })},
	{"@handle.Once() { children } twice, top level", 2, noDefs(func(h []kit.Node) kit.Node { return nJoin(nTH("OnceT", 0, h[0]), nTH("OnceT", 0, h[1])) })},
	{"@handle.Once() { children } twice, inside a generated template", 2, noDefs(func(h []kit.Node) kit.Node { return nT("Wrap", nJoin(nTH("OnceT", 0, h[0]), nTH("OnceT", 0, h[1]))) })},
	{"Once with children, two handles, in a template", 3, noDefs(func(h []kit.Node) kit.Node { return nT("Pair", nJoin(nOnce(1, h[0]), nOnce(2, h[1])), nOnce(1, h[2])) })},
	{"Once WithComponent, used twice", 1, func(h []kit.Node) (kit.Node, []kit.Node) {
		return nT("Pair", nOnceC(0), nJoin(nOnceC(0), nRaw("<br>"))), []kit.Node{h[0]}
	}},
	{"Once WithComponent at the top level", 1, func(h []kit.Node) (kit.Node, []kit.Node) {
		return nJoin(nOnceC(0), nOnceC(0)), []kit.Node{nJoin(nRaw("<s>"), h[0])}
	}},
	{"children block", 1, noDefs(func(h []kit.Node) kit.Node { return nT("Boxed", h[0]) })},
	{"expression between components", 2, noDefs(func(h []kit.Node) kit.Node { return nJoin(h[0], nText("a<b&c", false), h[1]) })},
	{"loop over a hole", 1, noDefs(func(h []kit.Node) kit.Node { return nLoop(3, h[0]) })},
	{"nested generated templates", 2, noDefs(func(h []kit.Node) kit.Node { return nT("Nest", h[0], h[1]) })},
	{"Flush inside Once inside a children block", 2, noDefs(func(h []kit.Node) kit.Node { return nTH("Deep", 3, h[0], h[1]) })},
	{"Flush inside Once inside a children block, twice", 4, noDefs(func(h []kit.Node) kit.Node {
		return nT("Wrap", nJoin(nTH("Deep", 3, h[0], h[1]), nTH("Deep", 3, h[2], h[3])))
	})},
	{"flushed template inside a flushed template", 3, noDefs(func(h []kit.Node) kit.Node { return nT("Flushed", nT("Flushed", h[0], h[1]), h[2]) })},
	{"template with holes inside a flushed template inside a template", 3, noDefs(func(h []kit.Node) kit.Node {
		return nT("Wrap", nT("Flushed", nT("Pair", h[0], h[1]), h[2]))
	})},
	{"children block inside flushed children", 2, noDefs(func(h []kit.Node) kit.Node { return nT("Flushed", nT("Boxed", h[0]), h[1]) })},
	{"loop over a flushed template", 2, noDefs(func(h []kit.Node) kit.Node { return nLoop(2, nT("Flushed", h[0], h[1])) })},
	{"flushed template under Once", 2, noDefs(func(h []kit.Node) kit.Node { return nJoin(nTH("OnceT", 4, nT("Flushed", h[0], h[1])), nRaw("<hr>")) })},
	{"failing expression position inside flushed children", 2, noDefs(func(h []kit.Node) kit.Node {
		return nT("Flushed", nJoin(h[0], nText("x", false), h[1]), nText("y", false))
	})},
	{"Join of templates and Raw", 3, noDefs(func(h []kit.Node) kit.Node {
		return nJoin(nT("Wrap", h[0]), nRaw("<!-- -->"), nT("Boxed", h[1]), nT("FlushFirst", h[2]))
	})},
}

var leafErrKinds = []string{"plain", "wrapped", "context.Canceled", "io.EOF", "io.ErrShortWrite", "http.ErrAbortHandler", "templ.Error", "is-anything"}

type compCfg struct {
	status int
	eh     *[]op
	stream bool
	method string
	via    string
}

// the configurations the compositions cycle through: buffered (the streamed handler is not all-or-nothing and what
// reaches its ResponseWriter depends on the writes, not only on the bytes), both transports, GET, HEAD and POST
var compCfgs = func() []compCfg {
	var l []compCfg
	for _, via := range []string{"recorder", "server"} {
		for _, st := range []int{0, 202} {
			for _, eh := range []*[]op{nil, ehs[2], ehs[1], ehs[6]} {
				for _, m := range []string{"GET", "HEAD", "POST"} {
					l = append(l, compCfg{st, eh, false, m, via})
				}
				l = append(l, compCfg{st, eh, false, "GET", via})
			}
		}
	}
	return l // 52 = 4 x 13
}()

func toKitOps(o *[]op) *[]kit.Op {
	if o == nil {
		return nil
	}
	r := make([]kit.Op, len(*o))
	for i, x := range *o {
		r[i] = kit.Op{Kind: x.Kind, A: x.A, B: x.B}
	}
	return &r
}

func mkCompCase(tree kit.Node, defs []kit.Node, cf compCfg, ctx, shapeName, failure string) compCase {
	return compCase{kit.Case{Tree: tree, Defs: defs, Status: cf.status, EH: toKitOps(cf.eh), Stream: cf.stream, Method: cf.method, Ctx: ctx, Via: cf.via}, shapeName, failure}
}

// docLen: how many bytes the composition writes when nothing fails (for placing the writer's limit).
func docLen(m *mc) int {
	switch m.k {
	case "L":
		t := 0
		for _, c := range m.chs {
			t += len(c)
		}
		return t
	case "R":
		return len(m.b)
	}
	t := 0
	for _, k := range m.kids {
		t += docLen(k)
	}
	return t
}

func sweepCompositions(seed *uint64) []compCase {
	var out []compCase
	ci := 0
	next := func() compCfg { ci++; return compCfgs[(ci*7)%len(compCfgs)] }
	for _, sh := range shapes {
		holes := func(failAt int, before bool, big int) []kit.Node {
			h := make([]kit.Node, sh.holes)
			for i := range h {
				*seed++
				h[i] = leafFor(*seed, i, 9, 0, 5)
				if i == big {
					h[i] = leafFor(*seed, i, 4090, 13)
				}
				if i == failAt {
					h[i].Fail = true
					h[i].Err = leafErrKinds[int(*seed%uint64(len(leafErrKinds)))]
					if before {
						h[i].Chunks = nil
					}
				}
			}
			return h
		}
		// nothing fails; then a failing component at every hole (after and before writing), small and around the 4 KB buffer
		for _, big := range []int{-1, 0} {
			t, d := sh.mk(holes(-1, false, big))
			out = append(out, mkCompCase(t, d, next(), "live", sh.name, "none"), mkCompCase(t, d, next(), "live", sh.name, "none"))
			for i := 0; i < sh.holes; i++ {
				for _, before := range []bool{false, true} {
					t, d := sh.mk(holes(i, before, big))
					for k := 0; k < 3; k++ {
						out = append(out, mkCompCase(t, d, next(), "live", sh.name, "component"))
					}
				}
			}
		}
		// the request's context already done: generated templates return ctx.Err() first, the other combinators render
		t, d := sh.mk(holes(-1, false, -1))
		for _, cx := range []string{"canceled", "exceeded"} {
			out = append(out, mkCompCase(t, d, next(), cx, sh.name, "context"), mkCompCase(t, d, next(), cx, sh.name, "context"))
		}
		// a failing expression in front of, between and after the holes
		for i := 0; i <= sh.holes; i++ {
			h := holes(-1, false, -1)
			k := i
			if k == sh.holes {
				k = sh.holes - 1
				h[k] = nJoin(h[k], nText("t", true))
			} else {
				h[k] = nJoin(nText("t", true), h[k])
			}
			t, d := sh.mk(h)
			out = append(out, mkCompCase(t, d, next(), "live", sh.name, "expression"), mkCompCase(t, d, next(), "live", sh.name, "expression"))
		}
		// a writer that fails after n bytes, around the whole composition and around each hole
		t, d = sh.mk(holes(-1, false, -1))
		total := docLen(expand(t, d))
		for _, n := range []int{0, 1, total / 2, total - 1, total, total + 1} {
			if n < 0 {
				continue
			}
			out = append(out, mkCompCase(nLimit(n, t), d, next(), "live", sh.name, "writer"))
			out = append(out, mkCompCase(nT("Wrap", nLimit(n, t)), d, next(), "live", sh.name, "writer"))
		}
		for i := 0; i < sh.holes; i++ {
			for _, n := range []int{0, 13, 14} {
				h := holes(-1, false, -1)
				h[i] = nLimit(n, h[i])
				t, d := sh.mk(h)
				out = append(out, mkCompCase(t, d, next(), "live", sh.name, "writer"))
			}
		}
	}
	return out
}

// randNode: a random composition; every kind of node at every depth, failure points sprinkled in.
func randNode(r *rng.R, depth int, defs *[]kit.Node, failP int) kit.Node {
	leaf := func() kit.Node {
		var sizes []int
		for k := r.Intn(3); k >= 0; k-- {
			switch x := r.Intn(20); {
			case x < 14:
				sizes = append(sizes, r.Intn(24))
			case x < 16:
				sizes = append(sizes, 0)
			case x < 19:
				sizes = append(sizes, 500+r.Intn(1500))
			default:
				sizes = append(sizes, 4090+r.Intn(12))
			}
		}
		n := leafFor(r.U64(), r.Intn(100), sizes...)
		if r.Intn(100) < failP {
			n.Fail = true
			n.Err = rng.Pick(r, leafErrKinds)
			if r.Intn(3) == 0 {
				n.Chunks = nil
			}
		}
		return n
	}
	if depth <= 0 {
		switch r.Intn(5) {
		case 0:
			return nRaw(rng.Pick(r, []string{"<hr>", "", "<b>x</b>", "&amp;"}))
		case 1:
			return nText(rng.Pick(r, []string{"t", "a<b", "", "x & y"}), r.Intn(100) < failP)
		}
		return leaf()
	}
	sub := func() kit.Node { return randNode(r, depth-1-r.Intn(2), defs, failP) }
	switch r.Intn(18) {
	case 0:
		return leaf()
	case 1, 2:
		k := 1 + r.Intn(3)
		ks := make([]kit.Node, k)
		for i := range ks {
			ks[i] = sub()
		}
		return nJoin(ks...)
	case 3:
		if r.Intn(4) == 0 {
			return nFlush()
		}
		return nFlush(sub())
	case 4:
		return nOnce(r.Intn(3), sub())
	case 5:
		if defs == nil { // inside a definition: no further once-components, so that none refers to itself
			return sub()
		}
		if len(*defs) < 2 && r.Intn(2) == 0 {
			body := randNode(r, depth-1, nil, failP)
			*defs = append(*defs, body)
			return nOnceC(len(*defs) - 1)
		}
		if len(*defs) > 0 {
			return nOnceC(r.Intn(len(*defs)))
		}
		return sub()
	case 6:
		k := sub()
		var ds []kit.Node
		if defs != nil {
			ds = *defs
		}
		n := docLen(expand(k, ds))
		switch r.Intn(4) {
		case 0:
			n = r.Intn(n + 2)
		case 1:
			n = n - 1 + r.Intn(3)
		default:
			n = n + r.Intn(50)
		}
		if n < 0 {
			n = 0
		}
		return nLimit(n, k)
	case 7, 8:
		return nT("Wrap", sub())
	case 9:
		return nT("Pair", sub(), sub())
	case 10, 11, 12:
		return nT("Flushed", sub(), sub())
	case 13:
		return nT("FlushFirst", sub())
	case 14:
		return nTH("OnceT", r.Intn(3), sub())
	case 15:
		return nT("Boxed", sub())
	case 16:
		if r.Intn(2) == 0 {
			return nLoop(r.Intn(4), sub())
		}
		return nT("Nest", sub(), sub())
	default:
		return nTH("Deep", r.Intn(3), sub(), sub())
	}
}

func features(n kit.Node, defs []kit.Node, in map[string]bool, underT bool) {
	switch n.K {
	case "flush":
		if underT {
			in["Flush called by hand inside a generated template"] = true
		} else {
			in["Flush on a plain writer"] = true
		}
	case "once":
		in["Once with children"] = true
	case "oncec":
		in["Once WithComponent"] = true
		if n.H < len(defs) {
			features(defs[n.H], nil, in, underT)
		}
	case "limit":
		in["failing writer"] = true
		underT = false
	case "join":
		in["Join"] = true
	case "t":
		underT = true
		switch n.T {
		case "Flushed":
			in["@templ.Flush() { children } in generated code"] = true
		case "FlushFirst":
			in["@templ.Flush() without children in generated code"] = true
		case "OnceT":
			in["@handle.Once() { children } in generated code"] = true
		case "Boxed", "Nest":
			in["children block"] = true
		case "Deep":
			in["children block"], in["@handle.Once() { children } in generated code"], in["@templ.Flush() { children } in generated code"] = true, true, true
		case "Text":
			in["expression"] = true
		case "Loop":
			in["loop"] = true
		}
		in["generated template"] = true
	}
	for _, k := range n.Kids {
		features(k, defs, in, underT)
	}
}

// ---------- the check ----------

func compInput(cc compCase, r kit.Result, ehr response, modelFails bool, modelLen string) map[string]any {
	in := map[string]any{
		"composition": cc.kc.Tree, "shape": cc.shape, "injected_failure": cc.failure,
		"config":  map[string]any{"status": cc.kc.Status, "error_handler": cc.kc.EH, "streaming": cc.kc.Stream},
		"request": map[string]any{"method": cc.kc.Method, "context": cc.kc.Ctx}, "via": cc.kc.Via,
		"render_directly": map[string]any{"returned_error": r.RenderErr, "error": r.ErrText, "failure_points_reached": r.Reached, "first_failure": r.First,
			"wrote_len": len(r.Out), "wrote_head": clip(r.Out, 240)},
		"response": map[string]any{"status": r.Resp.Status, "headers": r.Resp.Hdr, "body_len": len(r.Resp.Body), "body_head": clip(r.Resp.Body, 240), "transport_error": r.Resp.Err,
			"failure_points_reached_when_served": r.SrvReached, "error_handler_calls": r.EHCalls},
		"expected": map[string]any{"render_fails": modelFails, "render_writes_len": modelLen},
		"how":      "the composition is built by harness/internal/c11/kit (kit.Build: leaf = templ.ComponentFunc writing its chunks then returning an error iff fail; raw = templ.Raw; join = templ.Join; flush = templ.Flush().Render(templ.WithChildren(ctx, kid), w); once = handle.Once() with children; oncec = NewOnceHandle(WithComponent(defs[h])).Once(); limit = a writer passing n bytes on and failing afterwards; t = the template of that name in harness/internal/c11/pages.templ, regenerated with the tree's generator), rendered directly into a bytes.Buffer (render_directly), and served by templ.Handler(component, WithStatus/WithErrorHandler/WithStreaming from config) to the request (context put into the given state by a middleware); via recorder: httptest.ResponseRecorder, via server: httptest.Server and net/http's client. To re-run: put the JSON object {tree: composition, defs, status, error_handler, streaming, method, context, via} on one line on the stdin of the program the check builds (kit.Main)",
	}
	if len(cc.kc.Defs) > 0 {
		in["defs"] = cc.kc.Defs
	}
	if cc.kc.EH != nil {
		in["error_handler_alone_response"] = map[string]any{"status": ehr.Status, "headers": ehr.Hdr, "body_len": len(ehr.Body), "body_head": clip(ehr.Body, 160)}
	}
	return in
}

func fromKit(r kit.Response) response {
	return response{Status: r.Status, Hdr: r.Hdr, Body: r.Body, Err: r.Err, CL: -1}
}

func compositions(c *core.Ctx) {
	const famContract = "components: Render contract of templ's combinators and generated templates (error iff a failure point is reached; model = implementation)"
	const famHandler = "handler: buffered, components built from templ's combinators and generated templates"
	prog, log, err := buildKit()
	c.Oblige("correspondence", "components: pages.templ is regenerated by the tree's generator and compiles with the combinator kit against the tree", err == nil, fmt.Sprint(err))
	if err != nil {
		c.Fail("tie", "components: the scratch program builds", "", map[string]any{"log": clip([]byte(log), 3000)}, err.Error())
		return
	}
	defer prog.close()

	seed := c.Seed*7919 + 17
	cases := sweepCompositions(&seed)
	nSweep := len(cases)
	nRand := c.N(2500, 30000)
	for i := 0; i < nRand; i++ {
		var defs []kit.Node
		failP := []int{0, 4, 10, 25}[c.Rng.Intn(4)]
		t := randNode(c.Rng, 1+c.Rng.Intn(4), &defs, failP)
		ctx := "live"
		if c.Rng.Intn(12) == 0 {
			ctx = rng.Pick(c.Rng, []string{"canceled", "exceeded", "ahead"})
		}
		cases = append(cases, mkCompCase(t, defs, rng.Pick(c.Rng, compCfgs), ctx, "random composition", "random"))
	}
	c.Extra["composition_cases_sweep"] = nSweep
	c.Extra["composition_cases_random"] = nRand
	c.Extra["composition_shapes"] = len(shapes)

	kcs := make([]kit.Case, len(cases))
	for i, cc := range cases {
		kcs[i] = cc.kc
	}
	results, err := prog.run(kcs)
	c.Oblige("correspondence", "components: the scratch program answers every case", err == nil, fmt.Sprint(err))
	if err != nil {
		c.Fail("tie", "components: the scratch program runs", "", map[string]any{"answered": len(results), "cases": len(cases)}, err.Error())
		return
	}

	reqs := make([]drv.Req, len(cases))
	for i, cc := range cases {
		r := results[i]
		q := request{Method: cc.kc.Method, Proto: "HTTP/1.1", Ctx: cc.kc.Ctx}
		mode := "b"
		if cc.kc.Stream {
			mode = "s"
		}
		toks := expand(cc.kc.Tree, cc.kc.Defs).enc(nil)
		a := append([][]byte{viaCode(cc.kc.Via)}, encRequest(q)...)
		a = append(a, []byte(mode), itoa(cc.kc.Status), []byte(defaultCT), itoa(len(toks)))
		a = append(a, toks...)
		cfg := cases[i].cfgOps()
		if cfg != nil {
			a = append(a, flag(true))
			a = append(a, encOps(*cfg)...)
		} else {
			a = append(a, flag(false), itoa(0))
		}
		a = append(a, encResp(fromKit(r.Resp))...)
		a = append(a, encResp(fromKit(r.EHR))...)
		a = append(a, flag(r.RenderErr), r.Out)
		reqs[i] = drv.Req{Fn: "compose", Args: a}
	}
	res := c.Model(reqs)

	contractOK, tieOK, ehGivenOK, ehTie := true, true, true, true
	propOK := map[string]bool{"recorder": true, "server": true}
	nBuf := map[string]int{}
	nFail, nStream, nPanic := 0, 0, 0
	for i, cc := range cases {
		r := results[i]
		m := res[i]
		ok := len(m) == 9
		tie, spec, ehtie, contract := ok && string(m[0]) == "1", ok && string(m[1]) == "1", ok && string(m[2]) == "1", ok && string(m[3]) == "1"
		mFails, mLen := ok && string(m[4]) == "1", ""
		modelDesc := "(no reply from the model)"
		if ok {
			mLen = string(m[5])
			modelDesc = fmt.Sprintf("model: Render fails=%v having written %s bytes; response status %s, headers %q, %s body bytes", mFails, m[5], m[6], m[7], m[8])
		}
		ehr := fromKit(r.EHR)
		key := ""
		if mFails {
			nFail++
			b, _ := json.Marshal(cc.kc)
			key = string(b)
		}
		c.Count(key)
		feats := map[string]bool{}
		features(cc.kc.Tree, cc.kc.Defs, feats, false)
		for f := range feats {
			c.Hist("composition uses: " + f)
		}
		switch {
		case !mFails:
			c.Hist("composition: renders completely")
		case r.Reached == 0:
			c.Hist("composition: fails at a generated template (context done)")
		default:
			c.Hist("composition: fails, first failure point: " + firstKind(r.First))
		}
		if cc.kc.Stream {
			nStream++
			c.Hist("composition served: streamed, " + cc.kc.Via)
		} else {
			nBuf[cc.kc.Via]++
			c.Hist("composition served: buffered, " + cc.kc.Via + ", " + cc.kc.Method)
		}
		if r.Panic != "" {
			nPanic++
		}
		// 1. the Render contract on the real combinators
		problem := ""
		switch {
		case r.Panic != "":
			problem = "the scratch program recovered a panic: " + r.Panic
		case r.Reached > 0 && !r.RenderErr:
			problem = fmt.Sprintf("%d failure point(s) were reached (first: %s) and returned their error, yet Render returned nil", r.Reached, r.First)
		case !contract && r.RenderErr != mFails:
			problem = fmt.Sprintf("Render returned error=%v (%s) where the contract demands fails=%v", r.RenderErr, r.ErrText, mFails)
		case !contract:
			problem = fmt.Sprintf("Render wrote %d bytes, not the %s bytes the composition writes before it stops", len(r.Out), mLen)
		case r.RenderErr && !r.ErrMatches:
			problem = fmt.Sprintf("Render returned %q, which is not (errors.Is) the error of the first failure point reached (%s)", r.ErrText, r.First)
		}
		if problem != "" {
			contractOK = false
			if c.NFails(famContract) < 3 {
				c.Fail("tie", famContract, "", compInput(cc, r, ehr, mFails, mLen), problem+"; "+modelDesc)
			}
		}
		// 2. served by the handler: model = implementation, and the specification predicate on what the client saw
		family := famHandler + " (" + cc.kc.Via + ")"
		if !tie {
			tieOK = false
			if c.NFails(family+" (model = implementation)") < 3 {
				c.Fail("tie", family+" (model = implementation)", "", compInput(cc, r, ehr, mFails, mLen), "model and implementation differ; "+modelDesc)
			}
		}
		if !ehtie {
			ehTie = false
		}
		if !cc.kc.Stream && !spec {
			propOK[cc.kc.Via] = false
			if c.NFails(family) < 3 {
				c.Fail("property", family, "", compInput(cc, r, ehr, mFails, mLen), whyComp(cc, r, ehr, mFails, mLen))
			}
		}
		// the error handler is obtained once iff rendering failed, and is given the first failure's error
		wantEH := 0
		if mFails && cc.kc.EH != nil {
			wantEH = 1
		}
		if r.Resp.Status >= 0 && (r.EHCalls != wantEH || (wantEH == 1 && !r.EHErrIs)) {
			if ehGivenOK {
				c.Fail("tie", "components: the error handler is obtained once iff the composition fails, with the first failure's error", "", compInput(cc, r, ehr, mFails, mLen),
					fmt.Sprintf("error handler obtained %d times (expected %d), given the first failure's error: %v", r.EHCalls, wantEH, r.EHErrIs))
			}
			ehGivenOK = false
		}
		if i%(len(cases)/4+1) == 0 {
			c.Sample(map[string]any{"composition": clipTree(cc.kc.Tree), "shape": cc.shape, "config": map[string]any{"status": cc.kc.Status, "error_handler": cc.kc.EH, "streaming": cc.kc.Stream}, "method": cc.kc.Method, "context": cc.kc.Ctx, "via": cc.kc.Via,
				"render_returned_error": r.RenderErr, "status": r.Resp.Status, "body_len": len(r.Resp.Body), "body_head": clip(r.Resp.Body, 80)})
		}
	}
	c.Extra["composition_cases_failing"] = nFail
	c.Extra["composition_cases_streamed"] = nStream
	c.Oblige("contract", fmt.Sprintf("components: Component.Render of templ's combinators and of the regenerated templates returns an error iff a failure point is reached - wrapping the first one's - and writes what the model of the combinators writes (%d compositions, %d failing)", len(cases), nFail), contractOK, "")
	c.Oblige("correspondence", "handler: model = templ.Handler on compositions of templ's combinators (buffered, recorder and server)", tieOK && ehTie, "")
	for _, via := range []string{"recorder", "server"} {
		c.Oblige("correspondence", fmt.Sprintf("handler: specification predicate (extracted all_or_nothing_wire_b, document and failure of the composition by CompSpec) holds of the real response to every composition, buffered, %s (%d responses)", via, nBuf[via]), propOK[via], "")
	}
	c.Oblige("correspondence", "components: the error handler is obtained once iff the composition fails and is given the first failure's error; no panics", ehGivenOK && nPanic == 0, "")
}

// clipTree: the composition with long chunks abbreviated (evidence samples only; replays carry the exact input).
func clipTree(n kit.Node) kit.Node {
	if len(n.Chunks) > 0 {
		cs := make([]string, len(n.Chunks))
		for i, s := range n.Chunks {
			if len(s) > 40 {
				s = fmt.Sprintf("%s...(%d bytes)", s[:24], len(s))
			}
			cs[i] = s
		}
		n.Chunks = cs
	}
	if len(n.Kids) > 0 {
		ks := make([]kit.Node, len(n.Kids))
		for i, k := range n.Kids {
			ks[i] = clipTree(k)
		}
		n.Kids = ks
	}
	return n
}

func (cc compCase) cfgOps() *[]op {
	if cc.kc.EH == nil {
		return nil
	}
	r := make([]op, len(*cc.kc.EH))
	for i, x := range *cc.kc.EH {
		r[i] = op{Kind: x.Kind, A: x.A, B: x.B}
	}
	return &r
}

func firstKind(first string) string {
	switch {
	case strings.Contains(first, "expression"):
		return "failing expression"
	case strings.Contains(first, "writer"):
		return "failing writer"
	case first == "":
		return "none"
	}
	return "failing component"
}

func whyComp(cc compCase, r kit.Result, ehr response, mFails bool, mLen string) string {
	resp := r.Resp
	what := fmt.Sprintf("the client received status %d with %d body bytes (%s)", resp.Status, len(resp.Body), strconv.Quote(clip(resp.Body, 100)))
	if resp.Err != "" || resp.Status < 0 {
		return "the request failed in transport: " + resp.Err
	}
	if cc.kc.Via == "server" && cc.kc.Method == "HEAD" {
		what = fmt.Sprintf("the HEAD was answered with status %d / headers %v", resp.Status, resp.Hdr)
	}
	if !mFails {
		return fmt.Sprintf("the composition renders completely to %s bytes; %s instead of that document with the configured status and content type", mLen, what)
	}
	where := "a generated template was entered with the request's context already done"
	if r.SrvReached > 0 || r.Reached > 0 {
		where = fmt.Sprintf("a failure point inside the composition was reached (first: %s)", r.First)
	}
	exp := "the default error response (500, fixed message)"
	if cc.kc.EH != nil {
		exp = fmt.Sprintf("what the configured error handler writes on its own (status %d, %d body bytes)", ehr.Status, len(ehr.Body))
	}
	extra := ""
	if !r.RenderErr {
		extra = "; Render returned nil although the failure happened - the document rendered has a hole at the failure"
	}
	return fmt.Sprintf("%s, yet %s instead of %s%s", where, what, exp, extra)
}
