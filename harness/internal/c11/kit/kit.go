// Package kit is the program the C11 check compiles, next to the templates of pages.templ regenerated with the
// generator of the tree under test, into a scratch module: it builds components from templ's own combinators
// (ComponentFunc, Raw, Join, Flush with children, OnceHandle, generated templates, children blocks) as described
// by a tree, renders them directly (the Render contract: an error iff a failure point was reached) and serves
// them through the real templ.Handler (recorder and real server). It imports the standard library and templ only;
// the check also imports it for the types of the line protocol (one JSON Case per line in, one JSON Result out).
package kit

import (
	"bufio"
	"bytes"
	"context"
	"encoding/json"
	"errors"
	"fmt"
	"io"
	"log"
	"net/http"
	"net/http/httptest"
	"os"
	"sort"
	"strconv"
	"strings"
	"sync"
	"time"

	"github.com/a-h/templ"
)

// Node describes a component.
//
//	nop                      templ.NopComponent
//	leaf  Chunks Fail Err    templ.ComponentFunc: writes the chunks, then returns the error Err iff Fail
//	raw   S                  templ.Raw(S)
//	join  Kids               templ.Join(Kids...)
//	flush Kids[0]?           templ.Flush() rendered with templ.WithChildren(ctx, Kids[0]) (no kid: ClearChildren, as generated code does)
//	once  H Kids[0]          handle H (templ.NewOnceHandle(), one per number and built component) .Once() with children Kids[0]
//	oncec H                  templ.NewOnceHandle(templ.WithComponent(Defs[H])).Once(), one handle per H
//	limit N Kids[0]          ComponentFunc rendering Kids[0] into a writer that passes N bytes on and fails from then on
//	t     T Kids H S N Fail  the generated template T of pages.templ
type Node struct {
	K      string   `json:"k"`
	Chunks []string `json:"chunks,omitempty"`
	Fail   bool     `json:"fail,omitempty"`
	Err    string   `json:"err,omitempty"`
	S      string   `json:"s,omitempty"`
	H      int      `json:"h,omitempty"`
	N      int      `json:"n,omitempty"`
	T      string   `json:"t,omitempty"`
	Kids   []Node   `json:"kids,omitempty"`
}

// Op is one call an error handler makes on the ResponseWriter (as in the rest of the C11 check).
type Op struct {
	Kind string `json:"kind"`
	A    string `json:"a"`
	B    string `json:"b,omitempty"`
}

type Case struct {
	Tree   Node    `json:"tree"`
	Defs   []Node  `json:"defs,omitempty"`
	Status int     `json:"status"`
	CT     *string `json:"content_type"`
	EH     *[]Op   `json:"error_handler"`
	Stream bool    `json:"streaming"`
	Method string  `json:"method"`
	Ctx    string  `json:"context"` // live | canceled | exceeded
	Via    string  `json:"via"`     // recorder | server
}

type Response struct {
	Status int         `json:"status"`
	Hdr    [][2]string `json:"headers"`
	Body   []byte      `json:"body"`
	Err    string      `json:"transport_error,omitempty"`
}

type Result struct {
	// Render called directly, into a bytes.Buffer
	RenderErr  bool   `json:"render_err"`
	ErrText    string `json:"render_err_text,omitempty"`
	ErrMatches bool   `json:"render_err_is_first_failure"` // errors.Is(err, the error of the first failure point reached)
	Reached    int    `json:"failure_points_reached"`      // failing leaves / expressions / writer errors that happened
	First      string `json:"first_failure,omitempty"`
	Out        []byte `json:"render_out"`
	// served by templ.Handler
	Resp       Response `json:"response"`
	EHR        Response `json:"error_handler_alone"`
	EHCalls    int      `json:"error_handler_calls"`
	EHErrIs    bool     `json:"error_handler_given_first_failure"`
	SrvReached int      `json:"failure_points_reached_when_served"`
	Panic      string   `json:"panic,omitempty"`
}

// ---------- templates (registered by the scratch module's main) ----------

type Args struct {
	Kids   []templ.Component
	Handle *templ.OnceHandle
	S      string
	N      int
	Fail   bool
}

func (a Args) Kid(i int) templ.Component {
	if i < len(a.Kids) {
		return a.Kids[i]
	}
	return templ.NopComponent
}

var Templates = map[string]func(Args) templ.Component{}

// ---------- failure points ----------

var (
	ErrLeaf  = errors.New("c11: component failed")
	ErrLimit = errors.New("c11: writer failed")
	ErrExpr  = errors.New("c11: expression failed")
)

type isAnything struct{}

func (isAnything) Error() string        { return "c11: error that claims to be every error" }
func (isAnything) Is(target error) bool { return true }

func mkErr(kind string) error {
	switch kind {
	case "wrapped":
		return fmt.Errorf("loading rows: %w", ErrLeaf)
	case "context.Canceled":
		return context.Canceled
	case "io.EOF":
		return io.EOF
	case "io.ErrShortWrite":
		return io.ErrShortWrite
	case "http.ErrAbortHandler":
		return http.ErrAbortHandler
	case "templ.Error":
		return templ.Error{Err: ErrLeaf, Line: 3, Col: 7}
	case "is-anything":
		return isAnything{}
	}
	return ErrLeaf
}

// probe: the failure points reached during one render.
type probe struct {
	reached int
	first   error
}

var cur *probe

// NoteFailure is called by every failure point when it returns its error.
func NoteFailure(err error) {
	if cur == nil {
		return
	}
	cur.reached++
	if cur.first == nil {
		cur.first = err
	}
}

type limitWriter struct {
	w    io.Writer
	left int
}

func (l *limitWriter) Write(p []byte) (int, error) {
	if len(p) <= l.left {
		l.left -= len(p)
		return l.w.Write(p)
	}
	n, _ := l.w.Write(p[:l.left])
	l.left = 0
	NoteFailure(ErrLimit)
	return n, ErrLimit
}

type builder struct {
	defs    []Node
	handles map[int]*templ.OnceHandle
	chandle map[int]*templ.OnceHandle
}

func Build(n Node, defs []Node) templ.Component {
	b := &builder{defs: defs, handles: map[int]*templ.OnceHandle{}, chandle: map[int]*templ.OnceHandle{}}
	return b.build(n)
}

func (b *builder) handle(h int) *templ.OnceHandle {
	if b.handles[h] == nil {
		b.handles[h] = templ.NewOnceHandle()
	}
	return b.handles[h]
}

func (b *builder) kids(n Node) []templ.Component {
	ks := make([]templ.Component, len(n.Kids))
	for i, k := range n.Kids {
		ks[i] = b.build(k)
	}
	return ks
}

func (b *builder) build(n Node) templ.Component {
	switch n.K {
	case "nop":
		return templ.NopComponent
	case "leaf":
		chunks := make([][]byte, len(n.Chunks))
		for i, s := range n.Chunks {
			chunks[i] = []byte(s)
		}
		var err error
		if n.Fail {
			err = mkErr(n.Err)
		}
		return templ.ComponentFunc(func(ctx context.Context, w io.Writer) error {
			for _, ch := range chunks {
				if _, werr := w.Write(ch); werr != nil {
					return werr
				}
			}
			if err != nil {
				NoteFailure(err)
			}
			return err
		})
	case "raw":
		return templ.Raw(n.S)
	case "join":
		return templ.Join(b.kids(n)...)
	case "flush":
		ks := b.kids(n)
		return templ.ComponentFunc(func(ctx context.Context, w io.Writer) error {
			if len(ks) == 0 {
				return templ.Flush().Render(templ.ClearChildren(ctx), w)
			}
			return templ.Flush().Render(templ.WithChildren(ctx, ks[0]), w)
		})
	case "once":
		h, ks := b.handle(n.H), b.kids(n)
		return templ.ComponentFunc(func(ctx context.Context, w io.Writer) error {
			var kid templ.Component = templ.NopComponent
			if len(ks) > 0 {
				kid = ks[0]
			}
			return h.Once().Render(templ.WithChildren(ctx, kid), w)
		})
	case "oncec":
		if b.chandle[n.H] == nil {
			var def templ.Component = templ.NopComponent
			if n.H < len(b.defs) {
				def = b.build(b.defs[n.H])
			}
			b.chandle[n.H] = templ.NewOnceHandle(templ.WithComponent(def))
		}
		return b.chandle[n.H].Once()
	case "limit":
		ks := b.kids(n)
		return templ.ComponentFunc(func(ctx context.Context, w io.Writer) error {
			if len(ks) == 0 {
				return nil
			}
			return ks[0].Render(ctx, &limitWriter{w: w, left: n.N})
		})
	case "t":
		f := Templates[n.T]
		if f == nil {
			panic("c11 kit: no template " + n.T)
		}
		return f(Args{Kids: b.kids(n), Handle: b.handle(n.H), S: n.S, N: n.N, Fail: n.Fail})
	}
	panic("c11 kit: unknown node kind " + n.K)
}

// ---------- serving ----------

func applyOps(w http.ResponseWriter, r *http.Request, ops []Op) {
	for _, o := range ops {
		switch o.Kind {
		case "R":
			w.Header().Set(o.A, r.Method+" "+r.URL.RawQuery+" "+r.Proto)
		case "S":
			w.Header().Set(o.A, o.B)
		case "D":
			w.Header().Del(o.A)
		case "H":
			n, _ := strconv.Atoi(o.A)
			w.WriteHeader(n)
		case "W":
			_, _ = w.Write([]byte(o.A))
		case "E":
			n, _ := strconv.Atoi(o.B)
			http.Error(w, o.A, n)
		}
	}
}

func withCtx(ctx context.Context, state string) (context.Context, context.CancelFunc) {
	switch state {
	case "canceled":
		c, cancel := context.WithCancel(ctx)
		cancel()
		return c, cancel
	case "exceeded":
		return context.WithDeadline(ctx, time.Unix(0, 0))
	case "ahead":
		return context.WithTimeout(ctx, time.Hour)
	}
	return ctx, func() {}
}

func underContext(h http.Handler, state string) http.Handler {
	return http.HandlerFunc(func(w http.ResponseWriter, r *http.Request) {
		ctx, cancel := withCtx(r.Context(), state)
		defer cancel()
		if state != "live" && state != "" {
			r = r.WithContext(ctx)
		}
		h.ServeHTTP(w, r)
	})
}

type server struct {
	ts   *httptest.Server
	mu   sync.Mutex
	hs   map[string]http.Handler
	next int
}

func newServer() *server {
	s := &server{hs: map[string]http.Handler{}}
	s.ts = httptest.NewUnstartedServer(http.HandlerFunc(func(w http.ResponseWriter, r *http.Request) {
		s.mu.Lock()
		h := s.hs[r.URL.Path]
		s.mu.Unlock()
		if h == nil {
			http.Error(w, "c11: no such case", 598)
			return
		}
		h.ServeHTTP(w, r)
	}))
	s.ts.Config.ErrorLog = log.New(io.Discard, "", 0)
	s.ts.Start()
	return s
}

func project(res *http.Response, body []byte, server bool) Response {
	r := Response{Status: res.StatusCode, Body: body}
	for k, v := range res.Header {
		if server && (k == "Date" || k == "Connection" || k == "Content-Length") {
			continue
		}
		r.Hdr = append(r.Hdr, [2]string{k, strings.Join(v, ", ")})
	}
	sort.Slice(r.Hdr, func(i, j int) bool { return r.Hdr[i][0] < r.Hdr[j][0] })
	if r.Body == nil {
		r.Body = []byte{}
	}
	return r
}

func (s *server) run(h http.Handler, method string) Response {
	s.mu.Lock()
	s.next++
	p := "/" + strconv.Itoa(s.next)
	s.hs[p] = h
	s.mu.Unlock()
	defer func() {
		s.mu.Lock()
		delete(s.hs, p)
		s.mu.Unlock()
	}()
	req, err := http.NewRequest(method, s.ts.URL+p, nil)
	if err != nil {
		return Response{Status: -1, Err: err.Error()}
	}
	res, err := s.ts.Client().Do(req)
	if err != nil {
		return Response{Status: -1, Err: err.Error()}
	}
	body, rerr := io.ReadAll(res.Body)
	res.Body.Close()
	r := project(res, body, true)
	if rerr != nil {
		r.Err = rerr.Error()
	}
	return r
}

func viaRecorder(h http.Handler, method string) Response {
	rec := httptest.NewRecorder()
	h.ServeHTTP(rec, httptest.NewRequest(method, "http://example.com/0", nil))
	res := rec.Result()
	body, _ := io.ReadAll(res.Body)
	return project(res, body, false)
}

const defaultCT = "text/html; charset=utf-8"

// Run evaluates one case.
func Run(c Case, srv *server) (res Result) {
	defer func() {
		if r := recover(); r != nil {
			res.Panic = fmt.Sprint(r)
		}
		cur = nil
	}()
	// 1. the Render contract, on the component rendered directly with a context in the state of the case
	{
		comp := Build(c.Tree, c.Defs)
		ctx, cancel := withCtx(context.Background(), c.Ctx)
		p := &probe{}
		cur = p
		var b bytes.Buffer
		err := comp.Render(ctx, &b)
		cur = nil
		cancel()
		res.Out = b.Bytes()
		if res.Out == nil {
			res.Out = []byte{}
		}
		res.Reached = p.reached
		res.RenderErr = err != nil
		if err != nil {
			res.ErrText = err.Error()
		}
		first := p.first
		if first == nil {
			first = ctx.Err()
		}
		if first != nil {
			res.First = first.Error()
		}
		res.ErrMatches = err != nil && first != nil && errors.Is(err, first)
	}
	// 2. the same composition, built again (fresh once-handles), served by the real handler
	comp := Build(c.Tree, c.Defs)
	p := &probe{}
	var opts []func(*templ.ComponentHandler)
	if c.Status != 0 {
		opts = append(opts, templ.WithStatus(c.Status))
	}
	ct := defaultCT
	if c.CT != nil {
		ct = *c.CT
		opts = append(opts, templ.WithContentType(*c.CT))
	}
	if c.EH != nil {
		ops := *c.EH
		opts = append(opts, templ.WithErrorHandler(func(r *http.Request, err error) http.Handler {
			res.EHCalls++
			first := p.first
			if first == nil {
				first = r.Context().Err()
			}
			res.EHErrIs = err != nil && first != nil && errors.Is(err, first)
			return http.HandlerFunc(func(w http.ResponseWriter, r *http.Request) { applyOps(w, r, ops) })
		}))
	}
	if c.Stream {
		opts = append(opts, templ.WithStreaming())
	}
	inner := templ.Handler(comp, opts...)
	h := underContext(http.HandlerFunc(func(w http.ResponseWriter, r *http.Request) {
		cur = p
		defer func() { cur = nil }()
		inner.ServeHTTP(w, r)
	}), c.Ctx)
	var alone http.Handler
	if c.EH != nil {
		ops := *c.EH
		alone = underContext(http.HandlerFunc(func(w http.ResponseWriter, r *http.Request) {
			w.Header().Set("Content-Type", ct)
			applyOps(w, r, ops)
		}), c.Ctx)
	}
	if c.Via == "server" {
		res.Resp = srv.run(h, c.Method)
		if alone != nil {
			res.EHR = srv.run(alone, c.Method)
		}
	} else {
		res.Resp = viaRecorder(h, c.Method)
		if alone != nil {
			res.EHR = viaRecorder(alone, c.Method)
		}
	}
	res.SrvReached = p.reached
	return res
}

// Main: one JSON Case per line on stdin, one JSON Result per line on stdout.
func Main() {
	srv := newServer()
	defer srv.ts.Close()
	in := bufio.NewReaderSize(os.Stdin, 1<<20)
	out := bufio.NewWriter(os.Stdout)
	defer out.Flush()
	dec := json.NewDecoder(in)
	enc := json.NewEncoder(out)
	for {
		var c Case
		if err := dec.Decode(&c); err != nil {
			return
		}
		r := Run(c, srv)
		if err := enc.Encode(r); err != nil {
			return
		}
	}
}
