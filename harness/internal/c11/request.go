package c11

import (
	"bufio"
	"bytes"
	"context"
	"fmt"
	"io"
	"net"
	"net/http"
	"net/http/httptest"
	"strconv"
	"strings"
	"time"

	"verifharness/internal/rng"
)

// The request is a dimension of every case: the all-or-nothing statement quantifies over every request,
// so the handler is driven with requests of every method, protocol version, target, header set, body and
// context state - into the recorder and, sent by a real client, through the real server.

type request struct {
	Method   string      `json:"method"`
	Proto    string      `json:"proto"`               // HTTP/1.1 | HTTP/1.0 (written on a raw connection) | HTTP/2.0 (TLS server)
	Query    string      `json:"raw_query,omitempty"` // appended to the path the handler is mounted on
	Hdr      [][2]string `json:"headers,omitempty"`
	BodySize int         `json:"body_size,omitempty"` // request body = fill(1, 0, body_size)
	// state of r.Context() when the handler is entered: live | ahead (deadline in an hour) |
	// canceled | exceeded (deadline passed); set by a middleware in front of the handler
	Ctx string `json:"context"`
}

var plainGET = request{Method: "GET", Proto: "HTTP/1.1", Ctx: "live"}

func (q request) key() string {
	return fmt.Sprintf("%s %s ?%s %v %d %s", q.Method, q.Proto, q.Query, q.Hdr, q.BodySize, q.Ctx)
}

func (q request) done() bool { return q.Ctx == "canceled" || q.Ctx == "exceeded" }

func (q request) ctxErr() error {
	switch q.Ctx {
	case "canceled":
		return context.Canceled
	case "exceeded":
		return context.DeadlineExceeded
	}
	return nil
}

func (q request) body() []byte {
	if q.BodySize == 0 {
		return nil
	}
	return fill(1, 0, q.BodySize)
}

func (q request) version() (major, minor int) {
	switch q.Proto {
	case "HTTP/1.0":
		return 1, 0
	case "HTTP/2.0":
		return 2, 0
	}
	return 1, 1
}

// short description for the input-distribution histogram
func (q request) class() string {
	m := q.Method
	switch m {
	case "GET", "HEAD", "POST", "PUT", "OPTIONS":
	case "PATCH", "DELETE":
		m = "PATCH/DELETE"
	default:
		m = "extension method"
	}
	return m
}

var (
	methods   = []string{"GET", "HEAD", "POST", "PUT", "PATCH", "DELETE", "OPTIONS", "PURGE", "PROPFIND"}
	protos    = []string{"HTTP/1.1", "HTTP/1.0", "HTTP/2.0"}
	ctxStates = []string{"live", "ahead", "canceled", "exceeded"}
	queries   = []string{"a=1", "q=%3Cscript%3E&x=%20y", "stream=1&partial=true&_method=HEAD"}
	hdrSets   = [][][2]string{
		{{"Accept", "text/html,application/xhtml+xml;q=0.9,*/*;q=0.8"}, {"Accept-Language", "en"}},
		{{"Accept", "application/json"}},
		{{"Range", "bytes=0-9"}},
		{{"If-None-Match", `"abc"`}, {"If-Modified-Since", "Mon, 02 Jan 2006 15:04:05 GMT"}},
		{{"Connection", "close"}},
		{{"Connection", "keep-alive"}},
		{{"Accept-Encoding", "gzip, br"}, {"Cache-Control", "no-cache"}, {"X-Requested-With", "XMLHttpRequest"}},
		{{"HX-Request", "true"}, {"Te", "trailers"}, {"X-Forwarded-Proto", "https"}, {"X-Http-Method-Override", "HEAD"}},
	}
)

func hasBody(m string) bool { return m == "POST" || m == "PUT" || m == "PATCH" }

// bodyOK: net/http's server does not drain an unread request body on a connection it closes after the reply
// (HTTP/1.0 without keep-alive, Connection: close), so closing resets the connection under the response;
// templ's handler never reads the body, so such requests carry none.
func (q request) bodyOK() bool {
	if q.Proto == "HTTP/1.0" {
		return false
	}
	for _, h := range q.Hdr {
		if h[0] == "Connection" {
			return false
		}
	}
	return true
}

// reqList: the structured requests, the plain GET first. Every method x protocol version x context state,
// then header sets, bodies and query strings on a few methods.
var reqList = func() []request {
	var l []request
	for _, cx := range ctxStates {
		for _, p := range protos {
			for _, m := range methods {
				q := request{Method: m, Proto: p, Ctx: cx}
				if hasBody(m) && q.bodyOK() {
					q.BodySize = 11
				}
				l = append(l, q)
			}
		}
	}
	for _, h := range hdrSets {
		for _, m := range []string{"GET", "HEAD", "POST"} {
			q := request{Method: m, Proto: "HTTP/1.1", Hdr: h, Ctx: "live"}
			if hasBody(m) && q.bodyOK() {
				q.BodySize = 30
			}
			l = append(l, q)
		}
	}
	for _, n := range []int{5000, 70000} {
		for _, m := range []string{"POST", "PUT"} {
			l = append(l, request{Method: m, Proto: "HTTP/1.1", BodySize: n, Hdr: [][2]string{{"Content-Type", "application/x-www-form-urlencoded"}}, Ctx: "live"})
		}
	}
	for _, qs := range queries {
		for _, m := range []string{"GET", "HEAD"} {
			l = append(l, request{Method: m, Proto: "HTTP/1.1", Query: qs, Ctx: "live"})
		}
	}
	l = append(l, request{Method: "OPTIONS", Proto: "HTTP/1.0", Query: "a=1", Hdr: hdrSets[5], Ctx: "ahead"})
	return l // 143 requests = 11 x 13, coprime to the periods of product()'s loops
}()

func randRequest(r *rng.R) request {
	if r.Intn(3) == 0 {
		return rng.Pick(r, reqList)
	}
	q := request{Method: "GET", Proto: "HTTP/1.1", Ctx: "live"}
	switch x := r.Intn(10); {
	case x < 3:
	case x < 6:
		q.Method = "HEAD"
	default:
		q.Method = rng.Pick(r, methods)
	}
	switch r.Intn(8) {
	case 0, 1:
		q.Proto = "HTTP/1.0"
	case 2:
		q.Proto = "HTTP/2.0"
	}
	if r.Intn(3) == 0 {
		q.Ctx = rng.Pick(r, ctxStates)
	}
	if r.Intn(3) == 0 {
		q.Query = rng.Pick(r, queries)
	}
	for n := r.Intn(3); n > 0; n-- {
		set := rng.Pick(r, hdrSets)
		h := rng.Pick(r, set)
		dup := false
		for _, e := range q.Hdr {
			dup = dup || e[0] == h[0]
		}
		if !dup {
			q.Hdr = append(q.Hdr, h)
		}
	}
	if hasBody(q.Method) || (q.Method != "GET" && q.Method != "HEAD" && r.Intn(4) == 0) {
		q.BodySize = rng.Pick(r, []int{0, 1, 11, 300, 5000})
	}
	if !q.bodyOK() {
		q.BodySize = 0
	}
	return q
}

// ---------- what the component and the error handler are given ----------

// probe records, for one served request, what templ's handler handed to the component and to the error
// handler: the model says the component is rendered once with r.Context() and the error handler gets r itself.
type probe struct {
	req      *http.Request // the request the handler under test is called with
	renders  int
	ctxOK    bool
	wrote    int
	failed   bool
	writeErr bool // a Write of the component returned an error
	ehCalls  int
	ehReqOK  bool
	finished chan struct{}
}

func newProbe() *probe { return &probe{ctxOK: true, ehReqOK: true, finished: make(chan struct{})} }

// underContext is the middleware in front of the handler under test: it puts the request's context into
// the state the case asks for and notes the request the handler is called with.
func underContext(h http.Handler, q request, p *probe) http.Handler {
	return http.HandlerFunc(func(w http.ResponseWriter, r *http.Request) {
		ctx := r.Context()
		cancel := context.CancelFunc(func() {})
		switch q.Ctx {
		case "ahead":
			ctx, cancel = context.WithTimeout(ctx, time.Hour)
		case "canceled":
			ctx, cancel = context.WithCancel(ctx)
			cancel()
		case "exceeded":
			ctx, cancel = context.WithDeadline(ctx, time.Unix(0, 0))
		}
		defer cancel()
		if q.Ctx != "live" && q.Ctx != "" {
			r = r.WithContext(ctx)
		}
		if p != nil {
			p.req = r
			defer close(p.finished)
		}
		h.ServeHTTP(w, r)
	})
}

// ---------- drivers ----------

func (q request) newRecorderRequest() *http.Request {
	var body io.Reader
	if q.BodySize > 0 {
		body = bytes.NewReader(q.body())
	}
	target := "http://example.com/0"
	if q.Query != "" {
		target += "?" + q.Query
	}
	req := httptest.NewRequest(q.Method, target, body)
	for _, h := range q.Hdr {
		req.Header.Add(h[0], h[1])
	}
	req.ProtoMajor, req.ProtoMinor = q.version()
	req.Proto = q.Proto
	return req
}

// viaRecorder: the handler's calls on its ResponseWriter as httptest.ResponseRecorder records them
// (the recorder keeps the body whatever the method).
func viaRecorder(h http.Handler, q request) response {
	rec := httptest.NewRecorder()
	h.ServeHTTP(rec, q.newRecorderRequest())
	res := rec.Result()
	body, _ := io.ReadAll(res.Body)
	return project(res, body, q, false, nil)
}

// fetch sends the request to the real server: through net/http's client for HTTP/1.1 and HTTP/2 (the
// TLS server), written on a raw connection for HTTP/1.0 (which the client cannot speak).
func (s *server) fetch(path string, q request) response {
	defer func() {
		s.mu.Lock()
		delete(s.hs, path)
		s.mu.Unlock()
	}()
	target := path
	if q.Query != "" {
		target += "?" + q.Query
	}
	var res *http.Response
	var err error
	var conn net.Conn
	if q.Proto == "HTTP/1.0" {
		conn, err = net.Dial("tcp", s.ts.Listener.Addr().String())
		if err != nil {
			return response{Status: -1, Err: err.Error(), CL: -1}
		}
		defer conn.Close()
		_ = conn.SetDeadline(time.Now().Add(30 * time.Second))
		var b bytes.Buffer
		fmt.Fprintf(&b, "%s %s HTTP/1.0\r\nHost: %s\r\n", q.Method, target, s.ts.Listener.Addr().String())
		for _, h := range q.Hdr {
			fmt.Fprintf(&b, "%s: %s\r\n", h[0], h[1])
		}
		if q.BodySize > 0 {
			fmt.Fprintf(&b, "Content-Length: %d\r\n", q.BodySize)
		}
		b.WriteString("\r\n")
		b.Write(q.body())
		if _, err = conn.Write(b.Bytes()); err == nil {
			res, err = http.ReadResponse(bufio.NewReader(conn), &http.Request{Method: q.Method})
		}
	} else {
		var body io.Reader
		if q.BodySize > 0 {
			body = bytes.NewReader(q.body())
		}
		base, cli := s.ts.URL, s.cli
		if q.Proto == "HTTP/2.0" {
			base, cli = s.ts2.URL, s.cli2
		}
		var req *http.Request
		req, err = http.NewRequest(q.Method, base+target, body)
		if err == nil {
			for _, h := range q.Hdr {
				if q.Proto == "HTTP/2.0" && (h[0] == "Connection" || h[0] == "Te") {
					continue // connection-specific fields do not exist in HTTP/2
				}
				req.Header.Add(h[0], h[1])
			}
			res, err = cli.Do(req)
		}
		if err == nil && q.Proto == "HTTP/2.0" {
			s.mu.Lock()
			s.nH2++
			if res.ProtoMajor != 2 {
				s.h2OK = false
			}
			s.mu.Unlock()
		}
	}
	if err != nil {
		return response{Status: -1, Err: err.Error(), CL: -1}
	}
	body, rerr := io.ReadAll(res.Body)
	res.Body.Close()
	ok := true
	r := project(res, body, q, true, &ok)
	if !ok {
		s.mu.Lock()
		s.clOK = false
		s.mu.Unlock()
	}
	if rerr != nil {
		r.Err = rerr.Error()
	}
	return r
}

func (s *server) run(h http.Handler, q request) response { return s.fetch(s.register(h), q) }

// project: the observed response. Over the server the hop-by-hop and framing fields net/http adds are
// left out (Date, Connection, Content-Length - the latter checked against the body received; in reply to
// HEAD it announces the body a GET would get and is kept aside in CL).
func project(res *http.Response, body []byte, q request, server bool, clOK *bool) response {
	r := response{Status: res.StatusCode, Body: body, CL: -1}
	for k, v := range res.Header {
		if server && (k == "Date" || k == "Connection") {
			continue
		}
		if server && k == "Content-Length" {
			n, err := strconv.Atoi(strings.Join(v, ","))
			switch {
			case err != nil:
				*clOK = false
			case q.Method == "HEAD":
				r.CL = n
			case n != len(body):
				*clOK = false
			}
			continue
		}
		r.Hdr = append(r.Hdr, [2]string{k, strings.Join(v, ", ")})
	}
	sortHdr(r.Hdr)
	return r
}

// ---------- encoding for the extracted model ----------

func encRequest(q request) [][]byte {
	ctx := q.Ctx
	if ctx == "" {
		ctx = "live"
	}
	major, minor := q.version()
	a := [][]byte{[]byte(q.Method), itoa(major), itoa(minor), []byte(q.Query), []byte(ctx), itoa(len(q.Hdr))}
	for _, h := range q.Hdr {
		a = append(a, []byte(h[0]), []byte(h[1]))
	}
	return append(a, q.body())
}

// viaCode: how the response was observed - "s" by the HTTP client, "r" at the ResponseWriter.
func viaCode(via string) []byte {
	if via == "server" {
		return []byte("s")
	}
	return []byte("r")
}
