// Package c11: templ.Handler (handler.go) - buffered responses are all-or-nothing; streamed ones are not.
//
// The real handler is built with the exported options (WithStatus, WithContentType, WithErrorHandler,
// WithStreaming) around components that write k chunks and then succeed or fail, and is driven twice:
// into an httptest.ResponseRecorder and through a real httptest.Server round trip, with requests of every
// method, protocol version (HTTP/1.0, 1.1, 2), header set, body and context state (request.go). The
// extracted model (coq/model/Handler.v) runs the same request and configuration; the extracted
// specification predicate (coq/spec/HandlerSpec.v: all_or_nothing_b, and all_or_nothing_wire_b for what
// the client of a HEAD receives) is evaluated on the real response.
package c11

import (
	"context"
	"errors"
	"fmt"
	"io"
	"log"
	"net"
	"net/http"
	"net/http/httptest"
	"os"
	"runtime"
	"sort"
	"strconv"
	"strings"
	"sync"
	"syscall"
	"time"

	"github.com/a-h/templ"

	"verifharness/internal/core"
	"verifharness/internal/drv"
	"verifharness/internal/rng"
)

func init() { core.Register("C11", Run) }

// ---------- cases ----------

// op is one call an error handler makes on the ResponseWriter.
//
//	S k v: Header().Set   D k: Header().Del   H code: WriteHeader   W p: Write   E msg code: http.Error
//	R k: Header().Set(k, r.Method + " " + r.URL.RawQuery + " " + r.Proto) - an error handler that looks at the request
type op struct {
	Kind string `json:"kind"`
	A    string `json:"a"`
	B    string `json:"b,omitempty"`
}

type config struct {
	Status int     `json:"status"`        // 0 = WithStatus not used
	CT     *string `json:"content_type"`  // nil = WithContentType not used (templ's default)
	EH     *[]op   `json:"error_handler"` // nil = WithErrorHandler not used
	Stream bool    `json:"streaming"`
}

type outcome struct {
	Sizes []int  `json:"chunk_sizes"`
	Seed  uint64 `json:"chunk_seed"` // chunk i holds fill(seed, i, size)
	Fails bool   `json:"fails"`
	// which error value Render returns when it fails (see errKinds); "" = "plain"
	ErrKind string `json:"error_kind,omitempty"`
	// the component consults ctx.Err() before writing anything and returns it: with a request whose
	// context is already cancelled or expired it writes nothing and fails, whatever Sizes and Fails say
	Aware bool `json:"context_aware,omitempty"`
}

type tcase struct {
	Cfg config  `json:"config"`
	Out outcome `json:"component"`
	Req request `json:"request"`
}

// eff: what the component of the case does given the request's context.
func (tc tcase) eff() outcome {
	if tc.Out.Aware && tc.Req.done() {
		return outcome{Seed: tc.Out.Seed, Fails: true, ErrKind: "the request context's Err()", Aware: true}
	}
	return tc.Out
}

type response struct {
	Status int         `json:"status"`
	Hdr    [][2]string `json:"headers"`
	Body   []byte      `json:"-"`
	Err    string      `json:"transport_error,omitempty"`
	CL     int         `json:"-"` // Content-Length announced in reply to a HEAD over the server, -1: none
}

func sortHdr(h [][2]string) { sort.Slice(h, func(i, j int) bool { return h[i][0] < h[j][0] }) }

const defaultCT = "text/html; charset=utf-8"

const componentErrBody = "templ: failed to render template\n"

func (c config) ctype() string {
	if c.CT == nil {
		return defaultCT
	}
	return *c.CT
}

// fill produces the bytes of chunk i: a recognisable tag followed by pseudo-random printable filler.
func fill(seed uint64, i, n int) []byte {
	b := make([]byte, 0, n)
	tag := fmt.Sprintf("<c%d.%d>", seed%1000, i)
	x := seed*0x9E3779B97F4A7C15 + uint64(i)*0xBF58476D1CE4E5B9 + 1
	for len(b) < n {
		if len(b) < len(tag) {
			b = append(b, tag[len(b)])
			continue
		}
		x ^= x << 13
		x ^= x >> 7
		x ^= x << 17
		b = append(b, byte(0x20+x%0x5f))
	}
	return b
}

func (o outcome) chunks() [][]byte {
	r := make([][]byte, len(o.Sizes))
	for i, n := range o.Sizes {
		r[i] = fill(o.Seed, i, n)
	}
	return r
}

var errRender = errors.New("c11: component failed")

// ---------- the error values a failing component returns ----------
// The handler may not treat any non-nil error as success: the kind of error is a dimension of the cases.

type ptrErr struct{ msg string }

func (e *ptrErr) Error() string { // a nil *ptrErr stored in an error interface is a non-nil error
	if e == nil {
		return "c11: typed nil error"
	}
	return e.msg
}

type isAnything struct{}

func (isAnything) Error() string        { return "c11: error that claims to be every error" }
func (isAnything) Is(target error) bool { return true }

type timeoutErr struct{}

func (timeoutErr) Error() string   { return "c11: i/o timeout" }
func (timeoutErr) Timeout() bool   { return true }
func (timeoutErr) Temporary() bool { return true }

type errKind struct {
	name string
	mk   func() error
}

func cancelledSubContextErr() error {
	sub, cancel := context.WithCancel(context.Background())
	cancel()
	return sub.Err()
}

func expiredSubContextErr() error {
	sub, cancel := context.WithDeadline(context.Background(), time.Unix(0, 0))
	defer cancel()
	<-sub.Done()
	return sub.Err()
}

var errKinds = []errKind{
	{"plain", func() error { return errRender }},
	{"context.Canceled", func() error { return context.Canceled }},
	{"context.DeadlineExceeded", func() error { return context.DeadlineExceeded }},
	{"wrapped context.Canceled", func() error { return fmt.Errorf("loading items: %w", context.Canceled) }},
	{"wrapped context.DeadlineExceeded", func() error { return fmt.Errorf("query: %w", context.DeadlineExceeded) }},
	{"Err() of a cancelled sub-context", cancelledSubContextErr},
	{"Err() of an expired sub-context", expiredSubContextErr},
	{"io.EOF", func() error { return io.EOF }},
	{"io.ErrUnexpectedEOF", func() error { return io.ErrUnexpectedEOF }},
	{"io.ErrShortWrite", func() error { return io.ErrShortWrite }},
	{"io.ErrClosedPipe", func() error { return io.ErrClosedPipe }},
	{"http.ErrAbortHandler", func() error { return http.ErrAbortHandler }},
	{"http.ErrHandlerTimeout", func() error { return http.ErrHandlerTimeout }},
	{"http.ErrBodyNotAllowed", func() error { return http.ErrBodyNotAllowed }},
	{"syscall.EPIPE", func() error { return syscall.EPIPE }},
	{"syscall.ECONNRESET", func() error { return syscall.ECONNRESET }},
	{"net.OpError{write, EPIPE}", func() error { return &net.OpError{Op: "write", Net: "tcp", Err: syscall.EPIPE} }},
	{"net.ErrClosed", func() error { return net.ErrClosed }},
	{"os.ErrDeadlineExceeded", func() error { return os.ErrDeadlineExceeded }},
	{"os.ErrNotExist", func() error { return os.ErrNotExist }},
	{"empty message", func() error { return errors.New("") }},
	{"wrapped plain", func() error { return fmt.Errorf("render: %w", errRender) }},
	{"templ.Error{plain}", func() error { return templ.Error{Err: errRender, Line: 3, Col: 7} }},
	{"templ.Error{context.Canceled}", func() error { return templ.Error{Err: context.Canceled, Line: 1, Col: 2} }},
	{"templ.Error{context.DeadlineExceeded}", func() error { return templ.Error{Err: context.DeadlineExceeded, FileName: "x.templ"} }},
	{"templ.Error{io.EOF}", func() error { return templ.Error{Err: io.EOF} }},
	{"templ.Error{nil}", func() error { return templ.Error{} }},
	{"errors.Join(plain, context.Canceled)", func() error { return errors.Join(errRender, context.Canceled) }},
	{"errors.Join(io.EOF)", func() error { return errors.Join(io.EOF) }},
	{"typed nil pointer", func() error { var p *ptrErr; return p }},
	{"Is() true for every target", func() error { return isAnything{} }},
	{"net.Error-like timeout", func() error { return timeoutErr{} }},
}

func errName(o outcome) string {
	if o.ErrKind == "" {
		return "plain"
	}
	return o.ErrKind
}

func mkErr(kind string) error {
	for _, k := range errKinds {
		if k.name == kind {
			return k.mk()
		}
	}
	return errRender
}

func sameErr(a, b error) (ok bool) {
	defer func() {
		if recover() != nil {
			ok = false
		}
	}()
	return a == b
}

// compOpts: how the component behaves besides what it writes.
type compOpts struct {
	blockAt int           // block after this many chunks (when gate != nil) until the gate opens
	reached chan struct{} // closed when the component is blocked mid-render
	gate    chan struct{}
	yield   bool // let other goroutines run between chunks
	aware   bool // return ctx.Err() before writing anything if the context is done
	probe   *probe
}

func component(chunks [][]byte, err error, co *compOpts) templ.Component {
	return templ.ComponentFunc(func(ctx context.Context, w io.Writer) (rerr error) {
		if co != nil && co.probe != nil {
			p := co.probe
			p.renders++
			if p.req == nil || ctx != p.req.Context() {
				p.ctxOK = false
			}
			w = countingWriter{w, p}
			defer func() { p.failed = rerr != nil }()
		}
		if co != nil && co.aware {
			if cerr := ctx.Err(); cerr != nil {
				return cerr
			}
		}
		for i, ch := range chunks {
			if co != nil && co.gate != nil && i == co.blockAt {
				close(co.reached)
				select {
				case <-co.gate:
				case <-time.After(20 * time.Second):
				}
			}
			if co != nil && co.yield {
				runtime.Gosched()
			}
			if _, werr := w.Write(ch); werr != nil {
				return werr
			}
		}
		if co != nil && co.gate != nil && co.blockAt >= len(chunks) {
			close(co.reached)
			select {
			case <-co.gate:
			case <-time.After(20 * time.Second):
			}
		}
		return err
	})
}

type countingWriter struct {
	w io.Writer
	p *probe
}

func (c countingWriter) Write(b []byte) (int, error) {
	n, err := c.w.Write(b)
	c.p.wrote += n
	if err != nil {
		c.p.writeErr = true
	}
	return n, err
}

func applyOps(w http.ResponseWriter, r *http.Request, ops []op) {
	for _, o := range ops {
		switch o.Kind {
		case "R":
			w.Header().Set(o.A, r.Method+" "+r.URL.RawQuery+" "+r.Proto)
		case "S":
			w.Header().Set(o.A, o.B)
		case "D":
			w.Header().Del(o.A)
		case "H":
			n, _ := strconv.Atoi(o.A)
			w.WriteHeader(n)
		case "W":
			_, _ = w.Write([]byte(o.A))
		case "E":
			n, _ := strconv.Atoi(o.B)
			http.Error(w, o.A, n)
		}
	}
}

func opsHandler(ops []op) http.Handler {
	return http.HandlerFunc(func(w http.ResponseWriter, r *http.Request) { applyOps(w, r, ops) })
}

// handlerFor builds the real templ handler for a case, through the exported API only, behind the
// middleware that puts the request's context into the state the case asks for.
func handlerFor(tc tcase, chunks [][]byte, p *probe) http.Handler {
	return handlerForOpt(tc, chunks, &compOpts{probe: p})
}

func handlerForOpt(tc tcase, chunks [][]byte, co *compOpts) http.Handler {
	if co == nil {
		co = &compOpts{}
	}
	co.aware = tc.Out.Aware
	p := co.probe
	var compErr error // what the component returns after its chunks
	if tc.Out.Fails {
		compErr = mkErr(tc.Out.ErrKind)
	}
	renderErr := compErr // what Render returns, which the error handler must be given
	if tc.Out.Aware && tc.Req.done() {
		renderErr = tc.Req.ctxErr()
	}
	var opts []func(*templ.ComponentHandler)
	if tc.Cfg.Status != 0 {
		opts = append(opts, templ.WithStatus(tc.Cfg.Status))
	}
	if tc.Cfg.CT != nil {
		opts = append(opts, templ.WithContentType(*tc.Cfg.CT))
	}
	if tc.Cfg.EH != nil {
		ops := *tc.Cfg.EH
		opts = append(opts, templ.WithErrorHandler(func(r *http.Request, err error) http.Handler {
			if !sameErr(err, renderErr) { // the error handler must be given the component's own error
				return http.HandlerFunc(func(w http.ResponseWriter, r *http.Request) {
					http.Error(w, "c11: error handler received a different error", 599)
				})
			}
			if p != nil {
				p.ehCalls++
				if r != p.req {
					p.ehReqOK = false
				}
				return http.HandlerFunc(func(w http.ResponseWriter, r2 *http.Request) {
					if r2 != p.req {
						p.ehReqOK = false
					}
					applyOps(w, r2, ops)
				})
			}
			return opsHandler(ops)
		}))
	}
	if tc.Cfg.Stream {
		opts = append(opts, templ.WithStreaming())
	}
	return underContext(templ.Handler(component(chunks, compErr, co), opts...), tc.Req, p)
}

// ---------- drivers: recorder and real server ----------

type server struct {
	ts   *httptest.Server // HTTP/1.x
	ts2  *httptest.Server // HTTP/2 (over TLS)
	mu   sync.RWMutex
	hs   map[string]http.Handler
	next int
	clOK bool
	h2OK bool // every request meant for HTTP/2 was served over HTTP/2
	nH2  int
	cli  *http.Client
	cli2 *http.Client
}

func (s *server) close() {
	s.ts.Close()
	s.ts2.Close()
}

func newServer() *server {
	s := &server{hs: map[string]http.Handler{}, clOK: true, h2OK: true}
	mux := http.HandlerFunc(func(w http.ResponseWriter, r *http.Request) {
		s.mu.RLock()
		h := s.hs[r.URL.Path]
		s.mu.RUnlock()
		if h == nil {
			http.Error(w, "c11: no such case", 598)
			return
		}
		h.ServeHTTP(w, r)
	})
	s.ts = httptest.NewUnstartedServer(mux)
	s.ts.Config.ErrorLog = log.New(io.Discard, "", 0) // "superfluous WriteHeader" from the streamed error path
	s.ts.Start()
	s.cli = s.ts.Client()
	s.ts2 = httptest.NewUnstartedServer(mux)
	s.ts2.Config.ErrorLog = log.New(io.Discard, "", 0)
	s.ts2.EnableHTTP2 = true
	s.ts2.StartTLS()
	s.cli2 = s.ts2.Client()
	return s
}

func (s *server) register(h http.Handler) string {
	s.mu.Lock()
	s.next++
	p := "/" + strconv.Itoa(s.next)
	s.hs[p] = h
	s.mu.Unlock()
	return p
}

// ehAloneHandler: the error handler on its own, on a writer on which only the configured
// Content-Type has been set - the independent reference for "exactly what the error handler wrote".
func ehAloneHandler(ops []op, ct string) http.Handler {
	return http.HandlerFunc(func(w http.ResponseWriter, r *http.Request) {
		w.Header().Set("Content-Type", ct)
		applyOps(w, r, ops)
	})
}

// ---------- encoding for the extracted model ----------

func itoa(n int) []byte { return []byte(strconv.Itoa(n)) }
func flag(b bool) []byte {
	if b {
		return []byte("1")
	}
	return []byte("0")
}

func encOps(ops []op) [][]byte {
	a := [][]byte{itoa(len(ops))}
	for _, o := range ops {
		a = append(a, []byte(o.Kind), []byte(o.A), []byte(o.B))
	}
	return a
}

func encResp(r response) [][]byte {
	st := r.Status
	if st < 0 {
		st = 0
	}
	a := [][]byte{itoa(st), itoa(len(r.Hdr))}
	for _, kv := range r.Hdr {
		a = append(a, []byte(kv[0]), []byte(kv[1]))
	}
	return append(a, r.Body)
}

func serveReq(tc tcase, via string, chunks [][]byte, real, ehr response) drv.Req {
	mode := "b"
	if tc.Cfg.Stream {
		mode = "s"
	}
	a := append([][]byte{viaCode(via)}, encRequest(tc.Req)...)
	a = append(a, []byte(mode), itoa(tc.Cfg.Status), []byte(tc.Cfg.ctype()), flag(tc.Out.Aware), flag(tc.Out.Fails), itoa(len(chunks)))
	a = append(a, chunks...)
	if tc.Cfg.EH != nil {
		a = append(a, flag(true))
		a = append(a, encOps(*tc.Cfg.EH)...)
	} else {
		a = append(a, flag(false), itoa(0))
	}
	a = append(a, encResp(real)...)
	a = append(a, encResp(ehr)...)
	return drv.Req{Fn: "serve", Args: a}
}

func sameResp(a, b response) bool {
	if a.Status != b.Status || a.Err != b.Err || a.CL != b.CL || len(a.Hdr) != len(b.Hdr) || string(a.Body) != string(b.Body) {
		return false
	}
	for i := range a.Hdr {
		if a.Hdr[i] != b.Hdr[i] {
			return false
		}
	}
	return true
}

// ---------- generators ----------

var (
	statuses = []int{0, 200, 201, 404, 500}
	ctJSON   = "application/json"
	ctPlain  = "text/plain; charset=utf-8" // the type http.Error uses: a document of this type must still not be confused with the error
	ctEmpty  = ""
	ctypes   = []*string{nil, &ctJSON, &ctPlain, &ctEmpty}
	ehs      = []*[]op{
		nil,
		{}, // writes nothing
		{{Kind: "S", A: "X-Err", B: "render"}, {Kind: "H", A: "400"}, {Kind: "W", A: "custom body"}},
		{{Kind: "W", A: "oops"}}, // body only: implicit 200
		{{Kind: "H", A: "503"}},  // status only
		{{Kind: "S", A: "Content-Type", B: "application/problem+json"}, {Kind: "S", A: "Cache-Control", B: "no-store"}, {Kind: "H", A: "422"}, {Kind: "W", A: `{"title":"render failed"}`}},
		{{Kind: "E", A: "custom failure", B: "502"}},
		{{Kind: "R", A: "X-Req"}, {Kind: "H", A: "409"}, {Kind: "W", A: "conflict"}}, // looks at the request
	}
	smallPatterns  = [][]int{{}, {0}, {1}, {1, 1}, {3, 5, 4}, {1, 1, 1, 1, 1, 1, 1, 1}, {0, 1, 0}}
	mediumPatterns = [][]int{{4095}, {4096}, {4097}, {4096, 1}, {1, 4096}, {4096, 4096, 4096}, {4097, 4095, 1, 4096, 100}}
	hugePatterns   = [][]int{{65536, 65536, 1}, {65536, 65536, 65536}, {200000}, rep(4096, 40)}
	bigPatterns    = [][]int{{65535}, {65536}, {65537}, {65536, 1}, {1, 65536}, {65536, 65536}, {4096, 65536, 1}}
)

func rep(n, k int) []int {
	r := make([]int, k)
	for i := range r {
		r[i] = n
	}
	return r
}

func product(sts []int, cts []*string, es []*[]op, pats [][]int, seed *uint64) []tcase {
	var r []tcase
	for _, pat := range pats {
		for _, fails := range []bool{true, false} {
			for _, st := range sts {
				for _, ct := range cts {
					for _, eh := range es {
						for _, stream := range []bool{false, true} {
							*seed++
							o := outcome{Sizes: pat, Seed: *seed, Fails: fails, Aware: *seed%4 == 1}
							if fails {
								o.ErrKind = errKinds[int(*seed%uint64(len(errKinds)))].name
							}
							// the request cycles through the structured list (whose length is prime), so that every
							// request meets every error handler, mode and outcome
							r = append(r, tcase{config{st, ct, eh, stream}, o, reqList[int(*seed%uint64(len(reqList)))]})
						}
					}
				}
			}
		}
	}
	return r
}

var (
	hdrKeys  = []string{"X-Err", "Cache-Control", "X-Request-Id", "Content-Type", "X-Content-Type-Options", "Content-Language", "Content-Length"}
	hdrVals  = []string{"1", "no-store", "text/plain; charset=utf-8", "application/problem+json", "nosniff", "en", "render failed", ""}
	codes    = []int{200, 201, 202, 400, 401, 403, 404, 418, 422, 500, 502, 503, 599}
	payloads = []string{"", "x", "custom body", "templ: failed to render template\n", "<h1>Sorry</h1>", `{"error":true}`}
	rndCTs   = []string{"text/html", "text/html; charset=utf-8", "application/json", "text/plain; charset=utf-8", "", "application/xml", "text/csv", "image/svg+xml"}
)

func randOps(r *rng.R) []op {
	n := r.Intn(6)
	ops := make([]op, 0, n)
	for i := 0; i < n; i++ {
		if r.Intn(12) == 0 {
			ops = append(ops, op{Kind: "R", A: rng.Pick(r, []string{"X-Req", "X-Err", "X-Request-Id"})})
			continue
		}
		switch r.Intn(8) {
		case 0, 1:
			k := rng.Pick(r, hdrKeys)
			if k == "Content-Length" { // never set a wrong length; deleting it is what http.Error does
				ops = append(ops, op{Kind: "D", A: k})
				continue
			}
			ops = append(ops, op{Kind: "S", A: k, B: rng.Pick(r, hdrVals)})
		case 2:
			k := rng.Pick(r, hdrKeys)
			if k == "Content-Type" { // deleting the type makes net/http sniff one: outside the writer model
				k = "X-Err"
			}
			ops = append(ops, op{Kind: "D", A: k})
		case 3, 4:
			ops = append(ops, op{Kind: "H", A: strconv.Itoa(rng.Pick(r, codes))})
		case 5, 6:
			p := rng.Pick(r, payloads)
			if r.Intn(12) == 0 {
				p = string(fill(r.U64(), 0, 4000+r.Intn(200)))
			}
			ops = append(ops, op{Kind: "W", A: p})
		default:
			ops = append(ops, op{Kind: "E", A: rng.Pick(r, []string{"custom failure", "templ: failed to render template", ""}), B: strconv.Itoa(rng.Pick(r, codes))})
		}
	}
	return ops
}

func randSize(r *rng.R, bigOK bool) int {
	x := r.Intn(100)
	switch {
	case x < 55:
		return r.Intn(40)
	case x < 65:
		return 0
	case x < 90:
		return 4094 + r.Intn(5)
	case x < 96 || !bigOK:
		return 500 + r.Intn(9000)
	default:
		return 65534 + r.Intn(5)
	}
}

func randCase(r *rng.R, bigOK bool) tcase {
	var c config
	switch r.Intn(4) {
	case 0:
	case 1:
		c.Status = rng.Pick(r, []int{200, 201, 202, 400, 404, 418, 500, 503})
	default:
		for {
			c.Status = 200 + r.Intn(400)
			if c.Status != 204 && c.Status != 304 { // statuses that forbid a body are outside the writer model
				break
			}
		}
	}
	if r.Intn(3) != 0 {
		ct := rng.Pick(r, rndCTs)
		c.CT = &ct
	}
	if r.Intn(5) != 0 {
		ops := randOps(r)
		c.EH = &ops
	}
	c.Stream = r.Intn(4) == 0
	k := r.Intn(9)
	o := outcome{Seed: r.U64(), Fails: r.Intn(3) != 0, Aware: r.Intn(4) == 0}
	if o.Fails {
		o.ErrKind = errKinds[r.Intn(len(errKinds))].name
	}
	big := 0
	for i := 0; i < k; i++ {
		n := randSize(r, bigOK && big < 2)
		if n > 60000 {
			big++
		}
		o.Sizes = append(o.Sizes, n)
	}
	return tcase{c, o, randRequest(r)}
}

// ---------- the check ----------

type obs struct {
	tc   tcase
	via  string // recorder | server | both
	real response
	ehr  response
	prev int // index of the case served just before this one (pool history), -1 if none
	// filled in once the observation has been checked and its bodies released
	bodyLen int
	head    string
}

func ehKind(c config) string {
	if c.EH == nil {
		return "none"
	}
	if len(*c.EH) == 0 {
		return "silent"
	}
	return "writes"
}

func sizeClass(sz []int) string {
	t, m := 0, 0
	for _, n := range sz {
		t += n
		if n > m {
			m = n
		}
	}
	switch {
	case len(sz) == 0:
		return "no chunks"
	case t == 0:
		return "empty chunks only"
	case m < 4095:
		return "chunks < 4 KB"
	case m < 65535:
		return "a chunk around 4 KB..64 KB"
	default:
		return "a chunk around 64 KB"
	}
}

func total(sz []int) int {
	t := 0
	for _, n := range sz {
		t += n
	}
	return t
}

func describeInput(o obs, all []obs) map[string]any {
	in := map[string]any{"config": o.tc.Cfg, "component": o.tc.Out, "request": o.tc.Req, "via": o.via,
		"response": map[string]any{"status": o.real.Status, "headers": o.real.Hdr, "body_len": len(o.real.Body), "body_head": clip(o.real.Body, 160), "transport_error": o.real.Err},
		"how":      "templ.Handler(component, options from config) where the component writes chunk i = fill(chunk_seed, i, chunk_sizes[i]) (harness/internal/c11) to its io.Writer and then returns an error iff fails (context_aware: it first returns ctx.Err() if that is non-nil); served with the request: method, protocol version, path + raw_query, headers, a body of body_size bytes, r.Context() put into the state 'context' by a middleware (live | ahead: deadline in an hour | canceled | exceeded: deadline passed); via recorder: handler.ServeHTTP(httptest.NewRecorder(), request); via server: the request sent to an httptest.Server (HTTP/1.0 written on a raw connection) and the response as the client receives it"}
	if o.tc.Cfg.EH != nil {
		in["error_handler_alone_response"] = map[string]any{"status": o.ehr.Status, "headers": o.ehr.Hdr, "body_len": len(o.ehr.Body), "body_head": clip(o.ehr.Body, 160)}
	}
	if total(o.tc.Out.Sizes) <= 200 {
		var lit []string
		for _, ch := range o.tc.Out.chunks() {
			lit = append(lit, string(ch))
		}
		in["chunks"] = lit
	}
	if o.prev >= 0 {
		p := all[o.prev]
		in["served_just_before"] = map[string]any{"config": p.tc.Cfg, "component": p.tc.Out, "request": p.tc.Req}
	}
	return in
}

func clip(b []byte, n int) string {
	if len(b) > n {
		return string(b[:n]) + "..."
	}
	return string(b)
}

// why names, for the reader of the replay, which clause of the property the response breaks
// (the verdict itself is the extracted predicate's).
func why(o obs) string {
	eff := o.tc.eff()
	doc := strings.Join(func() []string {
		var s []string
		for _, ch := range eff.chunks() {
			s = append(s, string(ch))
		}
		return s
	}(), "")
	body := string(o.real.Body)
	if o.real.Err != "" || o.real.Status < 0 {
		return "the request failed in transport: " + o.real.Err
	}
	if o.via == "server" && o.tc.Req.Method == "HEAD" { // only status line and header section reach the client
		switch {
		case len(body) > 0:
			return fmt.Sprintf("%d body bytes in reply to HEAD", len(body))
		case !eff.Fails:
			return fmt.Sprintf("rendering succeeded; the HEAD was answered with status %d / headers %v instead of the configured status and content type", o.real.Status, o.real.Hdr)
		case o.tc.Cfg.EH == nil:
			return fmt.Sprintf("rendering failed; the HEAD was answered with status %d / headers %v instead of the default error response's (500, text/plain, nosniff) - not what a GET of the same resource gets", o.real.Status, o.real.Hdr)
		default:
			return fmt.Sprintf("rendering failed; the HEAD was answered with status %d / headers %v, not with what the configured error handler answers to the same request on its own (status %d / headers %v)", o.real.Status, o.real.Hdr, o.ehr.Status, o.ehr.Hdr)
		}
	}
	if !eff.Fails {
		switch {
		case body != doc && strings.HasPrefix(doc, body):
			return fmt.Sprintf("rendering succeeded but only %d of %d document bytes were sent (status %d)", len(body), len(doc), o.real.Status)
		case body != doc && strings.HasSuffix(body, doc):
			return fmt.Sprintf("rendering succeeded but %d foreign bytes precede the document (bytes of an earlier render)", len(body)-len(doc))
		case body != doc:
			return "rendering succeeded but the body is not the document"
		default:
			return fmt.Sprintf("complete document sent with status %d / headers %v instead of the configured status and content type", o.real.Status, o.real.Hdr)
		}
	}
	hasDoc := len(doc) > 0 && strings.Contains(body, doc)
	switch {
	case hasDoc && o.real.Status >= 400:
		return fmt.Sprintf("rendering failed and the response carries the partial document's bytes with error status %d", o.real.Status)
	case hasDoc:
		return fmt.Sprintf("rendering failed and the partial document was sent with status %d", o.real.Status)
	case o.tc.Cfg.EH == nil && o.real.Status != 500:
		return fmt.Sprintf("rendering failed and the default error text was sent with status %d instead of 500", o.real.Status)
	case o.tc.Cfg.EH == nil:
		return "rendering failed and the response is not the default error response (500, fixed message, text/plain, nosniff)"
	default:
		return fmt.Sprintf("rendering failed and the response (status %d, %d body bytes) is not what the configured error handler writes on its own (status %d, %d body bytes)", o.real.Status, len(body), o.ehr.Status, len(o.ehr.Body))
	}
}

func Run(c *core.Ctx) {
	c.Rule = "cases = (request, handler configuration, component outcome, transport): request = method (GET, HEAD, POST, PUT, PATCH, DELETE, OPTIONS, extension methods) x protocol version (HTTP/1.1 by net/http's client, HTTP/1.0 on a raw connection, HTTP/2 over TLS) x state of r.Context() (live, deadline ahead, already cancelled, deadline exceeded) x query string x header fields (Accept, Range, If-None-Match, Connection, ...) x body - 143 structured requests in full product with a set of configurations and outcomes, cycled through every other sweep, and random ones; configuration = status unset/set x content type default/set/empty x error handler unset/silent/writing headers, status, body x streaming off/on; outcome = k chunks (k = 0..8 and 40, sizes 0, 1, around 4096, around 65536, 200000) then success or failure with one of 32 kinds of error value (plain, context.Canceled/DeadlineExceeded bare, wrapped, from a sub-context, inside templ.Error or errors.Join, io/net/syscall/http sentinels, typed nil, Is()-everything ...), and context-aware components that return ctx.Err() without writing when the request's context is done; each served by the real templ.Handler into an httptest.ResponseRecorder and over a real httptest.Server round trip; and the component as a dimension of its own (combos.go): compositions of templ's own combinators - ComponentFunc, Raw, Join, Flush with children (in generated code, by hand inside a template, on a plain writer), OnceHandle.Once with children and WithComponent, templates regenerated from pages.templ by the tree's generator and compiled (holes, nesting, children blocks, loops, expressions), writers that fail after n bytes - 26 shapes with a failing component injected at every hole (before and after it writes, small and around the 4 KB buffer), a failing expression at every position, a failing writer around the whole and around every hole at every boundary, the request's context done, and random compositions; each rendered directly (Render contract) and served buffered (recorder and server; GET, HEAD, POST; status x error handler). distinct non-trivial = distinct (request, configuration, chunk sizes, fails, context-aware, transport) in which the component fails or writes at least 4095 bytes, and distinct (composition, configuration, request, transport) in which the composition fails"
	c.Trusted = append(c.Trusted,
		"specification spec/HandlerSpec.v (all_or_nothing over status, header map, body)",
		"specification spec/CompSpec.v (which document a composition of templ's combinators renders to, and when a failure point is reached); the expansion of the templates of harness/internal/c11/pages.templ into those combinators (combos.go: expand)",
		"extraction: ExtrOcamlBasic only; ocaml/driver.ml (hex line protocol); request decoding in coq/extract/X11.v",
		"net/http server and client, httptest.ResponseRecorder (their ResponseWriter behaviour is modelled in model/Handler.v and compared on every run)",
		"Go harness internal/c11 and the Go toolchain")
	c.Assume = append(c.Assume,
		"a component is described by what the handler can see of it: given the state of the context it is rendered with, the chunks it writes to its io.Writer and whether Render then returns an error (theorems: any function of the context state; correspondence: components that ignore the context and components that return ctx.Err() first; panics, writes after returning, a context cancelled during rendering are out of scope)",
		"compositions: the combinators modelled are ComponentFunc, Raw, Join, Flush, OnceHandle.Once, generated templates (ctx.Err() check, runtime.Buffer, InitializeContext, children blocks) and a writer failing after n bytes; the streamed handler is not driven with compositions (what reaches its ResponseWriter depends on the individual writes and flushes); attributes, scripts, CSS components and templ.Handler nested as a component are not part of the compositions",
		"an error handler is described by the ResponseWriter calls it makes given the request (theorems: any function of the request and the writer state); correspondence covers Header().Set/Del, WriteHeader, Write, http.Error and echoing method, query string and protocol version of the request into a header",
		"the request is a record of method, protocol version, target, header fields, body and context state; what a client receives is the response given to the ResponseWriter, without its body in reply to HEAD (client_view); request bodies are not sent on connections the server closes after the reply (HTTP/1.0, Connection: close), where net/http resets the connection over an unread body",
		"ResponseWriter model: final status codes 200..999 other than 204/304, Content-Type present at the first write (templ always sets it; an error handler deleting it would make net/http sniff a type), no write errors (handler.go ignores them)",
		"requests are served one after another against the buffer pool in the theorem C11_pooled_all_or_nothing; isolation of concurrently rendering requests is property C14 (the thorough tier still fires concurrent requests at the real server)")
	c.Proofs()

	seed := c.Seed * 1000003
	var cases []tcase
	// 1. the request as a dimension of its own: every structured request (method x protocol version x
	// context state, header sets, bodies, query strings; the plain GET first, so that the first failure is
	// minimal) x configuration x component outcome, the context-aware components included
	for _, rq := range reqList {
		for _, st := range []int{0, 201} {
			for _, eh := range []*[]op{nil, ehs[1], ehs[2], ehs[7]} {
				for _, stream := range []bool{false, true} {
					for _, o := range []outcome{
						{Sizes: []int{}, Fails: true}, {Sizes: []int{7}, Fails: true}, {Sizes: []int{5, 0, 9}, Fails: true},
						{Sizes: []int{5, 0, 9}}, {Sizes: []int{3, 4}, Aware: true}, {Sizes: []int{3, 4}, Fails: true, Aware: true}} {
						seed++
						o.Seed = seed
						if o.Fails {
							o.ErrKind = errKinds[int(seed%uint64(len(errKinds)))].name
						}
						cases = append(cases, tcase{config{st, nil, eh, stream}, o, rq})
					}
				}
			}
		}
	}
	c.Extra["structured_requests"] = len(reqList)
	nReqSweep := len(cases)
	c.Extra["cases_request_sweep"] = nReqSweep
	// 1a. full product of configurations on small outputs, the request cycling through the structured list
	cases = append(cases, product(statuses, ctypes, ehs, smallPatterns, &seed)...)
	nSmall := len(cases) - nReqSweep
	// 1b. every kind of error value a component can fail with x failure point x configuration
	for _, ek := range errKinds {
		for _, pat := range [][]int{{}, {7}, {5, 0, 9}} {
			for _, st := range []int{0, 201} {
				for _, eh := range []*[]op{nil, ehs[1], ehs[2]} {
					for _, stream := range []bool{false, true} {
						seed++
						cases = append(cases, tcase{config{st, nil, eh, stream}, outcome{Sizes: pat, Seed: seed, Fails: true, ErrKind: ek.name}, reqList[int(seed%uint64(len(reqList)))]})
					}
				}
			}
		}
	}
	c.Extra["error_kinds"] = len(errKinds)
	// 2. outputs around the 4 KB buffer sizes
	if c.Quick() {
		cases = append(cases, product([]int{0, 201}, []*string{nil, &ctJSON}, ehs, mediumPatterns, &seed)...)
	} else {
		cases = append(cases, product(statuses, ctypes, ehs, mediumPatterns, &seed)...)
	}
	// 3. outputs around 64 KB
	if c.Quick() {
		cases = append(cases, product([]int{0, 404}, []*string{nil}, []*[]op{nil, ehs[1], ehs[2]}, bigPatterns, &seed)...)
	} else {
		cases = append(cases, product([]int{0, 201, 404}, []*string{nil, &ctPlain}, ehs, append(bigPatterns, []int{65536, 65536, 65536}, []int{65537, 4096, 65535, 1}), &seed)...)
	}
	// 3b. outputs well beyond 128 KB and many-chunk outputs, on a few configurations
	cases = append(cases, product([]int{0}, []*string{nil}, []*[]op{nil, ehs[1]}, hugePatterns, &seed)...)
	nSweep := len(cases)
	// 4. random configurations, error handlers and outcomes
	nRand := c.N(3000, 60000)
	for i := 0; i < nRand; i++ {
		cases = append(cases, randCase(c.Rng, true))
	}
	c.Extra["cases_full_product_small"] = nSmall
	c.Extra["cases_sweep"] = nSweep
	c.Extra["cases_random"] = nRand

	srv := newServer()
	defer srv.close()

	// the error handler on its own, per (ops, content type, request), on each transport
	type ehKey struct{ ops, ct, req, via string }
	ehCache := map[ehKey]response{}
	ehAlone := func(cfg config, rq request, via string) response {
		if cfg.EH == nil {
			return response{CL: -1}
		}
		k := ehKey{fmt.Sprint(*cfg.EH), cfg.ctype(), rq.key(), via}
		if r, ok := ehCache[k]; ok {
			return r
		}
		h := ehAloneHandler(*cfg.EH, cfg.ctype())
		var r response
		if via == "server" {
			r = srv.run(h, rq)
		} else {
			r = viaRecorder(h, rq)
		}
		ehCache[k] = r
		return r
	}

	var all []obs
	var reqs []drv.Req
	flush := func(from int) {
		checkBatch(c, all, from, reqs)
		reqs = reqs[:0]
		for i := from; i < len(all); i++ { // keep only what the evidence samples need
			all[i].bodyLen, all[i].head = len(all[i].real.Body), clip(all[i].real.Body, 60)
			all[i].real.Body, all[i].ehr.Body = nil, nil
		}
	}
	// what the handler handed to the component and the error handler (see probe)
	handedOK, handedDetail, nStreamWriteErr := true, "", 0
	checkProbe := func(tc tcase, via string, p *probe, real response) {
		select {
		case <-p.finished:
		case <-time.After(20 * time.Second):
			if handedOK {
				handedOK, handedDetail = false, "the handler did not return"
			}
			return
		}
		eff := tc.eff()
		wantEH := 0
		if eff.Fails && tc.Cfg.EH != nil {
			wantEH = 1
		}
		problem := ""
		switch {
		case p.renders != 1:
			problem = fmt.Sprintf("the component was rendered %d times", p.renders)
		case !p.ctxOK:
			problem = "the component was not rendered with the request's context"
		case p.writeErr && tc.Cfg.Stream && via == "server":
			// the streamed component writes to the connection itself, and a write there can fail (HTTP/2 closes
			// the stream of a HEAD once the header block is out): outside the model (no write errors), and
			// nothing a buffered handler's component can meet - it writes to the pooled buffer
			nStreamWriteErr++
		case p.wrote != total(eff.Sizes) || p.failed != eff.Fails:
			problem = fmt.Sprintf("the component wrote %d bytes and failed=%v where %d bytes and failed=%v were expected", p.wrote, p.failed, total(eff.Sizes), eff.Fails)
		case p.ehCalls != wantEH:
			problem = fmt.Sprintf("the error handler was obtained %d times, expected %d", p.ehCalls, wantEH)
		case !p.ehReqOK:
			problem = "the error handler was not given the request the handler was called with"
		}
		if problem != "" {
			if handedOK {
				handedOK, handedDetail = false, problem
				o := obs{tc: tc, via: via, real: real, prev: -1}
				c.Fail("tie", "handler: what the component and the error handler are handed (model = implementation)", "", describeInput(o, nil), problem)
			}
		}
	}
	// a Content-Length sent in reply to HEAD announces the body a GET would get: for a buffered handler
	// it must be the length of the body the specification demands (document / fixed message / what the
	// error handler alone announces to the same request)
	headCLOK, nHeadCL := true, 0
	type clFail struct {
		in     map[string]any
		detail string
	}
	var clFails []clFail // reported after the specification predicate's own verdicts
	checkHeadCL := func(tc tcase, sr, es response, prev int) {
		if tc.Req.Method != "HEAD" || tc.Cfg.Stream || sr.Status < 0 {
			return
		}
		eff := tc.eff()
		ok, want := true, ""
		switch {
		case !eff.Fails:
			ok, want = sr.CL == -1 || sr.CL == total(eff.Sizes), fmt.Sprintf("the document's length %d", total(eff.Sizes))
		case tc.Cfg.EH == nil:
			ok, want = sr.CL == -1 || sr.CL == len(componentErrBody), fmt.Sprintf("the default error message's length %d", len(componentErrBody))
		default:
			ok, want = sr.CL == es.CL, fmt.Sprintf("what the error handler on its own announces to the same request (%d; -1 = none)", es.CL)
		}
		if sr.CL >= 0 {
			nHeadCL++
		}
		if !ok {
			headCLOK = false
			if len(clFails) < 3 {
				o := obs{tc: tc, via: "server", real: sr, ehr: es, prev: prev}
				in := describeInput(o, all)
				in["content_length"] = sr.CL
				clFails = append(clFails, clFail{in, fmt.Sprintf("the HEAD response announces Content-Length %d, not %s", sr.CL, want)})
			}
		}
	}
	batchBytes, from := 0, 0
	for i, tc := range cases {
		chunks := tc.Out.chunks()
		// served one after the other on this goroutine: each request gets the buffer the previous one released
		pr := newProbe()
		rr := viaRecorder(handlerFor(tc, chunks, pr), tc.Req)
		checkProbe(tc, "recorder", pr, rr)
		er := ehAlone(tc.Cfg, tc.Req, "recorder")
		useServer := i < nSweep || i%2 == 0
		var sr, es response
		prev := len(all) - 1
		if useServer {
			ps := newProbe()
			sr = srv.run(handlerFor(tc, chunks, ps), tc.Req)
			if sr.Status >= 0 {
				checkProbe(tc, "server", ps, sr)
			}
			es = ehAlone(tc.Cfg, tc.Req, "server")
			checkHeadCL(tc, sr, es, prev)
		}
		// one evaluation for both transports when they observed the same (never for HEAD: its client sees no body)
		if useServer && tc.Req.Method != "HEAD" && sameResp(rr, sr) && sameResp(er, es) {
			all = append(all, obs{tc: tc, via: "both", real: rr, ehr: er, prev: prev})
			reqs = append(reqs, serveReq(tc, "recorder", chunks, rr, er))
		} else {
			all = append(all, obs{tc: tc, via: "recorder", real: rr, ehr: er, prev: prev})
			reqs = append(reqs, serveReq(tc, "recorder", chunks, rr, er))
			if useServer {
				all = append(all, obs{tc: tc, via: "server", real: sr, ehr: es, prev: prev})
				reqs = append(reqs, serveReq(tc, "server", chunks, sr, es))
			}
		}
		batchBytes += 2*total(tc.Out.Sizes) + tc.Req.BodySize + 300
		if batchBytes > 24<<20 {
			flush(from)
			from, batchBytes = len(all), 0
		}
	}
	flush(from)
	for _, f := range clFails {
		c.Fail("property", "handler: buffered, server, Content-Length announced in reply to HEAD", "", f.in, f.detail)
	}

	c.Extra["streamed_server_cases_with_a_failing_connection_write"] = nStreamWriteErr
	c.Oblige("correspondence", "handler: the component is rendered exactly once, with r.Context(), and the error handler is obtained once, for the request itself, iff rendering failed (recorder and server, every case)", handedOK, handedDetail)
	c.Oblige("correspondence", fmt.Sprintf("handler: every Content-Length announced in reply to a HEAD (buffered, server; %d of them) is the length of the body the specification demands", nHeadCL), headCLOK, "")
	for _, k := range famKeys {
		st := fams[k]
		if st == nil {
			continue
		}
		c.Oblige("correspondence", "handler: model = templ.Handler, "+k+" ("+strconv.Itoa(st.n)+" responses)", st.tieOK, "")
		if strings.HasPrefix(k, "buffered") {
			c.Oblige("correspondence", "handler: specification predicate (extracted: all_or_nothing_b; all_or_nothing_wire_b for what the client of a HEAD receives) holds of the real response, "+k, st.propOK, "")
		}
	}
	c.Oblige("contract", "ResponseWriter model = net/http on the error handlers run on their own (recorder and server)", ehTieOK, ehTieDetail)
	c.Oblige("side-condition", "every Content-Length sent by the server in reply to a method other than HEAD equals the body length received", srv.clOK, "")
	c.Oblige("side-condition", fmt.Sprintf("every request meant for HTTP/2 was answered over HTTP/2 (%d so far)", srv.nH2), srv.h2OK, "")
	c.Extra["streamed_failing_responses_not_all_or_nothing"] = streamedPartial
	c.Extra["error_handler_alone_responses"] = len(ehCache)

	compositions(c)
	contrast(c, srv)
	rwContract(c, srv)
	overlapping(c)
	concurrent(c, srv, c.N(1500, 8000))
	poolDiscipline(c, "after the whole run")
	for i, o := range all {
		if i%(len(all)/6+1) == 0 || (o.tc.Out.Fails && len(c.Samples) < 3) {
			c.Sample(map[string]any{"config": o.tc.Cfg, "request": o.tc.Req, "chunk_sizes": o.tc.Out.Sizes, "fails": o.tc.Out.Fails, "context_aware": o.tc.Out.Aware, "via": o.via,
				"status": o.real.Status, "headers": o.real.Hdr, "body_len": o.bodyLen, "body_head": o.head})
		}
	}
}

type famStat struct {
	n             int
	tieOK, propOK bool
}

var (
	fams            = map[string]*famStat{}
	famKeys         = []string{"buffered, recorder", "buffered, server", "streamed, recorder", "streamed, server"}
	ehTieOK         = true
	ehTieDetail     = ""
	streamedPartial = 0
)

func fam(k string) *famStat {
	if fams[k] == nil {
		fams[k] = &famStat{tieOK: true, propOK: true}
	}
	return fams[k]
}

// checkBatch sends the pending requests (observations all[from:]) through the extracted model and records verdicts.
func checkBatch(c *core.Ctx, all []obs, from int, reqs []drv.Req) {
	if len(reqs) == 0 {
		return
	}
	res := c.Model(reqs)
	for j, r := range res {
		o := all[from+j]
		eff := o.tc.eff()
		mode := "buffered"
		if o.tc.Cfg.Stream {
			mode = "streamed"
		}
		vias := []string{o.via}
		if o.via == "both" {
			vias = []string{"recorder", "server"}
		}
		ok := len(r) == 6
		tie, spec, ehtie := ok && string(r[0]) == "1", ok && string(r[1]) == "1", ok && string(r[2]) == "1"
		modelDesc := "(no reply)"
		if ok {
			modelDesc = fmt.Sprintf("model: status %s, headers %q, %s body bytes", r[3], r[4], r[5])
		}
		for _, via := range vias {
			st := fam(mode + ", " + via)
			st.n++
			key := ""
			if eff.Fails || total(eff.Sizes) >= 4095 {
				key = fmt.Sprintf("%v|%v|%v|%s", o.tc.Cfg.Status, o.tc.Cfg.ctype(), o.tc.Cfg.EH, mode) + fmt.Sprint(o.tc.Cfg.CT == nil, o.tc.Out.Sizes, o.tc.Out.Fails, o.tc.Out.Aware, via) + o.tc.Req.key()
			}
			c.Count(key)
			res := "succeeds"
			if eff.Fails {
				res = "fails"
			}
			c.Hist(mode + " / component " + res + " / error handler " + ehKind(o.tc.Cfg))
			c.Hist("output: " + sizeClass(eff.Sizes))
			if eff.Fails {
				c.Hist("error kind: " + errName(eff))
			}
			c.Hist("transport: " + via)
			histRequest(c, o.tc)
			family := "handler: " + mode + ", " + via
			if !tie {
				st.tieOK = false
				if c.NFails(family+" (model = implementation)") < 3 {
					in := describeInput(o, all)
					in["via"] = via
					c.Fail("tie", family+" (model = implementation)", "", in, "model and implementation differ; "+modelDesc)
				}
			}
			if !o.tc.Cfg.Stream && !spec {
				st.propOK = false
				if c.NFails(family) < 3 {
					in := describeInput(o, all)
					in["via"] = via
					c.Fail("property", family, "", in, why(o))
				}
			}
		}
		if o.tc.Cfg.Stream && eff.Fails && !spec {
			streamedPartial++
		}
		if !ehtie {
			if ehTieOK {
				ehTieDetail = fmt.Sprintf("error handler %v with content type %q on its own (%s): real status %d headers %v body %q", o.tc.Cfg.EH, o.tc.Cfg.ctype(), o.via, o.ehr.Status, o.ehr.Hdr, clip(o.ehr.Body, 80))
				c.Fail("tie", "rw: model of the ResponseWriter = net/http (error handler on its own)", "", map[string]any{"ops": o.tc.Cfg.EH, "content_type": o.tc.Cfg.ctype(), "request": o.tc.Req, "via": o.via, "status": o.ehr.Status, "headers": o.ehr.Hdr, "body_head": clip(o.ehr.Body, 160)}, "model and implementation differ")
			}
			ehTieOK = false
		}
	}
}

func histRequest(c *core.Ctx, tc tcase) {
	q := tc.Req
	c.Hist("request method: " + q.class())
	c.Hist("request protocol: " + q.Proto)
	c.Hist("request context: " + q.Ctx)
	switch {
	case len(q.Hdr) > 0 && q.BodySize > 0:
		c.Hist("request: header fields and body")
	case len(q.Hdr) > 0:
		c.Hist("request: header fields")
	case q.BodySize > 0:
		c.Hist("request: body")
	}
	if q.Query != "" {
		c.Hist("request: query string")
	}
	if tc.Out.Aware {
		if q.done() {
			c.Hist("context-aware component / context done: renders nothing, returns ctx.Err()")
		} else {
			c.Hist("context-aware component / context not done")
		}
	}
}

// contrast reproduces the theorem C11_streamed_may_be_partial's witness on the real handler, and the
// matching buffered behaviour, on the component of handler_test.go.
func contrast(c *core.Ctx, srv *server) {
	hello := [][]byte{[]byte("Hello")}
	want := "Hello" + "templ: failed to render template\n"
	ok := true
	detail := ""
	for _, run := range []func(http.Handler, request) response{viaRecorder, srv.run} {
		s := run(templ.Handler(component(hello, errRender, nil), templ.WithStreaming()), plainGET)
		b := run(templ.Handler(component(hello, errRender, nil)), plainGET)
		c.Count("")
		c.Count("")
		if !(s.Status == 200 && string(s.Body) == want) {
			ok = false
			detail = fmt.Sprintf("streamed: status %d body %q", s.Status, clip(s.Body, 80))
		}
		if !(b.Status == 500 && string(b.Body) == "templ: failed to render template\n") {
			ok = false
			detail = fmt.Sprintf("buffered: status %d body %q", b.Status, clip(b.Body, 80))
		}
	}
	c.Oblige("contract", "the witness of C11_streamed_may_be_partial behaves on the real handler as in the theorem (streamed: 200, \"Hello\" + message; buffered: 500, message)", ok, detail)
}

// rwContract compares the ResponseWriter model with the recorder and the real server on random call sequences.
func rwContract(c *core.Ctx, srv *server) {
	n := c.N(400, 20000)
	type item struct {
		ops []op
		via string
		q   request
		r   response
	}
	var items []item
	var reqs []drv.Req
	for i := 0; i < n; i++ {
		ops := randOps(c.Rng)
		if c.Rng.Intn(4) != 0 { // as templ does before calling an error handler
			ops = append([]op{{Kind: "S", A: "Content-Type", B: rng.Pick(c.Rng, rndCTs)}}, ops...)
		} else { // make sure a type is there before anything is written
			ops = append([]op{{Kind: "S", A: "Content-Type", B: "text/html"}}, ops...)
		}
		q := plainGET
		if c.Rng.Intn(2) == 0 { // the writer as the client of any request sees it (HEAD: no body)
			q = randRequest(c.Rng)
		}
		for _, via := range []string{"recorder", "server"} {
			var r response
			if via == "server" {
				r = srv.run(opsHandler(ops), q)
			} else {
				r = viaRecorder(opsHandler(ops), q)
			}
			a := append([][]byte{viaCode(via)}, encRequest(q)...)
			a = append(a, encOps(ops)...)
			a = append(a, encResp(r)...)
			items = append(items, item{ops, via, q, r})
			reqs = append(reqs, drv.Req{Fn: "rw", Args: a})
			c.Count("")
			c.Hist("rw call sequence / " + via)
		}
	}
	res := c.Model(reqs)
	okRec, okSrv := true, true
	for i, r := range res {
		if len(r) == 4 && string(r[0]) == "1" {
			continue
		}
		it := items[i]
		if (it.via == "server" && okSrv) || (it.via == "recorder" && okRec) {
			d := "(no reply)"
			if len(r) == 4 {
				d = fmt.Sprintf("model: status %s, headers %q, %s body bytes", r[1], r[2], r[3])
			}
			c.Fail("tie", "rw: model of the ResponseWriter = net/http ("+it.via+")", "", map[string]any{"ops": it.ops, "request": it.q, "status": it.r.Status, "headers": it.r.Hdr, "body_head": clip(it.r.Body, 160), "transport_error": it.r.Err}, d)
		}
		if it.via == "server" {
			okSrv = false
		} else {
			okRec = false
		}
	}
	c.Oblige("contract", "ResponseWriter model = httptest.ResponseRecorder on random call sequences", okRec, "")
	c.Oblige("contract", "ResponseWriter model = net/http server + client round trip on random call sequences", okSrv, "")
}

// concurrent: many clients at once against the real server, buffered handlers only;
// every response must satisfy the specification predicate for its own case.
func concurrent(c *core.Ctx, srv *server, n int) {
	cases := make([]tcase, n)
	chunks := make([][][]byte, n)
	paths := make([]string, n)
	ehr := make([]response, n)
	for i := range cases {
		tc := randCase(c.Rng, false)
		tc.Cfg.Stream = false
		cases[i] = tc
		chunks[i] = tc.Out.chunks()
		paths[i] = srv.register(handlerForOpt(tc, chunks[i], &compOpts{yield: true}))
		if tc.Cfg.EH != nil {
			ehr[i] = srv.run(ehAloneHandler(*tc.Cfg.EH, tc.Cfg.ctype()), tc.Req)
		}
	}
	out := make([]response, n)
	var wg sync.WaitGroup
	work := make(chan int)
	for g := 0; g < 32; g++ {
		wg.Add(1)
		go func() {
			defer wg.Done()
			for i := range work {
				out[i] = srv.fetch(paths[i], cases[i].Req)
			}
		}()
	}
	for i := 0; i < n; i++ {
		work <- i
	}
	close(work)
	wg.Wait()
	reqs := make([]drv.Req, n)
	for i := range cases {
		reqs[i] = serveReq(cases[i], "server", chunks[i], out[i], ehr[i])
	}
	res := c.Model(reqs)
	ok := true
	for i, r := range res {
		c.Count("")
		c.Hist("concurrent server requests (buffered)")
		if len(r) == 6 && string(r[1]) == "1" {
			continue
		}
		ok = false
		if c.NFails("handler: buffered, server, 32 concurrent clients") < 3 {
			o := obs{tc: cases[i], via: "server", real: out[i], ehr: ehr[i], prev: -1}
			c.Fail("property", "handler: buffered, server, 32 concurrent clients", "", describeInput(o, nil), why(o))
		}
	}
	c.Oblige("correspondence", "handler: specification predicate holds of every response under 32 concurrent clients (buffered, server)", ok, "")
}
