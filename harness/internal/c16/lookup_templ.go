package c16

// This file's name ends in _templ.go on purpose: runtime.WriteString in development mode only serves callers
// in such files and derives the text file's name from the caller's path.

import (
	"io"
	"runtime"

	templruntime "github.com/a-h/templ/runtime"
)

// devWriteString is the generated-code call templruntime.WriteString(buffer, index, literal).
func devWriteString(w io.Writer, index int, s string) (err error, panicked bool) {
	defer func() {
		if r := recover(); r != nil {
			panicked = true
		}
	}()
	err = templruntime.WriteString(w, index, s)
	return err, false
}

func thisFile() string {
	_, path, _, _ := runtime.Caller(0)
	return path
}
