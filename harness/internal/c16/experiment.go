package c16

// The rendering experiment: the real event handler generates code and text files, one scratch module is
// compiled, and the program is run in normal mode, in development mode on its own text files, and in
// development mode on the text files of the edited templates.

import (
	"bufio"
	"bytes"
	"context"
	"fmt"
	"io"
	"log/slog"
	"os"
	"os/exec"
	"path/filepath"
	"reflect"
	"regexp"
	"sort"
	"strconv"
	"strings"
	"time"

	"github.com/a-h/templ/cmd/templ/generatecmd"
	"github.com/a-h/templ/generator"
	parser "github.com/a-h/templ/parser/v2"
	templruntime "github.com/a-h/templ/runtime"
	"github.com/fsnotify/fsnotify"

	"verifharness/internal/core"
	"verifharness/internal/drv"
)

type tcase struct {
	name   string
	chain  []string // templ sources (package a), version 0 is compiled as a.<name>, the last one as b.<name>
	kinds  []string // edit kind of each step
	typed  bool     // every version is expected to compile
	seeded string   // non-empty for the documented reproductions
	layout string   // "" regular file | filelink: the .templ file is a symlink to a file elsewhere | dirlink: the package directory is a symlink | relroot: relative TEMPL_DEV_MODE_ROOT
	txtBase string  // base name of the template's text file

	outs    []generator.GeneratorOutput // generator output of every version (same options as the handler)
	gidx    []int                       // index of every version's (output, raw code) record
	goUpd   []bool                      // the handler's GoUpdated per version
	codeA   string                      // Go code of version 0
	codeB   string                      // Go code of the last version (package b)
	ok      bool                        // generated without error
	dropped bool                        // removed because the scratch build rejected it
}

const version = "v0.0.0-c16"

var helpers = "\nconst K = \"k&<>\\\"'/x y\"\n\ntempl Helper(v string) {\n\t<em data-h={ v }>{ v }</em>\n}\n\ntempl Wrap() {\n\t<blockquote>{ children... }</blockquote>\n}\n"

const helpersGo = `

import (
	"fmt"
	"strings"
)

func F(format string, a ...any) string { return fmt.Sprintf(format, a...) }
func Tag(s string) string              { return "<" + s + ">" }
func TAG(s string) string              { return "<" + strings.ToUpper(s) + ">" }
`

const mainSrc = `package main

import (
	"bufio"
	"bytes"
	"context"
	"encoding/hex"
	"fmt"
	"os"
	"sort"
	"strings"
	"time"

	"github.com/a-h/templ"
)

type fn = func(s string, t string, b bool, xs []string, at templ.Attributes, cs templ.ComponentScript) templ.Component

type env struct {
	s, t string
	b    bool
	xs   []string
	at   templ.Attributes
	cs   templ.ComponentScript
}

var envs = []env{
	{s: "color:red;</script><b>\"x\" & 'y' \\ url(javascript:x)", t: "T&t", b: true, xs: []string{"a", "<b>"}, at: templ.Attributes{"data-at": "v\"w"},
		cs: templ.ComponentScript{Name: "fn1", Function: "function fn1(){}", Call: "fn1('x')", CallInline: "fn1('x')"}},
	{s: "a", t: "a", b: false},
	{s: "javascript:alert(1)", t: "", b: true, xs: []string{"x", "y", "z"}, cs: templ.ComponentScript{Name: "fn2", Function: "function fn2(){}", Call: "fn2()", CallInline: "fn2()"}},
}

// poll renders the named templates (first valuation) over and over with 2-20 ms pauses for the given time and
// reports, per template, the last rendering and when the rendering changed.
func poll(names []string, ms int) {
	start := time.Now()
	last := map[string]string{}
	changes := map[string][]string{}
	iters, maxGap := 0, time.Duration(0)
	prev := start
	e := envs[0]
	for time.Since(start) < time.Duration(ms)*time.Millisecond {
		for _, n := range names {
			f := regA[n]
			if f == nil {
				continue
			}
			var buf bytes.Buffer
			out := ""
			if err := f(e.s, e.t, e.b, e.xs, e.at, e.cs).Render(context.Background(), &buf); err != nil {
				out = "ERR " + hex.EncodeToString([]byte(err.Error()))
			} else {
				out = "OK " + hex.EncodeToString(buf.Bytes())
			}
			if out != last[n] {
				last[n] = out
				changes[n] = append(changes[n], fmt.Sprint(time.Since(start).Milliseconds()))
			}
		}
		now := time.Now()
		if g := now.Sub(prev); g > maxGap {
			maxGap = g
		}
		prev = now
		if iters == 0 {
			fmt.Println("READY")
		}
		iters++
		time.Sleep(time.Duration(2+(iters*7)%19) * time.Millisecond)
	}
	for _, n := range names {
		fmt.Printf("P %s FINAL %s\n", n, last[n])
		fmt.Printf("P %s CHANGES %s\n", n, strings.Join(changes[n], ","))
	}
	fmt.Printf("STATS %d %d\n", iters, maxGap.Milliseconds())
}

func main() {
	side := os.Args[1]
	if side == "P" {
		b, _ := os.ReadFile(os.Args[2])
		ms := 1500
		fmt.Sscan(os.Args[3], &ms)
		poll(strings.Fields(string(b)), ms)
		return
	}
	reg := regA
	if side == "B" {
		reg = regB
	}
	var names []string
	if len(os.Args) > 2 {
		b, _ := os.ReadFile(os.Args[2])
		names = strings.Fields(string(b))
	} else {
		for n := range reg {
			names = append(names, n)
		}
	}
	sort.Strings(names)
	w := bufio.NewWriter(os.Stdout)
	defer w.Flush()
	for _, n := range names {
		f := reg[n]
		if f == nil {
			continue
		}
		for i, e := range envs {
			var buf bytes.Buffer
			var err error
			func() {
				defer func() {
					if r := recover(); r != nil {
						err = fmt.Errorf("panic: %v", r)
					}
				}()
				err = f(e.s, e.t, e.b, e.xs, e.at, e.cs).Render(context.Background(), &buf)
			}()
			if err != nil {
				fmt.Fprintf(w, "%s %s %d ERR %s\n", side, n, i, hex.EncodeToString([]byte(err.Error())))
				continue
			}
			fmt.Fprintf(w, "%s %s %d OK %s\n", side, n, i, hex.EncodeToString(buf.Bytes()))
		}
	}
}
`

var goEnv = append(os.Environ(), "GOFLAGS=-mod=mod", "GOPROXY=off", "GOSUMDB=off", "GOTOOLCHAIN=local")

func envWithout(keys ...string) []string {
	var r []string
outer:
	for _, kv := range goEnv {
		for _, k := range keys {
			if strings.HasPrefix(kv, k+"=") {
				continue outer
			}
		}
		r = append(r, kv)
	}
	return r
}

// seededChains are the documented reproductions (DESIGN 5 C16) plus the reordering shape.
func seededChains() []tcase {
	mk := func(seed string, bodies ...string) tcase {
		return tcase{seeded: seed, chain: bodies, typed: true, kinds: make([]string, len(bodies)-1)}
	}
	return []tcase{
		mk("attribute title -> style", "\t<p title={ s }>x</p>\n", "\t<p style={ s }>x</p>\n"),
		mk("text expression -> script expression", "\t<p>{ s }</p>\n\t<script>var a = 1;</script>\n", "\t<p></p>\n\t<script>var a = {{ s }};</script>\n"),
		mk("expression moved into the preceding if body", "\tif b {\n\t\t<i>x</i>\n\t}\n\t{ s }\n\t<hr/>\n", "\tif b {\n\t\t<i>x</i>\n\t\t{ s }\n\t}\n\t<hr/>\n"),
		mk("element and expression reordered", "\t<p>hi</p>\n\t{ s }\n", "\t{ s }\n\t<p>hi</p>\n"),
		mk("script expression moved inside a string literal", "\t<script>var a = {{ s }};</script>\n", "\t<script>var a = \"{{ s }}\";</script>\n"),
		mk("expression moved from before a class attribute into the element body", "\t<li title={ s } class={ K }>x</li>\n", "\t<li class={ K }>{ s }x</li>\n"),
		mk("white space inside a string literal of an expression", "\t<p>{ F(\"%s has  %d   items\", s, len(xs)) }</p>\n", "\t<p>{ F(\"%s has %d items\", s, len(xs)) }</p>\n"),
		mk("line break replaced by a space inside a raw string of an expression", "\t<p>{ F(`a\n\tb %s`, t) }</p>\n", "\t<p>{ F(`a b %s`, t) }</p>\n"),
		mk("white space inside a rune literal of an expression", "\t<p title={ F(\"%c|%s\", ' ', s) }>x</p>\n", "\t<p title={ F(\"%c|%s\", '\t', s) }>x</p>\n"),
		mk("white space inside a string literal of a condition", "\tif s + \" \" == \"a \" {\n\t\t<i>x</i>\n\t}\n", "\tif s + \"  \" == \"a \" {\n\t\t<i>x</i>\n\t}\n"),
		mk("white space outside literals of an expression", "\t<p>{ F(\"%s\",s) }</p>\n", "\t<p>{ F(\"%s\",  s) }</p>\n"),
		mk("text edit only", "\t<p title=\"a\\b\">Hello \"w\" \\ é \x01 \xff</p>\n", "\t<p title=\"c'd\">Bye \\n \"x\"</p>\n"),
		mk("text edit that moves the expressions to other lines and columns", "\t<p>one</p>{ s }<i title={ t }>x</i>\n", "\t<p>one, and\n\tthen\n\tmuch more text</p>\n\n\t{ s }\n\t<i\n\t\ttitle={ t }\n\t>y</i>\n"),
		mk("text edit of the first and of the last literal only", "\t<p>a</p>{ s }<p>b</p>{ t }<p>c</p>\n", "\t<p>A\"1\"</p>{ s }<p>b</p>{ t }<p>C\\</p>\n"),
		mk("text edit inside a for body, a switch case, an else branch and children of a call", "\tfor _, x := range xs {\n\t\t<li>{ x }</li>\n\t}\n\tswitch s {\n\tcase \"a\":\n\t\t<b>is a</b>\n\tdefault:\n\t\t<b>not a</b>\n\t}\n\tif b {\n\t\t<i>yes</i>\n\t} else {\n\t\t<i>no</i>\n\t}\n\t@Wrap() {\n\t\t<u>child { t }</u>\n\t}\n",
			"\tfor _, x := range xs {\n\t\t<dd>\"{ x }\"</dd>\n\t}\n\tswitch s {\n\tcase \"a\":\n\t\t<em>IS A</em>\n\tdefault:\n\t\t<em>NOT A \\</em>\n\t}\n\tif b {\n\t\t<s>YES</s>\n\t} else {\n\t\t<s>NO</s>\n\t}\n\t@Wrap() {\n\t\t<q>CHILD { t }</q>\n\t}\n"),
		mk("expression moved into the following for body", "\t{ s }\n\tfor _, x := range xs {\n\t\t<li>{ x }</li>\n\t}\n", "\tfor _, x := range xs {\n\t\t{ s }\n\t\t<li>{ x }</li>\n\t}\n"),
		mk("expression moved from one switch case to the other", "\tswitch t {\n\tcase \"a\":\n\t\t<b>{ s }</b>\n\tdefault:\n\t\t<b></b>\n\t}\n", "\tswitch t {\n\tcase \"a\":\n\t\t<b></b>\n\tdefault:\n\t\t<b>{ s }</b>\n\t}\n"),
		mk("expression moved out of the children of a call", "\t@Wrap() {\n\t\t<u>x</u>\n\t\t{ s }\n\t}\n\t<hr/>\n", "\t@Wrap() {\n\t\t<u>x</u>\n\t}\n\t{ s }\n\t<hr/>\n"),
		mk("two text edits in a row", "\t<p>one</p>{ s }\n", "\t<p>two \"2\"</p>{ s }\n", "\t<p>three \\3</p>{ s }\n"),
	}
}

func buildCases(c *core.Ctx, seeded bool, nPlain, nChains int) []*tcase {
	var cases []*tcase
	add := func(tc tcase) {
		tc.name = fmt.Sprintf("T%04d", len(cases)+1)
		cases = append(cases, &tc)
	}
	for _, s := range seededChains() {
		if !seeded {
			break
		}
		name := fmt.Sprintf("T%04d", len(cases)+1)
		for i, b := range s.chain {
			s.chain[i] = "package a\n\ntempl " + name + "(" + params + ") {\n" + b + "}\n"
		}
		add(s)
	}
	// literal LENGTH as a dimension of the rendering family: one long literal first / in the middle / last
	if seeded {
		lens := []int{4095, 4096, 4097, 65535, 65536, 65537, 200000}
		if !c.Quick() {
			lens = append(lens, 1<<20)
		}
		long := func(name string, pos, n int) string {
			parts := []string{"a", "m", "z"}
			if n >= 0 {
				parts[pos] = "\"" + strings.Repeat("a", n)
			}
			return "package a\n\ntempl " + name + "(" + params + ") {\n\t<p>" + parts[0] + "</p>{ s }<i>" + parts[1] + "</i>{ t }<b>" + parts[2] + "</b>\n}\n"
		}
		for _, n := range lens {
			for pos := 0; pos < 3; pos++ {
				name := fmt.Sprintf("T%04d", len(cases)+1)
				// the literal is the tag pair (7 bytes), backslash-quote (2) and the letters
				tc := tcase{chain: []string{long(name, pos, n-9)}, typed: true, seeded: fmt.Sprintf("literal %d of 3 is %d bytes long: <x>, one double quote, %d letters a, </x>", pos+1, n, n-9)}
				if pos == 1 && (n == 65536 || n == 200000) {
					// as a text-only edit of a short template
					tc.chain = []string{long(name, pos, -1), long(name, pos, n-9)}
					tc.kinds = []string{"text-edit"}
				}
				add(tc)
			}
		}
	}
	// file-system layout as a dimension: one plain template and one text-only edit per layout, then a tenth of the random cases each
	if seeded {
		for _, l := range []string{"filelink", "dirlink", "relroot"} {
			n1 := fmt.Sprintf("T%04d", len(cases)+1)
			add(tcase{layout: l, typed: true, seeded: "layout " + l, chain: []string{"package a\n\ntempl " + n1 + "(" + params + ") {\n\t<p title=\"x\">Hello \"w\" { s }</p>\n}\n"}})
			n2 := fmt.Sprintf("T%04d", len(cases)+1)
			add(tcase{layout: l, typed: true, seeded: "layout " + l + ", text-only edit", kinds: []string{"text-edit"}, chain: []string{
				"package a\n\ntempl " + n2 + "(" + params + ") {\n\t<p>one { s }</p>\n}\n",
				"package a\n\ntempl " + n2 + "(" + params + ") {\n\t<p>two \\ \"2\" { s }</p>\n}\n"}})
		}
	}
	defer func() {
		for _, tc := range cases {
			if tc.seeded == "" {
				switch c.Rng.Intn(10) {
				case 0:
					tc.layout = "filelink"
				case 1:
					tc.layout = "dirlink"
				case 2:
					tc.layout = "relroot"
				}
			}
		}
	}()
	for i := 0; i < nPlain; i++ {
		body := randTemplate(c.Rng)
		name := fmt.Sprintf("T%04d", len(cases)+1)
		add(tcase{chain: []string{source("a", name, body)}, typed: wellTyped(body)})
	}
	for i := 0; i < nChains; i++ {
		body := randTemplate(c.Rng)
		name := fmt.Sprintf("T%04d", len(cases)+1)
		tc := tcase{chain: []string{source("a", name, body)}, typed: wellTyped(body)}
		steps := 1
		if c.Rng.Intn(4) == 0 {
			steps = 2
		}
		cur := body
		for s := 0; s < steps; s++ {
			var nb []*node
			var kind string
			ok := false
			for try := 0; try < 20 && !ok; try++ {
				nb, kind, ok = edit(c.Rng, cur)
			}
			if !ok {
				break
			}
			cur = nb
			tc.chain = append(tc.chain, source("a", name, cur))
			tc.kinds = append(tc.kinds, kind)
			tc.typed = tc.typed && wellTyped(cur)
		}
		if len(tc.chain) < 2 {
			continue
		}
		add(tc)
	}
	return cases
}

func genOpts(dir, file string) []generator.GenerateOpt {
	rel, _ := filepath.Rel(dir, file)
	return []generator.GenerateOpt{generator.WithVersion(version), generator.WithFileName(filepath.ToSlash(rel))}
}

func generate(src string, opts ...generator.GenerateOpt) (generator.GeneratorOutput, string, error) {
	tf, err := parser.ParseString(src)
	if err != nil {
		return generator.GeneratorOutput{}, "", err
	}
	var buf bytes.Buffer
	out, err := generator.Generate(tf, &buf, opts...)
	return out, buf.String(), err
}

// realSkeleton reads GeneratorOutput.Skeleton (the field commit 75525d5 added) by name, so that the harness still
// builds - and the property-level judgement still runs - against a tree that does not have it.
func realSkeleton(o generator.GeneratorOutput) (string, bool) {
	f := reflect.ValueOf(o).FieldByName("Skeleton")
	if !f.IsValid() || f.Kind() != reflect.String {
		return "", false
	}
	return f.String(), true
}

// genRec is one run of the real generator: its output, the code it wrote (not yet formatted) and, once the model
// has been asked, the skeleton the model computes from that code.
type genRec struct {
	out     generator.GeneratorOutput
	code    string
	what    string
	mskel   string // model skel_of_code(code)
	mskelOK bool   // the model answered (it runs out of stack on lines of 200 kB and more)
}

func hcArgs(p, u *genRec) [][]byte {
	b := func(x bool) []byte {
		if x {
			return []byte("1")
		}
		return []byte("0")
	}
	// the skeleton the decision is computed from is the MODEL's (computed from the generated text); where the model
	// had no answer, the generator's own
	sk := func(g *genRec) []byte {
		if g.mskelOK {
			return []byte(g.mskel)
		}
		r, _ := realSkeleton(g.out)
		return []byte(r)
	}
	args := [][]byte{
		[]byte(p.out.Options.Version), []byte(p.out.Options.FileName), b(p.out.Options.SkipCodeGeneratedComment),
		[]byte(u.out.Options.Version), []byte(u.out.Options.FileName), b(u.out.Options.SkipCodeGeneratedComment),
		[]byte(strconv.Itoa(len(p.out.Literals))), []byte(strconv.Itoa(len(p.out.SourceMap.Expressions))),
		[]byte(strconv.Itoa(len(u.out.Literals))), []byte(strconv.Itoa(len(u.out.SourceMap.Expressions))),
		sk(p), sk(u),
	}
	for _, l := range [][]string{p.out.Literals, p.out.SourceMap.Expressions, u.out.Literals, u.out.SourceMap.Expressions} {
		for _, s := range l {
			args = append(args, []byte(s))
		}
	}
	return args
}

var reLit = regexp.MustCompile(`templruntime\.WriteString\(templ_7745c5c3_Buffer, (\d+), ".*"\)$`)
var reErrPos = regexp.MustCompile(`templ\.Error\{Err: templ_7745c5c3_Err, FileName: .*\}$`)

// skeletonOf is the generated code with the contents of WriteString literals, the package clause, the
// version comment and the error positions erased (the harness-side counterpart of model skeleton).
func skeletonOf(code string) []string {
	var r []string
	for _, l := range strings.Split(code, "\n") {
		t := strings.TrimRight(l, " \t")
		if strings.HasPrefix(t, "package ") || strings.HasPrefix(t, "// templ: version:") {
			continue
		}
		if m := reLit.FindStringSubmatchIndex(t); m != nil {
			t = t[:m[0]] + "LIT " + t[m[2]:m[3]]
		}
		t = reErrPos.ReplaceAllString(t, "templ.Error{...}")
		r = append(r, t)
	}
	return r
}

type tok struct {
	t     string
	depth int
}

func tokens(skel []string) (all []tok, sinks []string) {
	for _, l := range skel {
		d := len(l) - len(strings.TrimLeft(l, "\t"))
		s := strings.TrimSpace(l)
		t := ""
		switch {
		case strings.Contains(s, "LIT "):
			t = "LIT"
		case strings.Contains(s, "templ.JoinStringErrs("):
			t = "str"
		case strings.Contains(s, "SanitizeStyleAttributeValues("):
			t = "style"
		case strings.Contains(s, "ScriptContentOutsideStringLiteral("):
			t = "jsout"
		case strings.Contains(s, "ScriptContentInsideStringLiteral("):
			t = "jsin"
		case strings.Contains(s, " templ.SafeURL = "):
			t = "url"
		case strings.Contains(s, " templ.ComponentScript = "):
			t = "script"
		case strings.Contains(s, "templ.RenderAttributes("):
			t = "spread"
		case strings.Contains(s, "templ.RenderCSSItems(") || strings.Contains(s, "templ.CSSClasses("):
			t = "class"
		case strings.Contains(s, "templ.RenderScriptItems("):
			t = "scriptitems"
		case strings.Contains(s, ".Render(") && !strings.HasPrefix(s, "func "):
			t = "call"
		case strings.HasPrefix(s, "if templ_7745c5c3_") || strings.HasPrefix(s, "if !templ_7745c5c3_"):
		case strings.HasPrefix(s, "if "), strings.HasPrefix(s, "} else"), strings.HasPrefix(s, "for "), strings.HasPrefix(s, "switch "), strings.HasPrefix(s, "case "), strings.HasPrefix(s, "default:"):
			t = "ctl:" + strings.Fields(strings.TrimPrefix(s, "} "))[0]
		}
		if t == "" {
			continue
		}
		all = append(all, tok{t, d})
		if t != "LIT" && !strings.HasPrefix(t, "ctl:") {
			sinks = append(sinks, t)
		}
	}
	return
}

var reSinkArg = regexp.MustCompile(`(?:templ\.JoinStringErrs|templruntime\.SanitizeStyleAttributeValues|templruntime\.ScriptContentOutsideStringLiteral|templruntime\.ScriptContentInsideStringLiteral)\((.*)\)$| templ\.(?:SafeURL|ComponentScript) = (.*)$|templ\.RenderAttributes\(ctx, templ_7745c5c3_Buffer, (.*)\)$`)

// sinkArgs lists, in statement order, the expression each writer call receives.
func sinkArgs(skel []string) []string {
	var r []string
	for _, l := range skel {
		if m := reSinkArg.FindStringSubmatch(strings.TrimSpace(l)); m != nil {
			r = append(r, m[1]+m[2]+m[3])
		}
	}
	return r
}

// shapeOf names, decidably from the two generated files, how they differ apart from literal contents.
func shapeOf(codeOld, codeNew string) string {
	a, b := skeletonOf(codeOld), skeletonOf(codeNew)
	if strings.Join(a, "\n") == strings.Join(b, "\n") {
		return "skeleton-equal"
	}
	ta, sa := tokens(a)
	tb, sb := tokens(b)
	if strings.Join(sa, ",") != strings.Join(sb, ",") {
		return "sink-kind-changed"
	}
	ms := func(ts []tok) string {
		var x []string
		for _, t := range ts {
			x = append(x, fmt.Sprintf("%s@%d", t.t, t.depth))
		}
		sort.Strings(x)
		return strings.Join(x, ",")
	}
	if ms(ta) != ms(tb) {
		return "control-flow-position-changed"
	}
	sq := func(ts []tok) string {
		var x []string
		for _, t := range ts {
			x = append(x, fmt.Sprintf("%s@%d", t.t, t.depth))
		}
		return strings.Join(x, ",")
	}
	if sq(ta) != sq(tb) {
		return "literal-expression-order-changed"
	}
	// same statements in the same order and nesting: do the writer calls receive the same expressions in the same order?
	if strings.Join(sinkArgs(a), "\x00") != strings.Join(sinkArgs(b), "\x00") {
		return "expression-use-order-changed"
	}
	return "skeleton-differs-other"
}

type renders map[string][]string // name -> per-valuation "OK <hex>" / "ERR"

func runProg(prog, side, namesFile string, env []string) (renders, error) {
	return runProgIn("", prog, side, namesFile, env)
}

func runProgIn(dir, prog, side, namesFile string, env []string) (renders, error) {
	args := []string{side}
	if namesFile != "" {
		args = append(args, namesFile)
	}
	cmd := exec.Command(prog, args...)
	cmd.Env = env
	cmd.Dir = dir
	var errb bytes.Buffer
	cmd.Stderr = &errb
	out, err := cmd.Output()
	if err != nil {
		return nil, fmt.Errorf("%v: %s", err, errb.String())
	}
	r := renders{}
	for _, l := range strings.Split(strings.TrimSpace(string(out)), "\n") {
		f := strings.Fields(l)
		if len(f) < 4 {
			continue
		}
		v := f[3]
		if v == "OK" {
			if len(f) > 4 {
				v += " " + f[4]
			} else {
				v += " "
			}
		} else if len(f) > 4 {
			v += " " + f[4]
		}
		r[f[1]] = append(r[f[1]], v)
	}
	return r, nil
}

func unhex(s string) string {
	s = strings.TrimPrefix(strings.TrimPrefix(s, "OK "), "ERR ")
	b := make([]byte, len(s)/2)
	fmt.Sscanf(s, "%x", &b)
	return string(b)
}

func sameRender(a, b string) bool {
	// error texts carry file names and positions that legitimately differ between the two sides
	if strings.HasPrefix(a, "ERR") || strings.HasPrefix(b, "ERR") {
		return strings.HasPrefix(a, "ERR") && strings.HasPrefix(b, "ERR")
	}
	return a == b
}

type tally struct {
	first, skelEqual, textOnly, textOnlyChanged, templates, dropped, generated, unformattable int
	firstOK, skelOK, critOK, skelCritOK                   bool
	perShape                                              map[string]int
	polled                                                int
	pollOK                                                bool
	sessSteps, sessBoundary, sessions                     int
	sessOK                                                bool
}

type hcPair struct {
	p, u int
	what string
}

func experiment(c *core.Ctx) {
	batches := c.N(1, 10)
	t := &tally{firstOK: true, skelOK: true, critOK: true, skelCritOK: true, pollOK: true, sessOK: true, perShape: map[string]int{}}
	for bi := 0; bi < batches; bi++ {
		if !oneBatch(c, t, bi, c.N(70, 250), c.N(230, 900)) {
			return
		}
	}
	c.Oblige("correspondence", fmt.Sprintf("rendering: development mode on the template's own text file = normal mode (%d compiled templates, 3 valuations each)", t.templates), t.firstOK, "")
	c.Oblige("correspondence", fmt.Sprintf("rendering: text-only edit chains whose generated code differs only in literal contents render like a fresh build (%d chains)", t.skelEqual), t.skelOK, "")
	c.Oblige("correspondence", "rendering: every chain the handler calls text-only satisfies the comparison of options, literal count and expression list", t.critOK, "")
	c.Oblige("correspondence", fmt.Sprintf("rendering: every chain the handler calls text-only has the same generated code outside literal contents, by the harness's own comparison of the two files (%d chains; the shapes sink-kind-changed, control-flow-position-changed, literal-expression-order-changed, expression-use-order-changed no longer occur)", t.textOnly), t.skelCritOK, "")
	c.Oblige("correspondence", fmt.Sprintf("rendering: at most 3%% of the generated cases are rejected by the Go compiler (%d of %d)", t.dropped, t.generated), t.dropped*100 <= 3*t.generated, "")
	c.Oblige("correspondence", "rendering: the event handler accepts every template the parser accepts", t.unformattable == 0, fmt.Sprint(t.unformattable, " rejected"))
	c.Oblige("correspondence", fmt.Sprintf("schedule: programs rendering every 2-20 ms from before a text-only edit until 1.25 s after it end up rendering like a fresh build (%d templates)", t.polled), t.pollOK, "")
	c.Oblige("correspondence", fmt.Sprintf("session: after every step of every watch session the program compiled at the handler's last recompile request, reading the text file on disk, renders like a fresh build of the current version (%d steps of %d sessions, 3 valuations each)", t.sessSteps, t.sessions), t.sessOK, "")
	c.Oblige("side-condition", fmt.Sprintf("session: the generators produced at least 20 edits that move literal boundaries, leave the concatenated text unchanged and are answered text-only (%d)", t.sessBoundary), t.sessBoundary >= 20, "")
	c.Extra["session_steps"] = t.sessSteps
	c.Extra["session_steps_moving_literal_boundaries_only"] = t.sessBoundary
	c.Extra["text_only_chains"] = t.textOnly
	c.Extra["text_only_chains_rendering_differently_by_shape"] = t.perShape
	c.Extra["text_only_chains_with_changed_skeleton"] = t.textOnlyChanged
}

func oneBatch(c *core.Ctx, t *tally, bi, nPlain, nChains int) bool {
	fail := func(name, detail string) bool {
		c.Oblige("correspondence", "rendering: "+name, false, detail)
		return false
	}
	tmp, err := os.MkdirTemp("/tmp", "c16-")
	if err != nil {
		return fail("scratch directory", err.Error())
	}
	defer os.RemoveAll(tmp)
	tmp, _ = filepath.EvalSymlinks(tmp)
	rootA, rootB, rootP := filepath.Join(tmp, "rootA"), filepath.Join(tmp, "rootB"), filepath.Join(tmp, "rootP")
	const rootR = "rootR" // relative TEMPL_DEV_MODE_ROOT, resolved against the working directory tmp
	rootS := filepath.Join(tmp, "rootS") // the one root of the watch sessions
	for _, d := range []string{"a", "b", "real_al", "real_bl", "shared", "rootA", "rootB", "rootR", "rootP", "rootS"} {
		os.MkdirAll(filepath.Join(tmp, d), 0o755)
	}
	// package directories that are symbolic links
	os.Symlink(filepath.Join(tmp, "real_al"), filepath.Join(tmp, "al"))
	os.Symlink(filepath.Join(tmp, "real_bl"), filepath.Join(tmp, "bl"))
	if wd, err := os.Getwd(); err == nil {
		defer os.Chdir(wd)
	}
	os.Chdir(tmp)
	os.WriteFile(filepath.Join(tmp, "go.mod"), []byte("module c16scratch\n\ngo 1.23.0\n\nrequire github.com/a-h/templ v0.0.0\n\nreplace github.com/a-h/templ => "+core.Repo()+"\n"), 0o644)
	if sum, err := os.ReadFile(filepath.Join(core.Repo(), "go.sum")); err == nil {
		os.WriteFile(filepath.Join(tmp, "go.sum"), sum, 0o644)
	}
	oldRoot, hadRoot := os.LookupEnv("TEMPL_DEV_MODE_ROOT")
	defer func() {
		if hadRoot {
			os.Setenv("TEMPL_DEV_MODE_ROOT", oldRoot)
		} else {
			os.Unsetenv("TEMPL_DEV_MODE_ROOT")
		}
	}()

	h := generatecmd.NewFSEventHandler(slog.New(slog.NewTextHandler(io.Discard, nil)), tmp, true,
		[]generator.GenerateOpt{generator.WithVersion(version)}, false, false, generatecmd.FileWriter, false)
	ctx := context.Background()
	clock := time.Now().Add(-time.Hour)
	handle := func(file, src, root string) (generatecmd.GenerateResult, error) {
		if err := os.WriteFile(file, []byte(src), 0o644); err != nil {
			return generatecmd.GenerateResult{}, err
		}
		clock = clock.Add(2 * time.Second)
		os.Chtimes(file, clock, clock)
		os.Setenv("TEMPL_DEV_MODE_ROOT", root)
		return h.HandleEvent(ctx, fsnotify.Event{Name: file, Op: fsnotify.Write})
	}
	for _, pkg := range []string{"a", "b", "al", "bl"} {
		os.WriteFile(filepath.Join(tmp, pkg, "helpers.go"), []byte("package "+pkg+helpersGo), 0o644)
		if _, err := handle(filepath.Join(tmp, pkg, "helpers.templ"), "package "+pkg+"\n"+helpers, rootA); err != nil {
			return fail("helper templates generate", err.Error())
		}
	}

	// the helper components are not edited: their text files serve both roots
	var helperFiles []string
	if ents, err := os.ReadDir(rootA); err == nil {
		for _, e := range ents {
			if b, err := os.ReadFile(filepath.Join(rootA, e.Name())); err == nil {
				helperFiles = append(helperFiles, filepath.Join(rootA, e.Name()))
				os.WriteFile(filepath.Join(rootB, e.Name()), b, 0o644)
				os.WriteFile(filepath.Join(tmp, rootR, e.Name()), b, 0o644)
			}
		}
	}

	cases := buildCases(c, bi == 0, nPlain, nChains)
	handlerOK, fileOK := true, true
	var gens []*genRec
	var hcPairs []hcPair
	var lkReq []drv.Req
	var lkWant, lkSrc []string
	for _, tc := range cases {
		pa, pb := pkgOf(tc, "a"), pkgOf(tc, "b")
		fa := filepath.Join(tmp, pa, strings.ToLower(tc.name)+".templ")
		ga := strings.TrimSuffix(fa, ".templ") + "_templ.go"
		fb := filepath.Join(tmp, pb, strings.ToLower(tc.name)+".templ")
		if tc.layout == "filelink" {
			// the template is shared: the file in the package directory is a link to a file elsewhere
			for _, f := range []string{fa, fb} {
				target := filepath.Join(tmp, "shared", filepath.Base(filepath.Dir(f))+"_"+filepath.Base(f))
				os.WriteFile(target, nil, 0o644)
				os.Symlink(target, f)
			}
		}
		rootOwn := rootA
		if tc.layout == "relroot" {
			rootOwn = rootR
		}
		c.Hist("rendering: file-system layout " + map[string]string{"": "regular file, absolute root", "filelink": ".templ is a symlink to a file in another directory", "dirlink": "package directory is a symlink", "relroot": "relative TEMPL_DEV_MODE_ROOT"}[tc.layout])
		tc.ok = true
		for i, src := range tc.chain {
			src = withPkg(src, pa)
			root := rootOwn
			if i > 0 {
				root = rootB
			}
			out, rawCode, gerr := generate(src, genOpts(tmp, fa)...)
			if gerr != nil {
				tc.ok = false
				c.Hist("rendering: template rejected by the templ parser")
				break
			}
			if i == 0 || i == len(tc.chain)-1 {
				args := [][]byte{}
				for _, l := range out.Literals {
					args = append(args, []byte(l))
				}
				lkReq = append(lkReq, drv.Req{Fn: "litcheck", Args: args})
				var want []string
				for _, l := range out.Literals {
					v, ok := goUnquote([]byte(l))
					want = append(want, fmt.Sprintf("%v:%s", ok, v))
				}
				lkWant = append(lkWant, strings.Join(want, "\x00"))
				lkSrc = append(lkSrc, src)
			}
			res, err := handle(fa, src, root)
			if err != nil {
				tc.ok = false
				t.unformattable++
				if c.NFails("rendering: the code generated for a parsable template is accepted by the event handler") < 5 {
					c.Fail("property", "rendering: the code generated for a parsable template is accepted by the event handler", "generated-code-rejected",
						map[string]string{"template": src, "error": err.Error()}, "the watch-mode event handler fails on a template the parser accepts: no text file and no Go file are produced")
				}
				break
			}
			tc.outs = append(tc.outs, out)
			tc.gidx = append(tc.gidx, len(gens))
			gens = append(gens, &genRec{out: out, code: rawCode, what: abbr(src)})
			tc.goUpd = append(tc.goUpd, res.GoUpdated)
			if i == 0 {
				b, _ := os.ReadFile(ga)
				tc.codeA = string(b)
				if !res.GoUpdated {
					handlerOK = false
					c.Fail("tie", "decision: first generation of a file asks for compilation", "", map[string]string{"template": src}, "GoUpdated=false for a new file")
				}
			} else {
				real := generator.HasChanged(tc.outs[i-1], out)
				if real != res.GoUpdated {
					handlerOK = false
					if c.NFails("decision: handler GoUpdated = HasChanged(previous, updated)") < 3 {
						c.Fail("tie", "decision: handler GoUpdated = HasChanged(previous, updated)", "", map[string]string{"old": abbr(tc.chain[i-1]), "new": abbr(src)}, fmt.Sprintf("handler %v, HasChanged %v", res.GoUpdated, real))
					}
				}
				hcPairs = append(hcPairs, hcPair{tc.gidx[i-1], tc.gidx[i], abbr(tc.chain[i-1]) + "\n=====>\n" + abbr(src)})
				c.Count("hc:" + tc.chain[i-1] + "\x00" + src)
			}
			// the text file the handler wrote = the model's file of the real literals; every index reads back
			os.Setenv("TEMPL_DEV_MODE_ROOT", root)
			tc.txtBase = filepath.Base(templruntime.GetDevModeTextFileName(fa))
			txt, rerr := os.ReadFile(templruntime.GetDevModeTextFileName(fa))
			if rerr != nil || string(txt) != strings.Join(out.Literals, "\n") {
				fileOK = false
				if c.NFails("text file: handler writes the literals joined by newlines") < 3 {
					c.Fail("tie", "text file: handler writes the literals joined by newlines", "", map[string]string{"template": src, "file": string(txt)}, "file content differs from strings.Join(Literals, LF)")
				}
			}
		}
		if !tc.ok {
			os.Remove(fa)
			os.Remove(ga)
			continue
		}
		// put version 0 back in place; generate the last version as package b
		os.WriteFile(ga, []byte(tc.codeA), 0o644)
		if len(tc.chain) > 1 {
			srcB := withPkg(tc.chain[len(tc.chain)-1], pb)
			if _, err := handle(fb, srcB, rootOwn); err != nil {
				tc.ok = false
				os.Remove(fa)
				os.Remove(ga)
				continue
			}
			b, _ := os.ReadFile(strings.TrimSuffix(fb, ".templ") + "_templ.go")
			tc.codeB = string(b)
		}
		if !tc.typed {
			// the freshly generated code of some version would not compile: only the decision is compared
			c.Hist("rendering: edit makes the fresh build fail to compile (decision compared only)")
			os.Remove(ga)
			if len(tc.chain) > 1 {
				os.Remove(filepath.Join(tmp, pb, strings.ToLower(tc.name)+"_templ.go"))
			}
		}
	}

	// watch sessions: all events through the same handler, one root, interleaved
	sessions := buildSessions(c, bi == 0, c.N(40, 120))
	sessOrder := runSessions(c, t, sessions, handle, tmp, rootS, rootA, &gens, &hcPairs)

	// decision: model has_changed = generator.HasChanged, plus option perturbations
	{
		base := "package a\n\ntempl X(" + params + ") {\n\t<p>{ s }</p>\n}\n"
		optsets := [][]generator.GenerateOpt{
			{generator.WithVersion("v1"), generator.WithFileName("x.templ")},
			{generator.WithVersion("v2"), generator.WithFileName("x.templ")},
			{generator.WithVersion("v1"), generator.WithFileName("y.templ")},
			{generator.WithVersion("v1"), generator.WithFileName("x.templ"), generator.WithSkipCodeGeneratedComment()},
			{generator.WithVersion("v1"), generator.WithFileName("x.templ"), generator.WithTimestamp(time.Unix(1700000000, 0))},
			{generator.WithVersion("v1"), generator.WithFileName("x.templ"), generator.WithTimestamp(time.Unix(1800000000, 0))},
			{generator.WithVersion("v1"), generator.WithFileName("/abs/dir/x.templ")},
			{generator.WithVersion("v1"), generator.WithFileName("odd`, Line: 1, Col: 2}.templ")},
			{},
		}
		first := len(gens)
		for k, o := range optsets {
			out, code, err := generate(base, o...)
			if err == nil {
				gens = append(gens, &genRec{out: out, code: code, what: fmt.Sprintf("option set %d", k)})
			}
		}
		// the same option sets on a text-edited template (the date and the positions change together with the text)
		for k, o := range optsets[:6] {
			out, code, err := generate("package a\n\ntempl X("+params+") {\n\t<p>more\n\ttext</p>\n\t<p>{ s }</p>\n}\n", o...)
			if err == nil {
				gens = append(gens, &genRec{out: out, code: code, what: fmt.Sprintf("option set %d, text edited", k)})
			}
		}
		for i := first; i < len(gens); i++ {
			for j := first; j < len(gens); j++ {
				hcPairs = append(hcPairs, hcPair{i, j, gens[i].what + " -> " + gens[j].what})
				c.Count(fmt.Sprintf("hc-opt:%d:%d", i-first, j-first))
			}
		}
		// unrelated pairs of real outputs
		for k := 0; k < c.N(1200, 12000) && first > 1; k++ {
			hcPairs = append(hcPairs, hcPair{c.Rng.Intn(first), c.Rng.Intn(first), "random pair of generated outputs"})
			c.Count("")
		}
	}

	// skeleton: model skel_of_code(generated text) = GeneratorOutput.Skeleton byte for byte; the generated file is a
	// well-formed program of lines (calls numbered 1, 2, ...) whose literals are GeneratorOutput.Literals
	{
		reqs := make([]drv.Req, len(gens))
		for i, g := range gens {
			reqs[i] = drv.Req{Fn: "skeleton", Args: [][]byte{[]byte(g.code)}}
		}
		res := c.Model(reqs)
		skelOK, wfOK, fieldOK, usedOK := true, true, true, true
		nStack := 0
		for i, r := range res {
			g := gens[i]
			real, has := realSkeleton(g.out)
			if !has {
				fieldOK = false
			}
			if len(r) == 1 && string(r[0]) == "!stack" {
				nStack++
				continue
			}
			if len(r) < 2 {
				skelOK = false
				continue
			}
			g.mskel, g.mskelOK = string(r[0]), true
			c.Count("skel:" + g.code)
			if has && real != g.mskel {
				skelOK = false
				if c.NFails("skeleton: model skel_of_code(generated code) = GeneratorOutput.Skeleton") < 3 {
					c.Fail("tie", "skeleton: model skel_of_code(generated code) = GeneratorOutput.Skeleton", "", map[string]string{"template": g.what, "first_difference": firstDiff(g.mskel, real)}, "the skeleton recorded by the range writer is not the generated code without literal contents, date line and error positions")
				}
			}
			lits := make([]string, 0, len(r)-2)
			for _, x := range r[2:] {
				lits = append(lits, string(x))
			}
			if string(r[1]) != "1" || strings.Join(lits, "\x00") != strings.Join(g.out.Literals, "\x00") || len(lits) != len(g.out.Literals) {
				wfOK = false
				if c.NFails("skeleton: the generated file is a numbered program of lines carrying GeneratorOutput.Literals") < 3 {
					c.Fail("tie", "skeleton: the generated file is a numbered program of lines carrying GeneratorOutput.Literals", "", map[string]string{"template": g.what, "wf_code": string(r[1]), "literals_in_code": fmt.Sprint(len(lits)), "literals": fmt.Sprint(len(g.out.Literals))}, "WriteString calls are not numbered 1..n in order, or their literals are not the literal list")
				}
			}
			// the real HasChanged must use the field: two outputs that differ in the Skeleton only
			if has && i == 0 {
				v := reflect.New(reflect.TypeOf(g.out)).Elem()
				v.Set(reflect.ValueOf(g.out))
				v.FieldByName("Skeleton").SetString(real + "x")
				if !generator.HasChanged(g.out, v.Interface().(generator.GeneratorOutput)) || generator.HasChanged(g.out, g.out) {
					usedOK = false
				}
			}
		}
		c.Extra["skeleton_outputs_compared"] = len(gens) - nStack
		c.Extra["skeleton_outputs_too_long_for_the_extracted_model"] = nStack
		c.Oblige("correspondence", "skeleton: generator.GeneratorOutput has the string field Skeleton", fieldOK, "")
		c.Oblige("correspondence", fmt.Sprintf("skeleton: model skel_of_code(generated code) = GeneratorOutput.Skeleton byte for byte (%d generated files, date line and odd file names included)", len(gens)-nStack), skelOK && fieldOK, "")
		c.Oblige("side-condition", "skeleton: every generated file is a program of lines with calls numbered 1..n carrying GeneratorOutput.Literals (wf_code, hypothesis of C16_code_decision_sound)", wfOK, "")
		c.Oblige("correspondence", "skeleton: generator.HasChanged answers true for outputs that differ in the Skeleton field only", usedOK && fieldOK, "")
	}

	sessionModel(c, sessions, sessOrder, gens)

	hcReq := make([]drv.Req, len(hcPairs))
	hcImpl := make([]bool, len(hcPairs))
	hcOld := make([]bool, len(hcPairs))
	for i, pr := range hcPairs {
		hcReq[i] = drv.Req{Fn: "haschanged", Args: hcArgs(gens[pr.p], gens[pr.u])}
		hcImpl[i] = generator.HasChanged(gens[pr.p].out, gens[pr.u].out)
		hcOld[i] = !hcSpec(gens[pr.p].out, gens[pr.u].out)
	}
	res := c.Model(hcReq)
	hcOK, oldOK := true, true
	nStricter := 0
	for i, r := range res {
		m := len(r) == 2 && string(r[0]) == "1"
		mOld := len(r) == 2 && string(r[1]) == "1"
		if m != hcImpl[i] {
			hcOK = false
			if c.NFails("decision: model has_changed = generator.HasChanged") < 3 {
				c.Fail("tie", "decision: model has_changed = generator.HasChanged", "", map[string]string{"pair": hcPairs[i].what}, fmt.Sprintf("model %v (criterion of before 75525d5: %v), HasChanged %v", m, mOld, hcImpl[i]))
			}
		}
		if mOld != hcOld[i] {
			oldOK = false
		}
		if m && !mOld {
			nStricter++
		}
		if hcImpl[i] {
			c.Hist("decision: recompile")
		} else {
			c.Hist("decision: text only")
		}
	}
	c.Extra[fmt.Sprintf("batch%d_pairs_recompiled_because_of_the_skeleton_only", bi)] = nStricter
	c.Oblige("correspondence", "decision: model has_changed (old comparisons, then model skeletons of the two generated files) = generator.HasChanged on every edit step, option perturbation and random pair", hcOK, "")
	c.Oblige("correspondence", "decision: model expr_list_criterion = the comparison of options, literal count and expression list computed by the harness", oldOK, "")
	c.Oblige("correspondence", "decision: the event handler's GoUpdated is HasChanged(previous output, new output); a new file is GoUpdated", handlerOK, "")
	c.Oblige("correspondence", "text file: the event handler writes strings.Join(Literals, LF)", fileOK, "")

	// literals of the real generator: file round trip, per-index lookup and scanner predicate in the model
	lres := c.Model(lkReq)
	litOK := true
	for i, r := range lres {
		if len(r) == 1 && string(r[0]) == "!stack" { // recursion depth of the extracted model on lines of 200 kB and more
			continue
		}
		got := make([]string, 0, len(r))
		for _, x := range r {
			got = append(got, string(x))
		}
		if strings.Join(got, "\x00") != lkWant[i] {
			litOK = false
			// the specification predicate on the generator's own literals: each must stay one line of the file and one Go literal
			if c.NFails("text file: every generated literal reads back from its line of the file") < 5 {
				c.Fail("property", "text file: every generated literal reads back from its line of the file", "literal-breaks-line-or-quote",
					map[string]string{"template": abbr(lkSrc[i]), "model": strings.Join(got, "|"), "strconv": strings.ReplaceAll(lkWant[i], "\x00", "|")},
					"a literal of the real generator contains a raw newline or unescaped quote, or the file built from the literals does not give literal i at index i")
			}
		}
	}
	c.Oblige("correspondence", "text file: for the real generator's literals the model's file splits back and index i reads literal i (scanner predicate true)", litOK, "")

	// ---- build once ----
	prog := filepath.Join(tmp, "prog")
	var buildErr string
	for attempt := 0; attempt < 5; attempt++ {
		var ra, rb []string
		for _, tc := range cases {
			if tc.ok && tc.typed && !tc.dropped {
				ra = append(ra, fmt.Sprintf("\t%q: %s.%s,\n", tc.name, pkgOf(tc, "a"), tc.name))
				if len(tc.chain) > 1 {
					rb = append(rb, fmt.Sprintf("\t%q: %s.%s,\n", tc.name, pkgOf(tc, "b"), tc.name))
				}
			}
		}
		for _, s := range sessions {
			if s.ok && !s.dropped {
				ra = append(ra, fmt.Sprintf("\t%q: a.%s,\n", s.name, s.name))
				for _, v := range s.vers[1:] {
					rb = append(rb, fmt.Sprintf("\t%q: b.%s,\n", v.nameB, v.nameB))
				}
			}
		}
		reg := "package main\n\nimport (\n\t\"c16scratch/a\"\n\t\"c16scratch/al\"\n\t\"c16scratch/b\"\n\t\"c16scratch/bl\"\n)\n\nvar _, _, _, _ = a.K, b.K, al.K, bl.K\n\nvar regA = map[string]fn{\n" + strings.Join(ra, "") + "}\n\nvar regB = map[string]fn{\n" + strings.Join(rb, "") + "}\n"
		os.WriteFile(filepath.Join(tmp, "main.go"), []byte(mainSrc), 0o644)
		os.WriteFile(filepath.Join(tmp, "reg.go"), []byte(reg), 0o644)
		cmd := exec.Command("go", "build", "-o", prog, ".")
		cmd.Dir = tmp
		cmd.Env = envWithout("TEMPL_DEV_MODE", "TEMPL_DEV_MODE_ROOT")
		out, err := cmd.CombinedOutput()
		if err == nil {
			buildErr = ""
			break
		}
		buildErr = string(out)
		if os.Getenv("VERIF_C16_DEBUG") != "" {
			fmt.Fprintln(os.Stderr, buildErr)
		}
		bad := map[string]bool{}
		for _, m := range regexp.MustCompile(`[ab]l?/(t\d+)_templ\.go`).FindAllStringSubmatch(buildErr, -1) {
			bad[strings.ToUpper(m[1])] = true
		}
		badS := map[string]bool{}
		for _, m := range regexp.MustCompile(`[ab]/(s\d+)(?:_\d+)?_templ\.go`).FindAllStringSubmatch(buildErr, -1) {
			badS[strings.ToUpper(m[1])] = true
		}
		if len(bad) == 0 && len(badS) == 0 {
			break
		}
		for _, s := range sessions {
			if badS[s.name] && !s.dropped {
				s.dropped = true
				c.Hist("session: generated code rejected by the Go compiler (dropped)")
				removeSession(tmp, s)
			}
		}
		for _, tc := range cases {
			if bad[tc.name] {
				tc.dropped = true
				if os.Getenv("VERIF_C16_DEBUG") != "" {
					fmt.Fprintln(os.Stderr, "DROPPED", tc.name, tc.kinds, "\n"+tc.chain[0]+"\n=>\n"+tc.chain[len(tc.chain)-1])
				}
				c.Hist("rendering: generated code rejected by the Go compiler (dropped)")
				os.Remove(filepath.Join(tmp, pkgOf(tc, "a"), strings.ToLower(tc.name)+"_templ.go"))
				os.Remove(filepath.Join(tmp, pkgOf(tc, "b"), strings.ToLower(tc.name)+"_templ.go"))
			}
		}
	}
	if buildErr != "" {
		return fail("scratch module builds", lastN(buildErr, 1500))
	}
	nDropped := 0
	for _, tc := range cases {
		if tc.dropped {
			nDropped++
		}
	}
	c.Extra[fmt.Sprintf("batch%d_dropped_by_compiler", bi)] = nDropped
	t.dropped += nDropped
	t.generated += len(cases)

	// ---- run: normal, development mode on own files, development mode on the edited templates' files ----
	var chainNames []string
	for _, tc := range cases {
		if tc.ok && tc.typed && !tc.dropped && len(tc.chain) > 1 {
			chainNames = append(chainNames, tc.name)
		}
	}
	namesFile := filepath.Join(tmp, "names.txt")
	os.WriteFile(namesFile, []byte(strings.Join(chainNames, "\n")), 0o644)
	normalEnv := envWithout("TEMPL_DEV_MODE", "TEMPL_DEV_MODE_ROOT")
	devEnv := func(root string) []string {
		return append(envWithout("TEMPL_DEV_MODE", "TEMPL_DEV_MODE_ROOT"), "TEMPL_DEV_MODE=true", "TEMPL_DEV_MODE_ROOT="+root)
	}
	nA, e1 := runProg(prog, "A", "", normalEnv)
	nB, e2 := runProg(prog, "B", "", normalEnv)
	dA, e3 := runProg(prog, "A", "", devEnv(rootA))
	dB, e4 := runProg(prog, "B", "", devEnv(rootA))
	xA, e5 := runProg(prog, "A", namesFile, devEnv(rootB))
	// relative TEMPL_DEV_MODE_ROOT: the program runs in the directory the generator ran in
	dAr, e6 := runProgIn(tmp, prog, "A", "", devEnv(rootR))
	dBr, e7 := runProgIn(tmp, prog, "B", "", devEnv(rootR))
	for _, e := range []error{e1, e2, e3, e4, e5, e6, e7} {
		if e != nil {
			return fail("scratch program runs", e.Error())
		}
	}

	if !pollSchedule(c, t, tmp, prog, rootA, rootB, rootP, cases, nA, nB, devEnv) {
		return false
	}
	if !judgeSessions(c, t, sessions, tmp, prog, helperFiles, nA, nB, devEnv) {
		return false
	}

	for _, tc := range cases {
		if !(tc.ok && tc.typed && !tc.dropped) {
			continue
		}
		last := len(tc.chain) - 1
		// first half: development mode on the template's own text file = normal mode
		sides := []struct {
			n, d renders
			src string
		}{{nA, dA, tc.chain[0]}}
		if tc.layout == "relroot" {
			sides[0].d = dAr
		}
		if last > 0 {
			sides = append(sides, struct {
				n, d renders
				src string
			}{nB, dB, tc.chain[last]})
			if tc.layout == "relroot" {
				sides[1].d = dBr
			}
		}
		for _, s := range sides {
			c.Count("tpl:" + s.src)
			t.templates++
			for i := range s.n[tc.name] {
				if i >= len(s.d[tc.name]) || s.n[tc.name][i] != s.d[tc.name][i] {
					t.firstOK = false
					if c.NFails("rendering: development mode on the template's own text file = normal mode") < 5 {
						d := "(missing)"
						if i < len(s.d[tc.name]) {
							d = unhex(s.d[tc.name][i])
						}
						c.Fail("property", "rendering: development mode on the template's own text file = normal mode", "dev-differs-from-normal",
							map[string]any{"template": abbr(s.src), "construction": tc.seeded, "file_system_layout": layoutDoc(tc.layout), "valuation": i, "normal": abbr(unhex(s.n[tc.name][i])), "dev": abbr(d), "literal_lengths": litLens(tc.outs[0])}, "TEMPL_DEV_MODE=true renders different bytes from the normally generated code")
					}
					break
				}
			}
		}
		if last == 0 {
			c.Hist("rendering: single template (first half only)")
			continue
		}
		noRecompile := true
		for i := 1; i <= last; i++ {
			if tc.goUpd[i] {
				noRecompile = false
			}
		}
		c.Count("chain:" + strings.Join(tc.chain, "\x00"))
		for _, k := range tc.kinds {
			if k != "" {
				c.Hist("edit: " + k)
			}
		}
		if !noRecompile {
			c.Hist("rendering: chain classified as needing recompilation")
			if shapeOf(tc.codeA, tc.codeB) == "skeleton-equal" {
				c.Hist("rendering: chain recompiled at some step although first and last version differ in literal contents only")
			}
			continue
		}
		t.textOnly++
		shape := shapeOf(tc.codeA, tc.codeB)
		// a negative answer the specified criterion would not give is never a known shape
		if !hcSpec(tc.outs[0], tc.outs[last]) {
			shape = "recompile-criterion-not-applied"
			t.critOK = false
		}
		if shape != "skeleton-equal" {
			t.textOnlyChanged++
			t.skelCritOK = false
			if c.NFails("decision: a chain answered text-only has the same generated code outside literal contents") < 3 {
				c.Fail("tie", "decision: a chain answered text-only has the same generated code outside literal contents", "", map[string]any{"old": abbr(tc.chain[0]), "new": abbr(tc.chain[last]), "edits": tc.kinds, "difference": shape},
					"no recompilation was requested although the two generated files differ outside the contents of their string literals (harness's own line-by-line comparison)")
			}
		} else {
			t.skelEqual++
		}
		c.Hist("rendering: text-only chain, " + shape)
		for i := range nB[tc.name] {
			if i >= len(xA[tc.name]) || !sameRender(nB[tc.name][i], xA[tc.name][i]) {
				if shape == "skeleton-equal" || shape == "skeleton-differs-other" {
					t.skelOK = false
				}
				fam := "rendering: old program reading the new text file = newly generated program"
				t.perShape[shape]++
				if t.perShape[shape] <= 8 {
					x := "(missing)"
					if i < len(xA[tc.name]) {
						x = unhex(xA[tc.name][i])
					}
					in := map[string]any{"old": abbr(tc.chain[0]), "new": abbr(tc.chain[last]), "edits": tc.kinds, "valuation": i, "fresh": abbr(unhex(nB[tc.name][i])), "watch": abbr(x)}
					if tc.seeded != "" {
						in["reproduction"] = tc.seeded
					}
					if last > 1 {
						in["via"] = abbrAll(tc.chain[1:last])
					}
					c.Fail("property", fam, shape, in, "the edit was classified as needing no recompilation, but the running program shows different bytes from a fresh generate and build")
				}
				break
			}
		}
	}
	if bi == 0 {
		c.Oblige("correspondence", "rendering: scratch module of generated templates builds and runs in all three modes", true, "")
		for _, tc := range cases[:3] {
			if tc.ok {
				c.Sample(map[string]any{"old": abbr(tc.chain[0]), "new": abbr(tc.chain[len(tc.chain)-1]), "handler_go_updated": tc.goUpd})
			}
		}
	}
	return true
}

// hcSpec is the stated criterion computed by the harness itself: same options (date apart), same number of
// literals, same list of Go expressions.
func hcSpec(p, u generator.GeneratorOutput) bool {
	if p.Options.Version != u.Options.Version || p.Options.FileName != u.Options.FileName || p.Options.SkipCodeGeneratedComment != u.Options.SkipCodeGeneratedComment {
		return false
	}
	if len(p.Literals) != len(u.Literals) || len(p.SourceMap.Expressions) != len(u.SourceMap.Expressions) {
		return false
	}
	for i := range p.SourceMap.Expressions {
		if p.SourceMap.Expressions[i] != u.SourceMap.Expressions[i] {
			return false
		}
	}
	return true
}

// firstDiff shows where two strings part.
func firstDiff(a, b string) string {
	i := 0
	for i < len(a) && i < len(b) && a[i] == b[i] {
		i++
	}
	lo := i - 60
	if lo < 0 {
		lo = 0
	}
	cut := func(x string) string {
		hi := i + 60
		if hi > len(x) {
			hi = len(x)
		}
		return x[lo:hi]
	}
	return fmt.Sprintf("at byte %d: model %q, generator %q", i, cut(a), cut(b))
}

func lastN(s string, n int) string {
	if len(s) > n {
		return s[len(s)-n:]
	}
	return s
}

func litLens(o generator.GeneratorOutput) []int {
	r := make([]int, len(o.Literals))
	for i, l := range o.Literals {
		r[i] = len(l)
	}
	return r
}

func pkgOf(tc *tcase, side string) string {
	if tc.layout == "dirlink" {
		return side + "l"
	}
	return side
}

func withPkg(src, pkg string) string {
	if strings.HasPrefix(src, "package a\n") {
		return "package " + pkg + src[len("package a"):]
	}
	return src
}

func layoutDoc(l string) string {
	switch l {
	case "filelink":
		return "pkg/x.templ is a symbolic link to shared/pkg_x.templ; x_templ.go is a regular file next to the link; absolute TEMPL_DEV_MODE_ROOT"
	case "dirlink":
		return "the package directory is a symbolic link to another directory; files inside are regular; absolute TEMPL_DEV_MODE_ROOT"
	case "relroot":
		return "regular files; TEMPL_DEV_MODE_ROOT=rootR (relative), generator and program both run in the module directory"
	}
	return "regular files; absolute TEMPL_DEV_MODE_ROOT"
}

// pollSchedule: a program that keeps rendering at 2-20 ms intervals from before a text-only edit until more than
// a second after it must end up showing what a fresh build shows (the runtime may serve its cache for at most
// 100 ms after the file's modification time, not for as long as it is being asked).
func pollSchedule(c *core.Ctx, t *tally, tmp, prog, rootA, rootB, rootP string, cases []*tcase, nA, nB renders, devEnv func(string) []string) bool {
	var sel []*tcase
	for _, tc := range cases {
		last := len(tc.chain) - 1
		if !(tc.ok && tc.typed && !tc.dropped) || last == 0 || tc.layout == "relroot" || len(tc.chain[last]) > 20000 {
			continue
		}
		text := true
		for i := 1; i <= last; i++ {
			text = text && !tc.goUpd[i]
		}
		if !text || shapeOf(tc.codeA, tc.codeB) != "skeleton-equal" || len(nA[tc.name]) == 0 || len(nB[tc.name]) == 0 ||
			nA[tc.name][0] == nB[tc.name][0] || !strings.HasPrefix(nB[tc.name][0], "OK") {
			continue
		}
		sel = append(sel, tc)
		if len(sel) == c.N(8, 30) {
			break
		}
	}
	if len(sel) == 0 {
		c.Oblige("correspondence", "schedule: a text-only edit with a visible effect is available to poll", false, "")
		return true
	}
	ents, _ := os.ReadDir(rootA)
	for _, e := range ents {
		if b, err := os.ReadFile(filepath.Join(rootA, e.Name())); err == nil {
			os.WriteFile(filepath.Join(rootP, e.Name()), b, 0o644)
		}
	}
	var names []string
	for _, tc := range sel {
		names = append(names, tc.name)
	}
	nf := filepath.Join(tmp, "poll.txt")
	os.WriteFile(nf, []byte(strings.Join(names, "\n")), 0o644)
	time.Sleep(30 * time.Millisecond) // the old files' modification time lies clearly before the edit
	const before, after = 250, 1250
	cmd := exec.Command(prog, "P", nf, fmt.Sprint(before+after))
	cmd.Env = devEnv(rootP)
	stdout, err := cmd.StdoutPipe()
	if err != nil || cmd.Start() != nil {
		c.Oblige("correspondence", "schedule: polling program starts", false, fmt.Sprint(err))
		return false
	}
	rd := bufio.NewReader(stdout)
	final := map[string]string{}
	changes := map[string]string{}
	stats := ""
	edited := false
	for {
		line, rerr := rd.ReadString('\n')
		f := strings.Fields(line)
		switch {
		case len(f) == 1 && f[0] == "READY" && !edited:
			edited = true
			time.Sleep(before * time.Millisecond)
			// the edit: the new text file replaces the old one in one step, as a finished write
			for _, tc := range sel {
				if b, err := os.ReadFile(filepath.Join(rootB, tc.txtBase)); err == nil {
					tmpf := filepath.Join(rootP, tc.txtBase+".new")
					os.WriteFile(tmpf, b, 0o644)
					os.Rename(tmpf, filepath.Join(rootP, tc.txtBase))
				}
			}
		case len(f) >= 3 && f[0] == "P" && f[2] == "FINAL":
			final[f[1]] = strings.Join(f[3:], " ")
		case len(f) >= 3 && f[0] == "P" && f[2] == "CHANGES":
			changes[f[1]] = strings.Join(f[3:], " ")
		case len(f) == 3 && f[0] == "STATS":
			stats = f[1] + " rounds, longest gap " + f[2] + " ms"
		}
		if rerr != nil {
			break
		}
	}
	cmd.Wait()
	ok := true
	for _, tc := range sel {
		last := len(tc.chain) - 1
		c.Count("poll:" + tc.chain[0] + "\x00" + tc.chain[last])
		c.Hist("schedule: polled across a text-only edit")
		if final[tc.name] != nB[tc.name][0] {
			ok = false
			if c.NFails("schedule: a program polled at 2-20 ms intervals shows the edit within a second") < 4 {
				c.Fail("property", "schedule: a program polled at 2-20 ms intervals shows the edit within a second", "dev-text-stale-after-edit",
					map[string]any{"old": abbr(tc.chain[0]), "new": abbr(tc.chain[last]), "schedule": fmt.Sprintf("render every 2-20 ms; text file replaced %d ms after the first round; rendering continues for %d ms after that (%s)", before, after, stats),
						"rendering_changed_at_ms": changes[tc.name], "fresh": abbr(unhex(nB[tc.name][0])), "watch_final": abbr(unhex(final[tc.name])), "file_system_layout": layoutDoc(tc.layout)},
					"more than a second after a text-only edit the running development-mode program still does not render what a fresh build renders")
			}
		}
	}
	t.polled += len(sel)
	t.pollOK = t.pollOK && ok
	c.Extra["schedule_poll"] = map[string]any{"templates": len(sel), "stats": stats, "edit_at_ms": before, "observed_until_ms": before + after}
	return true
}
