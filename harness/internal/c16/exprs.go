package c16

// Edits of the TEXT of a Go expression inside a template: white space inside and outside string / raw-string /
// rune literals, letter case, operators, argument order, comments.  Any change of the expression text must be
// classified "recompile" (model has_changed compares the byte strings); the harness renders whenever the real
// HasChanged answers otherwise.

import (
	"strings"

	"verifharness/internal/rng"
)

// F, Tag and TAG are defined in helpers.go of the scratch packages.
var richExprs = []string{
	`F("%s has  %d   items", s, len(xs))`,
	"F(`raw  text\n\tline  two %s`, t)",
	`s + "  a   b  " + t`,
	`F("%c|%s|%s", ' ', s, t)`,
	`Tag(s) + F("%s - %s", s, t)`,
	`F("Items: %s", s /* note one */)`,
	`F("%s", t) + " x  y"`,
}
var richConds = []string{
	`F("%s  %s", s, t) == "a  a"`,
	`len(xs) > 1 && s + " " == "a "`,
	`F("%s", s) != "A"`,
}

func init() {
	strExprs = append(strExprs, richExprs...)
	conds = append(conds, richConds...)
}

// literal regions of a Go expression: [from,to) of the characters between the delimiters
type region struct{ from, to int }

func literalRegions(e string) (inside []region) {
	for i := 0; i < len(e); {
		switch e[i] {
		case '"', '\'':
			q := e[i]
			j := i + 1
			for j < len(e) && e[j] != q {
				if e[j] == '\\' {
					j++
				}
				j++
			}
			inside = append(inside, region{i + 1, min(j, len(e))})
			i = j + 1
		case '`':
			j := strings.IndexByte(e[i+1:], '`')
			if j < 0 {
				j = len(e) - i - 1
			}
			inside = append(inside, region{i + 1, i + 1 + j})
			i = i + j + 2
		case '/':
			if i+1 < len(e) && e[i+1] == '*' {
				j := strings.Index(e[i+2:], "*/")
				if j < 0 {
					return
				}
				i = i + j + 4
				continue
			}
			i++
		default:
			i++
		}
	}
	return
}

func inAny(rs []region, p int) bool {
	for _, r := range rs {
		if p >= r.from && p < r.to {
			return true
		}
	}
	return false
}

func isWS(b byte) bool { return b == ' ' || b == '\t' || b == '\n' }

// editExprText changes the text of one expression; kind names the dimension.
func editExprText(r *rng.R, e string) (string, string, bool) {
	lits := literalRegions(e)
	for try := 0; try < 12; try++ {
		switch r.Intn(9) {
		case 0, 1, 2: // white space INSIDE a string / raw string / rune literal
			var runs []region
			for _, l := range lits {
				for i := l.from; i < l.to; i++ {
					if isWS(e[i]) && (i == l.from || !isWS(e[i-1])) {
						j := i
						for j < l.to && isWS(e[j]) {
							j++
						}
						runs = append(runs, region{i, j})
					}
				}
			}
			if len(runs) == 0 {
				continue
			}
			w := runs[r.Intn(len(runs))]
			old := e[w.from:w.to]
			isRune := w.from > 0 && e[w.from-1] == '\''
			var repl string
			switch {
			case isRune && old == " ":
				repl = "\t"
			case isRune:
				repl = " "
			case strings.ContainsAny(old, "\n\t") && inRaw(e, w.from):
				repl = " "
			case len(old) > 1:
				repl = " "
			default:
				repl = strings.Repeat(" ", 2+r.Intn(3))
			}
			if !inRaw(e, w.from) && strings.ContainsAny(repl, "\n") {
				continue
			}
			return e[:w.from] + repl + e[w.to:], "expression-text: white space inside a literal", true
		case 3: // white space OUTSIDE literals
			var sites []int
			for i := 0; i < len(e); i++ {
				if (e[i] == ',' || e[i] == '+' || e[i] == '(') && !inAny(lits, i) {
					sites = append(sites, i+1)
				}
			}
			if len(sites) == 0 {
				continue
			}
			p := sites[r.Intn(len(sites))]
			return e[:p] + rng.Pick(r, []string{" ", "  ", "\t"}) + e[p:], "expression-text: white space outside literals", true
		case 4: // letter case inside a literal (not a formatting verb or an escape)
			var sites []int
			for _, l := range lits {
				for i := l.from; i < l.to; i++ {
					c := e[i]
					if ((c >= 'a' && c <= 'z') || (c >= 'A' && c <= 'Z')) && i > l.from && e[i-1] != '%' && e[i-1] != '\\' && e[l.from-1] != '\'' {
						sites = append(sites, i)
					}
				}
			}
			if len(sites) == 0 {
				continue
			}
			p := sites[r.Intn(len(sites))]
			return e[:p] + string(e[p]^0x20) + e[p+1:], "expression-text: letter case inside a literal", true
		case 5: // identifier case: a different function
			if strings.Contains(e, "Tag(") {
				return strings.Replace(e, "Tag(", "TAG(", 1), "expression-text: identifier case", true
			}
			if strings.Contains(e, "TAG(") {
				return strings.Replace(e, "TAG(", "Tag(", 1), "expression-text: identifier case", true
			}
		case 6: // operator
			for _, p := range [][2]string{{" == ", " != "}, {" != ", " == "}, {" > 1", " >= 1"}, {" && ", " || "}} {
				if i := strings.Index(e, p[0]); i >= 0 && !inAny(lits, i) {
					return e[:i] + p[1] + e[i+len(p[0]):], "expression-text: operator", true
				}
			}
		case 7: // argument / operand order
			for _, p := range [][2]string{{", s, t)", ", t, s)"}, {", t, s)", ", s, t)"}, {"s + t", "t + s"}, {"t + s", "s + t"}} {
				if i := strings.Index(e, p[0]); i >= 0 && !inAny(lits, i) {
					return e[:i] + p[1] + e[i+len(p[0]):], "expression-text: argument order", true
				}
			}
		default: // comment
			if i := strings.Index(e, "/* note one */"); i >= 0 {
				return e[:i] + "/* note  two */" + e[i+len("/* note one */"):], "expression-text: comment", true
			}
			if i := strings.LastIndexByte(e, ')'); i >= 0 && !inAny(lits, i) {
				return e[:i] + " /* c */" + e[i:], "expression-text: comment", true
			}
		}
	}
	return e, "", false
}

func inRaw(e string, p int) bool {
	for _, l := range literalRegions(e) {
		if p >= l.from && p <= l.to && l.from > 0 && e[l.from-1] == '`' {
			return true
		}
	}
	return false
}

// exprSites lists the editable string-typed expressions and conditions of a tree.
func exprSites(ns []*node, acc *[]*string) {
	for _, n := range ns {
		switch n.kind {
		case "expr", "call", "if":
			if n.expr != "x" && n.expr != "K" {
				*acc = append(*acc, &n.expr)
			}
		case "script":
			for i := range n.script {
				if n.script[i].expr != "" && n.script[i].expr != "x" && n.script[i].expr != "K" {
					*acc = append(*acc, &n.script[i].expr)
				}
			}
		case "elem":
			for i := range n.attrs {
				a := &n.attrs[i]
				if (a.kind == "expr" && exprType(a.expr) == "str" && a.expr != "x") || a.kind == "boolexpr" || a.kind == "cond" {
					*acc = append(*acc, &a.expr)
				}
			}
		}
		exprSites(n.kids, acc)
		exprSites(n.els, acc)
	}
}

// editExpression applies one expression-text edit somewhere in a copy of body.
func editExpression(r *rng.R, body []*node) ([]*node, string, bool) {
	out := cloneNodes(body)
	var sites []*string
	exprSites(out, &sites)
	// prefer expressions that contain a literal
	var rich []*string
	for _, s := range sites {
		if strings.ContainsAny(*s, "\"`'") {
			rich = append(rich, s)
		}
	}
	if len(rich) > 0 && r.Intn(5) != 0 {
		sites = rich
	}
	if len(sites) == 0 {
		return out, "", false
	}
	s := sites[r.Intn(len(sites))]
	e, kind, ok := editExprText(r, *s)
	if !ok || e == *s {
		return out, "", false
	}
	*s = e
	return out, kind, true
}
