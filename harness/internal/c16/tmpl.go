package c16

// Random templ templates (as a small tree, printed to templ source) and the edit grammar over them.

import (
	"strings"

	"verifharness/internal/rng"
)

type spart struct {
	js    string // JavaScript text
	expr  string // {{ expr }}
	inStr bool   // "{{ expr }}"
}

type attr struct {
	kind  string // const | bool | expr | boolexpr | cond | spread
	name  string
	value string
	expr  string
	then  []attr
}

type node struct {
	kind   string // text | elem | expr | if | for | switch | script | comment | style | call | wrap | doctype
	text   string
	name   string
	attrs  []attr
	kids   []*node
	els    []*node
	expr   string
	script []spart
	inline bool // print children on the same line as the tags
}

// the signature every generated template has; K and the helper components live in helpers.templ
const params = "s string, t string, b bool, xs []string, at templ.Attributes, cs templ.ComponentScript"

func (n *node) clone() *node {
	if n == nil {
		return nil
	}
	m := *n
	m.attrs = cloneAttrs(n.attrs)
	m.kids = cloneNodes(n.kids)
	m.els = cloneNodes(n.els)
	m.script = append([]spart(nil), n.script...)
	return &m
}
func cloneNodes(ns []*node) []*node {
	if ns == nil {
		return nil
	}
	r := make([]*node, len(ns))
	for i, n := range ns {
		r[i] = n.clone()
	}
	return r
}
func cloneAttrs(as []attr) []attr {
	if as == nil {
		return nil
	}
	r := make([]attr, len(as))
	for i, a := range as {
		r[i] = a
		r[i].then = cloneAttrs(a.then)
	}
	return r
}

var voidElems = map[string]bool{"br": true, "hr": true, "img": true, "input": true}

func ind(w *strings.Builder, n int) { w.WriteString(strings.Repeat("\t", n)) }

func emitAttrs(w *strings.Builder, as []attr, lvl int) {
	for _, a := range as {
		switch a.kind {
		case "const":
			w.WriteString(" " + a.name + "=\"" + a.value + "\"")
		case "bool":
			w.WriteString(" " + a.name)
		case "expr":
			w.WriteString(" " + a.name + "={ " + a.expr + " }")
		case "boolexpr":
			w.WriteString(" " + a.name + "?={ " + a.expr + " }")
		case "spread":
			w.WriteString(" { " + a.expr + "... }")
		case "cond":
			w.WriteString("\n")
			ind(w, lvl+1)
			w.WriteString("if " + a.expr + " {\n")
			ind(w, lvl+2)
			var sb strings.Builder
			emitAttrs(&sb, a.then, lvl+2)
			w.WriteString(strings.TrimPrefix(sb.String(), " "))
			w.WriteString("\n")
			ind(w, lvl+1)
			w.WriteString("}\n")
			ind(w, lvl)
		}
	}
}

func emitNodes(w *strings.Builder, ns []*node, lvl int) {
	for _, n := range ns {
		emit(w, n, lvl)
	}
}

func emit(w *strings.Builder, n *node, lvl int) {
	switch n.kind {
	case "doctype":
		ind(w, lvl)
		w.WriteString("<!DOCTYPE " + n.text + ">\n")
	case "text":
		ind(w, lvl)
		w.WriteString(strings.ReplaceAll(n.text, "\n", "\n"+strings.Repeat("\t", lvl)) + "\n")
	case "expr":
		ind(w, lvl)
		w.WriteString("{ " + n.expr + " }\n")
	case "elem":
		ind(w, lvl)
		w.WriteString("<" + n.name)
		emitAttrs(w, n.attrs, lvl)
		if voidElems[n.name] {
			w.WriteString("/>\n")
			return
		}
		w.WriteString(">")
		inline := n.inline
		for _, k := range n.kids {
			// block constructs and calls start a line of their own
			if k.kind != "text" && k.kind != "expr" && k.kind != "elem" {
				inline = false
			}
			if k.kind == "text" && strings.Contains(k.text, "\n") {
				inline = false
			}
		}
		if inline {
			var sb strings.Builder
			for _, k := range n.kids {
				var one strings.Builder
				emit(&one, k, 0)
				sb.WriteString(strings.TrimSuffix(one.String(), "\n"))
			}
			w.WriteString(sb.String())
		} else {
			w.WriteString("\n")
			emitNodes(w, n.kids, lvl+1)
			ind(w, lvl)
		}
		w.WriteString("</" + n.name + ">\n")
	case "if":
		ind(w, lvl)
		w.WriteString("if " + n.expr + " {\n")
		emitNodes(w, n.kids, lvl+1)
		ind(w, lvl)
		if n.els != nil {
			w.WriteString("} else {\n")
			emitNodes(w, n.els, lvl+1)
			ind(w, lvl)
		}
		w.WriteString("}\n")
	case "for":
		ind(w, lvl)
		w.WriteString("for _, x := range xs {\n")
		emitNodes(w, n.kids, lvl+1)
		ind(w, lvl)
		w.WriteString("}\n")
	case "switch":
		ind(w, lvl)
		w.WriteString("switch " + n.expr + " {\n")
		ind(w, lvl+1)
		w.WriteString("case \"a\":\n")
		emitNodes(w, n.kids, lvl+2)
		ind(w, lvl+1)
		w.WriteString("default:\n")
		emitNodes(w, n.els, lvl+2)
		ind(w, lvl)
		w.WriteString("}\n")
	case "script":
		ind(w, lvl)
		w.WriteString("<script>")
		for _, p := range n.script {
			switch {
			case p.expr == "":
				w.WriteString(p.js)
			case p.inStr:
				w.WriteString("\"{{ " + p.expr + " }}\"")
			default:
				w.WriteString("{{ " + p.expr + " }}")
			}
		}
		w.WriteString("</script>\n")
	case "comment":
		ind(w, lvl)
		w.WriteString("<!-- " + n.text + " -->\n")
	case "style":
		ind(w, lvl)
		w.WriteString("<style>" + n.text + "</style>\n")
	case "call":
		ind(w, lvl)
		w.WriteString("@Helper(" + n.expr + ")\n")
	case "wrap":
		ind(w, lvl)
		w.WriteString("@Wrap() {\n")
		emitNodes(w, n.kids, lvl+1)
		ind(w, lvl)
		w.WriteString("}\n")
	}
}

func source(pkg, name string, body []*node) string {
	var w strings.Builder
	w.WriteString("package " + pkg + "\n\ntempl " + name + "(" + params + ") {\n")
	emitNodes(&w, body, 1)
	w.WriteString("}\n")
	return w.String()
}

// ---- random pieces ----

// tokens of static text: quotes, backslashes, escapes spelled out, non-ASCII, non-printable and ill-formed bytes
var textTokens = []string{
	"Hello", "World", `"quoted"`, `it's`, `back\slash`, `C:\new\table`, `\n`, `\"`, `\\`, `\`, `"`, "é", "日本語", "\x01", "\x7f", "\x1b[1m", "\xff", "\xc3", "\xe2\x80",
	" nbsp", "zero​width", "line sep", "\ufffd", "\U0001F600", "&amp;", "&", "100%", "a>b", "x=1;", "tab\there", "`tick`", "$x", "'", "--", "]]>", "\r", "\x00nul", "\u0085nel", "\u00ad", "\u0378",
}
var startTokens = []string{"Hello", "World", `"quoted"`, `\back`, "é", "日本語", "100%", "&amp;", "'", "`tick`", "\x01ctl", "\xffbad", "Z"}

func randStatic(r *rng.R, allowNL bool) string {
	var sb strings.Builder
	sb.WriteString(rng.Pick(r, startTokens))
	for k := r.Intn(5); k > 0; k-- {
		if allowNL && r.Intn(6) == 0 {
			sb.WriteString("\n" + rng.Pick(r, startTokens))
			continue
		}
		if r.Intn(4) != 0 {
			sb.WriteString(" ")
		}
		sb.WriteString(rng.Pick(r, textTokens))
	}
	return sb.String()
}

func randAttrValue(r *rng.R) string {
	return strings.NewReplacer(`"`, `'`, "\r", "").Replace(randStatic(r, r.Intn(5) == 0))
}

func randJS(r *rng.R) string {
	return rng.Pick(r, []string{"var a = ", "; var b = ", "; // note \\n 'q' \"dq\" é \x01\n", "f(", ");", "let s = 'x\\'y'; ", "/* \xff */ ", "a < b && c > d; ", "`t` + ", "1 + "})
}

var strExprs = []string{"s", "t", "K", "s + t", "s"}
var conds = []string{"b", "!b", "s == t", "len(xs) > 1", "b"}
var elemNames = []string{"p", "div", "span", "a", "form", "b", "li", "section", "button"}
var attrNames = []string{"title", "id", "data-v", "class", "style", "href", "action", "alt", "value", "hx-get", "onclick", "hx-on:click", "src", "lang"}

func exprType(e string) string {
	switch e {
	case "K":
		return "const"
	case "cs":
		return "script"
	}
	return "str"
}

func sinkOf(elem, name string) string {
	switch {
	case (strings.EqualFold(elem, "a") && strings.EqualFold(name, "href")) || (strings.EqualFold(elem, "form") && strings.EqualFold(name, "action")):
		return "url"
	case strings.HasPrefix(name, "on") || strings.HasPrefix(name, "hx-on:"):
		return "script"
	case name == "style":
		return "style"
	case name == "class":
		return "class"
	}
	return "default"
}

func attrTyped(elem string, a attr) bool {
	switch a.kind {
	case "expr":
		ty := exprType(a.expr)
		switch sinkOf(elem, a.name) {
		case "url":
			return ty == "const"
		case "script":
			return ty == "script"
		default:
			return ty != "script"
		}
	case "cond":
		for _, x := range a.then {
			if !attrTyped(elem, x) {
				return false
			}
		}
	}
	return true
}

// wellTyped reports whether the Go code generated for the tree would compile (the part the grammar can get wrong).
func wellTyped(ns []*node) bool { return typed(ns, false) }

// usesX reports whether the loop variable occurs in the subtree (an unused variable does not compile).
func usesX(ns []*node) bool {
	for _, n := range ns {
		if (n.kind == "expr" || n.kind == "call") && n.expr == "x" {
			return true
		}
		for _, a := range n.attrs {
			if a.expr == "x" {
				return true
			}
		}
		for _, p := range n.script {
			if p.expr == "x" {
				return true
			}
		}
		if n.kind != "for" && (usesX(n.kids) || usesX(n.els)) {
			return true
		}
	}
	return false
}

func typed(ns []*node, inFor bool) bool {
	for _, n := range ns {
		if !inFor && usesX([]*node{{kind: "wrap", kids: []*node{n}}}) && n.kind != "for" {
			return false
		}
		if n.kind == "for" && !usesX(n.kids) {
			return false
		}
		if n.kind == "elem" {
			for _, a := range n.attrs {
				if !attrTyped(n.name, a) {
					return false
				}
			}
		}
		if !typed(n.kids, inFor || n.kind == "for") || !typed(n.els, inFor) {
			return false
		}
	}
	return true
}

func randAttr(r *rng.R, elem string) attr {
	switch r.Intn(10) {
	case 0:
		return attr{kind: "bool", name: rng.Pick(r, []string{"disabled", "hidden", "checked"})}
	case 1:
		return attr{kind: "boolexpr", name: rng.Pick(r, []string{"disabled", "hidden"}), expr: rng.Pick(r, conds)}
	case 2:
		return attr{kind: "cond", expr: rng.Pick(r, conds), then: []attr{{kind: "const", name: "data-c", value: randAttrValue(r)}}}
	case 3:
		return attr{kind: "spread", expr: "at"}
	case 4, 5, 6:
		name := rng.Pick(r, attrNames)
		e := rng.Pick(r, strExprs)
		switch sinkOf(elem, name) {
		case "url":
			e = "K"
		case "script":
			e = "cs"
		}
		return attr{kind: "expr", name: name, expr: e}
	}
	return attr{kind: "const", name: rng.Pick(r, attrNames), value: randAttrValue(r)}
}

func randNodes(r *rng.R, depth, max int, inFor bool) []*node {
	var ns []*node
	for k := 1 + r.Intn(max); k > 0; k-- {
		n := randNode(r, depth, inFor)
		ns = append(ns, n)
		// an expression right after a block is the site of the move-into-block edits
		if (n.kind == "if" || n.kind == "switch" || n.kind == "for" || n.kind == "wrap") && r.Intn(2) == 0 {
			ns = append(ns, &node{kind: "expr", expr: rng.Pick(r, strExprs)})
		}
	}
	return ns
}

func randNode(r *rng.R, depth int, inFor bool) *node {
	exprPool := strExprs
	if inFor {
		exprPool = append([]string{"x", "x"}, strExprs...)
	}
	c := r.Intn(20)
	if depth <= 0 && c >= 8 && c <= 13 {
		c = r.Intn(8)
	}
	switch c {
	case 0, 1, 2:
		return &node{kind: "text", text: randStatic(r, true)}
	case 3, 4, 5, 6:
		return &node{kind: "expr", expr: rng.Pick(r, exprPool)}
	case 7:
		return &node{kind: "elem", name: rng.Pick(r, []string{"br", "hr", "input"}), attrs: randAttrsFor(r, "input", 2)}
	case 8, 9, 10:
		name := rng.Pick(r, elemNames)
		return &node{kind: "elem", name: name, attrs: randAttrsFor(r, name, 3), kids: randNodes(r, depth-1, 3, inFor), inline: r.Intn(3) == 0}
	case 11:
		n := &node{kind: "if", expr: rng.Pick(r, conds), kids: randNodes(r, depth-1, 2, inFor)}
		if r.Intn(3) == 0 {
			n.els = randNodes(r, depth-1, 2, inFor)
		}
		return n
	case 12:
		return &node{kind: "for", kids: append([]*node{{kind: "expr", expr: "x"}}, randNodes(r, depth-1, 2, true)...)}
	case 13:
		return &node{kind: "switch", expr: rng.Pick(r, []string{"s", "t"}), kids: randNodes(r, depth-1, 2, inFor), els: randNodes(r, depth-1, 1, inFor)}
	case 14:
		var ps []spart
		for k := 1 + r.Intn(3); k > 0; k-- {
			ps = append(ps, spart{js: randJS(r)})
			if r.Intn(2) == 0 {
				ps = append(ps, spart{expr: rng.Pick(r, exprPool), inStr: r.Intn(3) == 0})
			}
		}
		ps = append(ps, spart{js: ";"})
		return &node{kind: "script", script: ps}
	case 15:
		return &node{kind: "comment", text: strings.ReplaceAll(randStatic(r, true), "--", "- -")}
	case 16:
		return &node{kind: "style", text: "p { content: '" + strings.ReplaceAll(randAttrValue(r), "'", "") + "' }"}
	case 17:
		return &node{kind: "call", expr: rng.Pick(r, exprPool)}
	case 18:
		if depth > 0 {
			return &node{kind: "wrap", kids: randNodes(r, depth-1, 2, inFor)}
		}
	}
	return &node{kind: "expr", expr: rng.Pick(r, exprPool)}
}

func randAttrsFor(r *rng.R, elem string, max int) []attr {
	var as []attr
	for k := r.Intn(max + 1); k > 0; k-- {
		as = append(as, randAttr(r, elem))
	}
	return as
}

func randTemplate(r *rng.R) []*node {
	var body []*node
	if r.Intn(8) == 0 {
		body = append(body, &node{kind: "doctype", text: "html"})
	}
	return append(body, randNodes(r, 2, 4, false)...)
}

// ---- the edit grammar ----

type slot struct {
	list *[]*node
	i    int
	inFor bool
}

func slots(list *[]*node, inFor bool, acc *[]slot) {
	for i, n := range *list {
		*acc = append(*acc, slot{list, i, inFor})
		f := inFor || n.kind == "for"
		slots(&n.kids, f, acc)
		if n.els != nil {
			slots(&n.els, inFor, acc)
		}
	}
}

func removeAt(list *[]*node, i int) *node {
	n := (*list)[i]
	*list = append((*list)[:i:i], (*list)[i+1:]...)
	return n
}
func insertAt(list *[]*node, i int, n *node) {
	*list = append((*list)[:i:i], append([]*node{n}, (*list)[i:]...)...)
}

// edit applies one random edit to a copy of body and names its kind; ok=false when the chosen edit had no site.
func edit(r *rng.R, body []*node) (out []*node, kind string, ok bool) {
	out = cloneNodes(body)
	var all []slot
	slots(&out, false, &all)
	if len(all) == 0 {
		return out, "", false
	}
	if r.Intn(5) == 0 { // the text of a Go expression
		if o, k, ok := editExpression(r, body); ok {
			return o, k, true
		}
	}
	pick := func(pred func(*node) bool) (slot, bool) {
		var c []slot
		for _, s := range all {
			if pred((*s.list)[s.i]) {
				c = append(c, s)
			}
		}
		if len(c) == 0 {
			return slot{}, false
		}
		return c[r.Intn(len(c))], true
	}
	switch r.Intn(16) {
	case 0, 1: // text edit
		s, found := pick(func(n *node) bool {
			return n.kind == "text" || n.kind == "comment" || n.kind == "style" || n.kind == "script" || (n.kind == "elem" && hasAttr(n, "const"))
		})
		if !found {
			return out, "", false
		}
		n := (*s.list)[s.i]
		switch n.kind {
		case "text":
			n.text = randStatic(r, true)
		case "comment":
			n.text = strings.ReplaceAll(randStatic(r, true), "--", "- -")
		case "style":
			n.text = "q { content: '" + strings.ReplaceAll(randAttrValue(r), "'", "") + "' }"
		case "script":
			for i := range n.script {
				if n.script[i].expr == "" {
					n.script[i].js = randJS(r)
					break
				}
			}
		case "elem":
			for i := range n.attrs {
				if n.attrs[i].kind == "const" {
					n.attrs[i].value = randAttrValue(r)
					break
				}
			}
		}
		return out, "text-edit", true
	case 2, 3, 4: // attribute rename (to/from class, style, href, on*)
		s, found := pick(func(n *node) bool { return n.kind == "elem" && (hasAttr(n, "expr") || hasAttr(n, "const")) })
		if !found {
			return out, "", false
		}
		n := (*s.list)[s.i]
		var idx []int
		for i, a := range n.attrs {
			if a.kind == "expr" || a.kind == "const" {
				idx = append(idx, i)
			}
		}
		i := idx[r.Intn(len(idx))]
		old := n.attrs[i].name
		for n.attrs[i].name == old {
			n.attrs[i].name = rng.Pick(r, attrNames)
		}
		return out, "attribute-rename", true
	case 5, 6, 7, 8: // move an expression to another position
		s, found := pick(func(n *node) bool { return n.kind == "expr" })
		if !found {
			return out, "", false
		}
		e := (*s.list)[s.i]
		sub := r.Intn(9)
		if sub >= 7 {
			sub -= 7
		}
		switch sub {
		case 0: // into the neighbouring control-flow block
			for _, j := range []int{s.i - 1, s.i + 1} {
				if j >= 0 && j < len(*s.list) {
					nb := (*s.list)[j]
					if nb.kind == "if" || nb.kind == "for" || nb.kind == "switch" || nb.kind == "wrap" {
						if nb.kind == "for" && e.expr == "x" {
							continue
						}
						if j < s.i {
							nb.kids = append(nb.kids, e)
						} else {
							nb.kids = append([]*node{e}, nb.kids...)
						}
						removeAt(s.list, s.i)
						return out, "move-expression-into-block", true
					}
				}
			}
			return out, "", false
		case 1: // out of the enclosing block: handled by looking for a block whose body starts/ends with an expression
			b, found := pick(func(n *node) bool {
				return (n.kind == "if" || n.kind == "switch" || n.kind == "wrap") && len(n.kids) > 1 && (n.kids[0].kind == "expr" || n.kids[len(n.kids)-1].kind == "expr")
			})
			if !found {
				return out, "", false
			}
			blk := (*b.list)[b.i]
			if blk.kids[0].kind == "expr" {
				x := removeAt(&blk.kids, 0)
				insertAt(b.list, b.i, x)
			} else {
				x := removeAt(&blk.kids, len(blk.kids)-1)
				insertAt(b.list, b.i+1, x)
			}
			return out, "move-expression-out-of-block", true
		case 2: // into an attribute of a neighbouring element
			for _, j := range []int{s.i - 1, s.i + 1} {
				if j >= 0 && j < len(*s.list) && (*s.list)[j].kind == "elem" {
					nb := (*s.list)[j]
					nb.attrs = append(nb.attrs, attr{kind: "expr", name: rng.Pick(r, []string{"title", "style", "class", "data-v", "href"}), expr: e.expr})
					removeAt(s.list, s.i)
					return out, "move-expression-into-attribute", true
				}
			}
			return out, "", false
		case 3, 4: // into a script element
			(*s.list)[s.i] = &node{kind: "script", script: []spart{{js: "var v = "}, {expr: e.expr, inStr: r.Intn(3) == 0}, {js: ";"}}}
			return out, "move-expression-into-script", true
		case 5: // into a comment: becomes static text
			(*s.list)[s.i] = &node{kind: "comment", text: "{ " + e.expr + " }"}
			return out, "move-expression-into-comment", true
		default: // to the other side of a neighbour
			if s.i+1 < len(*s.list) {
				(*s.list)[s.i], (*s.list)[s.i+1] = (*s.list)[s.i+1], (*s.list)[s.i]
				return out, "reorder-nodes", true
			}
			return out, "", false
		}
	case 9, 10: // reorder two adjacent siblings
		s := all[r.Intn(len(all))]
		if s.i+1 >= len(*s.list) {
			return out, "", false
		}
		a, b := (*s.list)[s.i], (*s.list)[s.i+1]
		if (a.kind == "doctype") || (b.kind == "doctype") {
			return out, "", false
		}
		(*s.list)[s.i], (*s.list)[s.i+1] = b, a
		return out, "reorder-nodes", true
	case 11: // script expression: inside / outside a JavaScript string literal; or script expression to text
		s, found := pick(func(n *node) bool {
			if n.kind != "script" {
				return false
			}
			for _, p := range n.script {
				if p.expr != "" {
					return true
				}
			}
			return false
		})
		if !found {
			return out, "", false
		}
		n := (*s.list)[s.i]
		for i := range n.script {
			if n.script[i].expr != "" {
				if r.Intn(2) == 0 {
					n.script[i].inStr = !n.script[i].inStr
					return out, "script-expression-quoting", true
				}
				e := n.script[i].expr
				n.script = append(n.script[:i:i], n.script[i+1:]...)
				insertAt(s.list, s.i, &node{kind: "expr", expr: e})
				return out, "move-expression-out-of-script", true
			}
		}
	case 12: // attribute expression becomes element text
		s, found := pick(func(n *node) bool { return n.kind == "elem" && !voidElems[n.name] && hasAttr(n, "expr") })
		if !found {
			return out, "", false
		}
		n := (*s.list)[s.i]
		for i, a := range n.attrs {
			if a.kind == "expr" && exprType(a.expr) != "script" {
				n.attrs = append(n.attrs[:i:i], n.attrs[i+1:]...)
				n.kids = append([]*node{{kind: "expr", expr: a.expr}}, n.kids...)
				return out, "move-expression-out-of-attribute", true
			}
		}
		return out, "", false
	case 13: // element rename
		s, found := pick(func(n *node) bool { return n.kind == "elem" && !voidElems[n.name] })
		if !found {
			return out, "", false
		}
		n := (*s.list)[s.i]
		old := n.name
		for n.name == old {
			n.name = rng.Pick(r, elemNames)
		}
		return out, "element-rename", true
	case 14: // wrap in / unwrap from an if
		s := all[r.Intn(len(all))]
		n := (*s.list)[s.i]
		if n.kind == "if" && n.els == nil && len(n.kids) > 0 {
			*s.list = append((*s.list)[:s.i:s.i], append(cloneNodes(n.kids), (*s.list)[s.i+1:]...)...)
			return out, "unwrap-if", true
		}
		if n.kind == "doctype" {
			return out, "", false
		}
		(*s.list)[s.i] = &node{kind: "if", expr: rng.Pick(r, conds), kids: []*node{n}}
		return out, "wrap-in-if", true
	default: // replace an expression / insert or delete a text node
		s := all[r.Intn(len(all))]
		n := (*s.list)[s.i]
		switch {
		case n.kind == "expr" && n.expr != "x":
			old := n.expr
			for n.expr == old {
				n.expr = rng.Pick(r, strExprs)
			}
			return out, "expression-replace", true
		case n.kind == "text":
			removeAt(s.list, s.i)
			return out, "delete-text", true
		default:
			insertAt(s.list, s.i, &node{kind: "text", text: randStatic(r, false)})
			return out, "insert-text", true
		}
	}
	return out, "", false
}

func hasAttr(n *node, kind string) bool {
	for _, a := range n.attrs {
		if a.kind == kind {
			return true
		}
	}
	return false
}
