package c16

// Text file: strings.Join / strings.Split and the real runtime.WriteString in development mode (in-process,
// called from lookup_templ.go) against model/WatchMode.v: text_file, split_lf, dev_write.

import (
	"bytes"
	"fmt"
	"os"
	"path/filepath"
	"strconv"
	"strings"

	"github.com/a-h/templ/generator"
	templruntime "github.com/a-h/templ/runtime"

	"verifharness/internal/core"
	"verifharness/internal/drv"
)

func textFile(c *core.Ctx) {
	tmp, err := os.MkdirTemp("/tmp", "c16-txt-")
	if err != nil {
		c.Oblige("correspondence", "text file: scratch directory", false, err.Error())
		return
	}
	defer os.RemoveAll(tmp)
	oldRoot, hadRoot := os.LookupEnv("TEMPL_DEV_MODE_ROOT")
	old := templruntime.VerifC16SetDevelopmentMode(true)
	defer func() {
		templruntime.VerifC16SetDevelopmentMode(old)
		if hadRoot {
			os.Setenv("TEMPL_DEV_MODE_ROOT", oldRoot)
		} else {
			os.Unsetenv("TEMPL_DEV_MODE_ROOT")
		}
	}()

	// files: joined lists of well-formed literals (escapeQuotes output and generator pieces), and damaged ones
	var lists [][]string
	lists = append(lists, []string{}, []string{""}, []string{"", ""}, []string{"a"}, []string{`\"`, `\n`, ``, `x`}, []string{"a\rb", "c"})
	n := c.N(250, 2500)
	for i := 0; i < n; i++ {
		var l []string
		for k := c.Rng.Intn(6); k >= 0; k-- {
			switch c.Rng.Intn(6) {
			case 0: // arbitrary bytes, possibly with raw newlines, quotes and broken escapes
				l = append(l, string(randText(c.Rng, c.Rng.Intn(8))))
			case 1:
				l = append(l, bodyAlphabet[c.Rng.Intn(len(bodyAlphabet))]+bodyAlphabet[c.Rng.Intn(len(bodyAlphabet))])
			case 2:
				l = append(l, ` title=\"`+generator.VerifC16EscapeQuotes(string(randText(c.Rng, c.Rng.Intn(6))))+`\"`)
			default:
				l = append(l, generator.VerifC16EscapeQuotes(string(randText(c.Rng, c.Rng.Intn(10)))))
			}
		}
		lists = append(lists, l)
	}

	// literal LENGTH as a dimension: one long line first / in the middle / last
	nRandomLists := len(lists)
	longLens := []int{0, 1, 4095, 4096, 4097, 65535, 65536, 65537, 200000}
	if !c.Quick() {
		longLens = append(longLens, 1<<20, 1<<20+1)
	}
	for _, n := range longLens {
		for pos := 0; pos < 3; pos++ {
			l := []string{`<p title=\"`, `\">é`, `</p>`}
			l[pos] = longLiteral(n)
			lists = append(lists, l)
		}
	}

	me := thisFile()
	var reqs []drv.Req
	type want struct {
		file  string
		index int
		ok    bool
		out   string
		panic bool
	}
	var wants []want
	joinOK, splitOK, specOK := true, true, true
	var jreq, sreq []drv.Req
	var jwant []string
	var swant [][]string
	for i, l := range lists {
		file := strings.Join(l, "\n")
		damaged := false
		if i < nRandomLists {
			switch c.Rng.Intn(8) { // a few files that no writer of ours produces
			case 0:
				file += "\n"
				damaged = true
			case 1:
				file = strings.ReplaceAll(file, "\n", "\r\n")
				damaged = true
			}
		}
		// the specification predicate is evaluated on files of well-formed literals
		wellFormed := !damaged && len(l) > 0
		vals := make([]string, len(l))
		for k, s := range l {
			v, ok := goUnquote([]byte(s))
			if !ok || strings.Contains(s, "\n") {
				wellFormed = false
			}
			vals[k] = v
		}
		dir := filepath.Join(tmp, strconv.Itoa(i))
		os.MkdirAll(dir, 0o755)
		os.Setenv("TEMPL_DEV_MODE_ROOT", dir)
		if err := os.WriteFile(templruntime.GetDevModeTextFileName(me), []byte(file), 0o644); err != nil {
			c.Oblige("correspondence", "text file: scratch file", false, err.Error())
			return
		}
		args := make([][]byte, len(l))
		for k, s := range l {
			args[k] = []byte(s)
		}
		jreq = append(jreq, drv.Req{Fn: "file", Args: args})
		jwant = append(jwant, strings.Join(l, "\n"))
		sreq = append(sreq, drv.Req{Fn: "split", Args: [][]byte{[]byte(file)}})
		swant = append(swant, strings.Split(file, "\n"))
		lines := strings.Count(file, "\n") + 1
		for idx := 0; idx <= lines+1; idx++ {
			var buf bytes.Buffer
			err, panicked := devWriteString(&buf, idx, "compiled-in literal")
			wants = append(wants, want{file, idx, err == nil && !panicked, buf.String(), panicked})
			if wellFormed && idx >= 1 && idx <= len(l) {
				c.Hist("text file: line length " + lenBucket(len(l[idx-1])))
				if err != nil || panicked || buf.String() != vals[idx-1] {
					specOK = false
					if c.NFails("text file: development-mode WriteString(i) writes literal i of the written file") < 6 {
						lens := make([]int, len(l))
						for k := range l {
							lens[k] = len(l[k])
						}
						e := ""
						if err != nil {
							e = err.Error()
						}
						c.Fail("property", "text file: development-mode WriteString(i) writes literal i of the written file", "dev-lookup-differs-from-literal",
							map[string]any{"literals": abbrAll(l), "literal_lengths": lens, "index": idx, "error": e, "written": abbr(buf.String()), "expected": abbr(vals[idx-1]),
								"long_literal_recipe": "a literal of length n >= 2 is backslash, double quote, then n-2 letters a"},
							"the file is strings.Join of well-formed literals, yet the development-mode lookup of an index in range fails or yields other bytes than the literal denotes")
					}
				}
			}
			reqs = append(reqs, drv.Req{Fn: "lookup", Args: [][]byte{[]byte(file), []byte(strconv.Itoa(idx))}})
			c.Count(fmt.Sprintf("lk:%s\x00%d", file, idx))
		}
	}
	res := c.Model(reqs)
	tieOK := true
	nOK := 0
	for i, r := range res {
		w := wants[i]
		if w.ok {
			nOK++
		}
		if len(r) == 1 && string(r[0]) == "!stack" { // the extracted model's recursion depth: lines of 200 kB and more are judged by the predicate above only
			continue
		}
		mok := len(r) == 2 && string(r[0]) == "1"
		if mok != w.ok || (w.ok && string(r[1]) != w.out) {
			tieOK = false
			if c.NFails("text file: model dev_write = runtime.WriteString in development mode") < 5 {
				mv := ""
				if len(r) == 2 {
					mv = string(r[1])
				}
				c.Fail("tie", "text file: model dev_write = runtime.WriteString in development mode", "",
					map[string]string{"file": abbr(core.Q([]byte(w.file))), "index": strconv.Itoa(w.index), "impl_ok": fmt.Sprint(w.ok), "impl": core.Q([]byte(w.out)), "impl_panicked": fmt.Sprint(w.panic), "model_ok": fmt.Sprint(mok), "model": core.Q([]byte(mv))},
					"model and runtime differ on which string a development-mode WriteString writes")
			}
		}
	}
	c.Dist["text file: lookups that succeed"] += nOK
	c.Dist["text file: lookups that fail (index beyond file, malformed line, index 0)"] += len(wants) - nOK
	for i, r := range c.Model(jreq) {
		if len(r) == 1 && string(r[0]) == "!stack" {
			continue
		}
		got := ""
		if len(r) == 1 {
			got = string(r[0])
		}
		if got != jwant[i] {
			joinOK = false
		}
	}
	for i, r := range c.Model(sreq) {
		if len(r) == 1 && string(r[0]) == "!stack" {
			continue
		}
		if len(r) != len(swant[i]) {
			splitOK = false
			continue
		}
		for k := range r {
			if string(r[k]) != swant[i][k] {
				splitOK = false
			}
		}
	}
	c.Oblige("correspondence", "text file: model dev_write = runtime.WriteString with developmentMode on (every index 0..lines+1 of every generated file)", tieOK, "")
	c.Oblige("correspondence", "text file: for files of well-formed literals (line lengths 0 to 1 MiB, long line first/middle/last) the development-mode lookup of index i writes what literal i denotes", specOK, "")
	c.Oblige("correspondence", "text file: model text_file = strings.Join(literals, LF)", joinOK, "")
	c.Oblige("correspondence", "text file: model split_lf = strings.Split(file, LF)", splitOK, "")
}

// longLiteral is a well-formed literal of exactly n bytes (an escaped quote, then letters).
func longLiteral(n int) string {
	if n < 2 {
		return strings.Repeat("a", n)
	}
	return `\"` + strings.Repeat("a", n-2)
}

func lenBucket(n int) string {
	switch {
	case n == 0:
		return "0"
	case n < 4096:
		return "1..4095"
	case n < 65536:
		return "4096..65535"
	case n < 200000:
		return "65536..199999"
	}
	return ">= 200000"
}

func abbr(s string) string {
	if len(s) <= 600 {
		return s
	}
	return s[:300] + fmt.Sprintf(" ...[%d bytes in all]... ", len(s)) + s[len(s)-100:]
}

func abbrAll(l []string) []string {
	r := make([]string, len(l))
	for i, s := range l {
		r[i] = abbr(s)
	}
	return r
}
