package c16

// Text file: strings.Join / strings.Split and the real runtime.WriteString in development mode (in-process,
// called from lookup_templ.go) against model/WatchMode.v: text_file, split_lf, dev_write.

import (
	"bytes"
	"fmt"
	"os"
	"path/filepath"
	"strconv"
	"strings"

	"github.com/a-h/templ/generator"
	templruntime "github.com/a-h/templ/runtime"

	"verifharness/internal/core"
	"verifharness/internal/drv"
)

func textFile(c *core.Ctx) {
	tmp, err := os.MkdirTemp("/tmp", "c16-txt-")
	if err != nil {
		c.Oblige("correspondence", "text file: scratch directory", false, err.Error())
		return
	}
	defer os.RemoveAll(tmp)
	oldRoot, hadRoot := os.LookupEnv("TEMPL_DEV_MODE_ROOT")
	old := templruntime.VerifC16SetDevelopmentMode(true)
	defer func() {
		templruntime.VerifC16SetDevelopmentMode(old)
		if hadRoot {
			os.Setenv("TEMPL_DEV_MODE_ROOT", oldRoot)
		} else {
			os.Unsetenv("TEMPL_DEV_MODE_ROOT")
		}
	}()

	// files: joined lists of well-formed literals (escapeQuotes output and generator pieces), and damaged ones
	var lists [][]string
	lists = append(lists, []string{}, []string{""}, []string{"", ""}, []string{"a"}, []string{`\"`, `\n`, ``, `x`}, []string{"a\rb", "c"})
	n := c.N(250, 2500)
	for i := 0; i < n; i++ {
		var l []string
		for k := c.Rng.Intn(6); k >= 0; k-- {
			switch c.Rng.Intn(6) {
			case 0: // arbitrary bytes, possibly with raw newlines, quotes and broken escapes
				l = append(l, string(randText(c.Rng, c.Rng.Intn(8))))
			case 1:
				l = append(l, bodyAlphabet[c.Rng.Intn(len(bodyAlphabet))]+bodyAlphabet[c.Rng.Intn(len(bodyAlphabet))])
			case 2:
				l = append(l, ` title=\"`+generator.VerifC16EscapeQuotes(string(randText(c.Rng, c.Rng.Intn(6))))+`\"`)
			default:
				l = append(l, generator.VerifC16EscapeQuotes(string(randText(c.Rng, c.Rng.Intn(10)))))
			}
		}
		lists = append(lists, l)
	}

	me := thisFile()
	var reqs []drv.Req
	type want struct {
		file  string
		index int
		ok    bool
		out   string
		panic bool
	}
	var wants []want
	joinOK, splitOK := true, true
	var jreq, sreq []drv.Req
	var jwant []string
	var swant [][]string
	for i, l := range lists {
		file := strings.Join(l, "\n")
		switch c.Rng.Intn(8) { // a few files that no writer of ours produces
		case 0:
			file += "\n"
		case 1:
			file = strings.ReplaceAll(file, "\n", "\r\n")
		}
		dir := filepath.Join(tmp, strconv.Itoa(i))
		os.MkdirAll(dir, 0o755)
		os.Setenv("TEMPL_DEV_MODE_ROOT", dir)
		if err := os.WriteFile(templruntime.GetDevModeTextFileName(me), []byte(file), 0o644); err != nil {
			c.Oblige("correspondence", "text file: scratch file", false, err.Error())
			return
		}
		args := make([][]byte, len(l))
		for k, s := range l {
			args[k] = []byte(s)
		}
		jreq = append(jreq, drv.Req{Fn: "file", Args: args})
		jwant = append(jwant, strings.Join(l, "\n"))
		sreq = append(sreq, drv.Req{Fn: "split", Args: [][]byte{[]byte(file)}})
		swant = append(swant, strings.Split(file, "\n"))
		lines := strings.Count(file, "\n") + 1
		for idx := 0; idx <= lines+1; idx++ {
			var buf bytes.Buffer
			err, panicked := devWriteString(&buf, idx, "compiled-in literal")
			wants = append(wants, want{file, idx, err == nil && !panicked, buf.String(), panicked})
			reqs = append(reqs, drv.Req{Fn: "lookup", Args: [][]byte{[]byte(file), []byte(strconv.Itoa(idx))}})
			c.Count(fmt.Sprintf("lk:%s\x00%d", file, idx))
		}
	}
	res := c.Model(reqs)
	tieOK := true
	nOK := 0
	for i, r := range res {
		w := wants[i]
		if w.ok {
			nOK++
		}
		mok := len(r) == 2 && string(r[0]) == "1"
		if mok != w.ok || (w.ok && string(r[1]) != w.out) {
			tieOK = false
			if c.NFails("text file: model dev_write = runtime.WriteString in development mode") < 5 {
				mv := ""
				if len(r) == 2 {
					mv = string(r[1])
				}
				c.Fail("tie", "text file: model dev_write = runtime.WriteString in development mode", "",
					map[string]string{"file": core.Q([]byte(w.file)), "index": strconv.Itoa(w.index), "impl_ok": fmt.Sprint(w.ok), "impl": core.Q([]byte(w.out)), "impl_panicked": fmt.Sprint(w.panic), "model_ok": fmt.Sprint(mok), "model": core.Q([]byte(mv))},
					"model and runtime differ on which string a development-mode WriteString writes")
			}
		}
	}
	c.Dist["text file: lookups that succeed"] += nOK
	c.Dist["text file: lookups that fail (index beyond file, malformed line, index 0)"] += len(wants) - nOK
	for i, r := range c.Model(jreq) {
		got := ""
		if len(r) == 1 {
			got = string(r[0])
		}
		if got != jwant[i] {
			joinOK = false
		}
	}
	for i, r := range c.Model(sreq) {
		if len(r) != len(swant[i]) {
			splitOK = false
			continue
		}
		for k := range r {
			if string(r[k]) != swant[i][k] {
				splitOK = false
			}
		}
	}
	c.Oblige("correspondence", "text file: model dev_write = runtime.WriteString with developmentMode on (every index 0..lines+1 of every generated file)", tieOK, "")
	c.Oblige("correspondence", "text file: model text_file = strings.Join(literals, LF)", joinOK, "")
	c.Oblige("correspondence", "text file: model split_lf = strings.Split(file, LF)", splitOK, "")
}
