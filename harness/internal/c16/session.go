package c16

// Watch SESSIONS: sequences of edits of one template, driven through the one real FSEventHandler of the batch with
// ONE development-mode root, the events of different templates interleaved.  The handler decides from the state it
// has accumulated (the hash it remembers per text file, the generator output it remembers per template) whether the
// text file is rewritten and whether a recompilation is requested, so what a running program shows after the n-th edit
// depends on the whole history.
//
// The edit grammar works on a flat line of atoms (runes of static text, tags, Go expressions) and is built around
// edits that MOVE LITERAL BOUNDARIES: an expression moved through static text or across a tag, text split or merged
// around an expression.  Such an edit keeps the number of literals, the expressions and the generated code outside
// literals; very often it also keeps the concatenation of the literals.  Mixed in: text edits, edits that need a
// recompilation, and reverts to an earlier version (A -> B -> A).
//
// After every event the text file ON DISK is kept.  Judgement per step i: the program a developer would be running
// (compiled from the version of the handler's last recompile request k <= i) reads the file that was on disk after
// step i and must render what a fresh build of version i renders.  model/WatchHandler.v is run on the same events:
// GoUpdated, TextUpdated and the file must agree event by event (theorems C16_handler_disk_current,
// C16_text_updated_iff, C16_handler_files_independent, C16_session_sound).

import (
	"crypto/sha256"
	"fmt"
	"os"
	"path/filepath"
	"sort"
	"strconv"
	"strings"
	"unicode/utf8"

	"github.com/a-h/templ/cmd/templ/generatecmd"
	"github.com/a-h/templ/generator"
	templruntime "github.com/a-h/templ/runtime"

	"verifharness/internal/core"
	"verifharness/internal/drv"
	"verifharness/internal/rng"
)

type satom struct {
	kind  byte   // 't' static text (one rune, or one byte of a rune) | 'o' open tag | 'c' close tag | 'v' void element | 'e' Go expression
	s     string // the text / the element name / the expression
	attrs string // constant attributes of an open tag
	id    int    // pairs an open tag with its close tag
}

func atomsText(as []satom) string {
	var sb strings.Builder
	for _, a := range as {
		switch a.kind {
		case 't':
			sb.WriteString(a.s)
		case 'o':
			sb.WriteString("<" + a.s + a.attrs + ">")
		case 'c':
			sb.WriteString("</" + a.s + ">")
		case 'v':
			sb.WriteString("<" + a.s + "/>")
		case 'e':
			sb.WriteString("{ " + a.s + " }")
		}
	}
	return sb.String()
}

// where the line of atoms sits in the template
type swrap struct {
	doc, pre, post string
	pool           []string
}

var sessPool = []string{"s", "t", "K", "s + t", `F("%s-%s", s, t)`, "s"}

var sessWraps = []swrap{
	{"top level", "\t<div>", "</div>\n", sessPool},
	{"top level, after other nodes", "\t<!DOCTYPE html>\n\t<h1 title=\"a\\b\">\"T\" { t }</h1>\n\t<section>", "</section>\n\t<hr/>\n", sessPool},
	{"body of a for loop", "\tfor _, x := range xs {\n\t\t<b>{ x }</b><li>", "</li>\n\t}\n", append([]string{"x", "x"}, sessPool...)},
	{"body of an if with an else branch", "\tif b {\n\t\t<p>", "</p>\n\t} else {\n\t\t<hr/>\n\t}\n", sessPool},
	{"children of a component call", "\t@Wrap() {\n\t\t<span>", "</span>\n\t}\n", sessPool},
	{"case of a switch", "\tswitch t {\n\tcase \"a\":\n\t\t<em>", "</em>\n\tdefault:\n\t\t<em>other</em>\n\t}\n", sessPool},
}

func sessSource(pkg, name string, w swrap, as []satom) string {
	return "package " + pkg + "\n\ntempl " + name + "(" + params + ") {\n" + w.pre + atomsText(as) + w.post + "}\n"
}

// static text of a session line: the tokens of the tree grammar that stay on one line
var sessTokens = func() []string {
	var r []string
	for _, t := range textTokens {
		if !strings.ContainsAny(t, "\r\n") {
			r = append(r, t)
		}
	}
	return append(r, "Signed in as", "Logged in as", "a", "b", "c")
}()

// textAtoms explodes a token into one atom per rune (ill-formed bytes one by one; now and then a well-formed
// multi-byte rune byte by byte, so that an expression can land inside it).
func textAtoms(r *rng.R, tok string) []satom {
	var as []satom
	for i := 0; i < len(tok); {
		_, n := utf8.DecodeRuneInString(tok[i:])
		if n > 1 && r.Intn(8) == 0 {
			for k := 0; k < n; k++ {
				as = append(as, satom{kind: 't', s: tok[i+k : i+k+1]})
			}
		} else {
			as = append(as, satom{kind: 't', s: tok[i : i+n]})
		}
		i += n
	}
	return as
}

var sessElems = []string{"li", "b", "i", "p", "span", "em", "ul", "u"}

func randSessAtoms(r *rng.R, pool []string) []satom {
	id := 0
	var seq func(depth int) []satom
	seq = func(depth int) []satom {
		var as []satom
		for k := 1 + r.Intn(3); k > 0; k-- {
			switch c := r.Intn(8); {
			case c < 4:
				for w := 1 + r.Intn(2); w > 0; w-- {
					as = append(as, textAtoms(r, rng.Pick(r, sessTokens))...)
					if r.Intn(2) == 0 {
						as = append(as, satom{kind: 't', s: " "})
					}
				}
			case c < 7 && depth > 0:
				id++
				me := id
				name := rng.Pick(r, sessElems)
				attrs := ""
				if r.Intn(3) == 0 {
					attrs = " title=\"" + strings.NewReplacer("\"", "'").Replace(rng.Pick(r, sessTokens)) + "\""
				}
				as = append(as, satom{kind: 'o', s: name, attrs: attrs, id: me})
				if r.Intn(4) != 0 {
					as = append(as, seq(depth-1)...)
				}
				as = append(as, satom{kind: 'c', s: name, id: me})
			default:
				as = append(as, satom{kind: 'v', s: rng.Pick(r, []string{"br", "hr"})})
			}
		}
		return as
	}
	as := seq(2)
	for k := 1 + r.Intn(3); k > 0; k-- {
		as = insAtom(as, r.Intn(len(as)+1), satom{kind: 'e', s: rng.Pick(r, pool)})
	}
	return as
}

func insAtom(as []satom, i int, a satom) []satom {
	out := make([]satom, 0, len(as)+1)
	out = append(out, as[:i]...)
	out = append(out, a)
	return append(out, as[i:]...)
}

func delAtom(as []satom, i int) []satom {
	out := make([]satom, 0, len(as))
	out = append(out, as[:i]...)
	return append(out, as[i+1:]...)
}

func atomIdx(as []satom, kind byte) []int {
	var r []int
	for i, a := range as {
		if a.kind == kind {
			r = append(r, i)
		}
	}
	return r
}

// sessEdit makes the next version of a session from the current one; hist are all versions so far.
func sessEdit(r *rng.R, hist [][]satom, pool []string) (out []satom, kind string, ok bool) {
	cur := hist[len(hist)-1]
	out = append([]satom(nil), cur...)
	es := atomIdx(cur, 'e')
	ts := atomIdx(cur, 't')
	switch c := r.Intn(20); {
	case c < 9: // an expression moves through static text and tags
		if len(es) == 0 {
			return nil, "", false
		}
		i := es[r.Intn(len(es))]
		e := cur[i]
		rest := delAtom(cur, i)
		j := r.Intn(len(rest) + 1)
		kind = "move-expression-far"
		if r.Intn(3) != 0 {
			d := 1 + r.Intn(3)
			if r.Bool() {
				d = -d
			}
			j = i + d
			if j < 0 {
				j = 0
			}
			if j > len(rest) {
				j = len(rest)
			}
			kind = "move-expression-near"
		}
		out = insAtom(rest, j, e)
	case c < 12: // back to an earlier version
		if len(hist) < 2 {
			return nil, "", false
		}
		out = append([]satom(nil), hist[r.Intn(len(hist)-1)]...)
		kind = "revert-to-earlier-version"
	case c < 15: // static text changes
		switch r.Intn(3) {
		case 0:
			if len(ts) == 0 {
				return nil, "", false
			}
			out[ts[r.Intn(len(ts))]] = textAtoms(r, rng.Pick(r, sessTokens))[0]
			kind = "text-replace-rune"
		case 1:
			as := textAtoms(r, rng.Pick(r, sessTokens))
			j := r.Intn(len(out) + 1)
			for k := len(as) - 1; k >= 0; k-- {
				out = insAtom(out, j, as[k])
			}
			kind = "text-insert"
		default:
			if len(ts) < 2 {
				return nil, "", false
			}
			out = delAtom(out, ts[r.Intn(len(ts))])
			kind = "text-delete-rune"
		}
	case c < 16: // an element is renamed
		ops := atomIdx(cur, 'o')
		if len(ops) == 0 {
			return nil, "", false
		}
		o := cur[ops[r.Intn(len(ops))]]
		name := rng.Pick(r, sessElems)
		for i := range out {
			if (out[i].kind == 'o' || out[i].kind == 'c') && out[i].id == o.id {
				out[i].s = name
			}
		}
		kind = "element-rename"
	case c < 17: // another expression
		if len(es) == 0 {
			return nil, "", false
		}
		out[es[r.Intn(len(es))]].s = rng.Pick(r, pool)
		kind = "expression-replace"
	case c < 18: // two expressions change places
		if len(es) < 2 {
			return nil, "", false
		}
		a, b := es[r.Intn(len(es))], es[r.Intn(len(es))]
		out[a], out[b] = out[b], out[a]
		kind = "exchange-expressions"
	case c < 19:
		out = insAtom(out, r.Intn(len(out)+1), satom{kind: 'e', s: rng.Pick(r, pool)})
		kind = "insert-expression"
	default:
		if len(es) < 2 {
			return nil, "", false
		}
		out = delAtom(out, es[r.Intn(len(es))])
		kind = "delete-expression"
	}
	if atomsText(out) == atomsText(cur) {
		return nil, "", false
	}
	return out, kind, true
}

type sver struct {
	atoms   []satom
	kind    string // the edit that made this version
	src     string // package a
	out     generator.GeneratorOutput
	gidx    int
	res     generatecmd.GenerateResult
	disk    string // the template's text file after the event
	hasDisk bool
	nameB   string // the fresh build of this version (package b)
}

type session struct {
	name    string
	wrap    swrap
	seeded  string
	vers    []*sver
	codeA   string
	ok      bool
	dropped bool
	fa      string // a/<name>.templ
}

// the documented shapes: the expression of a list item moved to the next item and back, an expression moved inside a
// word, one of two expressions moved, the loop variable moved, and moves on both sides of an edit that needs a rebuild
func seededSessions() []*session {
	lineOf := func(src string) []satom {
		// tiny reader for the notation used below: {e} expressions, <x> </x> <x/> tags, everything else runes
		var as []satom
		id := 0
		var open []int
		for i := 0; i < len(src); {
			switch {
			case src[i] == '{':
				j := strings.IndexByte(src[i:], '}')
				as = append(as, satom{kind: 'e', s: strings.TrimSpace(src[i+1 : i+j])})
				i += j + 1
			case src[i] == '<':
				j := strings.IndexByte(src[i:], '>')
				tag := src[i+1 : i+j]
				switch {
				case strings.HasPrefix(tag, "/"):
					as = append(as, satom{kind: 'c', s: tag[1:], id: open[len(open)-1]})
					open = open[:len(open)-1]
				case strings.HasSuffix(tag, "/"):
					as = append(as, satom{kind: 'v', s: tag[:len(tag)-1]})
				default:
					id++
					open = append(open, id)
					as = append(as, satom{kind: 'o', s: tag, id: id})
				}
				i += j + 1
			default:
				_, n := utf8.DecodeRuneInString(src[i:])
				as = append(as, satom{kind: 't', s: src[i : i+n]})
				i += n
			}
		}
		return as
	}
	mk := func(doc string, w int, lines ...string) *session {
		s := &session{seeded: doc, wrap: sessWraps[w]}
		for i, l := range lines {
			k := ""
			if i > 0 {
				k = "documented"
			}
			s.vers = append(s.vers, &sver{atoms: lineOf(l), kind: k})
		}
		return s
	}
	return []*session{
		mk("text edit, expression moved to the next list item, moved back, moved inside a word", 0,
			"<ul><li>Signed in as {s}</li><li></li></ul>", "<ul><li>Logged in as {s}</li><li></li></ul>", "<ul><li>Logged in as </li><li>{s}</li></ul>",
			"<ul><li>Logged in as {s}</li><li></li></ul>", "<ul><li>Logged {s}in as </li><li></li></ul>"),
		mk("expression moved left and right inside a word holding a quote, a backslash and a non-ASCII rune", 0,
			"<p>a\"b\\é{s}cd</p>", "<p>a\"{s}b\\écd</p>", "<p>a\"b\\écd{s}</p>", "<p>a\"b\\é{s}cd</p>"),
		mk("one of two expressions moved; the other one moved; both next to each other", 0,
			"<p>a{s}b{t}c</p>", "<p>{s}ab{t}c</p>", "<p>{s}abc{t}</p>", "<p>ab{s}{t}c</p>"),
		mk("loop variable moved through the text of the loop body", 2, "a{x}b", "{x}ab", "ab{x}"),
		mk("boundary moves before and after an edit that needs a rebuild", 0,
			"<i>one{s}two</i>", "<i>on{s}etwo</i>", "<i>on{t}etwo</i>", "<i>onet{t}wo</i>", "<i>{t}onetwo</i>"),
		mk("text merged on one side of the expression and split on the other, in the children of a call", 4,
			"<b>x</b>{s}<b>y</b>", "<b>x{s}</b><b>y</b>", "<b>x</b><b>{s}y</b>", "<b>x</b>{s}<b>y</b>"),
		mk("edit and revert of a plain text edit", 3, "one {s} two", "ONE {s} TWO", "one {s} two"),
	}
}

func buildSessions(c *core.Ctx, seeded bool, n int) []*session {
	var ss []*session
	if seeded {
		ss = append(ss, seededSessions()...)
	}
	for i := 0; i < n; i++ {
		w := rng.Pick(c.Rng, sessWraps)
		s := &session{wrap: w}
		hist := [][]satom{randSessAtoms(c.Rng, w.pool)}
		s.vers = append(s.vers, &sver{atoms: hist[0]})
		for steps := 2 + c.Rng.Intn(4); steps > 0; steps-- {
			for try := 0; try < 10; try++ {
				if nx, kind, ok := sessEdit(c.Rng, hist, w.pool); ok {
					hist = append(hist, nx)
					s.vers = append(s.vers, &sver{atoms: nx, kind: kind})
					break
				}
			}
		}
		if len(s.vers) > 1 {
			ss = append(ss, s)
		}
	}
	for i, s := range ss {
		s.name = fmt.Sprintf("S%04d", i+1)
		s.ok = true
		for k, v := range s.vers {
			v.src = sessSource("a", s.name, s.wrap, v.atoms)
			if k > 0 {
				v.nameB = fmt.Sprintf("%s_%d", s.name, k)
			}
		}
	}
	return ss
}

type handleFn func(file, src, root string) (generatecmd.GenerateResult, error)

// runSessions feeds the events of all sessions to the handler, interleaved, and keeps the text file after every event.
func runSessions(c *core.Ctx, t *tally, ss []*session, handle handleFn, tmp, rootS, rootFresh string, gens *[]*genRec, hcPairs *[]hcPair) (order [][2]int) {
	next := make([]int, len(ss))
	for {
		var live []int
		for i, s := range ss {
			if s.ok && next[i] < len(s.vers) {
				live = append(live, i)
			}
		}
		if len(live) == 0 {
			break
		}
		si := live[c.Rng.Intn(len(live))]
		// all first generations tend to come first, as when a watch session starts
		for _, i := range live {
			if next[i] == 0 && c.Rng.Intn(4) != 0 {
				si = i
				break
			}
		}
		s := ss[si]
		k := next[si]
		next[si]++
		v := s.vers[k]
		s.fa = filepath.Join(tmp, "a", strings.ToLower(s.name)+".templ")
		ga := strings.TrimSuffix(s.fa, ".templ") + "_templ.go"
		out, raw, gerr := generate(v.src, genOpts(tmp, s.fa)...)
		if gerr != nil {
			s.ok = false
			c.Hist("session: template rejected by the templ parser")
			continue
		}
		res, err := handle(s.fa, v.src, rootS)
		if err != nil {
			s.ok = false
			t.unformattable++
			if c.NFails("rendering: the code generated for a parsable template is accepted by the event handler") < 5 {
				c.Fail("property", "rendering: the code generated for a parsable template is accepted by the event handler", "generated-code-rejected",
					map[string]string{"template": v.src, "error": err.Error()}, "the watch-mode event handler fails on a template the parser accepts: no text file and no Go file are produced")
			}
			continue
		}
		v.out, v.res, v.gidx = out, res, len(*gens)
		*gens = append(*gens, &genRec{out: out, code: raw, what: abbr(v.src)})
		if k > 0 {
			*hcPairs = append(*hcPairs, hcPair{s.vers[k-1].gidx, v.gidx, abbr(s.vers[k-1].src) + "\n=====>\n" + abbr(v.src)})
			c.Count("hc:" + s.vers[k-1].src + "\x00" + v.src)
		} else {
			b, _ := os.ReadFile(ga)
			s.codeA = string(b)
		}
		os.Setenv("TEMPL_DEV_MODE_ROOT", rootS)
		if b, err := os.ReadFile(templruntime.GetDevModeTextFileName(s.fa)); err == nil {
			v.disk, v.hasDisk = string(b), true
		}
		order = append(order, [2]int{si, k})
	}
	// the compiled program is version 0; every later version is also generated afresh as package b
	for _, s := range ss {
		ga := strings.TrimSuffix(s.fa, ".templ") + "_templ.go"
		if !s.ok {
			if s.fa != "" {
				os.Remove(s.fa)
				os.Remove(ga)
			}
			continue
		}
		os.WriteFile(ga, []byte(s.codeA), 0o644)
		for k, v := range s.vers {
			if k == 0 {
				continue
			}
			fb := filepath.Join(tmp, "b", strings.ToLower(v.nameB)+".templ")
			if _, err := handle(fb, sessSource("b", v.nameB, s.wrap, v.atoms), rootFresh); err != nil {
				s.ok = false
			}
		}
		if !s.ok {
			removeSession(tmp, s)
		}
	}
	return order
}

func removeSession(tmp string, s *session) {
	os.Remove(s.fa)
	os.Remove(strings.TrimSuffix(s.fa, ".templ") + "_templ.go")
	for _, v := range s.vers {
		if v.nameB != "" {
			os.Remove(filepath.Join(tmp, "b", strings.ToLower(v.nameB)+".templ"))
			os.Remove(filepath.Join(tmp, "b", strings.ToLower(v.nameB)+"_templ.go"))
		}
	}
}

// sessionModel runs model/WatchHandler.v on the same events (skeletons as computed by the model from the generated
// code) and compares GoUpdated, TextUpdated and the file on disk event by event; checks what the theorems assume of
// the hash function on this session's texts; and the invariant of C16_handler_disk_current on the real disk.
func sessionModel(c *core.Ctx, ss []*session, order [][2]int, gens []*genRec) {
	b := func(x bool) []byte {
		if x {
			return []byte("1")
		}
		return []byte("0")
	}
	args := [][]byte{[]byte(strconv.Itoa(len(order)))}
	for _, ev := range order {
		s, k := ss[ev[0]], ev[1]
		v := s.vers[k]
		g := gens[v.gidx]
		sk, _ := realSkeleton(g.out)
		if g.mskelOK {
			sk = g.mskel
		}
		args = append(args, []byte(s.name), []byte(v.out.Options.Version), []byte(v.out.Options.FileName), b(v.out.Options.SkipCodeGeneratedComment),
			[]byte(strconv.Itoa(len(v.out.Literals))), []byte(strconv.Itoa(len(v.out.SourceMap.Expressions))), []byte(sk))
		for _, l := range v.out.Literals {
			args = append(args, []byte(l))
		}
		for _, e := range v.out.SourceMap.Expressions {
			args = append(args, []byte(e))
		}
	}
	decOK, diskOK, invOK := true, true, true
	res := c.Model([]drv.Req{{Fn: "session", Args: args}})
	if len(res) != 1 || len(res[0]) != 2*len(order) {
		c.Oblige("correspondence", "session: the extracted handler model answers every event", false, fmt.Sprintf("%d events", len(order)))
		return
	}
	for n, ev := range order {
		s, k := ss[ev[0]], ev[1]
		v := s.vers[k]
		bits, mdisk := string(res[0][2*n]), string(res[0][2*n+1])
		impl := string(b(v.res.GoUpdated)) + string(b(v.res.TextUpdated)) + string(b(v.hasDisk))
		c.Count("sess-ev:" + s.name + "\x00" + sessHistory(s, k))
		if bits != impl {
			decOK = false
			if c.NFails("session: model handler answers = FSEventHandler answers") < 4 {
				c.Fail("tie", "session: model handler answers = FSEventHandler answers", "", sessInput(s, k),
					fmt.Sprintf("GoUpdated/TextUpdated/text file exists: handler %s, model %s", impl, bits))
			}
		}
		if v.hasDisk && mdisk != v.disk {
			diskOK = false
			if c.NFails("session: model text file = text file on disk") < 4 {
				in := sessInput(s, k)
				in["model_file"] = abbr(mdisk)
				c.Fail("tie", "session: model text file = text file on disk", "", in, "after this event the file on disk is not the file the model handler has written")
			}
		}
		// C16_handler_disk_current on the implementation: the file on disk is the join of the latest literals
		if !v.hasDisk || v.disk != strings.Join(v.out.Literals, "\n") {
			invOK = false
		}
	}
	// contract of the theorems: sha256 has no collision and is not the zero array on the texts of each session
	hashOK := true
	for _, s := range ss {
		seen := map[[sha256.Size]byte]string{}
		for _, v := range s.vers {
			txt := strings.Join(v.out.Literals, "\n")
			h := sha256.Sum256([]byte(txt))
			if p, ok := seen[h]; (ok && p != txt) || h == [sha256.Size]byte{} {
				hashOK = false
			}
			seen[h] = txt
		}
	}
	c.Oblige("correspondence", fmt.Sprintf("session: model handler (WatchHandler.handle_event) = FSEventHandler on GoUpdated and TextUpdated, event by event (%d events of %d templates, interleaved)", len(order), len(ss)), decOK, "")
	c.Oblige("correspondence", "session: the text file on disk after every event = the file of the model handler", diskOK, "")
	c.Oblige("correspondence", "session: after every event the text file on disk is strings.Join(literals of the latest version, LF) (C16_handler_disk_current on the implementation)", invOK, "")
	c.Oblige("contract", "session: sha256 has no collision and is never the zero array on the text files of a session (hypothesis collision_free)", hashOK, "")
}

func sessHistory(s *session, k int) string {
	var sb strings.Builder
	for i := 0; i <= k; i++ {
		sb.WriteString(s.vers[i].src)
		sb.WriteByte(0)
	}
	return sb.String()
}

// sessInput is the replayable description of a session up to step k.
func sessInput(s *session, k int) map[string]any {
	var steps []map[string]any
	for i := 0; i <= k; i++ {
		v := s.vers[i]
		steps = append(steps, map[string]any{"step": i, "edit": v.kind, "template": v.src, "literals": abbrAll(v.out.Literals),
			"handler": fmt.Sprintf("GoUpdated=%v TextUpdated=%v", v.res.GoUpdated, v.res.TextUpdated), "text_file_on_disk_after": abbr(v.disk), "text_file_exists": v.hasDisk})
	}
	in := map[string]any{"session": steps, "position": s.wrap.doc,
		"how_to_replay": "one generatecmd.NewFSEventHandler(devMode=true), one TEMPL_DEV_MODE_ROOT; write each template in turn to the same .templ file (later modification time each time) and pass an fsnotify Write event; events of other templates may come in between"}
	if s.seeded != "" {
		in["construction"] = s.seeded
	}
	return in
}

// lastRebuild is the step at which the program a developer would be running at step i was compiled.
func lastRebuild(s *session, i int) int {
	k := 0
	for j := 1; j <= i; j++ {
		if s.vers[j].res.GoUpdated {
			k = j
		}
	}
	return k
}

// judgeSessions: per step index, a snapshot root holding for every session the text file that was on disk after that
// step, under the name the running program (compiled at the last recompile request) looks up.
func judgeSessions(c *core.Ctx, t *tally, ss []*session, tmp, prog string, helperFiles []string, nA, nB renders, devEnv func(string) []string) bool {
	maxLen := 0
	for _, s := range ss {
		if s.ok && !s.dropped && len(s.vers) > maxLen {
			maxLen = len(s.vers)
		}
	}
	ok := true
	nBoundary, nSteps := 0, 0
	for i := 0; i < maxLen; i++ {
		snap := filepath.Join(tmp, fmt.Sprintf("snap%d", i))
		os.MkdirAll(snap, 0o755)
		for _, f := range helperFiles {
			if b, err := os.ReadFile(f); err == nil {
				os.WriteFile(filepath.Join(snap, filepath.Base(f)), b, 0o644)
			}
		}
		var namesA, namesB []string
		running := map[*session]string{} // "A <name>" / "B <name>"
		for _, s := range ss {
			if !s.ok || s.dropped || i >= len(s.vers) {
				continue
			}
			k := lastRebuild(s, i)
			file := s.fa
			if k == 0 {
				namesA = append(namesA, s.name)
				running[s] = "A " + s.name
			} else {
				file = filepath.Join(tmp, "b", strings.ToLower(s.vers[k].nameB)+".templ")
				namesB = append(namesB, s.vers[k].nameB)
				running[s] = "B " + s.vers[k].nameB
			}
			if s.vers[i].hasDisk {
				os.WriteFile(filepath.Join(snap, filepath.Base(templruntime.GetDevModeTextFileName(file))), []byte(s.vers[i].disk), 0o644)
			}
		}
		watch := map[string]renders{}
		for side, names := range map[string][]string{"A": namesA, "B": namesB} {
			if len(names) == 0 {
				continue
			}
			sort.Strings(names)
			nf := filepath.Join(snap, "names_"+side+".txt")
			os.WriteFile(nf, []byte(strings.Join(names, "\n")), 0o644)
			r, err := runProg(prog, side, nf, devEnv(snap))
			if err != nil {
				c.Oblige("correspondence", "session: scratch program runs on the snapshot of the text files", false, err.Error())
				return false
			}
			watch[side] = r
		}
		for _, s := range ss {
			if !s.ok || s.dropped || i >= len(s.vers) {
				continue
			}
			v := s.vers[i]
			k := lastRebuild(s, i)
			run := strings.Fields(running[s])
			got := watch[run[0]][run[1]]
			want := nA[s.name]
			if i > 0 {
				want = nB[v.nameB]
			}
			c.Count("sess:" + sessHistory(s, i))
			nSteps++
			if i > 0 {
				c.Hist("session edit: " + v.kind)
				p := s.vers[i-1]
				same := strings.Join(p.out.Literals, "") == strings.Join(v.out.Literals, "")
				moved := strings.Join(p.out.Literals, "\x00") != strings.Join(v.out.Literals, "\x00")
				switch {
				case same && moved && !v.res.GoUpdated:
					nBoundary++
					c.Hist("session step: literal boundaries moved, concatenated text unchanged, answered text-only")
				case same && moved:
					c.Hist("session step: literal boundaries moved, concatenated text unchanged, recompilation requested")
				case !moved:
					c.Hist("session step: literals unchanged")
				case !v.res.GoUpdated:
					c.Hist("session step: text changed, answered text-only")
				default:
					c.Hist("session step: text changed, recompilation requested")
				}
				if k == 0 {
					c.Hist("session step: running program compiled before the first edit")
				} else if k == i {
					c.Hist("session step: running program compiled at this step")
				} else {
					c.Hist("session step: running program compiled at an earlier edit")
				}
				for j := 0; j < i; j++ {
					if s.vers[j].src == v.src {
						c.Hist("session step: returns to an earlier version")
						break
					}
				}
			}
			c.Hist("session: line in " + s.wrap.doc)
			if len(want) == 0 {
				continue
			}
			for e := range want {
				if e < len(got) && sameRender(want[e], got[e]) {
					continue
				}
				ok = false
				fam := "session: the running program reading the text file on disk = fresh build of the current version"
				if c.NFails(fam) < 8 {
					shape := "session-render-differs"
					if !v.hasDisk {
						shape = "text-file-missing"
					} else if v.disk != strings.Join(v.out.Literals, "\n") {
						shape = "text-file-not-rewritten"
						if strings.ReplaceAll(v.disk, "\n", "") == strings.Join(v.out.Literals, "") {
							shape = "text-file-not-rewritten-same-concatenation"
						}
					}
					x := "(missing)"
					if e < len(got) {
						x = unhex(got[e])
					}
					in := sessInput(s, i)
					in["running_program_compiled_at_step"] = k
					in["valuation"] = e
					in["fresh"] = abbr(unhex(want[e]))
					in["watch"] = abbr(x)
					in["text_file_of_a_fresh_generate"] = abbr(strings.Join(v.out.Literals, "\n"))
					c.Fail("property", fam, shape, in,
						"after this sequence of edits the program compiled at the handler's last recompile request, reading the development text file that is on disk, renders other bytes than a fresh generate and build of the current template")
				}
				break
			}
		}
	}
	t.sessSteps += nSteps
	t.sessBoundary += nBoundary
	for _, s := range ss {
		if s.ok && !s.dropped {
			t.sessions++
		}
	}
	t.sessOK = t.sessOK && ok
	return true
}
