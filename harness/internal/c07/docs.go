package c07

import (
	"fmt"
	"reflect"
	"strings"

	parser "github.com/a-h/templ/parser/v2"

	"verifharness/internal/rng"
	"verifharness/internal/tgen"
)

// ---- documents an editor session starts from ----

// slot is one syntactic place of a Go expression, as a template-body snippet (lines without indentation).
type slot struct{ name, text string }

var bodySlots = []slot{
	{"if/else-if", "if a != \"\" {\n\t<p>y</p>\n} else if b {\n\t<p>n</p>\n} else {\n\t<i>z</i>\n}"},
	{"for", "for _, x := range xs {\n\t<li>item</li>\n}"},
	{"switch/case", "switch a {\n\tcase \"x\":\n\t\t<p>x</p>\n\tdefault:\n\t\t<p>d</p>\n}"},
	{"string", "<p>{ a }</p>"},
	{"attribute", "<div title={ a }>t</div>"},
	{"url attribute", "<a href={ templ.URL(a) }>l</a>"},
	{"boolean attribute", "<input disabled?={ b }/>"},
	{"spread", "<div { attrs... }>s</div>"},
	{"conditional attribute", "<div\n\tif b {\n\t\tclass=\"on\"\n\t} else {\n\t\tclass=\"off\"\n\t}\n>c</div>"},
	{"class", "<div class={ \"k\", templ.KV(\"on\", b) }>k</div>"},
	{"call", "@Other(a)"},
	{"children call", "@Other(a) {\n\t<p>inner</p>\n}"},
	{"raw go", "{{ v := a + \"!\" }}"},
	{"script {{ }}", "<script>\n\tvar v = {{ a }};\n</script>"},
	{"multi-line call", "@Other(a +\n\t\"é\" +\n\ta)"},
	{"multi-byte before", "<b>üé</b>@Other(a)"},
	{"children", "<section>{ children... }</section>"},
}

var topSlots = []slot{
	{"css value", "css box(c string) {\n\tcolor: { c };\n\tmargin: 0;\n}"},
	{"script template", "script hi(n string) {\n\tconsole.log(n);\n}"},
	{"top-level go", "func helper() string { return \"x\" }"},
	{"top-level go var", "var v = []string{\n\t\"é\",\n}"},
	{"import", "import \"strings\""},
}

const slotSig = "(a string, b bool, xs []string, attrs templ.Attributes)"

func indent(s string, n int) string {
	pad := strings.Repeat("\t", n)
	ls := strings.Split(s, "\n")
	for i := range ls {
		ls[i] = pad + ls[i]
	}
	return strings.Join(ls, "\n")
}

// slotDoc builds a small file out of randomly chosen slots: optional header before the package clause, top-level
// blocks, one to three templates each holding one to three body slots (sometimes nested in an element).
// It returns the text and the slot names used.
func slotDoc(r *rng.R) (string, []string) {
	var sb strings.Builder
	var used []string
	if r.Intn(4) == 0 {
		sb.WriteString("//go:build !ignore\n\n")
		used = append(used, "header before package")
	}
	sb.WriteString("package main\n\n")
	top := func() {
		if r.Intn(3) == 0 {
			s := rng.Pick(r, topSlots)
			sb.WriteString(s.text + "\n\n")
			used = append(used, s.name)
		}
	}
	top()
	nT := 1 + r.Intn(3)
	for t := 0; t < nT; t++ {
		name := fmt.Sprintf("T%d", t)
		if t == nT-1 && r.Intn(3) == 0 {
			name = "Other"
		}
		fmt.Fprintf(&sb, "templ %s%s {\n", name, slotSig)
		nS := 1 + r.Intn(3)
		for k := 0; k < nS; k++ {
			s := rng.Pick(r, bodySlots)
			used = append(used, s.name)
			switch r.Intn(4) {
			case 0:
				sb.WriteString("\t<div>\n" + indent(s.text, 2) + "\n\t</div>\n")
			case 1:
				sb.WriteString("\n" + indent(s.text, 1) + "\n")
			default:
				sb.WriteString(indent(s.text, 1) + "\n")
			}
		}
		sb.WriteString("}\n\n")
		top()
	}
	return sb.String(), used
}

// grammarDoc is a (small) file of the shared templ grammar generator: every node and attribute kind, random layout.
func grammarDoc(r *rng.R) string {
	o := tgen.Default()
	o.Templates = 1 + r.Intn(2)
	o.Depth = 2 + r.Intn(2)
	o.Width = 3
	return tgen.File(r.Fork(), o)
}

// ---- expressions of a parsed file ----

var exprType = reflect.TypeOf(parser.Expression{})

func collectExprs(v reflect.Value, out *[]parser.Expression) {
	switch v.Kind() {
	case reflect.Interface, reflect.Ptr:
		if !v.IsNil() {
			collectExprs(v.Elem(), out)
		}
	case reflect.Struct:
		if v.Type() == exprType {
			e := v.Interface().(parser.Expression)
			if e.Range != (parser.Range{}) || e.Value != "" {
				*out = append(*out, e)
			}
			return
		}
		for i := 0; i < v.NumField(); i++ {
			if v.Type().Field(i).PkgPath != "" {
				continue
			}
			collectExprs(v.Field(i), out)
		}
	case reflect.Slice, reflect.Array:
		for i := 0; i < v.Len(); i++ {
			collectExprs(v.Index(i), out)
		}
	}
}

// exprsOf lists the Go expressions of a parsed file (every parser.Expression reachable in the AST).
func exprsOf(tf parser.TemplateFile) []parser.Expression {
	var es []parser.Expression
	collectExprs(reflect.ValueOf(tf), &es)
	return es
}
