// Package c07: the source map relates every Go expression byte to the same byte in generated code.
package c07

import (
	"verifharness/internal/core"
	"verifharness/internal/gentie"
	"verifharness/internal/tgen"
)

func init() { core.Register("C07", Run) }

func Run(c *core.Ctx) {
	c.Rule = "inputs: every .templ file of the repository plus grammar-generated templ files (internal/tgen: all node and attribute kinds, multi-line and multi-byte expressions, random layout); distinct non-trivial = distinct files that parse and generate; per file every Go expression of the AST, every rune start of every expression line and the position past each line end is checked; proxy family: histories of didOpen/didChange/didClose notifications given to proxy.Server with a stub gopls (documents: slot files covering every syntactic slot, grammar-generated files, small repository templates; edits placed relative to an expression of the current AST - blank lines / indentation / blanks above and before it, markup lines, typing inside it - plus random typing, breaking characters and their reversal, whole-document replacements, re-opens, closes, two documents), distinct non-trivial = (history, notification) pairs after which the held text generates; after each the held source map is judged against the held text and the Go text at gopls"
	c.Proofs()
	inputs := gentie.RepoTemplates()
	nRepo := len(inputs)
	inputs = append(inputs, gentie.Random(c.Rng, c.N(200, 4000), tgen.Default())...)
	c.Extra["repo_templates"] = nRepo
	for _, in := range inputs[:nRepo] {
		if len(in.Src) < 1500 && read(in.Src).ok {
			repoDocs = append(repoDocs, in)
		}
	}
	gens := gentie.Tie(c, inputs, true)
	for i, g := range gens {
		if i%97 == 0 {
			c.Sample(map[string]any{"file": g.In.Name, "bytes": len(g.In.Src), "source_map_entries": len(g.SM) / 16})
		}
	}
	noPackageFiles(c, inputs[nRepo:])
	proxySessions(c)
}
