// Package c07: the source map relates every Go expression byte to the same byte in generated code.
package c07

import (
	"verifharness/internal/core"
	"verifharness/internal/gentie"
	"verifharness/internal/tgen"
)

func init() { core.Register("C07", Run) }

func Run(c *core.Ctx) {
	c.Rule = "inputs: every .templ file of the repository plus grammar-generated templ files (internal/tgen: all node and attribute kinds, multi-line and multi-byte expressions, random layout); distinct non-trivial = distinct files that parse and generate; per file every Go expression of the AST, every rune start of every expression line and the position past each line end is checked; proxy family: histories of didOpen/didChange/didClose notifications given to proxy.Server with a stub gopls (documents: slot files covering every syntactic slot, grammar-generated files, small repository templates; edits placed relative to an expression of the current AST - blank lines / indentation / blanks above and before it, markup lines, typing inside it - plus random typing, breaking characters and their reversal, whole-document replacements, re-opens, closes, two documents), distinct non-trivial = (history, notification) pairs after which the held text generates; after each the held source map is judged against the held text and the Go text at gopls; options family: generator.Generate with lists of GenerateOpt values (exhaustive sweep {version} x {timestamp} x {no / relative / absolute file name} x {skipped comment} on two minimal files, every pool value alone, then random lists - any order, repeated options, versions and file names with line feeds, multi-byte text, quotes, back-quotes, ill-formed UTF-8, random dates and zones - on slot files, grammar files, repository templates, one CRLF file), distinct non-trivial = distinct (file, option list) pairs that generate; per run model text / literals / tables / options record = implementation, the extracted predicate on the implementation's output, and the symbol ranges against the generated text; the constructors, option fields, generation steps and readers of options of the live package are compared with the model's coverage table"
	c.Proofs()
	inputs := gentie.RepoTemplates()
	nRepo := len(inputs)
	inputs = append(inputs, runeClassInputs()...)
	inputs = append(inputs, gentie.Random(c.Rng, c.N(200, 4000), tgen.Default())...)
	c.Extra["repo_templates"] = nRepo
	for _, in := range inputs[:nRepo] {
		if len(in.Src) < 1500 && read(in.Src).ok {
			repoDocs = append(repoDocs, in)
		}
	}
	gens := gentie.Tie(c, inputs, true)
	for i, g := range gens {
		if i%97 == 0 {
			c.Sample(map[string]any{"file": g.In.Name, "bytes": len(g.In.Src), "source_map_entries": len(g.SM) / 16})
		}
	}
	symOK := true
	for _, g := range gens {
		if rep := symbolReport(g.TF, g.Code, g.Out.SourceMap); rep != "" {
			symOK = false
			if c.NFails(famSymbols) < 4 {
				c.Fail("property", famSymbols, "", map[string]any{"file": g.In.Name, "source": g.In.Src, "generated": g.Code, "report": rep},
					"a recorded symbol range does not lie on the declaration it stands for: "+clip(rep, 300))
			}
		}
	}
	c.Oblige("correspondence", famSymbols, symOK, "")
	noPackageFiles(c, inputs[nRepo+len(runeClasses):])
	optionCensus(c)
	optionRuns(c)
	proxySessions(c)
}
