package c07

import (
	"fmt"
	"strings"

	"verifharness/internal/gentie"
)

// Character classes inside Go expressions.  SourceMap.Add walks an expression rune by rune and advances columns and indices by
// the rune's encoded length; the grammar's expression vocabulary has accented letters and one emoji only.  These files put one
// character of every class that an "is this rune valid / how long is it" decision can tell apart into an expression - alone,
// doubled, at the front, at the end, before a line break of a multi-line expression and on its later lines - in a string
// expression, an attribute, a call argument list, an if condition and raw Go code:
// 1..4-byte characters, the first and last code point of every encoded length (U+007F U+0080 U+07FF U+0800 U+FFFF U+10000
// U+10FFFF), the REPLACEMENT CHARACTER U+FFFD written in the file as the valid character it is (what `for _, r := range`
// also yields for an ill-formed byte), its neighbours U+FFFC and U+FFFE, the byte-order mark U+FEFF in the middle of a file,
// U+2028, a combining mark, a variation selector, U+0085 and U+00A0 as proper two-byte characters.
var runeClasses = []struct{ name, ch string }{
	{"U+007F", "\u007f"}, {"U+0080", "\u0080"}, {"U+0085", "\u0085"}, {"U+00A0", "\u00a0"}, {"U+00E9", "\u00e9"}, {"U+07FF", "\u07ff"}, {"U+0800", "\u0800"},
	{"U+2028", "\u2028"}, {"U+0301 combining", "e\u0301"}, {"U+FE0F variation selector", "\u2764\ufe0f"}, {"U+FEFF", "\ufeff"},
	{"U+FFFC", "\ufffc"}, {"U+FFFD replacement character", "\ufffd"}, {"U+FFFE", "\ufffe"}, {"U+FFFF", "\uffff"},
	{"U+10000", "\U00010000"}, {"U+1F600", "\U0001F600"}, {"U+10FFFF", "\U0010FFFF"},
}

func runeClassInputs() []gentie.Input {
	var res []gentie.Input
	for i, rc := range runeClasses {
		c := rc.ch
		var sb strings.Builder
		sb.WriteString("package main\n\n")
		fmt.Fprintf(&sb, "templ Other(a string) {\n\t<i>{ a }</i>\n}\n\n")
		fmt.Fprintf(&sb, "templ T(a string, b bool) {\n")
		fmt.Fprintf(&sb, "\t<p>{ \"%s\" + a }</p>\n", c)
		fmt.Fprintf(&sb, "\t<p>{ a + \"x%s%sy\" + a + \"%s\" }</p>\n", c, c, c)
		fmt.Fprintf(&sb, "\t<div title={ \"%s\" + a } data-x={ a + \"%s\" }>t</div>\n", c, c)
		fmt.Fprintf(&sb, "\t@Other(\"%s\" +\n\t\t\"q%s\" + a +\n\t\ta + \"%s\")\n", c, c, c)
		fmt.Fprintf(&sb, "\tif a == \"%s\" || b {\n\t\t<b>y</b>\n\t}\n", c)
		fmt.Fprintf(&sb, "\t{{ v := \"%s\" +\n\t\ta }}\n\t<u>{ v }</u>\n", c)
		sb.WriteString("}\n")
		res = append(res, gentie.Input{Name: fmt.Sprintf("runeclass%02d-%s.templ", i, strings.ReplaceAll(strings.Fields(rc.name)[0], "+", "")), Src: sb.String()})
	}
	return res
}
