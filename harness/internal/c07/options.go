package c07

// The generator OPTIONS (generator.GenerateOpt): WithVersion, WithTimestamp, WithFileName, WithSkipCodeGeneratedComment.
//
//  1. census: the exported GenerateOpt constructors, the fields of GeneratorOptions and of the generator struct, the
//     steps of generator.generate and the places that read g.options are read from the LIVE package (reflection over
//     the table below + the package's source text) and compared with what model/GenOpts.v covers: an option, an option
//     field, a generation step or a reader of an option that the model does not know is reported as a broken tie.
//  2. runs: generator.Generate with every combination of the options (exhaustive small sweep, then random lists: any
//     order, repeated options, values with line feeds / multi-byte text / quotes / back-quotes / absolute paths) on slot
//     files, grammar files and repository templates.  Per run: the model (X07 "geno") must give the same Go text,
//     literals, source-map tables and GeneratorOptions record; the extracted specification predicate (check_faithful =
//     range_ok + add_faithful for every expression of the AST) is evaluated on the implementation's own output; and
//     the recorded symbol ranges must be positions of the generated text that enclose the declaration they stand for.

import (
	"bytes"
	"fmt"
	"go/ast"
	goparser "go/parser"
	"go/token"
	"os"
	"path/filepath"
	"reflect"
	"sort"
	"strings"
	"time"
	"unicode/utf8"

	"github.com/a-h/templ/generator"
	parser "github.com/a-h/templ/parser/v2"

	"verifharness/internal/astser"
	"verifharness/internal/core"
	"verifharness/internal/drv"
	"verifharness/internal/rng"
)

const (
	famCensus   = "options: every GenerateOpt constructor, GeneratorOptions field, generation step and reader of an option of the live generator package is covered by model/GenOpts.v"
	famOptTie   = "options: model text, literals, source map and options record = generator.Generate under every list of options"
	famOptFaith = "options: add_faithful holds of the real source map under every list of generator options"
	famSymbols  = "symbol ranges: every recorded target range is a range of positions of the generated text and encloses the declaration it stands for"
)

// ---- the coverage table ----

// optCtor is one modelled constructor: its live value (so a renamed or retyped constructor does not compile or fails
// the reflection check), the Go types of its parameters, and the gopt constructor of model/GenOpts.v.
type optCtor struct {
	name   string
	fn     any
	params []string
	model  string
}

var coveredCtors = []optCtor{
	{"WithVersion", generator.WithVersion, []string{"string"}, "OVersion"},
	{"WithTimestamp", generator.WithTimestamp, []string{"time.Time"}, "OTimestamp"},
	{"WithFileName", generator.WithFileName, []string{"string"}, "OFileName"},
	{"WithSkipCodeGeneratedComment", generator.WithSkipCodeGeneratedComment, nil, "OSkipComment"},
}

// GeneratorOptions field -> gopts field of the model.
var coveredFields = map[string]string{
	"Version": "o_version", "FileName": "o_fname", "SkipCodeGeneratedComment": "o_skip", "GeneratedDate": "o_date",
}

// the generator struct: what the model's gst / gen_state_o stand for
var coveredGenFields = []string{"tf", "w", "sourceMap", "variableID", "childrenVar", "options"}

// generator.generate: prologue (first three) ;; gen_body
var coveredSteps = []string{"writeCodeGeneratedComment", "writeVersionComment", "writeGeneratedDateComment", "writeHeader",
	"writePackage", "writeImports", "writeTemplateNodes", "writeBlankAssignmentForRuntimeImport"}

// who reads or writes g.options.<field>: function -> fields, as modelled
var coveredOptionUses = map[string][]string{
	"WithVersion":                  {"Version"},
	"WithTimestamp":                {"GeneratedDate"},
	"WithFileName":                 {"FileName"},
	"WithSkipCodeGeneratedComment": {"SkipCodeGeneratedComment"},
	"writeCodeGeneratedComment":    {"SkipCodeGeneratedComment"},
	"writeVersionComment":          {"Version"},
	"writeGeneratedDateComment":    {"GeneratedDate"},
	"writeExpressionErrorHandler":  {"FileName"},
	"Generate":                     {"*"}, // op.Options = g.options
}

func typeText(e ast.Expr) string {
	switch t := e.(type) {
	case *ast.Ident:
		return t.Name
	case *ast.SelectorExpr:
		return typeText(t.X) + "." + t.Sel.Name
	case *ast.StarExpr:
		return "*" + typeText(t.X)
	case *ast.Ellipsis:
		return "..." + typeText(t.Elt)
	case *ast.ArrayType:
		return "[]" + typeText(t.Elt)
	}
	return fmt.Sprintf("%T", e)
}

// optionCensus compares the live generator package with the coverage table.
func optionCensus(c *core.Ctx) {
	var problems []string
	bad := func(f string, a ...any) { problems = append(problems, fmt.Sprintf(f, a...)) }

	// (a) reflection over the table: each entry is a function returning generator.GenerateOpt with the stated parameters
	optT := reflect.TypeOf(generator.GenerateOpt(nil))
	for _, k := range coveredCtors {
		t := reflect.TypeOf(k.fn)
		if t.Kind() != reflect.Func || t.NumOut() != 1 || t.Out(0) != optT {
			bad("%s is not a func returning GenerateOpt: %v", k.name, t)
			continue
		}
		var ps []string
		for i := 0; i < t.NumIn(); i++ {
			ps = append(ps, t.In(i).String())
		}
		if strings.Join(ps, ",") != strings.Join(k.params, ",") {
			bad("%s takes (%s), the model's %s stands for (%s)", k.name, strings.Join(ps, ","), k.model, strings.Join(k.params, ","))
		}
	}
	gt := reflect.TypeOf(generator.Generate)
	if !(gt.IsVariadic() && gt.NumIn() == 3 && gt.In(2).Elem() == optT) {
		bad("Generate's signature is %v, expected (parser.TemplateFile, io.Writer, ...GenerateOpt)", gt)
	}
	ot := reflect.TypeOf(generator.GeneratorOptions{})
	seenF := map[string]bool{}
	for i := 0; i < ot.NumField(); i++ {
		f := ot.Field(i)
		seenF[f.Name] = true
		if _, ok := coveredFields[f.Name]; !ok {
			bad("GeneratorOptions.%s (%v) has no field in the model's gopts", f.Name, f.Type)
		}
	}
	for f := range coveredFields {
		if !seenF[f] {
			bad("the model's option field for GeneratorOptions.%s has no counterpart in the live struct", f)
		}
	}

	// (b) the package's source text
	fset := token.NewFileSet()
	dir := filepath.Join(core.Repo(), "generator")
	pkgs, err := goparser.ParseDir(fset, dir, func(fi os.FileInfo) bool { return !strings.HasSuffix(fi.Name(), "_test.go") }, 0)
	if err != nil || pkgs["generator"] == nil {
		bad("cannot read the source of %s: %v", dir, err)
	} else {
		covered := map[string]optCtor{}
		for _, k := range coveredCtors {
			covered[k.name] = k
		}
		found := map[string]bool{}
		uses := map[string]map[string]bool{}
		var steps, genFields []string
		for _, file := range pkgs["generator"].Files {
			for _, d := range file.Decls {
				switch d := d.(type) {
				case *ast.FuncDecl:
					name := d.Name.Name
					returnsOpt := false
					if d.Type.Results != nil {
						for _, r := range d.Type.Results.List {
							if strings.Contains(typeText(r.Type), "GenerateOpt") {
								returnsOpt = true
							}
						}
					}
					if returnsOpt && (d.Name.IsExported() || d.Recv == nil) {
						found[name] = true
						k, ok := covered[name]
						if !ok || d.Recv != nil {
							bad("function %s returns a GenerateOpt and is not in the coverage table (model/GenOpts.v gopt has no constructor for it)", name)
						} else {
							var ps []string
							for _, p := range d.Type.Params.List {
								n := len(p.Names)
								if n == 0 {
									n = 1
								}
								for j := 0; j < n; j++ {
									ps = append(ps, typeText(p.Type))
								}
							}
							if strings.Join(ps, ",") != strings.Join(k.params, ",") {
								bad("source: %s(%s), table: (%s)", name, strings.Join(ps, ","), strings.Join(k.params, ","))
							}
						}
					}
					// readers and writers of g.options.<field> / whole-record uses of <x>.options
					ast.Inspect(d, func(n ast.Node) bool {
						sel, ok := n.(*ast.SelectorExpr)
						if !ok {
							return true
						}
						if in, ok := sel.X.(*ast.SelectorExpr); ok && in.Sel.Name == "options" {
							if uses[name] == nil {
								uses[name] = map[string]bool{}
							}
							uses[name][sel.Sel.Name] = true
							return false
						}
						if sel.Sel.Name == "options" {
							if uses[name] == nil {
								uses[name] = map[string]bool{}
							}
							uses[name]["*"] = true
						}
						return true
					})
					if name == "generate" && d.Recv != nil {
						ast.Inspect(d.Body, func(n ast.Node) bool {
							if call, ok := n.(*ast.CallExpr); ok {
								if s, ok := call.Fun.(*ast.SelectorExpr); ok {
									if x, ok := s.X.(*ast.Ident); ok && x.Name == "g" {
										steps = append(steps, s.Sel.Name)
									}
								}
							}
							return true
						})
					}
				case *ast.GenDecl:
					for _, sp := range d.Specs {
						switch sp := sp.(type) {
						case *ast.ValueSpec:
							isOpt := sp.Type != nil && strings.Contains(typeText(sp.Type), "GenerateOpt")
							for _, v := range sp.Values {
								if call, ok := v.(*ast.CallExpr); ok && strings.Contains(typeText(call.Fun), "GenerateOpt") {
									isOpt = true
								}
							}
							if isOpt {
								for _, n := range sp.Names {
									bad("package-level value %s is a GenerateOpt and is not in the coverage table", n.Name)
								}
							}
						case *ast.TypeSpec:
							if st, ok := sp.Type.(*ast.StructType); ok && sp.Name.Name == "generator" {
								for _, f := range st.Fields.List {
									for _, n := range f.Names {
										genFields = append(genFields, n.Name)
									}
								}
							}
						}
					}
				}
			}
		}
		for _, k := range coveredCtors {
			if !found[k.name] {
				bad("the table's %s is not declared in the package source as a function returning GenerateOpt", k.name)
			}
		}
		if strings.Join(steps, " ") != strings.Join(coveredSteps, " ") {
			bad("generator.generate runs [%s]; the model (prologue ;; gen_body) stands for [%s]", strings.Join(steps, " "), strings.Join(coveredSteps, " "))
		}
		if strings.Join(genFields, " ") != strings.Join(coveredGenFields, " ") {
			bad("the generator struct has fields [%s]; the model's state stands for [%s]", strings.Join(genFields, " "), strings.Join(coveredGenFields, " "))
		}
		var fns []string
		for fn := range uses {
			fns = append(fns, fn)
		}
		sort.Strings(fns)
		for _, fn := range fns {
			var got []string
			for f := range uses[fn] {
				got = append(got, f)
			}
			sort.Strings(got)
			want := append([]string(nil), coveredOptionUses[fn]...)
			sort.Strings(want)
			if strings.Join(got, ",") != strings.Join(want, ",") {
				bad("%s uses g.options [%s]; the model knows [%s]", fn, strings.Join(got, ","), strings.Join(want, ","))
			}
		}
		for fn := range coveredOptionUses {
			if uses[fn] == nil {
				bad("the model takes %s to use the options; the live function does not (or is gone)", fn)
			}
		}
	}
	c.Extra["generate_opt_constructors"] = len(coveredCtors)
	c.Count("options census")
	if len(problems) > 0 {
		c.Fail("tie", famCensus, "", map[string]any{"problems": problems}, "the live generator package has an option surface the model does not cover: "+problems[0])
	}
	c.Oblige("correspondence", famCensus, len(problems) == 0, strings.Join(problems, "; "))
}

// ---- option lists ----

// optUse is one option given to Generate: the constructor's name, the value as the model receives it (WithTimestamp: the
// date formatted as the option stores it) and a printable form of the argument for the replay.
type optUse struct {
	Opt   string `json:"opt"`
	Value string `json:"value"`
	Arg   string `json:"go_argument"`
	live  generator.GenerateOpt
}

func mkVersion(v string) optUse {
	return optUse{"WithVersion", v, fmt.Sprintf("%q", v), generator.WithVersion(v)}
}
func mkFileName(n string) optUse {
	return optUse{"WithFileName", n, fmt.Sprintf("%q", n), generator.WithFileName(n)}
}
func mkSkip() optUse {
	return optUse{"WithSkipCodeGeneratedComment", "", "", generator.WithSkipCodeGeneratedComment()}
}
func mkTimestamp(t time.Time) optUse {
	_, off := t.Zone()
	return optUse{"WithTimestamp", t.Format(time.RFC3339), fmt.Sprintf("time.Unix(%d, %d).In(time.FixedZone(\"\", %d))", t.Unix(), t.Nanosecond(), off), generator.WithTimestamp(t)}
}

var versionPool = []string{"v0.3.906", "v0.2.543", "dev", "", "v1.0.0-é", "(devel) ünïcode 世界", "v1\nv2", "1.2\r\n", "\t", "v`1`", strings.Repeat("long", 80), "v\xff\xfe", "\xc3"}
var fileNamePool = []string{"x.templ", "dir/x.templ", "", "/abs/dir/x.templ", "/x.templ", "/", "/dir/", "a`b.templ", "é/ü.templ", "/tmp/世界/é.templ",
	"q\"uote.templ", "back\\slash.templ", "new\nline.templ", "\xff.templ", "/abs/\xc3.templ", "./rel/../x.templ", "C:\\x.templ", "//double//slash.templ", "`", "/a/`b`.templ"}

func randomTime(r *rng.R) time.Time {
	switch r.Intn(8) {
	case 0:
		return time.Time{} // 0001-01-01T00:00:00Z
	case 1:
		return time.Unix(0, 0).UTC()
	}
	secs := int64(r.Intn(4_000_000_000)) - 500_000_000
	t := time.Unix(secs, int64(r.Intn(1_000_000_000)))
	switch r.Intn(4) {
	case 0:
		return t.UTC()
	case 1:
		return t.In(time.FixedZone("", 5*3600+1800))
	case 2:
		return t.In(time.FixedZone("", -8*3600))
	}
	return t.In(time.FixedZone("", (r.Intn(27)-12)*3600+r.Intn(4)*900))
}

func randomOpt(r *rng.R) optUse {
	switch r.Intn(4) {
	case 0:
		return mkVersion(rng.Pick(r, versionPool))
	case 1:
		return mkTimestamp(randomTime(r))
	case 2:
		return mkFileName(rng.Pick(r, fileNamePool))
	}
	return mkSkip()
}

// randomOpts: zero to six options in any order, options of one kind possibly repeated.
func randomOpts(r *rng.R) []optUse {
	n := r.Intn(5)
	if r.Intn(6) == 0 {
		n += 2
	}
	var os []optUse
	for i := 0; i < n; i++ {
		os = append(os, randomOpt(r))
	}
	return os
}

// sweepOpts: every combination of {no version, a version} x {no timestamp, a timestamp} x {no file name, relative,
// absolute} x {comment, skipped comment}, in the order cmd/templ/generatecmd gives them (version, timestamp, ..., file name).
func sweepOpts() [][]optUse {
	ts := time.Date(2026, 1, 2, 3, 4, 5, 0, time.UTC)
	var res [][]optUse
	for ver := 0; ver < 2; ver++ {
		for tsi := 0; tsi < 2; tsi++ {
			for fn := 0; fn < 3; fn++ {
				for sk := 0; sk < 2; sk++ {
					var os []optUse
					if ver == 1 {
						os = append(os, mkVersion("v0.3.906"))
					}
					if tsi == 1 {
						os = append(os, mkTimestamp(ts))
					}
					if sk == 1 {
						os = append(os, mkSkip())
					}
					switch fn {
					case 1:
						os = append(os, mkFileName("dir/x.templ"))
					case 2:
						os = append(os, mkFileName("/abs/dir/x.templ"))
					}
					res = append(res, os)
				}
			}
		}
	}
	return res
}

func optLabel(os []optUse) string {
	var has [4]bool
	rep := false
	for _, o := range os {
		for i, k := range coveredCtors {
			if o.Opt == k.name {
				if has[i] {
					rep = true
				}
				has[i] = true
			}
		}
	}
	var parts []string
	for i, k := range coveredCtors {
		if has[i] {
			parts = append(parts, strings.TrimPrefix(k.name, "With"))
		}
	}
	s := "options: {" + strings.Join(parts, ",") + "}"
	if rep {
		s += " (an option repeated)"
	}
	return s
}

// ---- positions of a text (the specification's pos_of, in Go: byte index, line, byte column) ----

func posOf(s string, idx int64) parser.Position {
	if idx < 0 || idx > int64(len(s)) {
		return parser.Position{Index: -1}
	}
	pre := s[:idx]
	line := strings.Count(pre, "\n")
	col := len(pre) - (strings.LastIndexByte(pre, '\n') + 1)
	return parser.Position{Index: idx, Line: uint32(line), Col: uint32(col)}
}

// symbolReport judges the symbol ranges of a real source map against the generated text and the AST: "" = fine.
func symbolReport(tf parser.TemplateFile, code string, sm *parser.SourceMap) string {
	type decl struct {
		kind, prefix string
		goBlock      bool
	}
	decls := map[[2]uint32]decl{}
	put := func(r parser.Range, d decl) { decls[[2]uint32{r.From.Line, r.From.Col}] = d }
	addGo := func(n parser.TemplateFileGoExpression) {
		put(n.Expression.Range, decl{"go", n.Expression.Value, true})
	}
	for _, h := range tf.Header {
		addGo(h)
	}
	for _, n := range tf.Nodes {
		switch n := n.(type) {
		case parser.TemplateFileGoExpression:
			addGo(n)
		case parser.HTMLTemplate:
			put(n.Range, decl{"templ", "func " + n.Expression.Value + " templ.Component {", false})
		case parser.CSSTemplate:
			put(n.Range, decl{"css", "func " + n.Expression.Value + " templ.CSSClass {", false})
		case parser.ScriptTemplate:
			put(n.Range, decl{"script", "func " + n.Name.Value + "(" + n.Parameters.Value + ") templ.ComponentScript {", false})
		}
	}
	var lines []int
	for l := range sm.SourceSymbolRangeToTarget {
		lines = append(lines, int(l))
	}
	sort.Ints(lines)
	var rep []string
	for _, l := range lines {
		var cols []int
		for cc := range sm.SourceSymbolRangeToTarget[uint32(l)] {
			cols = append(cols, int(cc))
		}
		sort.Ints(cols)
		for _, cc := range cols {
			t := sm.SourceSymbolRangeToTarget[uint32(l)][uint32(cc)]
			at := fmt.Sprintf("symbol@%d:%d", l, cc)
			if t.From != posOf(code, t.From.Index) || t.To != posOf(code, t.To.Index) || t.From.Index > t.To.Index {
				rep = append(rep, fmt.Sprintf("%s target %v-%v is not a range of positions of the generated text (index %d is %v, index %d is %v)", at, t.From, t.To, t.From.Index, posOf(code, t.From.Index), t.To.Index, posOf(code, t.To.Index)))
				continue
			}
			d, ok := decls[[2]uint32{uint32(l), uint32(cc)}]
			if !ok {
				continue // a range the AST walk above does not know: only its positions are judged
			}
			enclosed := code[t.From.Index:t.To.Index]
			if !strings.HasPrefix(enclosed, d.prefix) {
				rep = append(rep, fmt.Sprintf("%s (%s) target %v-%v holds %q, not the declaration starting %q", at, d.kind, t.From, t.To, clip(enclosed, 60), clip(d.prefix, 60)))
				continue
			}
			if back, ok := sm.SymbolSourceRangeFromTarget(t.From.Line, t.From.Col); !ok || back.From.Line != uint32(l) || back.From.Col != uint32(cc) {
				rep = append(rep, fmt.Sprintf("%s target %v does not map back to the source range (got %v, %v)", at, t.From, back.From, ok))
			}
		}
	}
	return strings.Join(rep, "\n")
}

func clip(s string, n int) string {
	if len(s) > n {
		return s[:n] + "..."
	}
	return s
}

// ---- runs ----

type optDoc struct {
	kind, name, src string
}

type optRun struct {
	doc     optDoc
	opts    []optUse
	tf      parser.TemplateFile
	enc     string
	code    string
	sm      string
	lits    string
	out     generator.GeneratorOutput
	tieable bool // every value is text the model's writer handles byte for byte (version: valid UTF-8)
}

func optionDocs(c *core.Ctx, r *rng.R, n int) []optDoc {
	docs := []optDoc{
		{"minimal", "opt-min.templ", "package main\n\ntempl T() {\n\t<p>{ \"é\" }</p>\n}\n"},
		{"minimal", "opt-all-tops.templ", "//go:build !x\n\npackage main\n\nimport \"strings\"\n\nvar v = strings.ToUpper(\"é\")\n\ncss box(c string) {\n\tcolor: { c };\n}\n\nscript hi(n string) {\n\tconsole.log(n);\n}\n\ntempl T(a string) {\n\t<div class={ box(a) } onclick={ hi(a) } style={ a }>{ v }</div>\n}\n"},
	}
	for i := 0; i < n; i++ {
		switch i % 4 {
		case 0, 1:
			s, _ := slotDoc(r)
			docs = append(docs, optDoc{"slot file", fmt.Sprintf("opt-slot%03d.templ", i), s})
		case 2:
			docs = append(docs, optDoc{"grammar file", fmt.Sprintf("opt-gram%03d.templ", i), grammarDoc(r)})
		case 3:
			if len(repoDocs) > 0 {
				d := rng.Pick(r, repoDocs)
				docs = append(docs, optDoc{"repository template", d.Name, d.Src})
			}
		}
	}
	if len(docs) > 3 {
		docs[3].src = strings.ReplaceAll(docs[3].src, "\n", "\r\n")
		docs[3].kind = "slot file, CRLF"
	}
	return docs
}

func runWithOptions(doc optDoc, os []optUse) (run optRun, skip string) {
	defer func() {
		if rec := recover(); rec != nil {
			skip = fmt.Sprintf("panic: %v", rec)
		}
	}()
	tf, err := parser.ParseString(doc.src)
	if err != nil {
		return run, "parse"
	}
	enc, ok, why := astser.File(tf)
	if !ok {
		return run, "unsupported: " + why
	}
	var live []generator.GenerateOpt
	tieable := true
	for _, o := range os {
		live = append(live, o.live)
		if o.Opt == "WithVersion" && !utf8.ValidString(o.Value) {
			tieable = false
		}
	}
	var b bytes.Buffer
	out, err := generator.Generate(tf, &b, live...)
	if err != nil {
		return run, "generate"
	}
	return optRun{doc: doc, opts: os, tf: tf, enc: enc, code: b.String(), sm: astser.DumpSM(out.SourceMap), lits: strings.Join(out.Literals, "\n"), out: out, tieable: tieable}, ""
}

func (run optRun) input(extra map[string]any) map[string]any {
	os := run.opts
	if os == nil {
		os = []optUse{}
	}
	in := map[string]any{"file": run.doc.name, "source": run.doc.src, "options_in_order": os,
		"reproduce": "parser.ParseString(source); generator.Generate(tf, &buf, <options_in_order as generator.<opt>(<go_argument>)>...)"}
	for k, v := range extra {
		in[k] = v
	}
	return in
}

// optionRuns is the run family.
func optionRuns(c *core.Ctx) {
	r := c.Rng.Fork()
	docs := optionDocs(c, r, c.N(100, 1500))
	var runs []optRun
	add := func(doc optDoc, os []optUse) {
		run, skip := runWithOptions(doc, os)
		if skip != "" {
			c.Hist("options: input skipped: " + strings.SplitN(skip, ":", 2)[0])
			return
		}
		runs = append(runs, run)
		c.Hist(optLabel(os))
		c.Hist("options: document: " + doc.kind)
		for _, o := range os {
			if o.Opt == "WithFileName" {
				switch {
				case strings.HasPrefix(o.Value, "/"):
					c.Hist("options: file name absolute")
				case !utf8.ValidString(o.Value) || strings.ContainsAny(o.Value, "`\"\\\n"):
					c.Hist("options: file name needing escaping")
				default:
					c.Hist("options: file name relative, plain")
				}
			}
			if o.Opt == "WithVersion" && !utf8.ValidString(o.Value) {
				c.Hist("options: version not valid UTF-8 (judged by the predicate only)")
			}
		}
	}
	// exhaustive small sweep first, on the two minimal files: the first failure is a minimal one
	for _, doc := range docs[:2] {
		for _, os := range sweepOpts() {
			add(doc, os)
		}
	}
	// every option value of the pools once, alone, on the first minimal file
	for _, v := range versionPool {
		add(docs[0], []optUse{mkVersion(v)})
	}
	for _, n := range fileNamePool {
		add(docs[1], []optUse{mkFileName(n)})
	}
	// random lists on every document
	per := c.N(3, 6)
	for _, doc := range docs[2:] {
		for k := 0; k < per; k++ {
			os := randomOpts(r)
			if k == 0 && len(os) == 0 {
				os = []optUse{randomOpt(r), randomOpt(r)}
			}
			add(doc, os)
		}
	}

	var reqs []drv.Req
	for _, run := range runs {
		args := [][]byte{[]byte(run.enc)}
		for _, o := range run.opts {
			args = append(args, []byte(o.Opt), []byte(o.Value))
		}
		reqs = append(reqs, drv.Req{Fn: "geno", Args: args})
		reqs = append(reqs, drv.Req{Fn: "faithful", Args: [][]byte{[]byte(run.doc.src), []byte(run.code), []byte(run.sm), []byte(run.enc)}})
	}
	res := c.Model(reqs)
	tieOK, faithOK, symOK := true, true, true
	checked := 0
	for i, run := range runs {
		var optKey []string
		for _, o := range run.opts {
			optKey = append(optKey, o.Opt+"="+o.Value)
		}
		c.Count(run.doc.name + "|" + strings.Join(optKey, "|"))
		if i%53 == 0 {
			c.Sample(map[string]any{"family": "options", "file": run.doc.name, "options": optKey, "generated_bytes": len(run.code), "first_lines": clip(run.code, 120)})
		}
		g, f := res[2*i], res[2*i+1]
		// (1) model = implementation
		if run.tieable {
			var diffs []string
			if len(g) != 8 || string(g[0]) != "ok" {
				diffs = append(diffs, fmt.Sprintf("model reply %q", first(g)))
			} else {
				o := run.out.Options
				impl := []string{run.code, run.sm, run.lits, o.Version, o.FileName, fmt.Sprint(o.SkipCodeGeneratedComment), o.GeneratedDate}
				names := []string{"generated Go text", "source map tables", "literals", "Options.Version", "Options.FileName", "Options.SkipCodeGeneratedComment", "Options.GeneratedDate"}
				for k := range impl {
					if string(g[k+1]) != impl[k] {
						diffs = append(diffs, names[k]+": "+firstDiffLine(string(g[k+1]), impl[k]))
					}
				}
			}
			if len(diffs) > 0 {
				tieOK = false
				if c.NFails(famOptTie) < 3 {
					c.Fail("tie", famOptTie, "", run.input(map[string]any{"differences": diffs}), "model and generator.Generate differ under these options: "+diffs[0])
				}
			}
		}
		// (2) the specification predicate on the implementation's own output
		if len(f) != 3 || string(f[0]) != "ok" {
			faithOK = false
			if c.NFails(famOptFaith) < 3 {
				c.Fail("tie", famOptFaith, "", run.input(nil), fmt.Sprintf("the extracted predicate did not run: %q", first(f)))
			}
		} else {
			var n int
			fmt.Sscan(string(f[1]), &n)
			checked += n
			if rep := string(f[2]); rep != "" {
				faithOK = false
				if c.NFails(famOptFaith) < 4 {
					c.Fail("property", famOptFaith, shapeOf(run.doc.src, rep), run.input(map[string]any{"generated": run.code, "source_map": run.sm, "report": rep}),
						"with these options an expression byte is not mapped to the same byte of the generated file (or the target is not a position of the file, or does not map back): "+clip(rep, 300))
				}
			}
		}
		// (3) symbol ranges
		if rep := symbolReport(run.tf, run.code, run.out.SourceMap); rep != "" {
			symOK = false
			if c.NFails(famSymbols) < 4 {
				c.Fail("property", famSymbols, "", run.input(map[string]any{"generated": run.code, "report": rep}),
					"a recorded symbol range does not lie on the declaration it stands for: "+clip(rep, 300))
			}
		}
	}
	c.Extra["option_runs"] = len(runs)
	c.Extra["option_runs_expressions_checked"] = checked
	c.Oblige("correspondence", famOptTie, tieOK, "")
	c.Oblige("correspondence", famOptFaith, faithOK, "")
	c.Oblige("correspondence", famSymbols+" (runs with options)", symOK, "")
}

func firstDiffLine(a, b string) string {
	la, lb := strings.Split(a, "\n"), strings.Split(b, "\n")
	for i := 0; i < len(la) && i < len(lb); i++ {
		if la[i] != lb[i] {
			return fmt.Sprintf("line %d: model %q / impl %q", i+1, clip(la[i], 200), clip(lb[i], 200))
		}
	}
	return fmt.Sprintf("line counts: model %d / impl %d", len(la), len(lb))
}

func first(r [][]byte) string {
	if len(r) == 0 {
		return ""
	}
	return string(r[0])
}
