package c07

// The source map the language-server proxy HOLDS (proxy.Server.SourceMapCache) for the document text it holds
// (Server.TemplSource), across histories of didOpen / didChange / didClose notifications.
//
// After every notification the cached map is judged with the extracted specification predicate (check_faithful =
// range_ok + add_faithful for every expression of the AST) against the server's current document text and the Go text
// the stub gopls was last given.  The Gallina transition system coq/model/ProxyCache.v is run on the same history and
// compared with the server's state (held text, cached tables, Go text at gopls) after every notification.

import (
	"context"
	"fmt"
	"io"
	"log/slog"
	"strings"
	"unicode/utf8"

	"github.com/a-h/templ/cmd/templ/lspcmd/proxy"
	"github.com/a-h/templ/generator"
	lsp "github.com/a-h/templ/lsp/protocol"
	parser "github.com/a-h/templ/parser/v2"

	"verifharness/internal/astser"
	"verifharness/internal/core"
	"verifharness/internal/drv"
	"verifharness/internal/gentie"
	"verifharness/internal/rng"
)

var quiet = slog.New(slog.NewTextHandler(io.Discard, &slog.HandlerOptions{Level: slog.Level(100)}))

const (
	famHeld  = "proxy: the source map held for a document is faithful for the held text and the Go text at gopls, after every notification"
	famStale = "proxy: while the held text does not generate, the held map is still the faithful map of the last accepted text and the Go text at gopls"
	famModel = "proxy: transition-system model = Server state (held text, cached tables, Go text at gopls) after every notification"
)

var sessionURIs = []string{"file:///work/view.templ", "file:///work/other.templ"}

func goURIOf(u string) string { return strings.TrimSuffix(u, ".templ") + "_templ.go" }

// ---- notifications ----

type change struct {
	Range *[4]uint32 `json:"range,omitempty"` // start line, start character, end line, end character (bytes); absent = whole document
	Text  string     `json:"text"`
}

type note struct {
	Op      string   `json:"op"` // didOpen | didChange | didClose
	URI     string   `json:"uri"`
	Text    string   `json:"text,omitempty"`
	Changes []change `json:"changes,omitempty"`
	Class   string   `json:"class"`
}

func ins(l, c int, text string) change {
	return change{Range: &[4]uint32{uint32(l), uint32(c), uint32(l), uint32(c)}, Text: text}
}
func del(l, c, l2, c2 int) change {
	return change{Range: &[4]uint32{uint32(l), uint32(c), uint32(l2), uint32(c2)}}
}

// splice is the editor's view of a change (byte columns, ranges produced by this file are always inside the text).
func splice(s string, ch change) string {
	if ch.Range == nil {
		return ch.Text
	}
	off := func(l, c uint32) int {
		i := 0
		for ; l > 0; l-- {
			j := strings.IndexByte(s[i:], '\n')
			if j < 0 {
				return len(s)
			}
			i += j + 1
		}
		e := strings.IndexByte(s[i:], '\n')
		if e < 0 {
			e = len(s) - i
		}
		if int(c) > e {
			c = uint32(e)
		}
		return i + int(c)
	}
	a, b := off(ch.Range[0], ch.Range[1]), off(ch.Range[2], ch.Range[3])
	if b < a {
		b = a
	}
	return s[:a] + ch.Text + s[b:]
}

func lineCol(s string, i int) (int, int) {
	if i > len(s) {
		i = len(s)
	}
	return strings.Count(s[:i], "\n"), i - (strings.LastIndexByte(s[:i], '\n') + 1)
}

func lineStart(s string, l int) int {
	i := 0
	for ; l > 0; l-- {
		j := strings.IndexByte(s[i:], '\n')
		if j < 0 {
			return len(s)
		}
		i += j + 1
	}
	return i
}

func lineText(s string, l int) string {
	i := lineStart(s, l)
	j := strings.IndexByte(s[i:], '\n')
	if j < 0 {
		return s[i:]
	}
	return s[i : i+j]
}

// ---- the harness's own reading of a document text ----

type reading struct {
	ok   bool // parses, diagnoses, generates, and the AST is one the model knows
	why  string
	tf   parser.TemplateFile
	enc  string
	code string
	sm   string
}

var readings = map[string]*reading{}

func read(text string) *reading {
	if r, ok := readings[text]; ok {
		return r
	}
	r := &reading{}
	readings[text] = r
	defer func() {
		if rec := recover(); rec != nil {
			r.ok, r.why = false, fmt.Sprintf("panic: %v", rec)
		}
	}()
	tf, err := parser.ParseString(text)
	if err != nil {
		r.why = "parse"
		return r
	}
	tf.Filepath = sessionURIs[0]
	if _, err := parser.Diagnose(tf); err != nil {
		r.why = "diagnose"
		return r
	}
	var sb strings.Builder
	out, err := generator.Generate(tf, &sb)
	if err != nil {
		r.why = "generate"
		return r
	}
	enc, ok, why := astser.File(tf)
	if !ok {
		r.why = "unsupported: " + why
		return r
	}
	r.ok, r.tf, r.enc, r.code, r.sm = true, tf, enc, sb.String(), astser.DumpSM(out.SourceMap)
	return r
}

// ---- edits ----

// snap moves a byte offset back to the start of the character it falls in (an editor never splits a character).
func snap(s string, i int) int {
	for i > 0 && i < len(s) && !utf8.RuneStart(s[i]) {
		i--
	}
	return i
}

var breakers = []string{"{", "<", "}", "\"", "@", "<div", "if {", "{{"}

// nextNote draws the next notification for a document whose held text is cur.  undo (when non-nil) reverts the
// previous change of this document.
func nextNote(r *rng.R, uri, cur string, undo *change) (n note, newUndo *change) {
	n = note{Op: "didChange", URI: uri}
	rd := read(cur)
	if undo != nil && r.Intn(10) < 7 {
		n.Changes, n.Class = []change{*undo}, "revert the previous change"
		return
	}
	var es []parser.Expression
	if rd.ok {
		for _, e := range exprsOf(rd.tf) {
			if strings.TrimSpace(e.Value) != "" && int(e.Range.From.Index)+len(e.Value) <= len(cur) {
				es = append(es, e)
			}
		}
	}
	nLines := strings.Count(cur, "\n") + 1
	one := func(ch change, inverse *change, class string) {
		n.Changes, n.Class, newUndo = []change{ch}, class, inverse
	}
	k := r.Intn(100)
	if len(es) > 0 && k < 62 {
		// an edit placed relative to one expression; late expressions are drawn more often (an edit above them moves
		// fewer other expressions)
		var e parser.Expression
		if r.Intn(3) == 0 {
			e = es[len(es)-1-r.Intn(min(3, len(es)))]
		} else {
			e = rng.Pick(r, es)
		}
		at := int(e.Range.From.Index)
		l, c := lineCol(cur, at)
		switch {
		case k < 14:
			inv := del(l, 0, l+1, 0)
			one(ins(l, 0, "\n"), &inv, "move only: blank line above the expression's line")
		case k < 19:
			pl := len(lineText(cur, max(l-1, 0)))
			if l == 0 {
				pl = 0
			}
			one(ins(max(l-1, 0), pl, "\n"+strings.Repeat("\n", r.Intn(2))), nil, "move only: blank lines at the end of the line above the expression")
		case k < 27:
			if l > 0 && strings.TrimSpace(lineText(cur, l-1)) == "" {
				inv := ins(l-1, 0, lineText(cur, l-1)+"\n")
				one(del(l-1, 0, l, 0), &inv, "move only: delete the blank line above the expression's line")
			} else {
				one(ins(l, 0, "\n\n"), nil, "move only: blank line above the expression's line")
			}
		case k < 34:
			pad := rng.Pick(r, []string{"\t", " ", "  ", "\t\t"})
			inv := del(l, 0, l, len(pad))
			one(ins(l, 0, pad), &inv, "move only: indent the expression's line")
		case k < 38:
			lt := lineText(cur, l)
			if len(lt) > 0 && (lt[0] == '\t' || lt[0] == ' ') && c > 0 {
				inv := ins(l, 0, lt[:1])
				one(del(l, 0, l, 1), &inv, "move only: unindent the expression's line")
			} else {
				one(ins(l, 0, " "), nil, "move only: indent the expression's line")
			}
		case k < 44:
			inv := del(l, c, l, c+1)
			one(ins(l, c, " "), &inv, "blank directly before the expression")
		case k < 47:
			one(ins(l, c, "\n"), nil, "line break directly before the expression")
		case k < 52:
			lt := lineText(cur, l)
			pad := lt[:len(lt)-len(strings.TrimLeft(lt, "\t "))]
			markup := rng.Pick(r, []string{"<hr/>", "<p>text</p>", "text", "<!-- c -->", "{ \"s\" }"})
			inv := del(l, 0, l+1, 0)
			one(ins(l, 0, pad+markup+"\n"), &inv, "markup line above the expression's line")
		case k < 58:
			off := snap(e.Value, r.Intn(len(e.Value)+1))
			el, ec := lineCol(cur, at+off)
			one(ins(el, ec, rng.Pick(r, []string{"x", " ", "1", "é", "\n"})), nil, "type inside the expression")
		default:
			el, ec := lineCol(cur, at+len(e.Value))
			one(ins(el, ec, rng.Pick(r, []string{" ", "\n", "  "})), nil, "blank directly after the expression")
		}
		return
	}
	switch {
	case k < 70:
		l := r.Intn(nLines)
		inv := del(l, 0, l+1, 0)
		one(ins(l, 0, "\n"), &inv, "blank line above a random line")
	case k < 76:
		l := r.Intn(nLines)
		c := snap(lineText(cur, l), r.Intn(len(lineText(cur, l))+1))
		t := string("abz 01\t"[r.Intn(7)])
		inv := del(l, c, l, c+1)
		one(ins(l, c, t), &inv, "type one character at a random place")
	case k < 86:
		l := r.Intn(nLines)
		c := snap(lineText(cur, l), r.Intn(len(lineText(cur, l))+1))
		t := rng.Pick(r, breakers)
		inv := del(l, c, l, c+len(t))
		one(ins(l, c, t), &inv, "type a character that tends to break the file")
	case k < 90:
		l := r.Intn(nLines)
		lt := lineText(cur, l)
		if len(lt) == 0 {
			inv := ins(l, 0, "\n")
			if l+1 < nLines {
				one(del(l, 0, l+1, 0), &inv, "delete an empty line")
			} else {
				one(ins(l, 0, "\n"), nil, "blank line above a random line")
			}
		} else {
			c := snap(lt, r.Intn(len(lt)))
			_, w := utf8.DecodeRuneInString(lt[c:])
			inv := ins(l, c, lt[c:c+w])
			one(del(l, c, l, c+w), &inv, "delete one character")
		}
	default:
		// whole-document replacement (no range)
		var t, class string
		switch r.Intn(5) {
		case 0:
			t, class = cur, "whole document: the same text"
		case 1, 2:
			l := r.Intn(nLines)
			t, class = splice(cur, ins(l, 0, "\n")), "whole document: the same text with a blank line inserted"
		case 3:
			t, _ = slotDoc(r)
			class = "whole document: another file"
		default:
			t, class = cur+"\ntempl Broken( {\n", "whole document: text that does not parse"
		}
		inv := change{Text: cur}
		one(change{Text: t}, &inv, class)
	}
	return
}

// ---- stub gopls and client ----

type stubGopls struct {
	lsp.Server // nil: any other call panics, which ends the history
	files      map[string]string
}

func (g *stubGopls) DidOpen(ctx context.Context, p *lsp.DidOpenTextDocumentParams) error {
	g.files[string(p.TextDocument.URI)] = p.TextDocument.Text
	return nil
}
func (g *stubGopls) DidChange(ctx context.Context, p *lsp.DidChangeTextDocumentParams) error {
	for _, ch := range p.ContentChanges {
		if ch.Range == nil {
			g.files[string(p.TextDocument.URI)] = ch.Text
		} else {
			g.files[string(p.TextDocument.URI)] = "\x00ranged change forwarded to gopls"
		}
	}
	return nil
}
func (g *stubGopls) DidClose(ctx context.Context, p *lsp.DidCloseTextDocumentParams) error {
	delete(g.files, string(p.TextDocument.URI))
	return nil
}

type stubClient struct{ lsp.Client }

func (stubClient) PublishDiagnostics(ctx context.Context, p *lsp.PublishDiagnosticsParams) error {
	return nil
}

// ---- one session ----

// observed is what the server holds for one URI after a notification.
type observed struct {
	held, sm, goText          string
	hasHeld, hasSM, hasGoText bool
}

type session struct {
	srv   *proxy.Server
	gopls *stubGopls
	ctx   context.Context
}

func newSession() *session {
	g := &stubGopls{files: map[string]string{}}
	return &session{
		srv:   proxy.NewServer(quiet, g, proxy.NewSourceMapCache(), proxy.NewDiagnosticCache(), true),
		gopls: g,
		ctx:   lsp.WithClient(context.Background(), stubClient{}),
	}
}

// send delivers one notification; a panic inside the server is returned as text.
func (s *session) send(n note) (panicked string) {
	defer func() {
		if rec := recover(); rec != nil {
			panicked = fmt.Sprintf("%v", rec)
		}
	}()
	switch n.Op {
	case "didOpen":
		s.srv.DidOpen(s.ctx, &lsp.DidOpenTextDocumentParams{TextDocument: lsp.TextDocumentItem{URI: lsp.DocumentURI(n.URI), LanguageID: "templ", Version: 1, Text: n.Text}})
	case "didClose":
		p := &lsp.DidCloseTextDocumentParams{}
		p.TextDocument.URI = lsp.DocumentURI(n.URI)
		s.srv.DidClose(s.ctx, p)
	default:
		p := &lsp.DidChangeTextDocumentParams{}
		p.TextDocument.URI = lsp.DocumentURI(n.URI)
		for _, ch := range n.Changes {
			ev := lsp.TextDocumentContentChangeEvent{Text: ch.Text}
			if ch.Range != nil {
				ev.Range = &lsp.Range{Start: lsp.Position{Line: ch.Range[0], Character: ch.Range[1]}, End: lsp.Position{Line: ch.Range[2], Character: ch.Range[3]}}
			}
			p.ContentChanges = append(p.ContentChanges, ev)
		}
		s.srv.DidChange(s.ctx, p)
	}
	return ""
}

func (s *session) observe(uri string) (o observed) {
	if d, ok := s.srv.TemplSource.Get(uri); ok {
		o.held, o.hasHeld = d.String(), true
	}
	if m, ok := s.srv.SourceMapCache.Get(uri); ok && m != nil {
		o.sm, o.hasSM = astser.DumpSM(m), true
	}
	o.goText, o.hasGoText = s.gopls.files[goURIOf(uri)]
	return
}

// ---- judgement ----

// verdict of one (text, Go text, map) triple under the extracted predicate, memoised.
type triple struct{ src, code, sm string }

type pending struct {
	hist    []note // the history up to and including the notification judged
	step    int
	uri     string
	obs     observed
	against string // the templ text the map is judged against
	enc     string
	family  string
}

type judge struct {
	c        *core.Ctx
	verdicts map[triple]string // report; "" = faithful
	counted  map[triple]int
	queue    []pending
	ok       map[string]bool
	exprs    int
	nReported map[string]int
}

// shapeNoPackage: the text has no package clause the parser recognises (e.g. blanks before `package`), so the whole
// file is header lines and TemplateFile.Package is the empty expression with the zero range; the generator writes and
// Adds it, which replaces the entry of source 0:0 that belongs to the first header line.  Decidable: empty package
// expression, at least one header line, and the only unfaithful expression is the one at source index 0.
const shapeNoPackage = "no-package-clause-empty-package-expression-added-at-0:0"

func shapeOf(against, rep string) string {
	if strings.HasPrefix(rep, "range-not-ok") {
		return "expression-range-not-ok"
	}
	if rd := read(against); rd.ok && rd.tf.Package.Expression.Value == "" && len(rd.tf.Header) > 0 &&
		strings.HasPrefix(rep, "unfaithful@0:") && strings.Count(rep, "unfaithful@") == 1 && !strings.Contains(rep, "range-not-ok@") {
		return shapeNoPackage
	}
	return ""
}

// noPkgReported: the no-package defect of generator.Generate is reported once per run (by the direct family in
// c07.go when it shows there, else by the first proxy state of that shape).
var noPkgReported bool

// noPackageFiles checks generator.Generate directly on files whose package clause the parser does not recognise.
func noPackageFiles(c *core.Ctx, inputs []gentie.Input) {
	fam := "sourcemap: add_faithful holds of the real map for a file whose package clause is not recognised (blanks before `package`)"
	cases := []gentie.Input{{Name: "nopkg-min.templ", Src: " package main\n\nfunc f() {}\n"}, {Name: "nopkg-tab.templ", Src: "\tpackage main\n\ntempl T() {\n}\n"}}
	for i, in := range inputs {
		if i < 3 {
			cases = append(cases, gentie.Input{Name: "nopkg-" + in.Name, Src: " " + in.Src})
		}
	}
	var reqs []drv.Req
	var rds []*reading
	var used []gentie.Input
	for _, in := range cases {
		rd := read(in.Src)
		if !rd.ok {
			continue
		}
		c.Hist("generator: file without a recognised package clause")
		c.Count(in.Name)
		rds, used = append(rds, rd), append(used, in)
		reqs = append(reqs, drv.Req{Fn: "faithful", Args: [][]byte{[]byte(in.Src), []byte(rd.code), []byte(rd.sm), []byte(rd.enc)}})
	}
	res := c.Model(reqs)
	ok := true
	for i, f := range res {
		if len(f) != 3 || string(f[0]) != "ok" {
			ok = false
			continue
		}
		rep := string(f[2])
		if rep == "" {
			continue
		}
		shape := shapeOf(used[i].Src, rep)
		if shape == shapeNoPackage {
			if noPkgReported {
				continue
			}
			noPkgReported = true
		} else {
			ok = false
		}
		c.Fail("property", fam, shape, map[string]string{"file": used[i].Name, "source": used[i].Src, "generated": rds[i].code, "source_map": rds[i].sm, "report": rep},
			"the first byte of the file (source 0:0, the first header line) is mapped to the place where the empty package expression was written, which holds another byte")
	}
	c.Oblige("correspondence", fam+" - apart from the recorded shape "+shapeNoPackage, ok, "")
}

func (j *judge) add(p pending) { j.queue = append(j.queue, p) }

func (j *judge) flush() {
	var reqs []drv.Req
	var keys []triple
	seen := map[triple]bool{}
	for _, p := range j.queue {
		k := triple{p.against, p.obs.goText, p.obs.sm}
		if _, done := j.verdicts[k]; done || seen[k] {
			continue
		}
		seen[k] = true
		keys = append(keys, k)
		reqs = append(reqs, drv.Req{Fn: "faithful", Args: [][]byte{[]byte(p.against), []byte(p.obs.goText), []byte(p.obs.sm), []byte(p.enc)}})
	}
	res := j.c.Model(reqs)
	for i, k := range keys {
		f := res[i]
		if len(f) != 3 || string(f[0]) != "ok" {
			j.verdicts[k] = "\x00model did not answer"
			continue
		}
		var n int
		fmt.Sscan(string(f[1]), &n)
		j.counted[k] = n
		j.verdicts[k] = string(f[2])
	}
	for _, p := range j.queue {
		k := triple{p.against, p.obs.goText, p.obs.sm}
		rep := j.verdicts[k]
		j.exprs += j.counted[k]
		if rep == "" {
			continue
		}
		if shapeOf(p.against, rep) == shapeNoPackage {
			// a defect of generator.Generate itself (not of the proxy), reported under its own shape
			j.c.Hist("proxy: held text without a package clause (empty package expression Added at 0:0)")
			if !noPkgReported {
				noPkgReported = true
				j.report(p, rep)
			}
			continue
		}
		j.ok[p.family] = false
		if j.nReported[p.family] < 3 {
			j.nReported[p.family]++
			j.report(p, rep)
		}
	}
	j.queue = nil
}

func (j *judge) verdictOf(src, code, sm, enc string) string {
	k := triple{src, code, sm}
	if v, ok := j.verdicts[k]; ok {
		return v
	}
	res := j.c.Model([]drv.Req{{Fn: "faithful", Args: [][]byte{[]byte(src), []byte(code), []byte(sm), []byte(enc)}}})
	v := "\x00model did not answer"
	if len(res) == 1 && len(res[0]) == 3 && string(res[0][0]) == "ok" {
		v = string(res[0][2])
	}
	j.verdicts[k] = v
	return v
}

// report records a property failure; the replay is the shortest of: (didOpen of the text held before the failing
// notification, that notification) when this already shows the failure, else the whole history.
func (j *judge) report(p pending, rep string) {
	hist := p.hist[:p.step+1]
	last := hist[len(hist)-1]
	if len(hist) > 2 && last.Op == "didChange" {
		s := newSession()
		var before string
		bad := false
		for _, n := range hist[:len(hist)-1] {
			if s.send(n) != "" {
				bad = true
			}
		}
		if d, ok := s.srv.TemplSource.Get(p.uri); ok && !bad {
			before = d.String()
			short := []note{{Op: "didOpen", URI: p.uri, Text: before, Class: "open the text held before the failing notification"}, last}
			s2 := newSession()
			for _, n := range short {
				if s2.send(n) != "" {
					bad = true
				}
			}
			o := s2.observe(p.uri)
			if rd := read(o.held); !bad && o.hasHeld && rd.ok && o.hasSM && o.hasGoText {
				if v := j.verdictOf(o.held, o.goText, o.sm, rd.enc); v != "" && !strings.HasPrefix(v, "\x00") {
					hist, p.obs, p.against, rep = short, o, o.held, v
				}
			}
		}
	}
	shape := shapeOf(p.against, rep)
	j.c.Fail("property", p.family, shape, map[string]any{
		"uri": p.uri, "notifications": hist, "held_text": p.obs.held, "judged_against_text": p.against,
		"go_text_at_gopls": p.obs.goText, "held_source_map": p.obs.sm, "report": rep,
	}, "after these notifications the source map the proxy holds for the document sends an expression byte of the text it holds to a position of the Go text at gopls that holds another byte, leaves it unmapped, or does not map back")
}

// ---- the family ----

func proxySessions(c *core.Ctx) {
	nHist := c.N(90, 3000)
	j := &judge{c: c, verdicts: map[triple]string{}, counted: map[triple]int{}, ok: map[string]bool{famHeld: true, famStale: true}, nReported: map[string]int{}}
	modelOK := true
	type histRec struct {
		notes []note
		obs   []observed
		texts []string // per notification: the text handed to the model's event (opened text / held text after the change)
	}
	var recs []histRec
	notes, judged, stale, slotsSeen := 0, 0, 0, map[string]bool{}
	for i := 0; i < nHist; i++ {
		r := c.Rng.Fork()
		s := newSession()
		var h histRec
		uris := sessionURIs[:1]
		if r.Intn(5) == 0 {
			uris = sessionURIs
		}
		lastGood := map[string]*reading{}
		lastGoodText := map[string]string{}
		undo := map[string]*change{}
		baseDoc := func() string {
			switch r.Intn(10) {
			case 0, 1, 2:
				c.Hist("proxy document: grammar-generated file")
				return grammarDoc(r)
			case 3:
				c.Hist("proxy document: repository template")
				in := rng.Pick(r, repoDocs)
				return in.Src
			default:
				c.Hist("proxy document: slot file")
				t, used := slotDoc(r)
				for _, u := range used {
					slotsSeen[u] = true
					c.Hist("proxy slot: " + u)
				}
				return t
			}
		}
		deliver := func(n note) bool {
			prevGood, prevGoodText := lastGood[n.URI], lastGoodText[n.URI]
			before := s.observe(n.URI)
			if p := s.send(n); p != "" {
				c.Hist("proxy: server panicked on a notification (document edits are C17's subject); history ends")
				return false
			}
			notes++
			o := s.observe(n.URI)
			h.notes, h.obs = append(h.notes, n), append(h.obs, o)
			switch n.Op {
			case "didOpen":
				h.texts = append(h.texts, n.Text)
			default:
				h.texts = append(h.texts, o.held)
			}
			c.Hist("proxy notification: " + n.Class)
			if n.Op == "didClose" {
				delete(lastGood, n.URI)
				delete(lastGoodText, n.URI)
				c.Count("")
				return true
			}
			if !o.hasHeld {
				c.Count("")
				return true
			}
			if !utf8.ValidString(o.held) {
				c.Hist("proxy: held text is not valid UTF-8 (outside the property's domain); history ends")
				return false
			}
			rd := read(o.held)
			hist := append([]note(nil), h.notes...)
			if rd.ok {
				// classification by the harness's own generation of the held text
				switch {
				case prevGood == nil:
					c.Hist("proxy step: first accepted version")
				case prevGood.code != rd.code:
					c.Hist("proxy step: accepted, Go text changed")
				case prevGood.sm != rd.sm:
					c.Hist("proxy step: accepted, Go text unchanged but expressions moved (source map differs)")
				case prevGoodText != o.held:
					c.Hist("proxy step: accepted, Go text and source map unchanged, text changed")
				default:
					c.Hist("proxy step: accepted, text unchanged")
				}
				lastGood[n.URI], lastGoodText[n.URI] = rd, o.held
				judged++
				c.Count(fmt.Sprintf("p%d.%d", i, len(h.notes)))
				if !o.hasSM || !o.hasGoText {
					j.ok[famHeld] = false
					if c.NFails(famHeld) < 3 {
						c.Fail("property", famHeld, "proxy-no-map-or-go-text", map[string]any{"uri": n.URI, "notifications": hist, "held_text": o.held, "has_map": o.hasSM, "gopls_has_go_text": o.hasGoText},
							"the held text generates but the proxy holds no source map for it / gopls was given no Go text")
					}
					return true
				}
				j.add(pending{hist: hist, step: len(hist) - 1, uri: n.URI, obs: o, against: o.held, enc: rd.enc, family: famHeld})
				return true
			}
			if strings.HasPrefix(rd.why, "unsupported") {
				c.Hist("proxy: held text has a node kind the model does not know; history ends")
				return false
			}
			c.Hist("proxy step: held text does not generate (" + rd.why + ")")
			c.Count("")
			if o.hasSM && prevGood != nil {
				stale++
				if !o.hasGoText {
					o.goText = ""
				}
				j.add(pending{hist: hist, step: len(hist) - 1, uri: n.URI, obs: o, against: prevGoodText, enc: prevGood.enc, family: famStale})
			} else if o.hasSM && before.hasSM && o.sm != before.sm {
				// no accepted version known to the harness, yet the map changed
				j.ok[famStale] = false
				c.Fail("property", famStale, "proxy-map-changed-without-accepted-text", map[string]any{"uri": n.URI, "notifications": hist, "held_text": o.held}, "the held map changed on a text that does not generate")
			}
			return true
		}
		// open every document of the session
		alive := true
		for _, u := range uris {
			if alive {
				alive = deliver(note{Op: "didOpen", URI: u, Text: baseDoc(), Class: "didOpen"})
			}
		}
		steps := 3 + r.Intn(10)
		for k := 0; k < steps && alive; k++ {
			u := rng.Pick(r, uris)
			o := s.observe(u)
			switch x := r.Intn(40); {
			case !o.hasHeld:
				alive = deliver(note{Op: "didOpen", URI: u, Text: baseDoc(), Class: "didOpen after didClose"})
				undo[u] = nil
			case x == 0:
				alive = deliver(note{Op: "didClose", URI: u, Class: "didClose"})
				undo[u] = nil
			case x == 1:
				alive = deliver(note{Op: "didChange", URI: sessionURIs[1], Changes: []change{ins(0, 0, "\n")}, Class: "didChange of a document that may not be open"})
			case x == 2:
				t := o.held
				if r.Bool() {
					t = splice(t, ins(r.Intn(strings.Count(t, "\n")+1), 0, "\n"))
				}
				alive = deliver(note{Op: "didOpen", URI: u, Text: t, Class: "didOpen again (same or moved text) without didClose"})
				undo[u] = nil
			case x < 8:
				// two changes in one notification
				n1, _ := nextNote(r, u, o.held, undo[u])
				mid := o.held
				for _, ch := range n1.Changes {
					mid = splice(mid, ch)
				}
				n2, _ := nextNote(r, u, mid, nil)
				n1.Changes = append(n1.Changes, n2.Changes...)
				n1.Class = "two changes in one notification"
				undo[u] = nil
				alive = deliver(n1)
			default:
				n, inv := nextNote(r, u, o.held, undo[u])
				undo[u] = inv
				alive = deliver(n)
			}
		}
		if i == 0 && len(h.notes) > 1 {
			c.Sample(map[string]any{"proxy_history_first_notifications": h.notes[:min(3, len(h.notes))]})
		}
		recs = append(recs, h)
		if len(recs) == 30 || i == nHist-1 {
			j.flush()
			// the transition-system model on the same histories
			var reqs []drv.Req
			for _, h := range recs {
				var args [][]byte
				for k, n := range h.notes {
					enc := ""
					if rd := read(h.texts[k]); rd.ok {
						enc = rd.enc
					}
					args = append(args, []byte(n.Op), []byte(n.URI), []byte(h.texts[k]), []byte(enc))
				}
				reqs = append(reqs, drv.Req{Fn: "proxy", Args: args})
			}
			res := c.Model(reqs)
			for hi, h := range recs {
				rep := res[hi]
				if len(rep) != 3*len(h.notes) {
					modelOK = false
					if c.NFails(famModel) < 3 {
						c.Fail("tie", famModel, "", map[string]any{"notifications": h.notes}, fmt.Sprintf("model replied %d fields for %d notifications", len(rep), len(h.notes)))
					}
					continue
				}
				for k := range h.notes {
					o := h.obs[k]
					want := [3]string{opt(o.hasHeld, o.held), opt(o.hasSM, o.sm), opt(o.hasGoText, o.goText)}
					got := [3]string{string(rep[3*k]), string(rep[3*k+1]), string(rep[3*k+2])}
					if want != got {
						modelOK = false
						if c.NFails(famModel) < 3 {
							what := "held text"
							if want[0] == got[0] {
								what = "cached source map"
								if want[1] == got[1] {
									what = "Go text at gopls"
								}
							}
							c.Fail("tie", famModel, "", map[string]any{"notifications": h.notes[:k+1], "differs": what, "model": got, "server": want}, "after the last notification the server's "+what+" differs from the model's")
						}
						break
					}
				}
			}
			recs = nil
		}
	}
	c.Extra["proxy_histories"] = nHist
	c.Extra["proxy_notifications"] = notes
	c.Extra["proxy_states_judged_against_held_text"] = judged
	c.Extra["proxy_states_judged_against_last_accepted_text"] = stale
	c.Extra["proxy_expressions_checked"] = j.exprs
	c.Extra["proxy_slots_seen"] = len(slotsSeen)
	c.Oblige("correspondence", famHeld, j.ok[famHeld], "")
	c.Oblige("correspondence", famStale, j.ok[famStale], "")
	c.Oblige("correspondence", famModel, modelOK, "")
}

func opt(has bool, s string) string {
	if !has {
		return "-"
	}
	return "+" + s
}

var repoDocs []gentie.Input
