// Package gentie ties the Gallina generator model (coq/model/Gen.v, SourceMap.v) to generator.Generate:
// emitted Go text, literals and both source-map tables must be identical on every input file.
package gentie

import (
	"bytes"
	"fmt"
	"os"
	"path/filepath"
	"strings"

	"github.com/a-h/templ/generator"
	parser "github.com/a-h/templ/parser/v2"

	"verifharness/internal/astser"
	"verifharness/internal/core"
	"verifharness/internal/drv"
	"verifharness/internal/rng"
	"verifharness/internal/tgen"
)

type Input struct {
	Name string
	Src  string
}

type Gen struct {
	In    Input
	TF    parser.TemplateFile
	Enc   string
	Code  string
	SM    string
	Lits  string
	Out   generator.GeneratorOutput
	Skip  string // non-empty: why this input is not usable (parse error, generator error, unknown node)
}

// RepoTemplates returns every .templ file of the repository.
func RepoTemplates() []Input {
	var res []Input
	filepath.Walk(core.Repo(), func(p string, info os.FileInfo, err error) error {
		if err != nil {
			return nil
		}
		if info.IsDir() && (info.Name() == ".git" || info.Name() == "node_modules") {
			return filepath.SkipDir
		}
		if !info.IsDir() && strings.HasSuffix(p, ".templ") {
			b, err := os.ReadFile(p)
			if err == nil {
				rel, _ := filepath.Rel(core.Repo(), p)
				res = append(res, Input{Name: rel, Src: string(b)})
			}
		}
		return nil
	})
	return res
}

// Random returns n grammar-generated files.
func Random(r *rng.R, n int, o tgen.Opts) []Input {
	var res []Input
	for i := 0; i < n; i++ {
		oo := o
		oo.Templates = 1 + r.Intn(3)
		oo.Depth = 2 + r.Intn(3)
		src := tgen.File(r.Fork(), oo)
		name := fmt.Sprintf("gen%04d.templ", i)
		if o.Layout && i%7 == 3 {
			// a file saved with CRLF line endings
			src = strings.ReplaceAll(src, "\n", "\r\n")
			name = fmt.Sprintf("gen%04d-crlf.templ", i)
		}
		res = append(res, Input{Name: name, Src: src})
	}
	return res
}

// Run parses and generates one input with the real code.
func Run(in Input) (g Gen) {
	g.In = in
	defer func() {
		if r := recover(); r != nil {
			g.Skip = fmt.Sprintf("panic: %v", r)
		}
	}()
	tf, err := parser.ParseString(in.Src)
	if err != nil {
		g.Skip = "parse: " + err.Error()
		return
	}
	g.TF = tf
	var b bytes.Buffer
	out, err := generator.Generate(tf, &b, generator.WithFileName("dir/x.templ"))
	if err != nil {
		g.Skip = "generate: " + err.Error()
		return
	}
	enc, ok, why := astser.File(tf)
	if !ok {
		g.Skip = "unsupported: " + why
		return
	}
	g.Enc, g.Code, g.Out = enc, b.String(), out
	g.SM = astser.DumpSM(out.SourceMap)
	g.Lits = strings.Join(out.Literals, "\n")
	return
}

// Tie runs the model on every usable input and compares code, literals and source map; it also evaluates the
// extracted add_faithful predicate on the implementation's own source map. Returns the usable inputs.
func Tie(c *core.Ctx, inputs []Input, wantFaithful bool) []Gen {
	var gens []Gen
	var reqs []drv.Req
	for _, in := range inputs {
		g := Run(in)
		if g.Skip != "" {
			c.Hist("input skipped: " + strings.SplitN(g.Skip, ":", 2)[0])
			continue
		}
		gens = append(gens, g)
		reqs = append(reqs, drv.Req{Fn: "gen", Args: [][]byte{[]byte("dir/x.templ"), []byte(g.Enc)}})
		if wantFaithful {
			reqs = append(reqs, drv.Req{Fn: "faithful", Args: [][]byte{[]byte(g.In.Src), []byte(g.Code), []byte(g.SM), []byte(g.Enc)}})
		}
	}
	res := c.Model(reqs)
	codeOK, smOK, litOK, faithOK := true, true, true, true
	step := 1
	if wantFaithful {
		step = 2
	}
	for i, g := range gens {
		r := res[i*step]
		key := g.In.Name
		c.Count(key)
		if len(r) != 4 || string(r[0]) != "ok" {
			codeOK = false
			c.Fail("tie", "generator: model runs on the parsed AST", "", map[string]string{"file": g.In.Name, "source": g.In.Src}, fmt.Sprintf("model reply %q", first(r)))
			continue
		}
		if string(r[1]) != g.Code {
			codeOK = false
			if c.NFails("generator: model text = generator.Generate") < 3 {
				c.Fail("tie", "generator: model text = generator.Generate", "", map[string]string{"file": g.In.Name, "source": g.In.Src, "first_difference": firstDiff(string(r[1]), g.Code)}, "generated Go text differs")
			}
		}
		if string(r[2]) != g.SM {
			smOK = false
			if c.NFails("sourcemap: model tables = GeneratorOutput.SourceMap") < 3 {
				c.Fail("tie", "sourcemap: model tables = GeneratorOutput.SourceMap", "", map[string]string{"file": g.In.Name, "source": g.In.Src, "first_difference": firstDiff(string(r[2]), g.SM)}, "source map entries differ")
			}
		}
		if string(r[3]) != g.Lits {
			litOK = false
			if c.NFails("literals: model = GeneratorOutput.Literals") < 3 {
				c.Fail("tie", "literals: model = GeneratorOutput.Literals", "", map[string]string{"file": g.In.Name, "source": g.In.Src, "first_difference": firstDiff(string(r[3]), g.Lits)}, "literal list differs")
			}
		}
		if wantFaithful {
			f := res[i*step+1]
			if len(f) != 3 || string(f[0]) != "ok" {
				faithOK = false
				continue
			}
			var n int
			fmt.Sscan(string(f[1]), &n)
			c.Extra["expressions_checked"] = asInt(c.Extra["expressions_checked"]) + n
			if len(f[2]) != 0 {
				faithOK = false
				if c.NFails("sourcemap: add_faithful holds of the real map") < 5 {
					c.Fail("property", "sourcemap: add_faithful holds of the real map", shapeOf(string(f[2])), map[string]string{"file": g.In.Name, "source": g.In.Src, "report": string(f[2])},
						"an expression byte is not mapped to the same byte of the generated file (or does not map back)")
				}
			}
		}
	}
	c.Oblige("correspondence", "generator model text = generator.Generate on every input", codeOK, "")
	c.Oblige("correspondence", "generator model literals = GeneratorOutput.Literals on every input", litOK, "")
	c.Oblige("correspondence", "source map model = GeneratorOutput.SourceMap, entry for entry, on every input", smOK, "")
	if wantFaithful {
		c.Oblige("correspondence", "extracted add_faithful predicate holds of the real source map for every expression of every input", faithOK, "")
	}
	return gens
}

func asInt(v any) int {
	if n, ok := v.(int); ok {
		return n
	}
	return 0
}

func shapeOf(report string) string {
	if strings.HasPrefix(report, "range-not-ok") {
		return "expression-range-not-ok"
	}
	return ""
}

func first(r [][]byte) string {
	if len(r) == 0 {
		return ""
	}
	return string(r[0])
}

func firstDiff(a, b string) string {
	la, lb := strings.Split(a, "\n"), strings.Split(b, "\n")
	for i := 0; i < len(la) && i < len(lb); i++ {
		if la[i] != lb[i] {
			return fmt.Sprintf("line %d: model %q / impl %q", i+1, la[i], lb[i])
		}
	}
	return fmt.Sprintf("line counts: model %d / impl %d", len(la), len(lb))
}
